"""Built-in specification objects <-> the text form the Lean driver understands (`BSPEC`),
and structured random generators of initialised specifications per class."""
import random
import struct

import vlib
from gen import hard, problems


def fbits(x):
    return str(struct.unpack("<Q", struct.pack("<d", float(x)))[0])


def bits_to_float(s):
    return struct.unpack("<d", struct.pack("<Q", int(s)))[0]


def stok(s):
    return s if s else "."


def loctok(l):
    return "%d:%d:%d" % (l.start, l.end, l.strand)


_TABLE_INDEX = {}


def table_index(name):
    if not _TABLE_INDEX:
        from dnachisel.biotools import biotables
        names = list(biotables.CODON_TABLE_NAMES)
        ans = vlib.run_driver(["tables.index | %s" % n.replace(" ", "_") for n in names])
        for n, a in zip(names, ans):
            _TABLE_INDEX[n] = int(a)
    return _TABLE_INDEX[name]


def pattok(p):
    import dnachisel as dc
    from dnachisel.SequencePattern import RepeatedKmerPattern
    if isinstance(p, RepeatedKmerPattern):
        return "rep:%d:%d" % (p.n_repeats, p.kmer_size)
    return "dna:" + p.sequence


def kv(d, keyfmt=str):
    return "-" if not d else ",".join("%s=%s" % (k, fbits(v)) for k, v in d.items())


def scope_tok(obj):
    l = obj.location
    if obj.indices is None:
        return "L:" + loctok(l)
    idx = [int(i) for i in obj.indices]
    return "I:%s:%s" % (loctok(l), ",".join(map(str, idx)) if idx else "-")


def optf(x):
    return "-" if x is None else fbits(x)


def text(obj):
    """BSPEC text of an initialised built-in specification object, or None if the class is not modelled."""
    n = type(obj).__name__
    if n == "AvoidPattern":
        if obj.pattern.size is None or type(obj.pattern).__name__ == "SequencePattern":
            return None     # plain regular expressions are not modelled (the solver layer replays their recorded tables)
        return "AvoidPattern %s %s" % (pattok(obj.pattern), loctok(obj.location))
    if n == "EnforcePatternOccurence":
        return "Occ %s %d %s" % (pattok(obj.pattern), obj.occurences, loctok(obj.location))
    if n == "EnforceGCContent":
        return "GC %s %s %s %s" % (fbits(obj.mini), fbits(obj.maxi), "-" if obj.window is None else obj.window, loctok(obj.location))
    if n == "EnforceTranslation":
        sc = obj.start_codon
        st = "-" if sc is None else ("keep" if sc == "keep" else (sc if isinstance(sc, str) else ",".join(sc)))
        return "CDS %d %s %s %s" % (table_index(obj.genetic_table), st, stok(obj.translation), loctok(obj.location))
    if n == "AvoidStopCodons":
        return "Stop %d %s" % (table_index(obj.genetic_table), loctok(obj.location))
    if n == "AvoidChanges":
        return "Keep %s %s %s" % (fbits(obj.max_edits), stok(obj.target_sequence), scope_tok(obj))
    if n == "EnforceChanges":
        return "Change %s %s %s %s %s %s" % (optf(obj.minimum), optf(obj.amount), str(obj.amount_percent == 100).lower(),
                                             str(obj.minimum_percent == 100).lower(), stok(obj.reference), scope_tok(obj))
    if n == "EnforceSequence":
        return "Seq %s %s" % (stok(obj.sequence), loctok(obj.location))
    if n == "EnforceChoice":
        return "Choice %s %s" % (",".join(obj.choices) if obj.choices else "-", loctok(obj.location))
    if n == "EnforceTerminalGCContent":
        ends = obj.ends_locations
        return "Term %s %s %d %s" % (fbits(obj.mini), fbits(obj.maxi), obj.window_size,
                                     ",".join(loctok(e) for e in ends) if ends else "-")
    if n == "SequenceLengthBounds":
        return "Len %d %s" % (obj.min_length, "-" if obj.max_length is None else obj.max_length)
    if n == "AvoidRareCodons":
        return "Rare %s %s %s" % (fbits(obj.min_frequency), kv(obj.codons_frequencies), loctok(obj.location))
    if n == "MaximizeCAI":
        t = obj.codon_usage_table
        ca = ",".join("%s=%s" % (c, a) for c, a in obj.codons_translations.items())
        return "CAI %s %s %s %s" % (kv(t["log_codons_frequencies"]), kv(t["log_best_frequencies"]), ca, loctok(obj.location))
    if n == "UniquifyAllKmers":
        d = obj.localization_data
        if d is None:
            data = "-"
        else:
            def ints(x):
                return ",".join(str(int(i)) for i in sorted(x)) if x else "_"

            def sqs(x):
                return ",".join(stok(v) for v in sorted(x)) if x else "_"
            data = "%s;%s;%s;%s" % (sqs(d["location"]["fixed_kmers"]), ints(d["location"]["changing_indices"]),
                                    sqs(d["extended"]["fixed_kmers"]), ints(d["extended"]["changing_indices"]))
        return "Kmers %d %s %s %s %s" % (obj.k, str(bool(obj.include_reverse_complement)).lower(), loctok(obj.location),
                                         loctok(obj.reference), data)
    if n == "HarmonizeRCA":
        if not hasattr(obj, "original_codons"):
            return None
        sm = [fbits(x) for x in obj.smallest_possible_discrepancies]
        return "RCA %s %s %s %s %s" % (kv(obj.codon_usage_table["RCA"]), kv(obj.original_codon_usage_table["RCA"]),
                                       ",".join(obj.original_codons) or "-", ",".join(sm) or "-", loctok(obj.location))
    if n == "AvoidHairpins":
        return "Hairpins %d %d %s" % (obj.stem_size, obj.hairpin_window, loctok(obj.location))
    return None


def locs_text(locs):
    if locs is None:
        return "None"
    if len(locs) == 0:
        return "e"
    return ",".join(loctok(l) for l in locs)


INTEGER_SCORED = {"AvoidPattern", "EnforcePatternOccurence", "EnforceTranslation", "AvoidStopCodons", "EnforceSequence",
                  "EnforceChoice", "SequenceLengthBounds"}


def eval_text(obj, problem):
    """-> ('raises' | (score float, locs text))"""
    try:
        ev = obj.evaluate(problem)
    except Exception:
        return "raises"
    return (float(ev.score), locs_text(ev.locations))


def compare_eval(model, impl):
    """model answer string vs impl tuple; scores within 1e-9 relative, locations exactly"""
    if impl == "raises" or model == "raises":
        return model == impl
    try:
        sc, locs = model.split(" ; ")
        m = bits_to_float(sc)
    except Exception:
        return False
    a, l2 = impl
    return locs == l2 and abs(m - a) <= 1e-9 * max(1.0, abs(a))


def compare_eval_unordered(model, impl):
    """as compare_eval, the locations compared as a multiset (set/dict iteration order in the code)"""
    if impl == "raises" or model == "raises":
        return model == impl
    try:
        sc, locs = model.split(" ; ")
        m = bits_to_float(sc)
    except Exception:
        return False
    a, l2 = impl
    return sorted(locs.split(",")) == sorted(l2.split(",")) and abs(m - a) <= 1e-9 * max(1.0, abs(a))


# ------------------------------------------------------------------------------------------
# generators: description dicts for every modelled class (re-using gen.problems / gen.hard builders)

def rand_spec_desc(rng, seq, kinds=None):
    n = len(seq)
    kinds = kinds or ["pattern", "insert", "gcwin", "gcglobal", "cds", "stop", "keep", "keep_idx", "keep_edits", "change",
                      "change_idx", "change_obj", "change_min", "sequence", "choice", "terminal", "length", "rare", "cai",
                      "kmers", "hairpin"]
    k = rng.choice(kinds)
    if k in ("keep", "keep_idx", "cds", "rare", "sequence", "choice", "change", "change_idx"):
        return hard.rand_hard_constraint(rng, seq, [k if k != "change_idx" else "change"])
    if k == "gcglobal":
        loc = None if rng.random() < 0.5 else problems.rand_loc(rng, n, 2, strands=(1, 0, -1))
        return dict(kind="gcglobal", mini=rng.choice([0.0, 0.25, 0.4]), maxi=rng.choice([0.5, 0.6, 0.75, 1.0]), location=loc)
    if k == "change_min":
        d = dict(kind="change_min", minimum=rng.randint(1, 4), location=None if rng.random() < 0.5 else problems.rand_loc(rng, n, 2, strands=(1, 0)))
        if rng.random() < 0.4:
            # the documented percentage form; often with p * L an exact multiple of 100 (the bound is an integer)
            L = n if d["location"] is None else d["location"][1] - d["location"][0]
            ps = [p_ for p_ in range(1, 100) if (p_ * L) % 100 == 0]
            d["minimum_percent"] = rng.choice(ps) if (ps and rng.random() < 0.7) else rng.randint(1, 99)
            del d["minimum"]
        return d
    if k in ("change_obj",):
        if rng.random() < 0.3:
            idx = sorted(rng.sample(range(n), rng.randint(1, min(n, 6))))
            if rng.random() < 0.4:
                rng.shuffle(idx)
            return dict(kind="change_obj", location=None, indices=idx, amount_percent=rng.choice([None, None, 50]), boost=1)
        return dict(kind="change_obj", location=None if rng.random() < 0.5 else problems.rand_loc(rng, n, 2, strands=(1, 0)),
                    amount_percent=rng.choice([None, None, 50]), boost=1)
    if k == "cai":
        if n < 3:
            return dict(kind="length", min_length=0, max_length=None)
        return dict(kind="cai", location=problems.rand_loc(rng, n, codon=True), table_seed=rng.randint(0, 10 ** 6), boost=1)
    if k == "rca":
        if n < 3:
            return dict(kind="length", min_length=0, max_length=None)
        return dict(kind="rca", location=problems.rand_loc(rng, n, codon=True), table_seed=rng.randint(0, 10 ** 6),
                    orig_table_seed=rng.randint(0, 10 ** 6), boost=1)
    d = problems.rand_soft(rng, seq, allow=[k])
    return d


def build(desc):
    import dnachisel as dc
    k = desc["kind"]
    loc = tuple(desc["location"]) if desc.get("location") else None
    if k == "gcglobal":
        return dc.EnforceGCContent(mini=desc["mini"], maxi=desc["maxi"], location=loc)
    if k == "change_min":
        if desc.get("minimum_percent") is not None:
            return dc.EnforceChanges(minimum_percent=desc["minimum_percent"], location=loc)
        return dc.EnforceChanges(minimum=desc["minimum"], location=loc)
    if k == "gc_obj":
        return dc.EnforceGCContent(target=desc["target"], window=desc["window"], boost=desc.get("boost", 1), location=loc)
    return problems.build_spec(desc)


ROLE = {"change_obj": "objective", "cai": "objective", "rca": "objective", "keep_obj": "objective", "gc_obj": "objective"}


def init_spec(desc, seq, used_before=None):
    """-> (initialised spec, stub problem) ; raises what the code raises.  `used_before`: a sequence on which the
    user's specification object was initialised earlier (as part of another problem)"""
    stub = hard.Stub(seq)
    obj = build(desc)
    if used_before:
        try:
            obj.initialized_on_problem(hard.Stub(used_before), role=ROLE.get(desc["kind"], "constraint"))
        except Exception:
            pass
    spec = obj.initialized_on_problem(stub, role=ROLE.get(desc["kind"], "constraint"))
    stub.constraints = [spec]
    return spec, stub
