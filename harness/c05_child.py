"""Child process of the C05 check: solves a given list of problems, in a given order, in *this* interpreter
(started with its own PYTHONHASHSEED) and prints one outcome per problem as JSON.

stdin: {"batch": {...}, "order": [problem indices]}   stdout: {"outcomes": {index: outcome}, "hashseed": ...}
Specification objects listed under "shared" are built once and reused by every problem that refers to them, and
codon-usage tables with the same seed are one dict object: process-global state that must not influence results."""
import json
import os
import signal
import sys

HERE = os.path.dirname(os.path.abspath(__file__))
sys.path[:0] = [HERE]
import vlib  # noqa

vlib.import_dnachisel()
import numpy as np  # noqa
import dnachisel as dc  # noqa
from gen import hard, problems  # noqa


class _Timeout(BaseException):
    pass


def _alarm(*a):
    raise _Timeout()


_tables = {}
_orig_user_table = hard.user_table


def shared_user_table(rng, zero_prob=0.1):
    key = rng.getstate()
    if key not in _tables:
        _tables[key] = _orig_user_table(rng, zero_prob)
    return _tables[key]


_locs = {}


def shared_loc(t):
    if t not in _locs:
        _locs[t] = dc.Location(*t)
    return _locs[t]


def main():
    job = json.load(sys.stdin)
    batch = job["batch"]
    if batch.get("share_locations"):
        hard.mkloc = shared_loc
    if batch.get("share_tables", True):
        hard.user_table = shared_user_table
        problems.hard.user_table = shared_user_table
    shared = [problems.build_spec(d) for d in batch["shared"]]
    out = {}
    signal.signal(signal.SIGALRM, _alarm)
    for i in job["order"]:
        pb = batch["problems"][i]
        np.random.seed(pb["np_seed"])
        signal.alarm(job.get("timeout", 8))
        try:
            cons = [shared[j] for j in pb["shared_constraints"]] + [problems.build_spec(d) for d in pb["constraints"]]
            objs = [shared[j] for j in pb["shared_objectives"]] + [problems.build_spec(d) for d in pb["objectives"]]
            p = dc.DnaOptimizationProblem(pb["sequence"], constraints=cons, objectives=objs, logger=None)
            problems.apply_settings(p, pb.get("settings", {}))
            for op in pb["ops"]:
                if op == "resolve":
                    p.resolve_constraints()
                elif op == "optimize":
                    p.optimize()
            out[str(i)] = "seq:" + p.sequence
        except _Timeout:
            out[str(i)] = "timeout"
        except Exception as e:  # the class of the failure is part of the outcome
            out[str(i)] = "raises:" + type(e).__name__
        finally:
            signal.alarm(0)
    json.dump(dict(outcomes=out, hashseed=os.environ.get("PYTHONHASHSEED")), sys.stdout)


if __name__ == "__main__":
    main()
