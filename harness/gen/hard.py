"""Structured generator of sequences + nucleotide-restricting ("hard") constraints,
shared by C04 / C15 / solver-level checks.  Every choice derives from the rng passed in."""

COMP = {"A": "T", "T": "A", "G": "C", "C": "G"}
IUPAC = "ATGCNWSRYKMBDHV"
TABLES = ["Standard", "Bacterial", "Vertebrate Mitochondrial", "Yeast Mitochondrial"]


def rc(s):
    return "".join(COMP[c] for c in reversed(s))


def rand_seq(rng, n):
    return "".join(rng.choice("ATGC") for _ in range(n))


def user_table(rng, zero_prob=0.1):
    """An arbitrary codon usage table over the standard genetic code (frequencies per amino acid sum to ~1)."""
    from Bio.Data import CodonTable
    t = CodonTable.unambiguous_dna_by_name["Standard"]
    back = {}
    for c, aa in t.forward_table.items():
        back.setdefault(aa, []).append(c)
    back["*"] = list(t.stop_codons)
    tab = {}
    for aa, cs in sorted(back.items()):
        ws = [0 if rng.random() < zero_prob else rng.randint(1, 8) for _ in cs]
        if sum(ws) == 0:
            ws[0] = 1
        tot = sum(ws)
        tab[aa] = {c: w / tot for c, w in zip(sorted(cs), ws)}
    if rng.random() < 0.2:
        # count-derived tables: the best and the second-best synonym nearly tie (relative difference ~1e-7)
        for aa, fr in tab.items():
            if len(fr) >= 2:
                best = max(sorted(fr), key=lambda c: fr[c])
                second = rng.choice(sorted(c for c in fr if c != best))
                fr[second] = fr[best] * (1 - 2e-7)
    return tab


def rand_hard_constraint(rng, seq, kinds=None):
    """Returns (description dict, constructor thunk).  The description is JSON-able and
    sufficient to rebuild the constraint (used in replays)."""
    n = len(seq)
    kinds = kinds or ["keep", "keep_idx", "cds", "sequence", "choice", "change", "rare"]
    k = rng.choice(kinds)
    if k == "keep":
        a = rng.randint(0, n - 1)
        b = rng.randint(a + 1, n)
        d = dict(kind="keep", location=[a, b, rng.choice([-1, 0, 1])])
        if rng.random() < 0.15:
            # a percentage that rounds down to 0 allowed edits: still a hard (enforced) restriction
            pcts = [p for p in (1, 2, 5) if p * (b - a) < 100]
            if pcts:
                d["max_edits_percent"] = rng.choice(pcts)
        return d
    if k == "keep_idx":
        idx = sorted(rng.sample(range(n), rng.randint(1, min(5, n))))
        d = dict(kind="keep_idx", indices=idx)
        if rng.random() < 0.25:
            # indices given together with a (wider) location
            d["location"] = [max(0, idx[0] - rng.randint(0, 3)), min(n, idx[-1] + 1 + rng.randint(0, 3)), 1]
        if rng.random() < 0.4:
            # the user's list need not be sorted
            idx = idx[:]
            rng.shuffle(idx)
            d["indices"] = idx
        return d
    if k in ("cds", "rare"):
        if n < 3:
            return dict(kind="keep", location=[0, n, 1])
        m = rng.randint(1, n // 3)
        a = rng.randint(0, n - 3 * m)
        strand = rng.choice([1, 1, -1])
        if k == "rare":
            d = dict(kind="rare", location=[a, a + 3 * m, strand], min_frequency=rng.choice([0.1, 0.2, 0.3, 0.5]),
                     table_seed=rng.randint(0, 10 ** 6))
            if rng.random() < 0.5:
                # a threshold exactly ON the frequency of a codon present in the region (">= min_frequency" is allowed)
                import random as _random
                table = user_table(_random.Random(d["table_seed"]))
                sub = seq[a:a + 3 * m] if strand != -1 else rc(seq[a:a + 3 * m])
                j = 3 * rng.randint(0, m - 1)
                fr = [f[sub[j:j + 3]] for f in table.values() if sub[j:j + 3] in f]
                if fr and fr[0] > 0:
                    d["min_frequency"] = fr[0]
            return d
        sc = rng.choice([None, None, "keep", "ATG", ["ATG", "GTG"], "TTG"])
        return dict(kind="cds", location=[a, a + 3 * m, strand], table=rng.choice(TABLES), start_codon=sc,
                    translation=None if rng.random() < 0.8 else "".join(rng.choice("ACDEFGHIKLMNPQRSTVWY") for _ in range(m)))
    if k == "sequence":
        a = rng.randint(0, n - 1)
        b = rng.randint(a + 1, min(n, a + 5))
        alpha = "ATGC" if rng.random() < 0.3 else IUPAC
        return dict(kind="sequence", location=[a, b, rng.choice([-1, 0, 1])],
                    sequence="".join(rng.choice(alpha) for _ in range(b - a)))
    if k == "choice":
        a = rng.randint(0, n - 1)
        b = rng.randint(a + 1, min(n, a + 4))
        alpha = "ATGC" if rng.random() < 0.6 else "ATGCNWS"
        ch = ["".join(rng.choice(alpha) for _ in range(b - a)) for _ in range(rng.randint(1, 3))]
        if rng.random() < 0.5:
            sub = seq[a:b]
            ch.append(sub)
        return dict(kind="choice", location=[a, b, rng.choice([-1, 1, 0])], choices=ch)
    if k == "change":
        a = rng.randint(0, n - 1)
        b = rng.randint(a + 1, min(n, a + 4))
        if rng.random() < 0.3:
            idx = sorted(rng.sample(range(n), rng.randint(1, min(4, n))))
            if rng.random() < 0.4:
                rng.shuffle(idx)
            return dict(kind="change_idx", indices=idx)
        return dict(kind="change", location=[a, b, rng.choice([1, 0, -1])])
    raise ValueError(k)


def mkloc(t):
    """what the user hands over as a location: by default the tuple itself; the C05 child replaces this by a function
    returning one dnachisel Location object per distinct triple (a user who keeps Location objects around)"""
    return t


def build_constraint(d):
    import random
    import dnachisel as dc
    k = d["kind"]
    loc = mkloc(tuple(d["location"])) if ("location" in d and not d.get("no_location")) else None
    if k == "keep":
        if d.get("max_edits_percent") is not None:
            return dc.AvoidChanges(location=loc, max_edits_percent=d["max_edits_percent"])
        return dc.AvoidChanges(location=loc)
    if k == "keep_idx":
        if d.get("location"):
            return dc.AvoidChanges(indices=list(d["indices"]), location=loc)
        return dc.AvoidChanges(indices=list(d["indices"]))
    if k == "cds":
        return dc.EnforceTranslation(location=loc, genetic_table=d["table"], start_codon=d["start_codon"],
                                     translation=d["translation"])
    if k == "rare":
        return dc.AvoidRareCodons(min_frequency=d["min_frequency"], location=loc,
                                  codon_usage_table=user_table(random.Random(d["table_seed"])))
    if k == "sequence":
        return dc.EnforceSequence(sequence=d["sequence"], location=loc)
    if k == "choice":
        return dc.EnforceChoice(choices=list(d["choices"]), location=loc)
    if k == "change":
        return dc.EnforceChanges(location=loc)
    if k == "change_idx":
        return dc.EnforceChanges(indices=list(d["indices"]))
    raise ValueError(k)


class Stub:
    """Minimal stand-in for a problem while the constraints are initialised and the space is built."""

    def __init__(self, sequence):
        self.sequence = sequence
        self.constraints = []


def init_constraints(seq, descs):
    """-> (stub problem with initialised constraints) ; raises what the constructors raise"""
    stub = Stub(seq)
    objs = []
    for d in descs:
        c = build_constraint(d)
        if d.get("used_before"):
            # the user's specification object was part of an earlier problem on another sequence (one list of
            # constraints applied to a batch of sequences): it must not influence this problem
            try:
                c.initialized_on_problem(Stub(d["used_before"]), role="constraint")
            except Exception:
                pass
        objs.append(c)
    stub.constraints = [c.initialized_on_problem(stub, role="constraint") for c in objs]
    return stub


def restrictions_of(stub):
    """The restrictions in the order `from_optimization_problem` collects them, normalised to
    (start, end, [variants])."""
    out = []
    for cst in stub.constraints:
        for seg, variants in cst.restrict_nucleotides(stub.sequence):
            if isinstance(seg, int) or not hasattr(seg, "__len__"):
                seg = (int(seg), int(seg) + 1)
            out.append((int(seg[0]), int(seg[1]), [str(v) for v in variants]))
    return out


def restr_tokens(restrs):
    return " ".join("%d:%d:%s" % (a, b, ",".join(vs)) for a, b, vs in restrs)


_DIFF = {}


def table_specific_codons(table):
    """codons that the named genetic table reads differently from the Standard one (amino acid or stop status)"""
    if table not in _DIFF:
        from Bio.Data import CodonTable
        std = CodonTable.unambiguous_dna_by_name["Standard"]
        t = CodonTable.unambiguous_dna_by_name[table]
        cods = ["".join(c) for c in __import__("itertools").product("ACGT", repeat=3)]

        def rd(tb, c):
            return "*" if c in tb.stop_codons else tb.forward_table[c]
        _DIFF[table] = (sorted(c for c in cods if rd(std, c) != rd(t, c)), sorted(t.start_codons))
    return _DIFF[table]


def plant_coding_region(rng, seq, d):
    """rewrite the coding region of cds description d inside seq: a start codon of the table first, then codons
    favouring those the table reads differently from the Standard one"""
    a, b, st = d["location"]
    diff, starts = table_specific_codons(d["table"])
    k = (b - a) // 3
    cods = [rng.choice(starts)]
    for _ in range(k - 1):
        cods.append(rng.choice(diff) if (diff and rng.random() < 0.6) else rand_seq(rng, 3))
    sub = "".join(cods)
    if st == -1:
        sub = rc(sub)
    return seq[:a] + sub + seq[b:]


def rand_problem(rng, nmin=3, nmax=12, kmax=4, kinds=None):
    n = rng.randint(nmin, nmax)
    seq = rand_seq(rng, n)
    descs = [rand_hard_constraint(rng, seq, kinds) for _ in range(rng.randint(0, kmax))]
    for d in descs:
        if d["kind"] == "cds" and rng.random() < 0.35:
            seq = plant_coding_region(rng, seq, d)
    if descs and rng.random() < 0.2:
        other = rand_seq(rng, n + rng.choice([0, 0, 0, 2]))
        for d in descs:
            d["used_before"] = other
    return seq, descs


class shared_locations:
    """within the block, every distinct (start, end, strand) triple is handed to the constructors as ONE dnachisel
    Location object: a user who builds `gene = Location(...)` once and passes it to several specifications"""

    def __enter__(self):
        import sys
        import dnachisel as dc
        self._mod = sys.modules[__name__]
        self._orig = self._mod.mkloc
        memo = {}

        def mkloc(t):
            if t not in memo:
                memo[t] = dc.Location(*t)
            return memo[t]
        self._mod.mkloc = mkloc
        return self

    def __exit__(self, *a):
        self._mod.mkloc = self._orig


class shared_tables:
    """within the block, user_table(Random(seed)) returns one dict object per seed: the situation of a user who loads a
    codon-usage table once and hands it to several specifications (which annotate it in place)"""

    def __enter__(self):
        import sys
        self._mod = sys.modules[__name__]
        self._orig = self._mod.user_table
        memo = {}

        def user_table(rng, zero_prob=0.1):
            key = rng.getstate()
            if key not in memo:
                memo[key] = self._orig(rng, zero_prob)
            return memo[key]
        self._mod.user_table = user_table
        return self

    def __exit__(self, *a):
        self._mod.user_table = self._orig
