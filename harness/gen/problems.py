"""Generator of solver-level problems: sequence + constraints + objectives + settings, as JSON-able
descriptions (so that replays rebuild exactly the same problem).  One rng drives everything."""
import random

from gen import hard

ENZ = ["BsaI", "BsmBI", "EcoRI", "PleI", "BbsI", "NotI", "AarI", "TaqI", "AluI"]


REGEXES = ["A{4}", "A{5,}", "T{6}", "(GC){3}", "[AT]{6}", "G{3}C{2}", "(AT){2}A", "C{4,6}", "[GC]{7}", "A{8}"]


def rand_pattern(rng):
    r = rng.random()
    if r < 0.5:
        n = rng.choice([2, 3, 3, 4, 5])
        alpha = "ATGC" if rng.random() < 0.6 else "ATGCNWSRY"
        return "".join(rng.choice(alpha) for _ in range(n))
    if r < 0.65:
        return "%dx%s" % (rng.randint(2, 4), rng.choice("ATGC" if rng.random() < 0.7 else "NWSRY"))
    if r < 0.8:
        return "%dx%dmer" % (rng.randint(2, 3), rng.randint(1, 2))
    return rng.choice(ENZ) + "_site"


def rand_loc(rng, n, minlen=1, codon=False, strands=(1, -1, 0)):
    if codon:
        m = rng.randint(1, max(1, n // 3))
        a = rng.randint(0, n - 3 * m)
        return [a, a + 3 * m, rng.choice([1, 1, -1])]
    L = rng.randint(min(minlen, n), n)
    a = rng.randint(0, n - L)
    return [a, a + L, rng.choice(strands)]


def rand_soft(rng, seq, role="constraint", allow=None):
    n = len(seq)
    kinds = allow or ["pattern", "pattern", "gcwin", "gcwin", "stop", "kmers", "terminal", "insert", "hairpin",
                      "keep_edits", "length", "user"]
    k = rng.choice(kinds)
    whole = rng.random() < 0.5
    if k == "pattern":
        return dict(kind="pattern", pattern=rand_pattern(rng), location=None if whole else rand_loc(rng, n, 3))
    if k == "regex":
        # a regular expression given as a plain string / SequencePattern without a size: matches can be much longer
        # than the text of the expression
        return dict(kind="regex", expr=rng.choice(REGEXES), location=None if whole else rand_loc(rng, n, 4),
                    wrapped=rng.random() < 0.5)
    if k == "gcwin":
        w = rng.choice([4, 5, 8, 10])
        w = min(w, n)
        lo = rng.choice([0.0, 0.25, 0.3, 0.4])
        hi = rng.choice([0.6, 0.7, 0.75, 1.0])
        loc = None if whole else rand_loc(rng, n, w, strands=(1, 0, -1))
        if rng.random() < 0.08:
            # a window longer than the region (or the sequence): there is no window to check
            if whole or w < 3:
                w = n + rng.randint(1, 20)
            else:
                L = rng.randint(1, w - 1)
                a = rng.randint(0, n - L)
                loc = [a, a + L, rng.choice([1, 0])]
        return dict(kind="gcwin", mini=lo, maxi=hi, window=w, location=loc)
    if k == "stop":
        if n < 3:
            return dict(kind="pattern", pattern="AA", location=None)
        loc = rand_loc(rng, n, codon=True)
        r = rng.random()
        if r < 0.15:
            loc = None                                   # the whole sequence, whatever its length
        elif r < 0.4:
            # any span, on any strand (0 = unstranded tuple): its length need not be a multiple of 3, the frame is
            # counted from the span's 5' end and a trailing partial codon is ignored
            loc = rand_loc(rng, n, 3, strands=(0, 0, 1, -1))
        return dict(kind="stop", location=loc,
                    table=rng.choice(["Standard", "Bacterial", "Vertebrate Mitochondrial", "Ciliate Nuclear", "Yeast Mitochondrial"]))
    if k == "kmers":
        d = dict(kind="kmers", k=rng.choice([2, 3, 4, 5]), location=None if whole else rand_loc(rng, n, 6, strands=(1, 0)),
                 rc=rng.random() < 0.5)
        if rng.random() < 0.25:
            # an explicit reference: "here" (the location itself) or another region, not necessarily covering the location
            d["reference"] = "here" if rng.random() < 0.4 else rand_loc(rng, n, 6, strands=(0,))[:2]
        return d
    if k == "terminal":
        w = rng.randint(2, max(2, n // 2))
        return dict(kind="terminal", window=w, mini=rng.choice([0.0, 0.25, 0.4]), maxi=rng.choice([0.6, 0.75, 1.0]))
    if k == "insert":
        return dict(kind="insert", pattern=rng.choice(["AT", "GGC", "ACGT", "GAATTC", "CTS"]), occurences=rng.choice([0, 1, 1, 2]),
                    location=None if whole else rand_loc(rng, n, 4))
    if k == "hairpin":
        return dict(kind="hairpin", stem=rng.choice([3, 4]), window=rng.choice([8, 10, 14]),
                    location=None if whole else rand_loc(rng, n, 8, strands=(1, 0)))
    if k == "keep_edits":
        d = dict(kind="keep_edits", max_edits=rng.randint(1, 3), location=None if whole else rand_loc(rng, n, 3, strands=(1, 0)))
        if rng.random() < 0.25 and n >= 4:
            # the budget over a list of positions (with gaps) instead of a region
            d["location"] = None
            d["indices"] = sorted(rng.sample(range(n), rng.randint(2, min(n, 8))))
        if rng.random() < 0.25 and d.get("indices") is None:
            del d["max_edits"]
            d["max_edits_percent"] = rng.choice([2, 10, 25, 50])
        return d
    if k == "length":
        return dict(kind="length", min_length=rng.choice([0, n - 2, n, n + 1]), max_length=rng.choice([None, n, n + 3, n - 1]))
    if k == "user":
        return dict(kind="user", motif=rng.choice(["AA", "GC", "TAT", "CG"]), shrink=rng.choice([0, 0, 1, 2]),
                    location=None if whole else rand_loc(rng, n, 3, strands=(0,)),
                    heuristic=rng.choice([None, None, "lying", "fail", "paste"]), localized_none=rng.random() < 0.15,
                    priority=rng.choice([0, 0, 2, -2]), no_rh=rng.random() < 0.3)
    raise ValueError(k)


def rand_objective(rng, seq):
    d = _rand_objective(rng, seq)
    if rng.random() < 0.12:
        d["passive"] = True
    return d


def _rand_objective(rng, seq):
    n = len(seq)
    k = rng.choice(["cai", "cai", "keep", "change", "gc", "pattern", "user", "kmers_obj", "sequence_obj", "cds_obj"])
    boost = rng.choice([0, 0.5, 1, 1, 2, 3])
    if k == "cai" and n >= 3:
        return dict(kind="cai", location=rand_loc(rng, n, codon=True), table_seed=rng.randint(0, 10 ** 6), boost=boost)
    if k == "cds_obj" and n >= 3:
        return dict(kind="cds_obj", location=rand_loc(rng, n, codon=True), table=rng.choice(["Standard", "Bacterial"]), boost=boost)
    if k == "sequence_obj":
        a = rng.randint(0, n - 1)
        b = rng.randint(a + 1, min(n, a + 12))
        alpha = "ATGC" if rng.random() < 0.5 else "ATGCNWSRY"
        target = "".join(rng.choice(alpha) for _ in range(b - a))
        if rng.random() < 0.5:
            # already satisfied on its strand: the optimizer must not trade it away
            st = rng.choice([1, -1])
            sub = seq[a:b]
            target = sub if st == 1 else "".join({"A": "T", "T": "A", "G": "C", "C": "G"}[c] for c in reversed(sub))
            return dict(kind="sequence_obj", sequence=target, location=[a, b, st], boost=boost)
        return dict(kind="sequence_obj", sequence=target, location=[a, b, rng.choice([1, -1, 0])], boost=boost)
    if k == "keep":
        return dict(kind="keep_obj", location=None if rng.random() < 0.5 else rand_loc(rng, n, 2, strands=(1, 0)), boost=boost)
    if k == "change":
        if rng.random() < 0.3:
            idx = rng.sample(range(n), rng.randint(1, min(n, 5)))      # as the user wrote them: not sorted
            return dict(kind="change_obj", location=None, indices=idx, amount_percent=rng.choice([None, None, 50]), boost=boost)
        return dict(kind="change_obj", location=None if rng.random() < 0.5 else rand_loc(rng, n, 2, strands=(1, 0)),
                    amount_percent=rng.choice([None, None, 50]), boost=boost)
    if k == "gc":
        w = min(rng.choice([4, 5, 8]), n)
        d = dict(kind="gc_obj", target=rng.choice([0.25, 0.5, 0.75]), window=w, boost=boost)
        if rng.random() < 0.4 and n > w:
            # restricted to a region (often one that does not start at 0)
            d["location"] = rand_loc(rng, n, w, strands=(1, 0))
        return d
    if k == "pattern":
        return dict(kind="pattern_obj", pattern=rand_pattern(rng), boost=boost)
    if k == "kmers_obj":
        return dict(kind="kmers_obj", k=rng.choice([3, 4]), boost=boost)
    d = dict(kind="user_obj", motif=rng.choice(["AA", "GC", "TA"]), best=rng.choice([None, 0]), boost=boost,
             location=None)
    if rng.random() < 0.35:
        # an objective that rewards occurrences (positive scores) and declares no best possible score
        d["reward"] = True
        d["best"] = None
    return d


def make_user_class():
    """A user-defined Specification subclass: score = -(number of occurrences of `motif` in its
    location); `localized` shrinks the window by `shrink` on each side (wrong on purpose when
    shrink > 0), may return None, may lack the with_righthand keyword; optional resolution
    heuristic that lies (returns an arbitrary sequence of the local space) or always fails."""
    import dnachisel as dc
    from dnachisel import Specification, SpecEvaluation, Location, NoSolutionError
    import numpy as np

    class UserSpec(Specification):
        best_possible_score = 0

        def __init__(self, motif, location=None, shrink=0, localized_none=False, boost=1.0, priority=0, best=0,
                     fault_calls=(), sign=-1):
            self.sign = sign
            self.motif = motif
            self.location = Location.from_data(location)
            self.shrink = shrink
            self.localized_none = localized_none
            self.boost = boost
            self.priority = priority
            self.best_possible_score = best
            self.fault_calls = set(fault_calls)
            self.calls = [0]

        def initialized_on_problem(self, problem, role=None):
            return self._copy_with_full_span_if_no_location(problem)

        def evaluate(self, problem):
            self.calls[0] += 1
            if self.calls[0] in self.fault_calls:
                from solverrec import Fault
                raise Fault(self.calls[0])
            s = problem.sequence[self.location.start:self.location.end]
            k = len(self.motif)
            hits = [i for i in range(len(s) - k + 1) if s[i:i + k] == self.motif]
            locs = [Location(self.location.start + i, self.location.start + i + k) for i in hits]
            return SpecEvaluation(self, problem, score=self.sign * len(hits), locations=locs)

        def localized(self, location, problem=None, with_righthand=True):
            ov = self.location.overlap_region(location)
            if ov is None:
                return None
            if self.localized_none and len(ov) <= 2:
                return None
            ext = location.extended(len(self.motif) - 1 - self.shrink, right=with_righthand)
            new = self.location.overlap_region(ext)
            if new is None:
                return None
            return self.copy_with_changes(location=new)

        def label_parameters(self):
            return [self.motif]

    class UserSpecNoRh(UserSpec):
        def localized(self, location, problem=None):
            return UserSpec.localized(self, location, problem=problem)

    class UserSpecLying(UserSpec):
        def resolution_heuristic(self, problem):
            # "solves" by moving to a random point of the local space, whatever the constraints say
            problem.sequence = problem.mutation_space.apply_random_mutations(2, problem.sequence)

    class UserSpecPasting(UserSpec):
        def resolution_heuristic(self, problem):
            # "solves" its own breach by overwriting its whole location, ignoring the mutation space
            a, b = self.location.start, self.location.end
            filler = "".join("C" if self.motif[0] != "C" else "T" for _ in range(b - a))
            problem.sequence = problem.sequence[:a] + filler + problem.sequence[b:]

    class UserSpecFailing(UserSpec):
        def resolution_heuristic(self, problem):
            raise NoSolutionError("user heuristic gives up", problem=problem)

    return dict(plain=UserSpec, no_rh=UserSpecNoRh, lying=UserSpecLying, fail=UserSpecFailing, paste=UserSpecPasting)


_USER = None


def user_classes():
    global _USER
    if _USER is None:
        _USER = make_user_class()
    return _USER


def build_spec(d):
    spec = _build_spec(d)
    if d.get("passive"):
        # an objective that is scored and reported but never optimized for itself
        spec = spec.as_passive_objective()
    return spec


def _build_spec(d):
    import dnachisel as dc
    k = d["kind"]
    loc = hard.mkloc(tuple(d["location"])) if (d.get("location") and not d.get("no_location")) else None
    boost = d.get("boost", 1.0)
    if k in ("keep", "keep_idx", "cds", "rare", "sequence", "choice", "change", "change_idx"):
        return hard.build_constraint(d)
    if k == "regex":
        return dc.AvoidPattern(dc.SequencePattern(d["expr"]) if d.get("wrapped") else d["expr"], location=loc)
    if k == "pattern":
        return dc.AvoidPattern(d["pattern"], location=loc)
    if k == "pattern_obj":
        return dc.AvoidPattern(d["pattern"], boost=boost)
    if k == "gcwin":
        if d.get("as_string"):
            # the documented string form "35-65%/20bp" (integer percentages)
            return dc.EnforceGCContent("%d-%d%%/%dbp" % (round(d["mini"] * 100), round(d["maxi"] * 100), d["window"]), location=loc)
        return dc.EnforceGCContent(mini=d["mini"], maxi=d["maxi"], window=d["window"], location=loc)
    if k == "gc_obj":
        return dc.EnforceGCContent(target=d["target"], window=d["window"], boost=boost, location=loc)
    if k == "stop":
        return dc.AvoidStopCodons(genetic_table=d["table"], location=loc)
    if k == "kmers":
        ref = d.get("reference")
        ref = ref if (ref is None or ref == "here") else tuple(ref)
        return dc.UniquifyAllKmers(d["k"], location=loc, include_reverse_complement=d["rc"], reference=ref)
    if k == "kmers_obj":
        return dc.UniquifyAllKmers(d["k"], boost=boost)
    if k == "terminal":
        return dc.EnforceTerminalGCContent(window_size=d["window"], mini=d["mini"], maxi=d["maxi"])
    if k == "insert":
        return dc.EnforcePatternOccurence(d["pattern"], occurences=d["occurences"], location=loc)
    if k == "hairpin":
        return dc.AvoidHairpins(stem_size=d["stem"], hairpin_window=d["window"], location=loc)
    if k == "keep_edits":
        if d.get("max_edits_percent") is not None:
            return dc.AvoidChanges(max_edits_percent=d["max_edits_percent"], location=loc)
        if d.get("indices") is not None:
            return dc.AvoidChanges(max_edits=d["max_edits"], indices=list(d["indices"]))
        return dc.AvoidChanges(max_edits=d["max_edits"], location=loc)
    if k == "length":
        return dc.SequenceLengthBounds(d["min_length"], d["max_length"])
    if k == "cai":
        return dc.MaximizeCAI(codon_usage_table=hard.user_table(random.Random(d["table_seed"])), location=loc, boost=boost)
    if k == "codon_optimize":
        return dc.CodonOptimize(codon_usage_table=hard.user_table(random.Random(d["table_seed"])), method="use_best_codon",
                                location=loc, boost=boost)
    if k == "rca":
        return dc.HarmonizeRCA(codon_usage_table=hard.user_table(random.Random(d["table_seed"])),
                               original_codon_usage_table=hard.user_table(random.Random(d["orig_table_seed"])),
                               location=loc, boost=boost)
    if k == "cds_obj":
        return dc.EnforceTranslation(location=loc, genetic_table=d["table"], boost=boost)
    if k == "sequence_obj":
        return dc.EnforceSequence(sequence=d["sequence"], location=loc, boost=boost)
    if k == "keep_obj":
        return dc.AvoidChanges(location=loc, boost=boost)
    if k == "change_obj":
        if d.get("indices") is not None:
            return dc.EnforceChanges(indices=list(d["indices"]), amount_percent=d.get("amount_percent"), boost=boost)
        return dc.EnforceChanges(location=loc, amount_percent=d.get("amount_percent"), boost=boost)
    if k in ("user", "user_obj"):
        cls = user_classes()
        c = cls["plain"]
        if d.get("heuristic") == "lying":
            c = cls["lying"]
        elif d.get("heuristic") == "fail":
            c = cls["fail"]
        elif d.get("heuristic") == "paste":
            c = cls["paste"]
        elif d.get("no_rh"):
            c = cls["no_rh"]
        return c(d["motif"], location=loc, shrink=d.get("shrink", 0), localized_none=d.get("localized_none", False),
                 boost=boost, priority=d.get("priority", 0), best=d.get("best", 0), fault_calls=d.get("fault_calls", ()),
                 sign=1 if d.get("reward") else -1)
    raise ValueError(k)


def rand_settings(rng):
    return dict(randomization_threshold=rng.choice([0, 53, 53, 10007, 10007]),
                max_random_iters=rng.choice([5, 50, 300]),
                mutations_per_iteration=rng.choice([1, 2, 2, 3]),
                optimization_stagnation_tolerance=rng.choice([None, 10, 100]),
                local_extensions=rng.choice([(0, 5), (0, 5), (0,), (0, 2, 9)]))


def rand_solver_problem(rng, nmin=8, nmax=40, soft=None, objectives=True, hardmax=2, softmax=3):
    n = rng.randint(nmin, nmax)
    seq = hard.rand_seq(rng, n)
    cons = [hard.rand_hard_constraint(rng, seq) for _ in range(rng.randint(0, hardmax))]
    cons += [rand_soft(rng, seq, allow=soft) for _ in range(rng.randint(1, softmax))]
    rng.shuffle(cons)
    objs = [rand_objective(rng, seq) for _ in range(rng.randint(0, 3))] if objectives else []
    d = dict(sequence=seq, constraints=cons, objectives=objs, settings=rand_settings(rng), np_seed=rng.randint(0, 10 ** 6))
    if rng.random() < 0.12:
        # the same specification objects were first used on another sequence of the same length
        d["reuse_after"] = hard.rand_seq(rng, n)
    return d


def apply_settings(problem, sett):
    for k, v in sett.items():
        setattr(problem, k, tuple(v) if isinstance(v, list) else v)


def rand_small_problem(rng, objectives=True, soft=None):
    """A problem whose whole mutation space can be enumerated: all but 1-5 positions are frozen."""
    n = rng.randint(6, 16)
    seq = hard.rand_seq(rng, n)
    k = rng.randint(0, 5)
    if rng.random() < 0.5:
        a = rng.randint(0, n - k)
        free = set(range(a, a + k))
    else:
        free = set(rng.sample(range(n), k))
    frozen = [i for i in range(n) if i not in free]
    cons = []
    if frozen:
        cons.append(dict(kind="keep_idx", indices=frozen))
    if rng.random() < 0.3 and n >= 3:
        cons.append(hard.rand_hard_constraint(rng, seq, ["cds", "sequence", "choice"]))
    cons += [rand_soft(rng, seq, allow=soft or ["pattern", "pattern", "gcwin", "stop", "user", "terminal", "kmers", "regex"])
             for _ in range(rng.randint(0, 3))]
    objs = [rand_objective(rng, seq) for _ in range(rng.randint(0, 3))] if objectives else []
    sett = rand_settings(rng)
    return dict(sequence=seq, constraints=cons, objectives=objs, settings=sett, np_seed=rng.randint(0, 10 ** 6))
