"""Shared generator / correspondence / law oracles for the localization properties C08 and C09."""
import vlib
import bspec
from gen import hard, problems

KINDS = ["pattern", "pattern", "insert", "gcwin", "gcwin", "gcglobal", "cds", "cds", "stop", "keep", "keep_idx", "keep_edits",
         "change", "change_idx", "change_obj", "change_min", "sequence", "choice", "terminal", "length", "rare", "cai",
         "kmers", "hairpin", "regex"]


def long_gc_case(rng):
    """a windowed GC specification over a span holding exactly 255 G/C (every window well inside the bounds); the edit
    turns one A/T of the window into a G: the 256th"""
    unit = "".join(rng.sample("GGCA" if rng.random() < 0.5 else "GCCT", 4))
    seq = unit * 85
    n = len(seq)
    w = rng.choice([10, 20, 50])
    d = dict(kind="gcwin", mini=rng.choice([0.3, 0.4]), maxi=rng.choice([0.9, 0.95, 1.0]), window=w, location=None)
    pos = rng.choice([i for i, c in enumerate(seq) if c in "AT"])
    a = max(0, pos - rng.randint(0, 6))
    b = min(n, pos + 1 + rng.randint(0, 6))
    t = seq[:pos] + "G" + seq[pos + 1:]
    return dict(sequence=seq, spec=d, window=[a, b], wstrand=0, rh="-", edited=t)


def rand_case(rng, kinds=None, nmin=6, nmax=30):
    if (kinds is None or "gcwin" in kinds) and rng.random() < 0.01:
        return long_gc_case(rng)
    n = rng.randint(nmin, nmax)
    seq = hard.rand_seq(rng, n)
    d = bspec.rand_spec_desc(rng, seq, kinds or KINDS)
    if d["kind"] == "gcwin" and rng.random() < 0.12:
        # a long, GC-rich sequence: more than 255 G/C inside the specification's span
        n = rng.randint(330, 420)
        seq = "".join(rng.choice("GGGCCCAT") for _ in range(n))
        w = rng.choice([10, 20, 50])
        d = dict(kind="gcwin", mini=rng.choice([0.3, 0.4]), maxi=rng.choice([0.9, 0.95, 1.0]), window=w,
                 location=None if rng.random() < 0.6 else [rng.randint(0, 10), n - rng.randint(0, 10), rng.choice([0, 1])])
    if d["kind"] == "kmers" and d.get("location") and rng.random() < 0.3:
        d["location"][2] = -1
    # window: inside / straddling / outside the specification's span
    a = rng.randint(0, n - 1)
    b = rng.randint(a + 1, min(n, a + rng.choice([1, 2, 3, 6, n])))
    rh = rng.choice(["-", "-", "-", "0", "1"])
    t = list(seq)
    for j in range(a, b):
        if rng.random() < 0.6:
            t[j] = rng.choice("ATGC")
    if d["kind"] in ("pattern", "insert") and rng.random() < 0.6:
        # make the edit create an occurrence (on either strand) so that the law is exercised non-vacuously
        from props import C11
        toks = C11.parse_shorthand(d["pattern"]).split()
        if toks[0] == "dna":
            inst = "".join(rng.choice(C11.IUPAC_SETS.get(ch, "A")) for ch in toks[1])
        else:
            inst = "".join(rng.choice("ATGC") for _ in range(int(toks[2]))) * int(toks[1])
        if rng.random() < 0.5:
            inst = C11.rc(inst)
        if len(inst) <= b - a:
            pos = rng.randint(a, b - len(inst))
            t[pos:pos + len(inst)] = inst
    if d["kind"] == "stop" and rng.random() < 0.6:
        # the edit writes a stop codon in the specification's reading frame, the window lies on that codon
        la, lb, lst = d["location"] if d.get("location") else (0, n, 0)
        ncod = (lb - la) // 3
        if ncod >= 1:
            j = rng.randint(0, ncod - 1)
            lo = la + 3 * j if lst != -1 else lb - 3 * (j + 1)
            stop = rng.choice(["TAA", "TAG", "TGA"])
            comp = {"A": "T", "T": "A", "G": "C", "C": "G"}
            t = list(seq)
            t[lo:lo + 3] = stop if lst != -1 else "".join(comp[x] for x in reversed(stop))
            a = rng.randint(lo, lo + 2)
            b = rng.randint(a + 1, lo + 3)
            if rng.random() < 0.3:
                a, b = lo, lo + 3
            # positions of the codon outside the window keep the edited letters in the *unedited* sequence too, so
            # that the edit is confined to the window
            sq = list(seq)
            for i in range(lo, lo + 3):
                if not (a <= i < b):
                    sq[i] = t[i]
            seq = "".join(sq)
            t = [t[i] if a <= i < b else seq[i] for i in range(n)]
    if d["kind"] == "cds" and d.get("start_codon") is not None and rng.random() < 0.6:
        # an interior Met codon turned into another start codon of the table, with the window on it: the localized
        # specification must read it as the full one does (a start codon is only special at the start)
        from Bio.Data import CodonTable
        la, lb, lst = d["location"]
        ncod = (lb - la) // 3
        if ncod >= 2 and d.get("translation") is None:
            j = rng.randint(1, ncod - 1)
            lo = la + 3 * j if lst != -1 else lb - 3 * (j + 1)
            comp = {"A": "T", "T": "A", "G": "C", "C": "G"}

            def on_strand(c):
                return c if lst != -1 else "".join(comp[x] for x in reversed(c))
            sq = list(seq)
            sq[lo:lo + 3] = on_strand("ATG")
            seq = "".join(sq)
            starts = [c for c in CodonTable.unambiguous_dna_by_name[d["table"]].start_codons if c != "ATG"] or ["ATG"]
            t = list(seq)
            t[lo:lo + 3] = on_strand(rng.choice(starts))
            a, b = (lo, lo + 3) if rng.random() < 0.6 else (lo, min(n, lo + rng.choice([1, 2, 4, 6])))
    return dict(sequence=seq, spec=d, window=[a, b], wstrand=rng.choice([0, 0, 0, 1, -1]), rh=rh, edited="".join(t))


def localize(spec, stub, window, rh, wstrand=0):
    from dnachisel import Location
    kw = {} if rh == "-" else {"with_righthand": rh == "1"}
    return spec.localized(Location(window[0], window[1], wstrand), problem=stub, **kw)


def correspondence(ctx, n):
    from dnachisel import Location
    rng = ctx.rng
    c = vlib.Corr()
    skipped = {}
    for _ in range(n):
        case = rand_case(rng)
        seq, d, (a, b), rh = case["sequence"], case["spec"], case["window"], case["rh"]
        try:
            spec, stub = bspec.init_spec(d, seq)
        except Exception as e:
            skipped[type(e).__name__] = skipped.get(type(e).__name__, 0) + 1
            continue
        t = bspec.text(spec)
        if t is None:
            continue
        r = None
        try:
            r = localize(spec, stub, (a, b), rh, case["wstrand"])
            ans = "none" if r is None else ("same" if r is spec else bspec.text(r))
        except TypeError:
            ans = "typeerror"
        except Exception:
            ans = "raises"
        straddle = d.get("location") is not None and (a < d["location"][0] < b or a < d["location"][1] < b)
        c.add("spec.local | %s | %d:%d:%d %s | %s" % (t, a, b, case["wstrand"], rh, seq), ans, meta=case, nontrivial=straddle or ans not in ("same", "none", "typeerror"),
              branch="local:%s:%s" % (d["kind"], ans.split()[0] if ans in ("none", "same", "typeerror", "raises") else "new"))
        cmpf = bspec.compare_eval_unordered if d["kind"] == "kmers" else bspec.compare_eval
        for s2 in (seq, case["edited"]):
            stub.sequence = s2
            c.add("spec.eval | %s | %s" % (t, s2), bspec.eval_text(spec, stub), meta=case, compare=cmpf, branch="eval:global")
            if r is not None and r is not spec and ans not in ("typeerror", "raises"):
                c.add("spec.eval | %s | %s" % (ans, s2), bspec.eval_text(r, stub), meta=case, compare=cmpf, nontrivial=True,
                      branch="eval:localized")
        stub.sequence = seq
    c.run()
    hist = dict(c.hist)
    for k, v in skipped.items():
        hist["skipped:" + k] = v
    kk = len(c.lines)
    return dict(evaluations=c.evaluations, nontrivial=len(c.nontrivial), hist=hist,
                samples=[dict(request=c.lines[i][:400], answer=str(c.impl[i])[:200]) for i in (0, kk // 3, 2 * kk // 3) if i < kk],
                disagreements=[dict(request=x["request"][:1500], model=x["model"][:400], impl=str(x["impl"])[:400], meta=x["meta"])
                               for x in c.disagreements])


def law_case(case, out, sound=True, exact=True):
    """Evaluate the two laws on the real objects.  The localized specification is re-initialised on a
    local problem created at the *unedited* sequence, as optimize_objective / resolve_constraint do."""
    seq, d, (a, b), rh, t = case["sequence"], case["spec"], case["window"], case["rh"], case["edited"]
    if rh == "0":
        # with_righthand=False is the solver's deliberate one-sided localization for overlapping breaches
        # (the final check covers it); the laws are about the default localization
        rh = "-"
    try:
        spec, stub = bspec.init_spec(d, seq)
    except Exception:
        return 0
    role = bspec.ROLE.get(d["kind"], "constraint")
    try:
        L = localize(spec, stub, (a, b), rh, case.get("wstrand", 0))
    except TypeError:
        return 0
    except Exception as e:
        out.append(dict(kind="localized-raised:%s" % d["kind"], input=case, detail=repr(e)[:200]))
        return 1
    def ev(sp, s):
        st = hard.Stub(s)
        return sp.evaluate(st)

    # the law is evaluated on the localized object as returned (the property's observation point) and,
    # afterwards, on its re-initialisation on a local problem (what the solver evaluates; note that
    # initialized_on_problem may modify the object in place, hence the order)
    direct = None
    if L is not None:
        try:
            direct = (ev(L, seq), ev(L, t))
        except Exception as e:
            out.append(dict(kind="localized-evaluate-raised:%s" % d["kind"], input=case, detail=repr(e)[:200]))
            return 1
        try:
            L = L.initialized_on_problem(hard.Stub(seq), role=role)
        except Exception as e:
            out.append(dict(kind="localized-init-raised:%s" % d["kind"], input=case, detail=repr(e)[:200]))
            return 1

    try:
        g0, g1 = ev(spec, seq), ev(spec, t)
    except Exception as e:
        out.append(dict(kind="evaluate-raised:%s" % d["kind"], input=case, detail=repr(e)[:200]))
        return 1
    if L is None:
        if abs(float(g0.score) - float(g1.score)) > 1e-9:
            out.append(dict(kind="localized-none-but-score-changed:%s" % d["kind"], input=case,
                            detail="%r -> %r" % (float(g0.score), float(g1.score))))
        return 1
    try:
        pairs = [direct, (ev(L, seq), ev(L, t))]
    except Exception as e:
        out.append(dict(kind="localized-evaluate-raised:%s" % d["kind"], input=case, detail=repr(e)[:200]))
        return 1
    for l0, l1 in pairs:
        if sound and g0.passes and l1.passes and not g1.passes:
            out.append(dict(kind="local-pass-global-fail:%s" % d["kind"], input=case,
                            detail="global %r -> %r, localized %r -> %r" % (float(g0.score), float(g1.score), float(l0.score), float(l1.score))))
        if exact and d["kind"] != "kmers":
            dg, dl = float(g1.score) - float(g0.score), float(l1.score) - float(l0.score)
            if abs(dg - dl) > 1e-9 * max(1.0, abs(dg)):
                out.append(dict(kind="score-difference-mismatch:%s" % d["kind"], input=case, detail="global %r localized %r" % (dg, dl)))
    return 1


def search(ctx, budget, sound, exact, seed_off):
    rng = vlib.Rng(ctx.seed + seed_off)
    out = []
    n = 0
    for _ in range(6000 * budget):
        case_ = rand_case(rng)
        n += vlib.limited(lambda: law_case(case_, out, sound=sound, exact=exact), 10, 0)
    best, hist = {}, {}
    for c in out:
        hist[c["kind"]] = hist.get(c["kind"], 0) + 1
        k = c["kind"]
        if k not in best or len(c["input"]["sequence"]) < len(best[k]["input"]["sequence"]):
            best[k] = c
    return dict(counterexamples=list(best.values()), evaluations=n, hist=hist,
                samples=[dict(oracle="the law itself on the real objects", case=rand_case(vlib.Rng(1)))])
