"""Entry point of every check:  ./check <Cxx> [--tier quick|thorough] [--replay file]

1. regenerate Gen/Tables.lean from /repo (translator)
2. lake build Props/<Cxx> + driver, audit `#print axioms` of every theorem in the file
3. correspondence: model (Lean driver) vs implementation (real code, in-process)
4. failing-input search on the real code with an independent oracle
   (base budget always; x20 when 2. or 3. broke)
5. evidence/<Cxx>.json, verdict
"""
import argparse
import importlib
import json
import os
import sys
import time
import traceback

HERE = os.path.dirname(os.path.abspath(__file__))
sys.path.insert(0, HERE)
import vlib  # noqa: E402


class Ctx:
    def __init__(self, prop, tier, seed):
        self.prop = prop
        self.tier = tier
        self.seed = seed
        self.thorough = tier == "thorough"
        self.rng = vlib.Rng(seed * 1000003 + sum(ord(c) for c in prop))
        self.scale = 20 if self.thorough else 1

    def n(self, quick, thorough=None):
        return (thorough if thorough is not None else quick * 20) if self.thorough else quick


def main():
    ap = argparse.ArgumentParser()
    ap.add_argument("prop")
    ap.add_argument("--tier", default=os.environ.get("VERIF_TIER", "quick"))
    ap.add_argument("--replay", default=None)
    ap.add_argument("--no-lean", action="store_true", help="(debug) skip the Lean build")
    args = ap.parse_args()
    prop = args.prop
    tier = args.tier if args.tier in ("quick", "thorough") else "quick"
    seed = int(os.environ.get("VERIF_SEED", "0") or 0)
    t0 = time.time()
    # watchdog: a check that does not finish is an infrastructure failure (exit 2), never a verdict
    import threading
    limit = int(os.environ.get("VERIF_TIME_LIMIT", "1500" if tier == "quick" else "14400"))

    def _give_up():
        sys.stderr.write("TIMEOUT property=%s tier=%s after %d s (infrastructure, no verdict)\n" % (prop, tier, limit))
        sys.stderr.flush()
        os._exit(2)
    wd = threading.Timer(limit, _give_up)
    wd.daemon = True
    wd.start()
    mod = importlib.import_module("props." + prop)
    ctx = Ctx(prop, tier, seed)

    if args.replay:
        case = json.load(open(args.replay))
        vlib.import_dnachisel()
        ok = mod.replay(ctx, case)
        print("replay: violation %s" % ("reproduced" if ok else "NOT reproduced"))
        sys.exit(1 if ok else 0)

    # 1. translator
    gen_ok, gen_out = vlib.regenerate_tables()
    broken = []          # proof obligations / correspondence cases that no longer check
    if not gen_ok:
        broken.append(dict(kind="translator", detail=gen_out[-3000:]))

    # 2. Lean
    if args.no_lean:
        lean = dict(ok=True, theorems={}, failed=[], names=[], build_s=0, forbidden=[])
    else:
        lean = vlib.lean_check(prop, clean=False, leanchecker=ctx.thorough)
    if not lean["ok"]:
        broken.append(dict(kind="theorem", detail=lean["failed"][:20], log=lean.get("build_log", "")[-4000:]))

    # 3. correspondence
    vlib.import_dnachisel()
    corr_info = dict(evaluations=0, nontrivial=0, hist={}, samples=[], disagreements=[])
    try:
        if os.path.exists(vlib.DRIVER):
            corr_info = mod.correspondence(ctx)
        else:
            broken.append(dict(kind="driver", detail="driver executable missing (build failed)"))
    except Exception:
        broken.append(dict(kind="correspondence-crash", detail=traceback.format_exc()[-4000:]))
    for d in corr_info.get("disagreements", [])[:20]:
        broken.append(dict(kind="correspondence", detail=d))

    # 4. failing-input search on the real code
    escalate = bool(broken)
    budget = ctx.scale * (20 if escalate else 1)
    hints = [b["detail"] for b in broken if b["kind"] == "correspondence"]
    try:
        search = mod.search(ctx, budget, hints)
    except Exception:
        broken.append(dict(kind="search-crash", detail=traceback.format_exc()[-4000:]))
        search = {}
        escalate = True
    cexs = search.get("counterexamples", [])

    known = [k for k in vlib.load_known_findings() if k.get("property") == prop and k.get("status", "open") == "open"]
    new_cex, known_hits = [], {}
    for c in cexs:
        hit = None
        for k in known:
            if k.get("kind") == c.get("kind"):
                hit = k
                break
        if hit is None:
            new_cex.append(c)
        else:
            known_hits.setdefault(hit["kind"], (hit, c))

    # 5. evidence
    n_obl = len(lean.get("names", [])) or len(lean.get("theorem_names", []))
    n_dis = len(lean.get("theorems", {})) if lean["ok"] else 0
    axioms = sorted({a for ax in lean.get("theorems", {}).values() for a in ax})
    coverage = dict(
        obligations=max(n_obl, 1),
        discharged=n_dis,
        checker_cmd="cd lean && lake build DnaModel.Props.%s driver && lake env lean DnaModel/Audit/%s.lean  (+ lake env leanchecker in the thorough tier)" % (prop, prop),
        trusted_base=["Lean 4.33 kernel", "axioms used by the theorems of this property: %s" % (axioms or "none")]
        + getattr(mod, "TRUSTED", []),
        theorems=lean.get("theorems", {}),
        evaluations=int(corr_info.get("evaluations", 0)) + int(search.get("evaluations", 0)),
        correspondence_cases=int(corr_info.get("evaluations", 0)),
        correspondence_disagreements=len(corr_info.get("disagreements", [])),
        oracle_cases=int(search.get("evaluations", 0)),
        distinct_nontrivial=int(corr_info.get("nontrivial", 0)),
        rule=getattr(mod, "RULE", ""),
        branch_histogram=corr_info.get("hist", {}),
        oracle_histogram=search.get("hist", {}),
        samples=(corr_info.get("samples", []) + search.get("samples", []))[:12] or ["(none)"],
        exhaustive=bool(search.get("exhaustive", False)),
        lean_build_s=round(lean.get("build_s", 0), 1),
        escalated_search=escalate,
        known_findings_reproduced=sorted(known_hits),
    )
    violations = len(new_cex) + (1 if (escalate and not new_cex) else 0)
    vlib.write_evidence(prop, tier, seed, coverage, getattr(mod, "ASSUMPTIONS", []), time.time() - t0, violations)

    # 6. verdict
    for kind, (k, c) in sorted(known_hits.items()):
        print("KNOWN-FINDING: property=%s %s [%s] witness=%s" % (prop, k.get("description", ""), kind,
                                                                  json.dumps(c.get("input"), default=str)[:200]))
    if new_cex:
        c = new_cex[0]
        path = vlib.write_replay(prop, dict(property=prop, kind=c.get("kind"), input=c.get("input"),
                                            detail=c.get("detail"), broken=broken[:5], seed=seed, tier=tier))
        print("counterexample on the real code: %s" % json.dumps(c, default=str)[:1500])
        print("VIOLATION property=%s replay=%s" % (prop, path))
        sys.exit(1)
    if escalate:
        path = vlib.write_replay(prop, dict(property=prop, kind="unproved", broken=broken[:20], seed=seed, tier=tier,
                                            note="a proof obligation or a correspondence case no longer checks; "
                                                 "the escalated search found no failing input on the real code"))
        for b in broken[:5]:
            print("BROKEN %s: %s" % (b["kind"], json.dumps(b["detail"], default=str)[:1500]))
        print("VIOLATION property=%s replay=%s no-failing-input-found" % (prop, path))
        sys.exit(1)
    print("OK property=%s tier=%s seed=%d theorems=%d correspondence=%d oracle=%d wall=%.1fs" % (
        prop, tier, seed, n_dis, coverage["correspondence_cases"], coverage["oracle_cases"], time.time() - t0))
    sys.exit(0)


if __name__ == "__main__":
    try:
        main()
    except SystemExit:
        raise
    except Exception:
        traceback.print_exc()
        sys.exit(2)
