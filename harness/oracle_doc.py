"""Independent reading of the documented meaning of each core built-in specification
(score formula, pass predicate, where the breach is), written from the class docstrings —
not from the implementations.  Used by C10 / C20 as the failing-input search oracle."""
import math
import random

from gen import hard
from props import C11

COMP = {"A": "T", "T": "A", "G": "C", "C": "G"}
IUPAC = C11.IUPAC_SETS


def rc(s):
    return "".join(COMP[c] for c in reversed(s))


def gc_frac(s):
    return sum(c in "GC" for c in s) / len(s)


def loc_of(desc, n, default_strand=0):
    loc = desc.get("location")
    if loc is None:
        return (0, n, default_strand)
    return tuple(loc)


def expand_iupac(p):
    out = [""]
    for ch in p:
        out = [o + x for o in out for x in IUPAC[ch]]
    return out


def translate(dna, table, assume_start):
    from Bio.Data import CodonTable
    t = CodonTable.unambiguous_dna_by_name[table]
    aas = []
    for i in range(0, len(dna) - len(dna) % 3, 3):
        c = dna[i:i + 3]
        if i == 0 and assume_start and c in t.start_codons:
            aas.append("M")
        elif c in t.forward_table:
            aas.append(t.forward_table[c])
        elif c in t.stop_codons:
            aas.append("*")
        else:
            aas.append("X")
    return "".join(aas)


def occurrences(pattern_string, s, loc):
    """set of (start, end) spans of occurrences inside loc on the requested strands"""
    toks = C11.parse_shorthand(pattern_string)
    want, _ = C11.expected(toks, s, loc)
    return want


def doc(desc, original, s):
    """-> dict(score=float, breach=set of positions or None, region=bool) or None when the class is not covered"""
    n = len(s)
    k = desc["kind"]
    if k == "pattern":
        loc = loc_of(desc, n)
        occ = occurrences(desc["pattern"], s, loc)
        spans = {(a, b) for a, b, _ in occ}
        toks = C11.parse_shorthand(desc["pattern"]).split()
        palin = toks[0] == "rep" or C11.rc(toks[1]) == toks[1]
        count = len(spans) if palin else len(occ)
        return dict(score=-count, breach={i for a, b in spans for i in range(a, b)}, region=True)
    if k == "regex":
        # "AvoidPattern: score = -(number of occurrences)", overlapping occurrences included: one per start position at
        # which the expression matches, on the strand(s) of the location (both when the strand is 0)
        import re
        a, b, st = loc_of(desc, n)
        rx = re.compile(desc["expr"])
        sub = s[a:b]
        spans = []
        if st in (1, 0):
            for i in range(len(sub)):
                m = rx.match(sub, i)
                if m:
                    spans.append((a + i, a + m.end()))
        if st in (-1, 0):
            r = rc(sub)
            for i in range(len(r)):
                m = rx.match(r, i)
                if m:
                    spans.append((b - m.end(), b - i))
        return dict(score=-len(spans), breach={i for x, y in spans for i in range(x, y)}, region=True)
    if k == "insert":
        loc = loc_of(desc, n)
        occ = occurrences(desc["pattern"], s, loc)
        spans = {(a, b) for a, b, _ in occ}
        toks = C11.parse_shorthand(desc["pattern"]).split()
        palin = toks[0] == "rep" or C11.rc(toks[1]) == toks[1]
        count = len(spans) if palin else len(occ)
        return dict(score=-abs(count - desc["occurences"]), breach=None, region=True, whole_location=loc)
    if k in ("gcwin", "gcglobal"):
        a, b, _ = loc_of(desc, n)
        w = desc.get("window")
        mini, maxi = desc["mini"], desc["maxi"]
        breach, total = set(), 0.0
        if w is None:
            g = gc_frac(s[a:b])
            ex = max(0, mini - g) + max(0, g - maxi)
            total = ex
            if ex > 0:
                breach = set(range(a, b))
        else:
            for i in range(a, b - w + 1):
                g = gc_frac(s[i:i + w])
                ex = max(0, mini - g) + max(0, g - maxi)
                total += ex
                if ex > 0:
                    breach.update(range(i, i + w))
        return dict(score=-total, breach=breach, region=True)
    if k in ("cds", "stop"):
        a, b, st = loc_of(desc, len(s))
        if st not in (1, -1):
            st = 1
        sub = s[a:b] if st == 1 else rc(s[a:b])
        if k == "stop":
            aas = translate(sub, desc["table"], False)
            bad = [i for i, x in enumerate(aas) if x == "*"]
        else:
            osub = original[a:b] if st == 1 else rc(original[a:b])
            has_start = desc.get("start_codon") is not None
            want = desc.get("translation") or translate(osub, desc["table"], has_start)
            got = translate(sub, desc["table"], has_start)
            bad = [i for i in range(len(got)) if got[i] != want[i]]
        pos = set()
        for i in bad:
            lo = a + 3 * i if st == 1 else b - 3 * (i + 1)
            pos.update(range(lo, lo + 3))
        return dict(score=-len(bad), breach=pos, region=True)
    if k in ("keep", "keep_idx", "keep_edits"):
        if k == "keep_idx" or desc.get("indices") is not None:
            idx = list(desc["indices"])
        else:
            a, b, _ = loc_of(desc, n)
            idx = list(range(a, b))
        edits = [i for i in idx if s[i] != original[i]]
        allowed = desc.get("max_edits", 0)
        if desc.get("max_edits_percent") is not None:
            allowed = math.floor(desc["max_edits_percent"] * len(idx) / 100.0)
        return dict(score=allowed - len(edits), breach=set(edits), region=True)
    if k in ("change", "change_idx", "change_min", "change_obj"):
        if k == "change_idx" or desc.get("indices") is not None:
            idx = list(desc["indices"])
        else:
            a, b, _ = loc_of(desc, n)
            idx = list(range(a, b))
        ndiff = sum(1 for i in idx if s[i] != original[i])
        same = {i for i in idx if s[i] == original[i]}
        if k in ("change", "change_idx"):
            return dict(score=ndiff - len(idx), breach=same, region=True)
        if k == "change_min":
            if desc.get("minimum_percent") is not None:
                # "at least p% of the positions changed": the smallest integer count m with 100 m >= p L (exact)
                need = -((-desc["minimum_percent"] * len(idx)) // 100)
                return dict(score=ndiff - need, breach=same, region=True)
            return dict(score=ndiff - desc["minimum"], breach=same, region=True)
        pct = desc.get("amount_percent")
        amount = len(idx) if pct is None else pct * len(idx) / 100.0
        return dict(score=-abs(ndiff - amount), breach=None, region=True)
    if k == "sequence":
        a, b, st = desc["location"]
        sub = rc(s[a:b]) if st == -1 else s[a:b]
        bad = [i for i in range(b - a) if sub[i] not in IUPAC[desc["sequence"][i]]]
        pos = {(b - 1 - i) if st == -1 else (a + i) for i in bad}
        return dict(score=-len(bad), breach=pos, region=True)
    if k == "choice":
        a, b, st = desc["location"]
        sub = rc(s[a:b]) if st == -1 else s[a:b]
        allowed = {v for c in desc["choices"] for v in expand_iupac(c)}
        ok = sub in allowed
        return dict(score=0 if ok else -1, breach=set() if ok else set(range(a, b)), region=True)
    if k == "terminal":
        w = desc["window"]
        total, breach = 0.0, set()
        for a, b in ((0, w), (n - w, n)):
            g = gc_frac(s[a:b])
            ex = max(0, desc["mini"] - g) + max(0, g - desc["maxi"])
            total += ex
            if ex > 0:
                breach.update(range(a, b))
        return dict(score=-total, breach=breach, region=True)
    if k == "length":
        lo, hi = desc["min_length"], desc["max_length"]
        ok = n >= lo and (hi is None or n <= hi)
        return dict(score=0 if ok else -1, breach=None, region=False)
    if k in ("rare", "cai"):
        a, b, st = desc["location"]
        sub = s[a:b] if st != -1 else rc(s[a:b])
        codons = [sub[i:i + 3] for i in range(0, len(sub), 3)]
        table = hard.user_table(random.Random(desc["table_seed"]))
        freq = {c: f for aa, d in table.items() for c, f in d.items()}
        aa_of = {c: aa for aa, d in table.items() for c in d}
        pos, total = set(), 0.0
        for i, c in enumerate(codons):
            lo = a + 3 * i if st != -1 else b - 3 * (i + 1)
            if k == "rare":
                if freq[c] < desc["min_frequency"]:
                    total += freq[c] - desc["min_frequency"]
                    pos.update(range(lo, lo + 3))
            else:
                fmax = max(table[aa_of[c]].values())
                f = freq[c] or 0.001
                term = math.log(f) - math.log(fmax)
                total += term
                if term != 0:
                    pos.update(range(lo, lo + 3))
        return dict(score=total, breach=pos, region=True)
    if k == "kmers":
        if desc.get("reference") is not None:
            return None      # explicit references: covered by the model correspondence and the C08 laws, no documented formula here
        a, b, _ = loc_of(desc, n)
        kk = desc["k"]
        use_rc = desc["rc"]

        def canon(w):
            return min(w, rc(w)) if use_rc else w
        allk = {}
        for i in range(0, n - kk + 1):      # reference = the whole sequence
            allk.setdefault(canon(s[i:i + kk]), []).append(i)
        bad = [i for i in range(a, b - kk + 1) if len(allk[canon(s[i:i + kk])]) > 1]
        return dict(score=-len(bad), breach={j for i in bad for j in range(i, i + kk)}, region=True)
    return None
