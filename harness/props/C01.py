"""C01 — resolve_constraints returns only with every constraint satisfied."""
import vlib
import solverprops
import solvercase
import solverrec
from gen import problems

RULE = ("correspondence: real resolve_constraints() runs (8-40 nt, 1-5 constraints from all modelled built-ins on both "
        "strands with overlapping/frozen regions, user-defined specifications with wrong localization, lying or failing "
        "resolution heuristics, randomization_threshold in {0,53,10007}, mutations_per_iteration 1-3, max_random_iters "
        "5/50/300, local_extensions (0,5)/(0,)/(0,2,9)) recorded as tables + numpy tape and replayed by the Lean solver "
        "model: outcome class, final sequence, every assignment to a `sequence` attribute and tape consumption must "
        "agree; non-trivial = the run performed a local search (>= 3 assignments); distinct = request lines")
TRUSTED = ["harness/solverrec.py (class-level recording wrappers, tape, assignment trace), harness/props/C01.py oracle",
           "specification methods are replayed from recorded tables: the theorems quantify over arbitrary SpecOps",
           "EnforcePatternOccurence's nested insertion search is an oracle value in the replay (abstract heuristic in the theorems)"]
ASSUMPTIONS = ["well-formed problem: sequence over ATGC, locations inside the sequence, constructor succeeded",
               "`space_size < randomization_threshold` is decided on the exact product (thresholds no product equals)",
               "runs in which EnforceChanges flips its own `enforced_by_nucleotide_restrictions` flag are checked by the "
               "oracle only (attribute tables are static)"]


def all_enforced_problem(rng):
    """only constraints presumed enforced by the mutation space (overlapping / nested / contradictory): resolve_constraints
    returns early, so the result rests on the space construction alone"""
    from gen import hard
    from props import C04
    for _ in range(20):
        seq, descs = hard.rand_problem(rng, nmin=4, nmax=16, kmax=4, kinds=["keep", "keep_idx", "cds", "sequence", "choice", "change"])
        if rng.random() < 0.5:
            seq = hard.rand_seq(rng, len(seq))
        # start-codon policies that contradict the table / the requested translation are ill-formed input (see C04)
        if C04.wellformed(descs, seq):
            break
    return dict(sequence=seq, constraints=descs, objectives=[], settings=problems.rand_settings(rng), np_seed=rng.randint(0, 10 ** 6))


def kmers_with_partial_reference(rng):
    """a k-mer uniqueness constraint whose reference covers only part of its location (allowed by its documentation),
    and another constraint breached in the part of the location that the reference does not cover"""
    from gen import hard
    n = rng.randint(30, 50)
    seq = list(hard.rand_seq(rng, n))
    site = rng.choice(["GGTCTC", "GAATTC", "ACGT"])
    pos = rng.randint(0, 6)
    seq[pos:pos + len(site)] = site
    seq = "".join(seq)
    k = rng.choice([3, 4, 5])
    cons = [dict(kind="kmers", k=k, location=[0, rng.randint(2 * n // 3, n), 0], rc=rng.random() < 0.5,
                 reference=[rng.randint(n // 2, n - 8), n]),
            dict(kind="pattern", pattern=site, location=None)]
    rng.shuffle(cons)
    return dict(sequence=seq, constraints=cons, objectives=[], settings=problems.rand_settings(rng), np_seed=rng.randint(0, 10 ** 6))


def budget_over_positions(rng):
    """an edit budget over listed positions with gaps (AvoidChanges(indices=…, max_edits=k)) that covers several separate
    forbidden sites: each site costs one edit of the budget, whatever the order in which they are resolved"""
    from gen import hard
    site = rng.choice(["GGTCTC", "CGTCTC", "GAATTC", "ACGT"])
    k = len(site)
    nsites = rng.randint(2, 3)
    n = rng.randint(nsites * (k + 4) + 2, 60)
    seq = list(hard.rand_seq(rng, n))
    starts, pos = [], rng.randint(0, 3)
    for _ in range(nsites):
        if pos + k > n:
            break
        starts.append(pos)
        seq[pos:pos + k] = site
        pos += k + rng.randint(3, 8)
    idx = sorted(i for a in starts for i in range(a, a + k))
    budget = rng.randint(1, len(starts))
    cons = [dict(kind="keep_edits", max_edits=budget, indices=idx, location=None), dict(kind="pattern", pattern=site, location=None)]
    if rng.random() < 0.5:
        cons.reverse()
    return dict(sequence="".join(seq), constraints=cons, objectives=[], settings=problems.rand_settings(rng), np_seed=rng.randint(0, 10 ** 6))


def long_dense_lying_case(rng):
    """a long sequence with a hundred breaches of a user specification whose resolution heuristic claims success and
    changes nothing: the final check fails with a very long evaluation message (still a NoSolutionError)"""
    n = rng.randint(240, 320)
    seq = "".join(rng.choice("AAAT" if rng.random() < 0.8 else "GC") for _ in range(n))
    # (an imperfect localization: the localized copy is shrunk and sees nothing, so nothing is ever edited)
    cons = [dict(kind="user", motif="AA", shrink=rng.choice([2, 2, 3]), location=None, heuristic=rng.choice([None, None, "lying"]),
                 localized_none=False, priority=0, no_rh=False)]
    if rng.random() < 0.5:
        cons.append(dict(kind="pattern", pattern=rng.choice(["GGTCTC", "CGTCTC"]), location=None))
    return dict(sequence=seq, constraints=cons, objectives=[], settings=problems.rand_settings(rng), np_seed=rng.randint(0, 10 ** 6))


def nearly_frozen_random_search(rng):
    """all but a few positions frozen, the random search forced (threshold 0) with more mutations per iteration than
    there are mutable choices in the local problems"""
    d = problems.rand_small_problem(rng, objectives=False)
    d["settings"] = dict(d["settings"], randomization_threshold=0, mutations_per_iteration=rng.choice([3, 3, 4]))
    return d


def gen_cases(rng, n):
    for i in range(n):
        if i % 12 == 1:
            yield dict(desc=nearly_frozen_random_search(rng), op="resolve")
            continue
        if i % 12 == 9:
            yield dict(desc=long_dense_lying_case(rng), op="resolve")
            continue
        if i % 12 == 3:
            yield dict(desc=budget_over_positions(rng), op="resolve")
            continue
        if i % 12 == 7:
            yield dict(desc=kmers_with_partial_reference(rng), op="resolve")
            continue
        if i % 6 == 5:
            yield dict(desc=all_enforced_problem(rng), op="resolve")
            continue
        yield dict(desc=problems.rand_solver_problem(rng, objectives=False), op="resolve")


def oracle(results, out):
    """The property on the real objects: returned => every constraint passes (no autopass);
    raised => NoSolutionError (or the injected fault)."""
    n = 0
    for r in results:
        p, info, case = r["problem"], r["info"], r["case"]
        n += 1
        inp = dict(desc=case["desc"], op=case["op"])
        if info["outcome"] == "ok":
            failing = []
            for c in p.constraints:
                try:
                    if not c.evaluate(p).passes:
                        failing.append(str(c))
                except Exception as e:  # noqa
                    failing.append("%s raised %s" % (c, type(e).__name__))
            if failing:
                out.append(dict(kind="returned-with-breach", input=inp, detail="final %s failing %s" % (p.sequence, failing)))
            elif not case["desc"].get("reuse_after") and not case["desc"].get("construct_first"):
                # ... and by an independent reading of every constraint's documentation against the *input* sequence
                # (the objects' own evaluation could be looking at a reference that moved)
                import oracle_doc
                seq0 = case["desc"]["sequence"].upper()
                for d in case["desc"]["constraints"]:
                    if d["kind"] == "kmers":
                        continue    # evaluation vs documentation of UniquifyAllKmers is the open finding D9 (tracked under C10)
                    try:
                        w = oracle_doc.doc(d, seq0, p.sequence)
                    except Exception:
                        w = None
                    if w is not None and w["score"] < -1e-9:
                        out.append(dict(kind="returned-with-breach:by-documentation", input=inp,
                                        detail="%s -> %s: %s scores %r" % (seq0, p.sequence, d, w["score"])))
                        break
        elif info["outcome"] != "NoSolution" and not info["outcome"].startswith("fault:7"):
            exc = info.get("exception")
            kind = "wrong-exception:%s" % (type(exc).__name__ if exc is not None else info["outcome"])
            cons = case["desc"]["constraints"]
            if isinstance(exc, RecursionError) and any(c["kind"] == "insert" for c in cons) and \
                    any(c["kind"] == "user" and c.get("heuristic") for c in cons):
                # the recorded finding: the pattern-insertion heuristic and another specification's resolution heuristic
                # undo each other without bound
                kind = "wrong-exception:RecursionError:insertion-vs-user-heuristic"
            out.append(dict(kind=kind, input=inp, detail=repr(exc)[:300]))
    return n


def correspondence(ctx):
    results, skipped = solverprops.run_cases(gen_cases(ctx.rng, ctx.n(500, 6000)))
    ctx._results = results
    c = solverprops.correspondence_of(results)
    return solverprops.summarize(c, skipped)


def search(ctx, budget, hints):
    out = []
    results = getattr(ctx, "_results", [])
    n = oracle(results, out)
    # an independent second stream of problems for the oracle alone (no replay): detection must not hinge on one stream
    rng = vlib.Rng(ctx.seed + 101)
    more, _ = solverprops.run_cases(gen_cases(rng, 150 * budget))
    n += oracle(more, out)
    # replay disagreeing cases through the oracle first (they are already in results)
    cex, hist = solverprops.shrink_best(out)
    return dict(counterexamples=cex, evaluations=n, hist=hist,
                samples=[dict(oracle="re-evaluate every constraint with autopass=False after return; exception class after raise")])


def replay(ctx, case):
    inp = case["input"]
    r = solvercase.run_case(inp["desc"], inp["op"])
    if "skip" in r:
        return False
    r["case"] = dict(desc=inp["desc"], op=inp["op"])
    out = []
    oracle([r], out)
    return bool(out)
