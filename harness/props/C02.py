"""C02 — optimize() never trades a satisfied constraint for objective score."""
import vlib
import solverprops
import solvercase
from gen import problems

RULE = ("correspondence: optimize() (after an unrecorded resolve_constraints()) on 8-40 nt problems and direct "
        "optimize_by_exhaustive_search / optimize_by_random_mutations on enumerable problems, built-in constraints and "
        "objectives with boosts in {0,0.5,1,2,3}, plus a targeted family (stop-codon-free regions on either strand against A/T-pulling objectives), all solver settings; recorded and replayed by the Lean solver model; "
        "non-trivial = at least 3 assignments; oracle: all_constraints_pass(autopass=False) before and after on the real object")
TRUSTED = ["harness recorder/replay", "oracle in harness/props/C02.py"]
ASSUMPTIONS = ["built-in specifications only (user-defined ones with wrong localization are outside this property)",
               "the theorem is conditional on the localization soundness of each constraint (C08) — see the Lean file"]

BUILTIN_SOFT = ["pattern", "pattern", "gcwin", "gcwin", "stop", "kmers", "terminal", "hairpin", "keep_edits", "insert", "regex"]


def strip_user(d):
    d["objectives"] = [o for o in d["objectives"] if not o["kind"].startswith("user")]
    return d


def stop_vs_objective(rng):
    """a region that must stay free of stop codons (either strand, not protected by EnforceTranslation, so local regions
    cut codons anywhere) against objectives that pull towards A/T-rich or prescribed bases"""
    from gen import hard
    n = rng.randint(9, 30)
    seq = "".join(rng.choice("ATGC" if rng.random() < 0.5 else "GC") for _ in range(n))
    m = rng.randint(1, n // 3)
    a = rng.randint(0, n - 3 * m)
    table = rng.choice(["Standard", "Bacterial", "Vertebrate Mitochondrial", "Vertebrate Mitochondrial", "Ciliate Nuclear"])
    st = rng.choice([1, -1, -1])
    cons = [dict(kind="stop", location=[a, a + 3 * m, st], table=table)]
    w = min(rng.choice([3, 4, 5, 8]), n)
    objs = [dict(kind="gc_obj", target=rng.choice([0.0, 0.1, 0.25]), window=w, boost=rng.choice([1, 2]))]
    if rng.random() < 0.5:
        # an objective that asks, in frame, for codons that are stops in this table
        from Bio.Data import CodonTable
        stops = CodonTable.unambiguous_dna_by_name[table].stop_codons
        j = rng.randint(0, m - 1)
        codon = rng.choice(stops)
        lo = a + 3 * j if st == 1 else a + 3 * (m - 1 - j)
        target = codon if st == 1 else "".join({"A": "T", "T": "A", "G": "C", "C": "G"}[c] for c in reversed(codon))
        objs = [dict(kind="sequence_obj", sequence=target, location=[lo, lo + 3, 1], boost=rng.choice([1, 2]))]
    if rng.random() < 0.4:
        objs.append(dict(kind="change_obj", location=None, amount_percent=None, boost=rng.choice([0.5, 1])))
    return dict(sequence=seq, constraints=cons, objectives=objs, settings=problems.rand_settings(rng), np_seed=rng.randint(0, 10 ** 6))


def protected_kmers_vs_objective(rng):
    """k-mers of a sub-region must stay unique in the whole sequence; an objective rewards writing a copy of one of them
    in the flank (outside the sub-region, inside the reference)"""
    from gen import hard
    n = rng.randint(30, 60)
    seq = hard.rand_seq(rng, n)
    k = rng.choice([4, 5, 6])
    m = rng.randint(12, n // 2)
    left = rng.random() < 0.5
    loc = [0, m, rng.choice([0, 1])] if left else [n - m, n, rng.choice([0, 1])]
    i = rng.randint(loc[0], loc[1] - k)
    word = seq[i:i + k]
    lo, hi = (m + 2, n - k) if left else (0, n - m - k - 2)
    if hi < lo:
        lo = hi = max(0, min(n - k, lo))
    j = rng.randint(lo, hi)
    cons = [dict(kind="kmers", k=k, location=loc, rc=rng.random() < 0.5)]
    objs = [dict(kind="sequence_obj", sequence=word, location=[j, j + k, 1], boost=rng.choice([1, 2]))]
    return dict(sequence=seq, constraints=cons, objectives=objs, settings=problems.rand_settings(rng), np_seed=rng.randint(0, 10 ** 6))


def regex_vs_objective(rng):
    """a forbidden regular expression given without a size (its matches are longer than its text) against an objective
    that rewards writing the one missing nucleotide of an occurrence, at either end of it"""
    from gen import hard
    expr, inst = rng.choice([("A{6}", "AAAAAA"), ("A{8}", "AAAAAAAA"), ("T{6}", "TTTTTT"), ("(GC){3}", "GCGCGC"),
                             ("[AT]{6}", "".join(rng.choice("AT") for _ in range(6))), ("C{5,}", "CCCCCC")])
    n = rng.randint(len(inst) + 2, 30)
    seq = list(hard.rand_seq(rng, n))
    i = rng.randint(0, n - len(inst))
    st = rng.choice([1, 1, 0, -1])
    word = inst if st != -1 else hard.rc(inst)
    seq[i:i + len(inst)] = word
    j = i + rng.choice([0, len(inst) - 1, rng.randint(0, len(inst) - 1)])
    missing = seq[j]
    seq[j] = rng.choice([c for c in "ATGC" if c != missing and (expr != "[AT]{6}" or c in "GC")])
    seq = "".join(seq)
    cons = [dict(kind="regex", expr=expr, location=None if st == 0 else [0, n, st], wrapped=rng.random() < 0.5)]
    objs = [dict(kind="sequence_obj", sequence=missing, location=[j, j + 1, 1], boost=rng.choice([1, 2]))]
    if rng.random() < 0.3:
        objs.append(dict(kind="keep_obj", location=None, boost=0.5))
    return dict(sequence=seq, constraints=cons, objectives=objs, settings=problems.rand_settings(rng), np_seed=rng.randint(0, 10 ** 6))


def terminal_vs_global_gc(rng, as_objective=False):
    """both terminal windows hold a moderate GC content; a global (non-windowed) GC target pulls the whole sequence
    towards an extreme one: its breach location is the whole sequence, so one local problem overlaps BOTH ends"""
    from gen import hard
    n = rng.randint(24, 60)
    w = rng.randint(4, 8)
    half = lambda k: "".join(rng.sample("GC" * k + "AT" * k, 2 * k))
    seq = half(w)[:w] + hard.rand_seq(rng, n - 2 * w) + half(w)[:w]
    term = dict(kind="terminal", window=w, mini=0.25, maxi=0.75)
    gc = dict(kind="gc_obj", target=rng.choice([0.05, 0.95, 0.9, 0.1]), window=None, boost=rng.choice([1, 1, 2]), location=None)
    d = dict(sequence=seq, constraints=[] if as_objective else [term], objectives=[term, gc] if as_objective else [gc],
             settings=problems.rand_settings(rng), np_seed=rng.randint(0, 10 ** 6))
    if rng.random() < 0.5:
        d["constraints"].append(dict(kind="keep_idx", indices=sorted(rng.sample(range(w, n - w), (n - 2 * w) // 2))))
    return d


def frozen_inside_codon_vs_objective(rng):
    """a frozen region that ends (or starts) inside a codon of a coding region whose synonyms differ at the frozen
    nucleotide, and an objective that would like another synonym: the two restrictions must be merged, not overwritten"""
    six = {"S": ["TCA", "TCC", "TCG", "TCT", "AGC", "AGT"], "L": ["CTA", "CTC", "CTG", "CTT", "TTA", "TTG"],
           "R": ["CGA", "CGC", "CGG", "CGT", "AGA", "AGG"]}
    m = rng.randint(3, 6)
    cods = [rng.choice(six[rng.choice("SLR")]) for _ in range(m)]
    seq = "".join(cods)
    j = rng.randint(0, m - 1)
    if rng.random() < 0.5:
        keep = [0, 3 * j + rng.choice([1, 2]), 1]
    else:
        keep = [3 * j + rng.choice([1, 2]), 3 * m, 1]
    cons = [dict(kind="cds", location=[0, 3 * m, 1], table="Standard", start_codon=None, translation=None),
            dict(kind="keep", location=keep)]
    rng.shuffle(cons)
    obj = rng.choice([dict(kind="gc_obj", target=rng.choice([0.05, 0.95]), window=None, boost=1, location=None),
                      dict(kind="change_obj", location=None, amount_percent=None, boost=1),
                      dict(kind="cai", location=[0, 3 * m, 1], table_seed=rng.randint(0, 10 ** 6), boost=1)])
    return dict(sequence=seq, constraints=cons, objectives=[obj], settings=problems.rand_settings(rng), np_seed=rng.randint(0, 10 ** 6))


def gen_cases(rng, n):
    for i in range(n):
        if i % 10 == 9:
            yield dict(desc=frozen_inside_codon_vs_objective(rng), op="optimize", pre_ops=("resolve",))
            continue
        if i % 10 == 1:
            yield dict(desc=terminal_vs_global_gc(rng), op="optimize", pre_ops=("resolve",))
            continue
        if i % 10 == 3:
            yield dict(desc=regex_vs_objective(rng), op="optimize", pre_ops=("resolve",))
            continue
        if i % 10 == 7:
            yield dict(desc=protected_kmers_vs_objective(rng), op="optimize", pre_ops=("resolve",))
            continue
        if i % 5 == 4:
            yield dict(desc=stop_vs_objective(rng), op="optimize", pre_ops=("resolve",))
            continue
        r = i % 4
        if r < 2:
            yield dict(desc=strip_user(problems.rand_solver_problem(rng, soft=BUILTIN_SOFT)), op="optimize", pre_ops=("resolve",))
        elif r == 2:
            yield dict(desc=strip_user(problems.rand_small_problem(rng, soft=BUILTIN_SOFT)), op="exh_optimize", pre_ops=("resolve",))
        else:
            yield dict(desc=strip_user(problems.rand_small_problem(rng, soft=BUILTIN_SOFT)), op="rnd_optimize", pre_ops=("resolve",))


def oracle(results, out):
    n = 0
    for r in results:
        p, info, case = r["problem"], r["info"], r["case"]
        start = r["line"].split(" | ")[4].strip()
        old = p.sequence
        object.__setattr__(p, "sequence", start)
        try:
            before = p.all_constraints_pass(autopass=False)
        except Exception:
            before = False
        object.__setattr__(p, "sequence", old)
        if not before:
            continue
        n += 1
        try:
            failing = [str(c) for c in p.constraints if not c.evaluate(p).passes]
        except Exception as e:  # noqa
            failing = ["evaluation raised %s" % type(e).__name__]
        if failing:
            out.append(dict(kind="optimize-broke-constraint", input=dict(desc=case["desc"], op=case["op"], pre_ops=list(case["pre_ops"])),
                            detail="%s -> %s breaks %s (outcome %s)" % (start, p.sequence, failing, info["outcome"])))
    return n


def correspondence(ctx):
    results, skipped = solverprops.run_cases(gen_cases(ctx.rng, ctx.n(500, 8000)))
    ctx._results = results
    c = solverprops.correspondence_of(results)
    return solverprops.summarize(c, skipped)


def search(ctx, budget, hints):
    out = []
    n = oracle(getattr(ctx, "_results", []), out)
    # an independent second stream of problems for the oracle alone (no replay): detection must not hinge on one stream
    rng = vlib.Rng(ctx.seed + 202)
    more, _ = solverprops.run_cases(gen_cases(rng, (150 if budget == 1 else 300) * budget))
    n += oracle(more, out)
    cex, hist = solverprops.shrink_best(out)
    return dict(counterexamples=cex, evaluations=n, hist=hist,
                samples=[dict(oracle="all_constraints_pass(autopass=False) before/after optimize on the real object")])


def replay(ctx, case):
    inp = case["input"]
    r = solvercase.run_case(inp["desc"], inp["op"], pre_ops=tuple(inp.get("pre_ops", ())))
    if "skip" in r:
        return False
    r["case"] = dict(desc=inp["desc"], op=inp["op"], pre_ops=tuple(inp.get("pre_ops", ())))
    out = []
    oracle([r], out)
    return bool(out)
