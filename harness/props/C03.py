"""C03 — optimize() never lowers the weighted objective total."""
import vlib
import solverprops
import solvercase
from gen import problems
from props import C02

RULE = ("correspondence: optimize() runs as in C02 plus a second optimize() on the same problem (recorded separately), "
        "built-in objectives other than UniquifyAllKmers with boosts in {0,0.5,1,2,3}, plus a targeted family (a satisfied high-boost EnforceSequence / AvoidChanges objective on a sub-region of either strand against a pattern whose only occurrence straddles its border); non-trivial = at least 3 "
        "assignments; oracle: objective_scores_sum() before / after one and two optimize() calls on the real object")
TRUSTED = ["harness recorder/replay", "oracle in harness/props/C03.py"]
ASSUMPTIONS = ["totals are IEEE doubles: a decrease smaller than 1e-9 (relative) is attributed to rounding (partial)",
               "objectives: all modelled built-ins except UniquifyAllKmers (excluded by the property) and user-defined ones",
               "the theorem is conditional on score-faithful localization of each objective (C09)"]


def clean(d):
    d["objectives"] = [o for o in d["objectives"] if not o["kind"].startswith("user") and o["kind"] != "kmers_obj"]
    return d


COMP = {"A": "T", "T": "A", "G": "C", "C": "G"}


def satisfied_vs_straddling(rng):
    """a high-boost objective that is already at its best on a sub-region (either strand) and a low-boost objective
    whose only breach straddles that sub-region's border: optimizing the second must not cost more on the first"""
    from gen import hard
    n = rng.randint(20, 40)
    seq = hard.rand_seq(rng, n)
    a = rng.randint(4, n - 12)
    b = rng.randint(a + 6, min(n - 2, a + 14))
    st = rng.choice([1, -1, -1])
    sub = seq[a:b]
    target = sub if st == 1 else "".join(COMP[c] for c in reversed(sub))
    kind = rng.choice(["sequence_obj", "sequence_obj", "keep_obj", "cds_obj", "cds_obj"])
    if kind == "sequence_obj":
        strong = dict(kind="sequence_obj", sequence=target, location=[a, b, st], boost=rng.choice([3, 5]))
    elif kind == "keep_obj":
        strong = dict(kind="keep_obj", location=[a, b, rng.choice([1, 0])], boost=rng.choice([3, 5]))
    else:
        b = a + 3 * max(2, (b - a) // 3)
        if b > n:
            b = a + 3 * ((n - a) // 3)
        # a protein to keep, as a weighted objective (single-codon amino acids make every edit costly)
        strong = dict(kind="cds_obj", location=[a, b, st], table=rng.choice(["Standard", "Bacterial"]), boost=rng.choice([3, 5]))
        if rng.random() < 0.7:
            region = "".join(rng.choice(["ATG", "TGG"]) for _ in range((b - a) // 3))      # no synonymous way out
            if st == -1:
                region = "".join(COMP[c] for c in reversed(region))
            seq = seq[:a] + region + seq[b:]
    # the weak objective: avoid a word that occurs exactly once, across position a (or b)
    edge = a if rng.random() < 0.6 else b
    k = rng.choice([4, 5, 6])
    off = rng.randint(1, k - 1)
    w0 = max(0, min(n - k, edge - off))
    word = seq[w0:w0 + k]
    if kind == "cds_obj" and rng.random() < 0.6:
        w0 = rng.randint(a, max(a, b - k))         # a word inside the protein-coding region
    word = seq[w0:w0 + k]
    weak = dict(kind="pattern_obj", pattern=word, boost=rng.choice([0.5, 1, 2, 2]))
    return dict(sequence=seq, constraints=[], objectives=[strong, weak] if rng.random() < 0.5 else [weak, strong],
                settings=problems.rand_settings(rng), np_seed=rng.randint(0, 10 ** 6))


def enforced_changes_vs_keep(rng):
    """an objective asking for changes at listed positions (the list as a user writes it, unsorted) against an objective
    that favours the original nucleotides; optimized twice"""
    from gen import hard
    n = rng.randint(10, 24)
    seq = hard.rand_seq(rng, n)
    idx = rng.sample(range(n), rng.randint(2, min(6, n)))
    strong = dict(kind="change_obj", location=None, indices=idx, amount_percent=None, boost=rng.choice([2, 3]))
    if rng.random() < 0.5:
        weak = dict(kind="keep_obj", location=None if rng.random() < 0.5 else [0, n, 0], boost=1)
    else:
        weak = dict(kind="sequence_obj", sequence=seq, location=[0, n, 1], boost=1)
    objs = [weak, strong] if rng.random() < 0.7 else [strong, weak]
    return dict(sequence=seq, constraints=[], objectives=objs, settings=problems.rand_settings(rng), np_seed=rng.randint(0, 10 ** 6))


def region_gc_vs_flank(rng):
    """a windowed GC objective restricted to a region that starts well after position 0, next to a flank whose GC
    content is the opposite extreme; only a few nucleotides at the region's left edge are free"""
    from gen import hard
    n = rng.randint(24, 44)
    w = rng.choice([5, 8, 10])
    a = rng.randint(w, n - w - 4)
    b = n if rng.random() < 0.6 else rng.randint(a + w + 2, n)
    flank = rng.choice(["GC", "AT"])
    seq = "".join(rng.choice(flank) for _ in range(a)) + "".join(rng.choice("AATTGC" if flank == "GC" else "GGCCAT") for _ in range(n - a))
    free = rng.randint(2, 5)
    cons = [dict(kind="keep", location=[0, a, 0])]
    if a + free < n:
        cons.append(dict(kind="keep", location=[a + free, n, 0]))
    objs = [dict(kind="gc_obj", target=rng.choice([0.4, 0.5, 0.6]), window=w, location=[a, b, rng.choice([1, 0])], boost=rng.choice([1, 2]))]
    return dict(sequence=seq, constraints=cons, objectives=objs, settings=problems.rand_settings(rng), np_seed=rng.randint(0, 10 ** 6))


def gen_cases(rng, n):
    for i in range(n):
        if i % 9 == 6:
            yield dict(desc=C02.terminal_vs_global_gc(rng, as_objective=True), op="optimize", pre_ops=() if i % 2 else ("optimize",))
            continue
        if i % 9 == 2:
            yield dict(desc=region_gc_vs_flank(rng), op="optimize", pre_ops=() if i % 2 else ("optimize",))
            continue
        if i % 7 == 5:
            yield dict(desc=enforced_changes_vs_keep(rng), op="optimize", pre_ops=("optimize",))
            continue
        if i % 5 == 3:
            yield dict(desc=satisfied_vs_straddling(rng), op="optimize", pre_ops=())
            continue
        d = clean(problems.rand_solver_problem(rng, soft=C02.BUILTIN_SOFT))
        if not d["objectives"]:
            d["objectives"] = [problems.rand_objective(rng, d["sequence"])]
            clean(d)
        yield dict(desc=d, op="optimize", pre_ops=("resolve",) if i % 2 == 0 else ("resolve", "optimize"))


def total_at(p, s):
    old = p.sequence
    object.__setattr__(p, "sequence", s)
    try:
        return float(p.objective_scores_sum())
    finally:
        object.__setattr__(p, "sequence", old)


def oracle(results, out):
    n = 0
    for r in results:
        p, info, case = r["problem"], r["info"], r["case"]
        if info["outcome"] != "ok":
            continue
        start = r["line"].split(" | ")[4].strip()
        try:
            before, after = total_at(p, start), total_at(p, p.sequence)
        except Exception:
            continue
        n += 1
        if after < before - 1e-9 * max(1.0, abs(before)):
            out.append(dict(kind="optimize-lowered-total", input=dict(desc=case["desc"], op=case["op"], pre_ops=list(case["pre_ops"])),
                            detail="%s (%r) -> %s (%r)" % (start, before, p.sequence, after)))
    return n


def correspondence(ctx):
    results, skipped = solverprops.run_cases(gen_cases(ctx.rng, ctx.n(400, 6000)))
    ctx._results = results
    c = solverprops.correspondence_of(results)
    return solverprops.summarize(c, skipped)


def search(ctx, budget, hints):
    out = []
    n = oracle(getattr(ctx, "_results", []), out)
    if budget > 1 or n == 0:
        rng = vlib.Rng(ctx.seed + 303)
        more, _ = solverprops.run_cases(gen_cases(rng, 250 * budget))
        n += oracle(more, out)
    cex, hist = solverprops.shrink_best(out)
    return dict(counterexamples=cex, evaluations=n, hist=hist,
                samples=[dict(oracle="objective_scores_sum() before/after optimize(), first and repeated call")])


def replay(ctx, case):
    inp = case["input"]
    r = solvercase.run_case(inp["desc"], inp["op"], pre_ops=tuple(inp.get("pre_ops", ())))
    if "skip" in r:
        return False
    r["case"] = dict(desc=inp["desc"], op=inp["op"], pre_ops=tuple(inp.get("pre_ops", ())))
    out = []
    oracle([r], out)
    return bool(out)
