"""C04 — the mutation space is exactly the set of sequences the hard constraints allow."""
import itertools

import vlib
import bspec
import oracle_doc
from gen import hard
from props import C15

RULE = ("correspondence: (i) restrict_nucleotides() of every nucleotide-restricting class (AvoidChanges location/indices, "
        "EnforceTranslation both strands / all start-codon policies / several genetic tables, EnforceSequence IUPAC both "
        "strands, EnforceChoice, EnforceChanges, AvoidRareCodons) model vs implementation; (ii) the space built by "
        "from_optimization_problem from random sets of 1-4 overlapping / nested / antisense / contradictory hard "
        "constraints on 3-12 nt: choices_list, unsolvable segments, constrained initial sequence under the recorded "
        "tape; non-trivial = at least two restrictions overlap; oracle: for sequences of length <= 7, brute force over "
        "all 4^L sequences with the documented predicates written independently (harness/oracle_doc.py)")
TRUSTED = ["harness/oracle_doc.py documented predicates", "harness/gen/hard.py generator", "tape recorder"]
ASSUMPTIONS = ["an EnforceTranslation start-codon policy naming a codon that is not a start codon of the table, or the policy "
               "'keep' together with an explicit translation that the kept codon does not give, is ill-formed input (the "
               "enforced constraint then fails its own evaluate); excluded from the oracle",
               "EnforceChanges without a location keeps the quirk that its enforced flag is set on the user's object"]

HARD_KINDS = ["keep", "keep_idx", "cds", "sequence", "choice", "change", "rare"]


def correspondence(ctx):
    rng = ctx.rng
    c = vlib.Corr()
    skipped = {}
    # (i) restrict per class
    for _ in range(ctx.n(2500, 40000)):
        n = rng.randint(3, 18)
        seq = hard.rand_seq(rng, n)
        d = bspec.rand_spec_desc(rng, seq, HARD_KINDS + ["change_min", "keep_edits"])
        if d["kind"] == "cds" and rng.random() < 0.35:
            seq = hard.plant_coding_region(rng, seq, d)
        try:
            spec, stub = bspec.init_spec(d, seq)
        except Exception as e:
            skipped[type(e).__name__] = skipped.get(type(e).__name__, 0) + 1
            continue
        t = bspec.text(spec)
        stub.constraints = [spec]
        try:
            rs = hard.restrictions_of(stub)
            ans = "-" if not rs else " ".join("%d:%d:%s" % (a, b, ",".join(sorted(vs))) for a, b, vs in rs)
        except Exception:
            ans = "raises"
        c.add("spec.restrict | %s | %s" % (t, seq), ans, meta=dict(sequence=seq, spec=d), nontrivial=ans not in ("-", "raises"),
              branch="restrict:%s" % d["kind"])
    # (ii) whole-space construction (shared with C15's generator, richer overlap)
    for _ in range(ctx.n(900, 15000)):
        seq, descs = hard.rand_problem(rng, nmin=3, nmax=12, kmax=4, kinds=HARD_KINDS)
        try:
            built = vlib.limited(lambda: C15.build(seq, descs), 10, None, skipped)
            if built is None:
                continue
            stub, space, restrs = built
        except Exception as e:
            skipped["build:" + type(e).__name__] = skipped.get("build:" + type(e).__name__, 0) + 1
            continue
        head = "%s %s" % (seq, hard.restr_tokens(restrs))
        overlap = any(r1[0] < r2[1] and r2[0] < r1[1] for i, r1 in enumerate(restrs) for r2 in restrs[i + 1:])
        c.add("space.build " + head,
              C15.fmt_choices(space.choices_list) + " | unsolvable " + " ".join("%d-%d" % tuple(s) for s in space.unsolvable_segments),
              meta=dict(sequence=seq, constraints=descs), nontrivial=overlap,
              branch="build:%s%s" % ("unsolvable" if space.unsolvable_segments else ("overlap" if overlap else "plain"),
                                     # hypothesis of from_optimization_problem_exact (restrictions inside the sequence,
                                     # non-empty segments, variants of the segment's length)
                                     "" if all(a < b <= len(seq) and all(len(v) == b - a for v in vs) for a, b, vs in restrs) else ":outside-RestrOK"))
    c.run()
    hist = dict(c.hist)
    for k, v in skipped.items():
        hist["skipped:" + k] = v
    kk = len(c.lines)
    return dict(evaluations=c.evaluations, nontrivial=len(c.nontrivial), hist=hist,
                samples=[dict(request=c.lines[i][:300], answer=str(c.impl[i])[:200]) for i in (0, kk // 2, kk - 1) if i < kk],
                disagreements=[dict(request=x["request"][:1500], model=x["model"][:400], impl=str(x["impl"])[:400], meta=x["meta"])
                               for x in c.disagreements])


def allowed_by_docs(descs, original, s):
    """every hard constraint's documented predicate holds on s"""
    for d in descs:
        w = oracle_doc.doc(d, original, s)
        if w is None:
            return None
        if d["kind"] == "cds" and d.get("start_codon") is not None:
            # the policy additionally fixes the first codon
            a, b, st = d["location"]
            first = s[a:a + 3] if st != -1 else oracle_doc.rc(s[b - 3:b])
            ofirst = original[a:a + 3] if st != -1 else oracle_doc.rc(original[b - 3:b])
            pol = d["start_codon"]
            okc = (first == ofirst) if pol == "keep" else (first in ([pol] if isinstance(pol, str) else list(pol)))
            if not okc:
                return False
        if w["score"] < 0:
            return False
    return True


def wellformed(descs, seq=None):
    from Bio.Data import CodonTable
    for d in descs:
        if d["kind"] == "cds" and d.get("start_codon") == "keep" and d.get("translation") and seq is not None:
            # "keep the current first codon" together with an explicit translation that this codon does not give
            # (read as a start codon) asks for two incompatible things: ill-formed input, like a policy codon that
            # is not a start codon of the table
            a, b, st = d["location"]
            first = seq[a:a + 3] if st != -1 else oracle_doc.rc(seq[b - 3:b])
            if oracle_doc.translate(first, d["table"], True)[:1] != d["translation"][:1]:
                return False
        if d["kind"] == "cds" and d.get("start_codon") not in (None, "keep"):
            pol = d["start_codon"]
            starts = CodonTable.unambiguous_dna_by_name[d["table"]].start_codons
            if any(c not in starts for c in ([pol] if isinstance(pol, str) else pol)):
                return False
    return True


def oracle_problem(rng, out):
    import dnachisel as dc
    import numpy as np
    seq, descs = hard.rand_problem(rng, nmin=3, nmax=7, kmax=3, kinds=HARD_KINDS)
    if rng.random() < 0.15:
        # a two-codon gene of a non-Standard genetic table that starts with one of the table's start codons and whose
        # translation is read from the sequence
        table = rng.choice(hard.TABLES[1:])
        starts = hard.table_specific_codons(table)[1]
        d = dict(kind="cds", location=[0, 6, rng.choice([1, 1, -1])], table=table, translation=None,
                 start_codon=rng.choice(["keep", rng.choice(starts), sorted(rng.sample(starts, min(2, len(starts))))]))
        if rng.random() < 0.5:
            d["location"] = [1, 7, d["location"][2]]
        seq = hard.plant_coding_region(rng, hard.rand_seq(rng, 7), d)
        descs = [d] + descs[:1]
    if not wellformed(descs, seq):
        return 0
    try:
        stub, space, restrs = C15.build(seq, descs)
    except Exception:
        return 0
    n = len(seq)
    inp = dict(sequence=seq, constraints=descs)
    allowed = set()
    for t in itertools.product("ATGC", repeat=n):
        s = "".join(t)
        ok = allowed_by_docs(descs, seq, s)
        if ok is None:
            return 0
        if ok:
            allowed.add(s)
    unsolv = bool(space.unsolvable_segments)
    if unsolv != (len(allowed) == 0):
        out.append(dict(kind="unsolvable-iff-empty", input=inp,
                        detail="unsolvable segments %s but %d sequences satisfy the constraints" % (space.unsolvable_segments, len(allowed))))
        return 1
    if unsolv:
        return 1
    lang = set()
    slots = [[(c.start, c.end, str(v)) for v in c.variants] for c in space.choices_list]
    covered = sorted(i for c in space.choices_list for i in range(c.start, c.end))
    if covered != list(range(n)):
        out.append(dict(kind="space-does-not-tile-sequence", input=inp, detail=C15.fmt_choices(space.choices_list)))
        return 1
    for combo in itertools.product(*slots):
        t = [None] * n
        for a, b, v in combo:
            t[a:b] = v
        lang.add("".join(t))
    if lang != allowed:
        out.append(dict(kind="space-not-exact", input=inp,
                        detail="in space not allowed: %s ; allowed not in space: %s" % (sorted(lang - allowed)[:3], sorted(allowed - lang)[:3])))
    # "satisfies all of those constraints" as the constraint objects themselves judge it (their evaluate(), on the
    # objects initialised for this problem): every sampled member of the space passes all of them, every sampled
    # non-member fails at least one
    if lang == allowed:
        members = sorted(lang)
        rng.shuffle(members)
        others = [hard.rand_seq(rng, n) for _ in range(12)]
        for s in [seq] + members[:12] + others:
            try:
                verdict = all(bool(c.evaluate(hard.Stub(s)).passes) for c in stub.constraints)
            except Exception:
                continue
            # an explicit start-codon policy ("keep", "ATG", [...]) restricts the first codon beyond what evaluate()
            # tests (any start codon of the table reads as M): only "member => passes" is claimed there
            policy = any(d["kind"] == "cds" and d.get("start_codon") is not None for d in descs)
            if verdict != (s in lang) and not (policy and verdict and s not in lang):
                out.append(dict(kind="space-vs-evaluate", input=inp,
                                detail="%s is %s the space but the constraints' evaluate() says %s" % (
                                    s, "in" if s in lang else "outside", "pass" if verdict else "fail")))
                break
    # the problem's initial sequence lies in the space, for any random stream
    np.random.seed(rng.randint(0, 10 ** 6))
    try:
        p = dc.DnaOptimizationProblem(seq if rng.random() < 0.5 else hard.rand_seq(rng, n),
                                      constraints=[hard.build_constraint(d) for d in descs], logger=None)
        # (a different starting sequence changes what 'unchanged' / 'translation' refer to: only check membership
        #  in the space of *that* problem)
        if not all(p.sequence[c.start:c.end] in [str(v) for v in c.variants] for c in p.mutation_space.choices_list):
            out.append(dict(kind="initial-sequence-outside-space", input=inp, detail=p.sequence))
    except ValueError:
        pass
    return 1


def search(ctx, budget, hints):
    rng = vlib.Rng(ctx.seed + 404)
    out = []
    n = 0
    tstats = {}
    for _ in range(350 * budget):
        n += vlib.limited(lambda: oracle_problem(rng, out), 20, 0, tstats)
    best, hist = {}, {"skipped:" + k: v for k, v in tstats.items()}
    for c in out:
        hist[c["kind"]] = hist.get(c["kind"], 0) + 1
        k = c["kind"]
        if k not in best or len(str(c["input"])) < len(str(best[k]["input"])):
            best[k] = c
    return dict(counterexamples=list(best.values()), evaluations=n, hist=hist, exhaustive=True,
                samples=[dict(oracle="all 4^L sequences (L <= 7) against the documented predicates")])


def replay(ctx, case):
    # re-run the generator deterministically is not possible from the input alone: evaluate the same problem
    out = []
    inp = case["input"]

    class R(vlib.Rng):
        pass
    import gen.hard as H
    orig = H.rand_problem
    H.rand_problem = lambda *a, **k: (inp["sequence"], inp["constraints"])
    try:
        oracle_problem(vlib.Rng(0), out)
    finally:
        H.rand_problem = orig
    return bool(out)
