"""C05 — results are a function of the inputs and the numpy seed only."""
import json
import os
import subprocess
import sys
from concurrent.futures import ThreadPoolExecutor

import vlib
from gen import hard, problems
from props import C15
from tape import Recorder

RULE = ("correspondence: constrain_sequence / apply_random_mutations / all_variants of real MutationSpace objects (variants "
        "held in Python sets) vs the model given the same restrictions with the variants of every restriction listed in "
        "two different random orders (the model must give the implementation's answer for both); oracle: batches of "
        "10-16 problems over one sequence length, with specification objects and codon-table dicts shared between the "
        "problems of a batch, are solved (numpy.random.seed(s); build; resolve_constraints; optimize) in fresh "
        "interpreter processes that differ in PYTHONHASHSEED, in the order in which the problems are solved and in "
        "which other problems are solved at all (whole batch, reversed, shuffled, single problems); the outcome of a "
        "problem (final sequence or exception class) must be the same in every process; non-trivial = a problem that "
        "draws random numbers or shares an object with another problem")
TRUSTED = ["harness/c05_child.py (child interpreter driver)", "harness/props/C05.py comparison of outcomes"]
ASSUMPTIONS = ["a solve that exceeds the per-problem time limit in some process is inconclusive and not compared",
               "user-defined specification classes of the harness are not used here (built-ins only)"]

SOFT = ["pattern", "pattern", "gcwin", "stop", "kmers", "terminal", "hairpin", "keep_edits", "insert"]


def correspondence(ctx):
    rng = ctx.rng
    c = vlib.Corr()
    errors = {}
    for _ in range(ctx.n(500)):
        seq, descs = hard.rand_problem(rng)
        try:
            built = vlib.limited(lambda: C15.build(seq, descs), 10, None, errors)
            if built is None:
                continue
            stub, space, restrs = built
        except Exception as e:
            errors[type(e).__name__] = errors.get(type(e).__name__, 0) + 1
            continue
        if space.unsolvable_segments:
            continue
        n = len(seq)
        multi = any(len(vs) >= 3 for _, _, vs in restrs)
        heads = []
        for _k in range(2):
            shuffled = []
            for a, b, vs in restrs:
                vs = list(vs)
                rng.shuffle(vs)
                shuffled.append((a, b, vs))
            heads.append("%s %s" % (seq, hard.restr_tokens(shuffled)))
        s2 = hard.rand_seq(rng, n) if rng.random() < 0.8 else seq
        with Recorder() as rec:
            cs = space.constrain_sequence(s2)
        for h in heads:
            c.add("space.constrain %s | %s | %s" % (h, s2, " ".join(map(str, rec.tape))), "%s used %d" % (cs, len(rec.tape)),
                  nontrivial=multi and len(rec.tape) > 0, branch="constrain:%s" % ("draws" if rec.tape else "nodraw"))
        a = rng.randint(0, n - 1)
        b = rng.randint(a + 1, n)
        loc = space.localized((a, b))
        if loc.multichoices:
            nm = rng.choice([1, 2, 3])
            with Recorder() as rec:
                r = loc.apply_random_mutations(nm, cs)
            for h in heads:
                c.add("space.apply %s | %d %d | %d | %s | %s" % (h, a, b, nm, cs, " ".join(map(str, rec.tape))),
                      "%s used %d" % (r, len(rec.tape)), nontrivial=multi, branch="apply")
            if C15.product(loc) <= 400:
                vs = list(loc.all_variants(cs))
                for h in heads:
                    c.add("space.all %s | %d %d | %s" % (h, a, b, cs), " ".join(vs), nontrivial=multi and len(vs) > 2, branch="all")
    c.run()
    k = len(c.lines)
    return dict(evaluations=c.evaluations, nontrivial=len(c.nontrivial), hist=dict(c.hist, **{"skipped:" + k_: v for k_, v in errors.items()}),
                samples=[dict(request=c.lines[i][:300], answer=str(c.impl[i])[:200]) for i in (0, k // 2, k - 1) if i < k],
                disagreements=c.disagreements)


# ------------------------------------------------------------------------------------------

def rand_batch(rng):
    n = rng.randint(12, 36)
    base = hard.rand_seq(rng, n)
    shared = []
    for _ in range(rng.randint(2, 4)):
        r = rng.random()
        if r < 0.35:
            d = hard.rand_hard_constraint(rng, base, ["keep", "keep_idx", "cds", "change"])
        elif r < 0.8:
            d = problems.rand_soft(rng, base, allow=SOFT)
        else:
            loc = problems.rand_loc(rng, n, codon=True)
            d = rng.choice([dict(kind="cai", location=loc, table_seed=rng.choice([11, 22]), boost=1),
                            dict(kind="rca", location=loc, table_seed=rng.choice([11, 22]), orig_table_seed=rng.choice([22, 33]), boost=1),
                            dict(kind="rare", location=loc, min_frequency=rng.choice([0.1, 0.2]), table_seed=rng.choice([11, 22]))])
        if d.get("location") is None and d["kind"] in ("pattern", "gcwin", "kmers", "hairpin", "keep_edits", "insert"):
            d["location"] = [0, n, rng.choice([0, 1])] if d["kind"] in ("pattern", "insert") else [0, n, 0]
        shared.append(d)
    shared_cons = [i for i, d in enumerate(shared) if d["kind"] not in ("cai", "rca")]
    shared_objs = [i for i, d in enumerate(shared) if d["kind"] in ("cai", "rca")]
    pbs = []
    for _ in range(rng.randint(10, 16)):
        seq = "".join(ch if rng.random() > 0.3 else rng.choice("ATGC") for ch in base) if rng.random() < 0.7 else hard.rand_seq(rng, n)
        if pbs and rng.random() < 0.3:
            seq = rng.choice(pbs)["sequence"]       # the same sequence under other specifications
        own = [problems.rand_soft(rng, seq, allow=SOFT) for _ in range(rng.randint(0, 2))]
        if rng.random() < 0.35:
            own.append(dict(kind="kmers", k=rng.choice([3, 4]), location=None, rc=rng.random() < 0.5))
        if rng.random() < 0.35:
            # codon-table consumers built per problem on the shared table dicts (same seed = same dict object in a process)
            loc = problems.rand_loc(rng, n, codon=True)
            own.append(dict(kind="rare", location=loc, min_frequency=rng.choice([0.1, 0.2, 0.3]), table_seed=rng.choice([11, 22, 33])))
        objs = []
        if rng.random() < 0.5:
            o = problems.rand_objective(rng, seq)
            if not o["kind"].startswith("user"):
                if o["kind"] == "cai":
                    o["table_seed"] = rng.choice([11, 22, 33])
                    if rng.random() < 0.4:
                        o = dict(kind="rca", location=o["location"], table_seed=rng.choice([11, 22, 33]),
                                 orig_table_seed=rng.choice([11, 22, 33]), boost=o["boost"])
                objs.append(o)
        pbs.append(dict(sequence=seq, shared_constraints=[i for i in shared_cons if rng.random() < 0.6],
                        shared_objectives=[i for i in shared_objs if rng.random() < 0.6], constraints=own, objectives=objs,
                        settings=problems.rand_settings(rng) if rng.random() < 0.5 else {}, np_seed=rng.randint(0, 10 ** 6),
                        ops=rng.choice([["resolve"], ["resolve", "optimize"], ["resolve", "optimize"], ["optimize"]])))
    if rng.random() < 0.7:
        # two problems over one sequence that differ only in a rarely used flag of a cached helper: a sequence with a
        # reverse-complement homology and (most likely) no direct repeat; the first passes untouched, the second must edit
        k = rng.choice([5, 6])
        comp = {"A": "T", "T": "A", "G": "C", "C": "G"}
        w = hard.rand_seq(rng, k)
        body = list(hard.rand_seq(rng, n))
        if n >= 2 * k + 2:
            i = rng.randint(0, n // 2 - k)
            j = rng.randint(n // 2, n - k)
            body[i:i + k] = w
            body[j:j + k] = "".join(comp[c] for c in reversed(w))
        sq = "".join(body)
        for rc in (False, True):
            pbs.insert(rng.randint(0, len(pbs)), dict(sequence=sq, shared_constraints=[], shared_objectives=[],
                                                      constraints=[dict(kind="kmers", k=k, location=None, rc=rc)], objectives=[],
                                                      settings={}, np_seed=rng.randint(0, 10 ** 6), ops=["resolve"]))
    share_locations = rng.random() < 0.75
    if share_locations:
        # the user keeps Location objects and hands the same object to specifications of different problems: a gene
        # region that some problems freeze / diversify and others recode
        m = rng.randint(2, max(2, n // 3 - 1))
        a = rng.randint(0, n - 3 * m)
        gene = [a, a + 3 * m, rng.choice([-1, -1, -1, 1, 0])]
        for pb in pbs:
            r = rng.random()
            if r < 0.3:
                pb["constraints"].append(dict(kind=rng.choice(["keep", "change"]), location=list(gene)))
            elif r < 0.45:
                pb["objectives"].append(dict(kind=rng.choice(["keep_obj", "change_obj"]), location=list(gene), boost=1))
            elif r < 0.8:
                st = gene[2] if gene[2] != 0 else 1
                pb["constraints"].append(dict(kind="cds", location=gene[:2] + [st], table="Standard", start_codon=None, translation=None))
                if rng.random() < 0.6:
                    pb["objectives"].append(dict(kind="cai", location=gene[:2] + [st], table_seed=rng.choice([11, 22]), boost=1))
                    if "optimize" not in pb["ops"]:
                        pb["ops"] = pb["ops"] + ["optimize"]
    return dict(shared=shared, problems=pbs, share_tables=True, share_locations=share_locations)


def rand_configs(rng, batch):
    k = len(batch["problems"])
    ident = list(range(k))
    sh = ident[:]
    rng.shuffle(sh)
    cfgs = [dict(hashseed=0, order=ident), dict(hashseed=1, order=ident[::-1]), dict(hashseed=rng.randint(2, 4000), order=sh)]
    for i in rng.sample(ident, min(3, k)):
        cfgs.append(dict(hashseed=rng.randint(2, 4000), order=[i]))
    return cfgs


def run_child(batch, cfg, timeout=240):
    env = dict(os.environ)
    env["PYTHONHASHSEED"] = str(cfg["hashseed"])
    env["DNACHISEL_REPO"] = vlib.REPO
    child = os.path.join(os.path.dirname(os.path.dirname(os.path.abspath(__file__))), "c05_child.py")
    try:
        p = subprocess.run([sys.executable, child], input=json.dumps(dict(batch=batch, order=cfg["order"])), capture_output=True,
                           text=True, timeout=timeout, env=env)
    except subprocess.TimeoutExpired:
        return None
    if p.returncode != 0:
        return dict(error=(p.stderr or "")[-400:])
    try:
        return json.loads(p.stdout)
    except Exception:
        return dict(error="unparsable child output: " + p.stdout[-200:])


def compare_batch(batch, cfgs, out, stats):
    with ThreadPoolExecutor(max_workers=min(8, len(cfgs))) as ex:
        res = list(ex.map(lambda cf: run_child(batch, cf), cfgs))
    n = 0
    per = {}
    for cf, r in zip(cfgs, res):
        if r is None or "error" in (r or {}):
            stats["child-failed"] = stats.get("child-failed", 0) + 1
            if r and "error" in r:
                stats["last-child-error"] = r["error"][-200:]
            continue
        for i, oc in r["outcomes"].items():
            per.setdefault(int(i), []).append((cf, oc))
    for i, lst in sorted(per.items()):
        ocs = [oc for _, oc in lst if oc != "timeout"]
        if len(ocs) < 2:
            continue
        n += 1
        kinds = set(ocs)
        stats["outcome:" + ("raises" if ocs[0].startswith("raises") else "sequence")] = stats.get("outcome:" + ("raises" if ocs[0].startswith("raises") else "sequence"), 0) + 1
        if len(kinds) > 1:
            a = lst[0]
            b = next(x for x in lst if x[1] != a[1] and x[1] != "timeout")
            alone = len(a[0]["order"]) == 1 or len(b[0]["order"]) == 1
            same_order = a[0]["order"] == b[0]["order"]
            kind = "depends-on-hash-seed" if same_order else ("depends-on-history" if True else "")
            out.append(dict(kind=kind, input=dict(batch=batch, problem=i, configs=[a[0], b[0]]),
                            detail="problem %d: %s (hash seed %s, order %s) vs %s (hash seed %s, order %s)" % (
                                i, a[1], a[0]["hashseed"], a[0]["order"], b[1], b[0]["hashseed"], b[0]["order"])))
    return n


def search(ctx, budget, hints):
    rng = vlib.Rng(ctx.seed + 505)
    out, stats = [], {}
    n = 0
    nb = (5 if not ctx.thorough else 40) * max(1, min(budget, 4))
    for _ in range(nb):
        batch = rand_batch(rng)
        cfgs = rand_configs(rng, batch)
        n += compare_batch(batch, cfgs, out, stats)
        # same order, different hash seeds only
        k = len(batch["problems"])
        n += compare_batch(batch, [dict(hashseed=h, order=list(range(k))) for h in (0, rng.randint(5, 9999))], out, stats)
    best, hist = {}, dict(stats)
    for c in out:
        hist[c["kind"]] = hist.get(c["kind"], 0) + 1
        if c["kind"] not in best:
            best[c["kind"]] = c
    hist["batches"] = nb
    return dict(counterexamples=list(best.values()), evaluations=n, hist=hist,
                samples=[dict(oracle="equal outcome of every problem across interpreter processes (hash seed, order, subset)")])


def replay(ctx, case):
    inp = case["input"]
    out, stats = [], {}
    compare_batch(inp["batch"], inp["configs"], out, stats)
    return bool(out)
