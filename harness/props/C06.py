"""C06 — exhaustive searches are complete and exactly optimal over the mutation space."""
import itertools

import vlib
import solverprops
import solvercase
from gen import problems

RULE = ("correspondence: direct resolve_constraints_by_exhaustive_search() / optimize_by_exhaustive_search() calls on "
        "problems whose whole mutation space has <= 1024 members (all but 0-5 positions frozen, optional codon / IUPAC "
        "/ choice constraints, 0-3 soft constraints, 0-3 weighted objectives), recorded and replayed by the Lean solver "
        "model, with zero, one or several constraints carrying an is_focus flag; non-trivial = at least 3 candidates were tried; oracle = independent brute force over the product of "
        "choices_list on the real objects (feasibility and boosted totals from the real evaluate)")
TRUSTED = ["harness recorder/replay", "brute-force oracle in harness/props/C06.py"]
ASSUMPTIONS = ["objective totals are compared with 1e-9 relative tolerance (floats)",
               "the optimality clause is checked only when no objective exceeds its declared best possible score on the space"]


def binding_budget_case(rng):
    """an edits budget given as a percentage that allows one edit, on a problem with two or more free positions and an
    objective (or constraints) that would like more edits"""
    from gen import hard
    n = rng.randint(6, 12)
    seq = hard.rand_seq(rng, n)
    k = rng.randint(2, 4)
    free = sorted(rng.sample(range(n), k))
    frozen = [i for i in range(n) if i not in free]
    pct = next(p_ for p_ in range(1, 101) if (p_ * n) // 100 == 1)
    cons = [dict(kind="keep_idx", indices=frozen), dict(kind="keep_edits", max_edits_percent=pct, location=None)]
    objs = [dict(kind="change_obj", location=None, amount_percent=None, boost=1)]
    return dict(sequence=seq, constraints=cons, objectives=objs, settings=problems.rand_settings(rng), np_seed=rng.randint(0, 10 ** 6))


def gen_cases(rng, n):
    for i in range(n):
        if i % 9 == 4:
            yield dict(desc=binding_budget_case(rng), op="exh_optimize")
            continue
        from props import C04
        for _try in range(10):
            d = problems.rand_small_problem(rng, objectives=(i % 2 == 1))
            if C04.wellformed(d["constraints"], d["sequence"]):
                break
        if i % 2 == 1 and rng.random() < 0.25:
            # the same direct search on a circular problem: totals are those of the evaluations the problem lists
            d["circular"] = True
            d["constraints"] = [c for c in d["constraints"] if c["kind"] in ("keep_idx", "keep", "pattern", "gcwin")]
            d["objectives"] = [o for o in d["objectives"] if o["kind"] in ("pattern_obj", "gc_obj", "keep_obj", "change_obj")] or \
                [dict(kind="pattern_obj", pattern=problems.rand_pattern(rng), boost=1)]
        if not d.get("circular") and rng.random() < 0.3:
            # the search runs on a localized view of the mutation space (as in the solver's local problems); the
            # window may cut a multi-nucleotide choice
            n_ = len(d["sequence"])
            a_ = rng.randint(0, n_ - 1)
            d["space_window"] = [a_, rng.randint(a_ + 1, n_)]
            if rng.random() < 0.5:
                # a codon-level space: the window boundary can fall inside a codon choice
                d["constraints"] = [c for c in d["constraints"] if c["kind"] != "keep_idx"]
                m_ = n_ // 3
                if m_ >= 1:
                    d["constraints"].append(dict(kind="cds", location=[0, 3 * m_, 1], table="Standard", start_codon=None,
                                                 translation=None))
                a_ = rng.randint(0, n_ - 1)
                d["space_window"] = [a_, min(n_, a_ + rng.choice([1, 2, 3, 4, 6]))]
        if rng.random() < 0.35 and d["constraints"]:
            # focus flags left on the constraints (none / one / several): the search must still test every constraint
            k = rng.choice([1, 1, 2, 3])
            d["focus"] = sorted(rng.sample(range(len(d["constraints"])), min(k, len(d["constraints"]))))
        yield dict(desc=d, op="exh_optimize" if i % 2 == 1 else "exh_resolve")


def declared_choices(space):
    """the distinct choices the space declares position by position (`choices_index`), independently of the
    derived lists `choices_list` / `multichoices`"""
    out = []
    for c in space.choices_index:
        if c is not None and not any(c is x for x in out):
            out.append(c)
    return out


def space_members(p, start):
    slots = [[(c.start, c.end, str(v)) for v in c.variants] for c in declared_choices(p.mutation_space) if len(c.variants) >= 2]
    out = []
    for combo in itertools.product(*slots):
        t = list(start)
        for a, b, v in combo:
            t[a:b] = v
        out.append("".join(t))
    return out


def feasible(p, s):
    old = p.sequence
    object.__setattr__(p, "sequence", s)
    try:
        # every constraint fully evaluated: a member of the space satisfies the enforced ones by construction (C04), so on
        # well-formed problems this is what the search decides, and it does not trust the `enforced` flags
        return all(c.evaluate(p).passes for c in p.constraints) if not type(p).__name__.endswith("CircularDnaOptimizationProblem") \
            else p.all_constraints_pass(autopass=False)
    finally:
        object.__setattr__(p, "sequence", old)


def total(p, s):
    old = p.sequence
    object.__setattr__(p, "sequence", s)
    try:
        evs = p.objectives_evaluations().evaluations     # what the problem lists (circular view for circular problems)
        tot = 0
        for ev in evs:
            tot = tot + ev.specification.boost * ev.score
        return float(tot), [(float(ev.score), ev.specification.best_possible_score) for ev in evs]
    finally:
        object.__setattr__(p, "sequence", old)


def oracle(results, out):
    n = 0
    for r in results:
        p, info, case = r["problem"], r["info"], r["case"]
        start = r["answer"].split(" ; ")[2].split(",")[0] if False else None
        # the sequence the search started from = first request field after restrictions
        start = r["line"].split(" | ")[4].strip()
        start = "" if start == "." else start
        size = 1
        for c in declared_choices(p.mutation_space):
            size *= len(c.variants)
        if size > 4096:
            continue
        inp = dict(desc=case["desc"], op=case["op"])
        members = space_members(p, start)
        feas = [m for m in members if feasible(p, m)]
        n += 1
        if case["op"] == "exh_resolve":
            if info["outcome"] == "ok":
                if not feasible(p, p.sequence) or p.sequence not in members:
                    out.append(dict(kind="exhaustive-returned-infeasible", input=inp, detail=p.sequence))
            elif info["outcome"] == "NoSolution":
                if feas:
                    out.append(dict(kind="exhaustive-missed-solution", input=inp, detail="solutions exist, e.g. %s" % feas[0]))
                if p.sequence != start:
                    out.append(dict(kind="exhaustive-fail-not-restored", input=inp, detail="%s != %s" % (p.sequence, start)))
            else:
                out.append(dict(kind="exhaustive-wrong-exception", input=inp, detail=info["outcome"]))
        else:
            if not feasible(p, start):
                if info["outcome"] != "NoSolution":
                    out.append(dict(kind="exh-optimize-infeasible-start", input=inp, detail=info["outcome"]))
                continue
            if info["outcome"] != "ok":
                out.append(dict(kind="exh-optimize-raised", input=inp, detail=info["outcome"]))
                continue
            totals = {m: total(p, m) for m in feas}
            exceeds = any(b is not None and sc > b + 1e-12 for m in feas for sc, b in totals[m][1])
            if exceeds:
                continue
            best = max(t[0] for t in totals.values())
            got = total(p, p.sequence)[0]
            if p.sequence not in feas or abs(got - best) > 1e-9 * max(1.0, abs(best)):
                out.append(dict(kind="exhaustive-not-optimal", input=inp,
                                detail="left %s total %r, optimum %r" % (p.sequence, got, best)))
    return n


def correspondence(ctx):
    results, skipped = solverprops.run_cases(gen_cases(ctx.rng, ctx.n(500, 8000)))
    ctx._results = results
    c = solverprops.correspondence_of(results)
    return solverprops.summarize(c, skipped)


def search(ctx, budget, hints):
    out = []
    n = oracle(getattr(ctx, "_results", []), out)
    if budget > 1 or n == 0:
        rng = vlib.Rng(ctx.seed + 606)
        more, _ = solverprops.run_cases(gen_cases(rng, 200 * budget))
        n += oracle(more, out)
    cex, hist = solverprops.shrink_best(out)
    return dict(counterexamples=cex, evaluations=n, hist=hist, exhaustive=True,
                samples=[dict(oracle="brute force over product(choices_list variants)", limit="<= 4096 members")])


def replay(ctx, case):
    inp = case["input"]
    r = solvercase.run_case(inp["desc"], inp["op"])
    if "skip" in r:
        return False
    r["case"] = dict(desc=inp["desc"], op=inp["op"])
    out = []
    oracle([r], out)
    return any(c["kind"] == case.get("kind") for c in out)
