"""C07 — codon optimization reaches the true per-codon optimum and keeps the protein."""
import random

import vlib
import bspec
import solverprops
import solvercase
from gen import hard, problems

RULE = ("correspondence: (i) optimize() on a coding region (1-8 codons, strand +1/-1, inside a longer sequence, "
        "Standard / Bacterial genetic table, optionally with the start codon kept) protected by EnforceTranslation with MaximizeCAI, CodonOptimize("
        "use_best_codon) or HarmonizeRCA over arbitrary user codon-usage tables (ties and zero frequencies included), "
        "recorded and replayed by the Lean solver model; (ii) evaluate() of the initialised objective on the start and "
        "final sequences vs the model's evaluation (score and flagged codons), with regions whose only sub-optimal "
        "codon is the first / the last / each one in turn; non-trivial = at least 3 assignments; oracle on the real "
        "object: same protein on the same strand, flanks untouched, every codon a most-frequent synonym resp. an "
        "RCA-closest synonym by an independent table lookup, score equal to the codon-wise best")
TRUSTED = ["harness recorder/replay", "independent per-codon table lookup in harness/props/C07.py",
           "named species tables are synthetic in this sandbox (python_codon_tables is absent)"]
ASSUMPTIONS = ["the problem is optimized from its construction (HarmonizeRCA re-derives its 'original codons' inside local "
               "problems from the current sequence: histories that edit a codon first are outside this check)",
               "log is increasing: 'most frequent' is decided on the frequencies, the code compares their logarithms"]

AAS = "ACDEFGHIKLMNPQRSTVWY"


def std_back():
    from Bio.Data import CodonTable
    t = CodonTable.unambiguous_dna_by_name["Standard"]
    back = {}
    for c, aa in t.forward_table.items():
        back.setdefault(aa, []).append(c)
    back["*"] = list(t.stop_codons)
    return back


def rand_case(rng):
    back = std_back()
    k = rng.choice([1, 1, 2, 3, 4, 6, 8])
    protein = "".join(rng.choice(AAS) for _ in range(k))
    if rng.random() < 0.15:
        protein = protein[:-1] + "*"
    method = rng.choice(["cai", "cai", "codon_optimize", "rca", "rca"])
    seed, oseed = rng.randint(0, 10 ** 6), rng.randint(0, 10 ** 6)
    table = hard.user_table(random.Random(seed))
    codons = [rng.choice(sorted(back[a])) for a in protein]
    targeted = rng.random() < 0.4 and method != "rca"
    if targeted:
        # every codon optimal except exactly one (first / last / any)
        j = rng.choice([0, 0, k - 1, rng.randint(0, k - 1)])
        codons = []
        for i, a in enumerate(protein):
            best = max(table[a].values())
            opts = sorted(c for c in back[a] if table[a][c] == best)
            subs = sorted(c for c in back[a] if table[a][c] < best)
            codons.append(rng.choice(subs) if (i == j and subs) else rng.choice(opts))
    keep_first = rng.random() < 0.25
    if keep_first and not targeted and rng.random() < 0.7:
        # the kept (frozen) first codon is sub-optimal and so are the others: every other codon must still be optimized
        codons = []
        for a in protein:
            best = max(table[a].values())
            subs = sorted(c for c in back[a] if table[a][c] < best)
            codons.append(rng.choice(subs) if subs else rng.choice(sorted(back[a])))
    cds = "".join(codons)
    strand = rng.choice([1, 1, -1])
    left, right = hard.rand_seq(rng, rng.randint(0, 7)), hard.rand_seq(rng, rng.randint(0, 7))
    whole = rng.random() < 0.2
    if whole:
        # the gene is the whole sequence and the specifications are given no location
        strand, left, right = 1, "", ""
    region = cds if strand == 1 else bspec_rc(cds)
    seq = left + region + right
    loc = [len(left), len(left) + len(region), strand]
    obj = dict(kind=method, location=loc, table_seed=seed, boost=rng.choice([1, 1, 2]))
    if method == "rca":
        obj["orig_table_seed"] = oseed
    first = None
    if rng.random() < 0.3:
        # the user built another codon specification on the same table object(s) before
        other = "rca" if method != "rca" else "cai"
        first = dict(kind=other, location=loc, table_seed=seed if rng.random() < 0.7 else oseed, boost=1)
        if other == "rca":
            first["orig_table_seed"] = rng.choice([seed, oseed])
    desc = dict(sequence=seq, constraints=[dict(kind="cds", location=loc, table=rng.choice(["Standard", "Bacterial"]),
                                                start_codon="keep" if keep_first else None, translation=None)],
                objectives=[obj], settings={},   # default solver settings: the property does not quantify over degraded searches
                np_seed=rng.randint(0, 10 ** 6), protein=protein, targeted=targeted)
    if first is not None:
        desc["construct_first"] = [first]
    if whole:
        obj["no_location"] = True
        desc["constraints"][0]["no_location"] = True
        if rng.random() < 0.6:
            # the same location-less specification objects were used before on another gene (shorter, same length or
            # longer): a batch of genes optimized with one list of specifications
            k2 = rng.choice([max(1, k - 1), max(1, k // 2), k, k + 2])
            desc["reuse_after"] = "".join(rng.choice(sorted(back[a])) for a in (rng.choice(AAS) for _ in range(k2)))
    return desc


def bspec_rc(s):
    comp = {"A": "T", "T": "A", "G": "C", "C": "G"}
    return "".join(comp[c] for c in reversed(s))


def gen_cases(rng, n):
    for _ in range(n):
        yield dict(desc=rand_case(rng), op="optimize")


def check_result(desc, final, out, inp, score=None):
    """independent per-codon verdict on the final sequence"""
    back = std_back()
    aa_of = {c: a for a, cs in back.items() for c in cs}
    a, b, st = desc["objectives"][0]["location"]
    seq0 = desc["sequence"].upper()
    bad = []
    if len(final) != len(seq0) or final[:a] != seq0[:a] or final[b:] != seq0[b:]:
        bad.append(("outside-region-touched", "%s -> %s" % (seq0, final)))
        return bad
    sub0 = seq0[a:b] if st != -1 else bspec_rc(seq0[a:b])
    sub1 = final[a:b] if st != -1 else bspec_rc(final[a:b])
    c0 = [sub0[i:i + 3] for i in range(0, len(sub0), 3)]
    c1 = [sub1[i:i + 3] for i in range(0, len(sub1), 3)]
    if [aa_of[c] for c in c0] != [aa_of[c] for c in c1]:
        bad.append(("protein-changed", "%s -> %s" % (c0, c1)))
        return bad
    o = desc["objectives"][0]
    table = hard.user_table(random.Random(o["table_seed"]))
    kept = desc["constraints"][0].get("start_codon") == "keep"
    if kept and c1[0] != c0[0]:
        bad.append(("kept-start-codon-changed", "%s -> %s" % (c0[0], c1[0])))
        return bad
    if o["kind"] in ("cai", "codon_optimize"):
        for i, c in enumerate(c1):
            if kept and i == 0:
                continue        # frozen by the start-codon policy: the best achievable there is the codon itself
            fr = table[aa_of[c]]
            if fr[c] < max(fr.values()):
                bad.append(("codon-not-most-frequent", "codon %d: %s (%.3f) while %s" % (i, c, fr[c], fr)))
                break
    else:
        otable = hard.user_table(random.Random(o["orig_table_seed"]))

        def rca(t, c):
            return t[aa_of[c]][c] / max(t[aa_of[c]].values())
        for i, (c, orig) in enumerate(zip(c1, c0)):
            if kept and i == 0:
                continue
            ro = rca(otable, orig)
            ds = {s: abs(rca(table, s) - ro) for s in back[aa_of[c]]}
            if ds[c] > min(ds.values()) + 1e-12:
                bad.append(("codon-not-rca-closest", "codon %d: %s (|%.3f - %.3f|) while %s" % (i, c, rca(table, c), ro, ds)))
                break
    return bad


def oracle(results, out):
    n = 0
    for r in results:
        p, info, case = r["problem"], r["info"], r["case"]
        inp = dict(desc=case["desc"], op=case["op"])
        n += 1
        if info["outcome"] != "ok":
            out.append(dict(kind="optimize-raised:%s" % info["outcome"], input=inp, detail=repr(info.get("exception"))[:200]))
            continue
        for k, d in check_result(case["desc"], p.sequence, out, inp):
            out.append(dict(kind=k, input=inp, detail=d))
        # the reported score is the declared best for CAI (0), and re-optimizing changes nothing
        o = p.objectives[0]
        ev = o.evaluate(p)
        if case["desc"]["objectives"][0]["kind"] != "rca" and case["desc"]["constraints"][0].get("start_codon") != "keep" \
                and abs(float(ev.score)) > 1e-9:
            out.append(dict(kind="score-not-best", input=inp, detail="score %r on %s" % (float(ev.score), p.sequence)))
    return n


def correspondence(ctx):
    results, skipped = solverprops.run_cases(gen_cases(ctx.rng, ctx.n(500, 8000)))
    ctx._results = results
    c = solverprops.correspondence_of(results)
    # (ii) evaluation of the objective itself on start / final sequences
    extra = {}
    for r in results:
        p = r["problem"]
        o = p.objectives[0]
        t = bspec.text(o)
        if t is None:
            continue
        for s2 in (r["case"]["desc"]["sequence"].upper(), p.sequence):
            stub = hard.Stub(s2)
            c.add("spec.eval | %s | %s" % (t, s2), bspec.eval_text(o, stub), meta=dict(desc=r["case"]["desc"]), compare=bspec.compare_eval,
                  nontrivial=bool(r["case"]["desc"].get("targeted")), branch="eval:%s" % type(o).__name__)
    c.run()
    extra["targeted-single-suboptimal-codon"] = sum(1 for r in results if r["case"]["desc"].get("targeted"))
    return solverprops.summarize(c, skipped, extra)


def search(ctx, budget, hints):
    out = []
    n = oracle(getattr(ctx, "_results", []), out)
    if budget > 1 or n == 0:
        rng = vlib.Rng(ctx.seed + 707)
        more, _ = solverprops.run_cases(gen_cases(rng, 300 * budget))
        n += oracle(more, out)
    cex, hist = solverprops.shrink_best(out)
    return dict(counterexamples=cex, evaluations=n, hist=hist,
                samples=[dict(oracle="protein, flanks, per-codon optimum by independent table lookup, score")])


def replay(ctx, case):
    inp = case["input"]
    r = solvercase.run_case(inp["desc"], inp["op"])
    if "skip" in r:
        return False
    r["case"] = dict(desc=inp["desc"], op=inp["op"])
    out = []
    oracle([r], out)
    return bool(out)
