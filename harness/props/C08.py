"""C08 — a constraint that passes locally after a local edit passes globally."""
import localprops

RULE = ("correspondence: for every modelled built-in class x random parameters x sequence (6-30 nt) x window (inside / "
        "straddling / outside the specification's span) x with_righthand flag: the localized specification (location, "
        "sliced parameters, UniquifyAllKmers localization data) and the evaluations of the specification and of its "
        "localization on the sequence and on an edit confined to the window, model vs implementation; non-trivial = the "
        "window straddles the span or a new localized object is produced; oracle: the law itself on the real objects "
        "(localized object re-initialised on a local problem at the unedited sequence, as the solver does)")
TRUSTED = ["harness/localprops.py, harness/bspec.py (python object <-> BSPEC text)"]
ASSUMPTIONS = ["the law is checked for the default localization (with_righthand=True); with_righthand=False is the "
               "solver's deliberate one-sided localization, covered by the final check (C01)"]


def correspondence(ctx):
    return localprops.correspondence(ctx, ctx.n(1500, 30000))


def search(ctx, budget, hints):
    r = localprops.search(ctx, budget, sound=True, exact=False, seed_off=808)
    return r


def replay(ctx, case):
    out = []
    localprops.law_case(case["input"], out, sound=True, exact=False)
    return bool(out)
