"""C09 — localized objectives measure exactly the global score change of a local edit."""
import localprops

RULE = ("same generator and correspondence as C08 (localized specification + four evaluations, model vs implementation); "
        "oracle: score(localized, edited) - score(localized, original) == score(spec, edited) - score(spec, original) on "
        "the real objects for every modelled class except UniquifyAllKmers, and unchanged score when localization yields None")
TRUSTED = ["harness/localprops.py, harness/bspec.py"]
ASSUMPTIONS = ["score differences are compared with 1e-9 relative tolerance (IEEE doubles)",
               "default localization (with_righthand=True)"]


def correspondence(ctx):
    return localprops.correspondence(ctx, ctx.n(1500, 30000))


def search(ctx, budget, hints):
    return localprops.search(ctx, budget, sound=False, exact=True, seed_off=909)


def replay(ctx, case):
    out = []
    localprops.law_case(case["input"], out, sound=False, exact=True)
    return bool(out)
