"""C10 — built-in specifications evaluate to their documented meaning."""
import vlib
import bspec
import oracle_doc
from gen import hard

RULE = ("correspondence: evaluate() of every modelled built-in class (AvoidPattern, EnforcePatternOccurence, "
        "EnforceGCContent windowed/global, EnforceTranslation, AvoidStopCodons, AvoidChanges, EnforceChanges, "
        "EnforceSequence, EnforceChoice, UniquifyAllKmers, EnforceTerminalGCContent, SequenceLengthBounds, "
        "AvoidRareCodons, MaximizeCAI; also AvoidHairpins) on random parameters (location, strand, window, thresholds, "
        "genetic table) and sequences: score (1e-9), passes, breach locations exactly; non-trivial = the evaluation "
        "fails (negative score); oracle: documented formulas re-implemented independently in harness/oracle_doc.py + "
        "breach-location contract (non-empty, inside the sequence, covering the breach)")
TRUSTED = ["harness/bspec.py (object <-> BSPEC text)", "harness/oracle_doc.py (independent reading of the docstrings)"]
ASSUMPTIONS = ["float scores compared with 1e-9 relative tolerance", "sequences over ATGC, locations inside the sequence"]

KINDS = ["pattern", "pattern", "insert", "gcwin", "gcwin", "gcglobal", "cds", "stop", "keep", "keep_idx", "keep_edits",
         "change", "change_idx", "change_obj", "change_min", "sequence", "choice", "terminal", "length", "rare", "cai",
         "kmers", "hairpin", "regex"]


def rand_case(rng):
    n = rng.randint(3, 26)
    seq = hard.rand_seq(rng, n)
    d = bspec.rand_spec_desc(rng, seq, KINDS)
    p = rng.choice([0.1, 0.3, 0.6])
    s2 = "".join(ch if rng.random() > p else rng.choice("ATGC") for ch in seq)
    case = dict(sequence=seq, spec=d, evaluated=s2)
    if d.get("location") and d["kind"] in ("pattern", "insert", "cds", "stop", "gcwin", "sequence") and rng.random() < 0.25:
        case["sibling"] = rng.choice(["keep", "change", "no_both", "insert_both"])
    elif rng.random() < 0.2:
        case["used_before"] = hard.rand_seq(rng, n)
    return case


def correspondence(ctx):
    rng = ctx.rng
    c = vlib.Corr()
    skipped = {}
    for _ in range(ctx.n(4000, 60000)):
        case = rand_case(rng)
        seq, d, s2 = case["sequence"], case["spec"], case["evaluated"]
        try:
            spec, stub = bspec.init_spec(d, seq)
        except Exception as e:
            skipped[type(e).__name__] = skipped.get(type(e).__name__, 0) + 1
            continue
        t = bspec.text(spec)
        if t is None:
            continue
        stub.sequence = s2
        ans = bspec.eval_text(spec, stub)
        failing = ans != "raises" and ans[0] < 0
        c.add("spec.eval | %s | %s" % (t, s2), ans, meta=case, nontrivial=failing,
              compare=bspec.compare_eval_unordered if d["kind"] == "kmers" else bspec.compare_eval,
              branch="eval:%s:%s" % (d["kind"], "raises" if ans == "raises" else ("fail" if failing else "pass")))
    c.run()
    hist = dict(c.hist)
    for k, v in skipped.items():
        hist["skipped:" + k] = v
    kk = len(c.lines)
    return dict(evaluations=c.evaluations, nontrivial=len(c.nontrivial), hist=hist,
                samples=[dict(request=c.lines[i][:300], answer=str(c.impl[i])[:200]) for i in (0, kk // 3, 2 * kk // 3) if i < kk],
                disagreements=[dict(request=x["request"][:1500], model=x["model"][:400], impl=str(x["impl"])[:400], meta=x["meta"])
                               for x in c.disagreements])


def _build_with(d, loc):
    """the specification of description d, given the Location *object* loc"""
    import dnachisel as dc
    k = d["kind"]
    if k == "pattern":
        return dc.AvoidPattern(d["pattern"], location=loc)
    if k == "insert":
        return dc.EnforcePatternOccurence(d["pattern"], occurences=d["occurences"], location=loc)
    if k == "cds":
        return dc.EnforceTranslation(location=loc, genetic_table=d["table"], start_codon=d["start_codon"], translation=d["translation"])
    if k == "stop":
        return dc.AvoidStopCodons(genetic_table=d["table"], location=loc)
    if k == "gcwin":
        return dc.EnforceGCContent(mini=d["mini"], maxi=d["maxi"], window=d["window"], location=loc)
    if k == "sequence":
        return dc.EnforceSequence(sequence=d["sequence"], location=loc)
    raise ValueError(k)


def oracle_case(case, out):
    seq, d, s2 = case["sequence"], case["spec"], case["evaluated"]
    if d["kind"] == "hairpin":
        return 0
    try:
        if case.get("sibling") is not None and d.get("location"):
            # the user builds a second specification from the *same* Location object (natural when annotating one
            # region with several specifications): it must not change what the first one means
            import dnachisel as dc
            from gen import problems as _pb
            shared = dc.Location(*d["location"])
            stub = hard.Stub(seq)
            spec = _build_with(d, shared)
            sib = case["sibling"]
            other = {"keep": lambda: dc.AvoidChanges(location=shared), "change": lambda: dc.EnforceChanges(location=shared),
                     "no_both": lambda: dc.AvoidPattern("ATGC", location=shared, strand="both"),
                     "insert_both": lambda: dc.EnforcePatternOccurence("ATGC", location=shared, strand="both")}[sib]()
            try:
                other.initialized_on_problem(stub, role="constraint")
            except Exception:
                pass
            spec = spec.initialized_on_problem(stub, role=bspec.ROLE.get(d["kind"], "constraint"))
        elif case.get("used_before"):
            # the same object was part of an earlier problem on another sequence
            stub = hard.Stub(seq)
            obj = bspec.build(d)
            try:
                obj.initialized_on_problem(hard.Stub(case["used_before"]), role=bspec.ROLE.get(d["kind"], "constraint"))
            except Exception:
                pass
            spec = obj.initialized_on_problem(stub, role=bspec.ROLE.get(d["kind"], "constraint"))
            stub.constraints = [spec]
        else:
            spec, stub = bspec.init_spec(d, seq)
    except Exception:
        return 0
    want = oracle_doc.doc(d, seq, s2)
    if want is None:
        return 0
    stub.sequence = s2
    try:
        ev = spec.evaluate(stub)
    except Exception as e:
        out.append(dict(kind="evaluate-raised:%s" % d["kind"], input=case, detail=repr(e)[:200]))
        return 1
    n = len(s2)
    if d["kind"] == "kmers" and abs(float(ev.score) - want["score"]) > 1e-9:
        # the recorded finding: the k-mer that ends exactly at the end of the reference / location is never
        # examined (`range(start, end - k)`, `end_ < location.end`); anything else is a new violation
        a, b, _ = oracle_doc.loc_of(d, n)
        kk, use_rc = d["k"], d["rc"]

        def canon(w):
            return min(w, oracle_doc.rc(w)) if use_rc else w
        allk = {}
        for i in range(0, n - kk):
            allk.setdefault(canon(s2[i:i + kk]), []).append(i)
        known = -len([i for i in range(a, b - kk) if i < n - kk and len(allk[canon(s2[i:i + kk])]) > 1])
        kind = "kmers-last-kmer-never-examined" if float(ev.score) == known else "score-not-documented:kmers"
        out.append(dict(kind=kind, input=case, detail="evaluate score %r; documented %r" % (float(ev.score), want["score"])))
        return 1
    if abs(float(ev.score) - want["score"]) > 1e-9 * max(1.0, abs(want["score"])) or ev.passes != (want["score"] >= -1e-12):
        out.append(dict(kind="score-not-documented:%s" % d["kind"], input=case,
                        detail="evaluate score %r passes %s; documented %r" % (float(ev.score), ev.passes, want["score"])))
        return 1
    if want.get("region") and not ev.passes:
        locs = ev.locations
        ok = locs is not None and len(locs) > 0 and all(0 <= l.start < l.end <= n for l in locs)
        if ok and want.get("breach") is not None:
            covered = {i for l in locs for i in range(l.start, l.end)}
            ok = want["breach"] <= covered
        if not ok:
            out.append(dict(kind="breach-locations:%s" % d["kind"], input=case,
                            detail="locations %s breach %s" % (locs, sorted(want["breach"]) if want.get("breach") is not None else None)))
    return 1


def percent_bound_sweep(out):
    """EnforceChanges(minimum_percent=p) / AvoidChanges(max_edits_percent=p) on regions of every length 1..60, for every p
    whose bound p*L/100 is an integer: exactly that many changes is on the bound (passes), one fewer / one more is not"""
    import dnachisel as dc
    n = 0
    for L in range(1, 61):
        seq = "A" * L
        for p_ in range(1, 100):
            if (p_ * L) % 100:
                continue
            need = p_ * L // 100
            for kind, mk, ok_at, bad_at in (("change_min", lambda: dc.EnforceChanges(minimum_percent=p_), need, need - 1),
                                            ("keep_edits", lambda: dc.AvoidChanges(max_edits_percent=p_), need, need + 1)):
                try:
                    spec = mk().initialized_on_problem(hard.Stub(seq), role="constraint")
                    for d, want in ((ok_at, True), (bad_at, False)):
                        if 0 <= d <= L:
                            ev = spec.evaluate(hard.Stub("C" * d + "A" * (L - d)))
                            n += 1
                            if bool(ev.passes) != want:
                                out.append(dict(kind="percent-bound:%s" % kind, input=dict(sequence=seq, percent=p_, changed=d),
                                                detail="%d%% of %d positions = %d: with %d changed positions passes=%s" % (p_, L, need, d, ev.passes)))
                except Exception as e:
                    out.append(dict(kind="percent-bound-raised:%s" % kind, input=dict(sequence=seq, percent=p_), detail=repr(e)[:150]))
    return n


def search(ctx, budget, hints):
    out0 = []
    n0 = percent_bound_sweep(out0)
    r = _search(ctx, budget, hints)
    r["counterexamples"] = r["counterexamples"] + out0[:1]
    r["evaluations"] += n0
    r["hist"]["percent-bound-sweep"] = n0
    return r


def _search(ctx, budget, hints):
    rng = vlib.Rng(ctx.seed + 1010)
    out = []
    n = 0
    for _ in range(3000 * budget):
        n += oracle_case(rand_case(rng), out)
    best, hist = {}, {}
    for c in out:
        hist[c["kind"]] = hist.get(c["kind"], 0) + 1
        k = c["kind"]
        if k not in best or len(c["input"]["sequence"]) < len(best[k]["input"]["sequence"]):
            best[k] = c
    return dict(counterexamples=list(best.values()), evaluations=n, hist=hist,
                samples=[dict(oracle="documented formula per class (harness/oracle_doc.py)", case=rand_case(vlib.Rng(2)))])


def replay(ctx, case):
    out = []
    if str(case.get("kind", "")).startswith("percent-bound"):
        percent_bound_sweep(out)
        return any(c["input"] == case["input"] for c in out)
    oracle_case(case["input"], out)
    return bool(out)
