"""C11 — pattern search finds exactly the occurrences, on the requested strands."""
import itertools
import re
import vlib

RULE = ("correspondence: SequencePattern.from_string(p).find_matches(seq, Location) for IUPAC strings (len 1-6), "
        "homopolymer / repeated k-mer / enzyme-site shorthands, sequences 0-30 nt over ATGC (sometimes IUPAC letters), "
        "every (start,end,strand) incl. None; non-trivial = at least one match AND (overlapping matches, or a match "
        "touching the location border, or strand in {-1,0} with a non-palindromic pattern); distinct = request lines")
TRUSTED = ["CPython `re`: search returns the leftmost match of a fixed-length class sequence / back-reference repeat",
           "Bio.Restriction rest_dict (enzyme name -> site) is a lookup done by the harness",
           "harness/props/C11.py correspondence + brute-force occurrence oracle"]
ASSUMPTIONS = ["patterns have a fixed size >= 1; locations lie inside [0, len(sequence)] for the oracle "
               "(the correspondence also runs locations exceeding the sequence)"]

IUPAC_SETS = {"A": "A", "C": "C", "G": "G", "T": "T", "W": "AT", "S": "CG", "M": "AC", "K": "GT", "R": "AG", "Y": "CT",
              "B": "CGT", "D": "AGT", "H": "ACT", "V": "ACG", "N": "ACGT"}
COMP = dict(zip("ACGTWSMKRYBDHVN", "TGCAWSKMYRVHDBN"))
ENZYMES = ["BsaI", "BsmBI", "EcoRI", "PleI", "MlyI", "BbsI", "HinfI", "NotI", "AarI", "BtsI", "TaqI", "AluI", "Hpy188I", "BsrI"]


def parse_shorthand(string):
    """Independent reading of the documented shorthand -> model pattern tokens."""
    from Bio.Restriction.Restriction_Dictionary import rest_dict
    m = re.fullmatch(r"(\d+)x(\d+)mer", string)
    if m:
        return "rep %d %d" % (int(m.group(1)), int(m.group(2)))
    m = re.fullmatch(r"(\d+)x([A-Z])", string)
    if m:
        return "dna %s" % (int(m.group(1)) * m.group(2))
    m = re.fullmatch(r"(\S+)_site", string)
    if m and m.group(1) in rest_dict:
        return "dna %s" % rest_dict[m.group(1)]["site"]
    return "dna %s" % string


def rand_pattern(rng):
    r = rng.random()
    if r < 0.55:
        n = rng.choice([1, 2, 2, 3, 3, 4, 5, 6])
        alpha = "ATGC" if rng.random() < 0.5 else "ATGCNWSRYKMBDHV"
        s = "".join(rng.choice(alpha) for _ in range(n))
        if rng.random() < 0.35:  # force a palindrome
            half = s[: (n + 1) // 2]
            s = half + "".join(COMP[c] for c in reversed(half[: n // 2]))
        return s
    if r < 0.7:
        return "%dx%s" % (rng.randint(1, 4), rng.choice("ATGC" if rng.random() < 0.6 else "NWSRYKMBDHV"))
    if r < 0.85:
        return "%dx%dmer" % (rng.randint(1, 3), rng.randint(1, 3))
    return rng.choice(ENZYMES) + "_site"


def plant(rng, seq, pat_tokens):
    """Make matches likely: write an instance (or its reverse complement) of the pattern into the sequence."""
    kind = pat_tokens.split()
    if kind[0] == "dna":
        inst = "".join(rng.choice(IUPAC_SETS.get(c, "A")) for c in kind[1])
    else:
        n, k = int(kind[1]), int(kind[2])
        inst = "".join(rng.choice("ATGC") for _ in range(k)) * n
    if rng.random() < 0.5:
        inst = "".join(COMP[c] for c in reversed(inst))
    if len(inst) > len(seq):
        return seq
    pos = rng.choice([0, len(seq) - len(inst), rng.randint(0, len(seq) - len(inst))])
    return seq[:pos] + inst + seq[pos + len(inst):]


def fmt_locs(locs):
    return "-" if not locs else " ; ".join("%d %d %d" % (l.start, l.end, l.strand) for l in locs)


def impl_find(pstring, seq, loc, pat=None):
    from dnachisel import SequencePattern, Location
    if pat is None:
        pat = SequencePattern.from_string(pstring)
    try:
        if loc is None:
            return fmt_locs(pat.find_matches(seq)), pat
        return fmt_locs(pat.find_matches(seq, Location(*loc))), pat
    except KeyError:
        return "KeyError", pat


def cases(ctx, rng, n_random, exhaustive_small):
    out = []
    for _ in range(n_random):
        ps = rand_pattern(rng)
        toks = parse_shorthand(ps)
        n = rng.randint(0, 30)
        alpha = "ATGC" if rng.random() < 0.85 else "ATGCNRYW"
        seq = "".join(rng.choice(alpha) for _ in range(n))
        for _ in range(rng.randint(0, 3)):
            seq = plant(rng, seq, toks)
        r = rng.random()
        if r < 0.08:
            loc = None
        else:
            a = rng.randint(0, n)
            b = rng.randint(a, n)
            if r < 0.3:
                a, b = 0, n
            if r > 0.95:
                b = b + rng.randint(1, 5)   # beyond the sequence (malformed stream)
            loc = (a, b, rng.choice([-1, 0, 1]))
        out.append((ps, toks, seq, loc, False))
        if loc is not None and rng.random() < 0.3:
            # the same pattern OBJECT searched again: same sequence and span on other strands, a sub-span,
            # and an edited sequence (a pattern object must not remember anything between searches)
            for _ in range(rng.randint(1, 4)):
                r2 = rng.random()
                seq2, a2, b2 = seq, loc[0], loc[1]
                if r2 < 0.25 and len(seq) > 0:
                    i = rng.randint(0, len(seq) - 1)
                    seq2 = seq[:i] + rng.choice("ATGC") + seq[i + 1:]
                elif r2 < 0.4 and loc[1] <= len(seq) and loc[1] - loc[0] >= 2:
                    a2 = rng.randint(loc[0], loc[1] - 1)
                    b2 = rng.randint(a2, loc[1])
                out.append((ps, toks, seq2, (a2, b2, rng.choice([-1, 0, 1, 1])), True))
    if exhaustive_small:
        for plen in (1, 2):
            for p in itertools.product("ATN", repeat=plen):
                ps = "".join(p)
                for n in range(0, 5):
                    for s in itertools.product("AT", repeat=n):
                        seq = "".join(s)
                        for a in range(n + 1):
                            for b in range(a, n + 1):
                                for st in (-1, 0, 1):
                                    out.append((ps, "dna " + ps, seq, (a, b, st), False))
    return out


def correspondence(ctx):
    from dnachisel import SequencePattern
    rng = ctx.rng
    c = vlib.Corr()
    pat = None
    for ps, toks, seq, loc, reuse in cases(ctx, rng, ctx.n(6000), ctx.thorough):
        ans, pat = impl_find(ps, seq, loc, pat if reuse else None)
        nmatch = 0 if ans in ("-", "KeyError") else ans.count(";") + 1
        line = "pat.find %s %s" % (toks, vlib.seq_tok(seq)) + ("" if loc is None else " %d %d %d" % loc)
        nontriv = nmatch >= 1 and (nmatch >= 2 or (loc is not None and loc[2] != 1))
        c.add(line, ans, nontrivial=nontriv,
              branch="find:%s:%s:%s%s" % (toks.split()[0], "none" if loc is None else loc[2], "hit" if nmatch else "miss",
                                          ":same-object" if reuse else ""))
    for _ in range(ctx.n(600)):
        ps = rand_pattern(rng)
        pat = SequencePattern.from_string(ps)
        c.add("pat.info %s" % parse_shorthand(ps), "%d %s" % (pat.size, str(bool(pat.is_palyndromic)).lower()),
              nontrivial=bool(pat.is_palyndromic), branch="info")
    c.run()
    k = len(c.lines)
    return dict(evaluations=c.evaluations, nontrivial=len(c.nontrivial), hist=c.hist,
                samples=[dict(request=c.lines[i], answer=c.impl[i]) for i in (0, k // 3, 2 * k // 3, k - 2)],
                disagreements=c.disagreements)


# ---------------------------------------------------------------------------------------------
def occ_forward(toks, seq, a, b):
    kind = toks.split()
    res = []
    if kind[0] == "dna":
        p = kind[1]
        k = len(p)
        for i in range(a, b - k + 1):
            if all(seq[i + j] in IUPAC_SETS[p[j]] for j in range(k)):
                res.append((i, i + k))
    else:
        n, kk = int(kind[1]), int(kind[2])
        k = n * kk
        for i in range(a, b - k + 1):
            w = seq[i:i + k]
            if all(ch in "ATGC" for ch in w) and w == w[:kk] * n:
                res.append((i, i + k))
    return res


def rc(s):
    return "".join(COMP[c] for c in reversed(s))


def expected(toks, seq, loc):
    """Occurrences lying entirely inside the location: forward / reverse-complement / both; palindromes once."""
    a, b, st = loc
    fwd = [(i, j, 1) for i, j in occ_forward(toks, seq, a, b)]
    n = len(seq)
    rseq = rc(seq)
    rev = [(n - j, n - i, -1) for i, j in occ_forward(toks, rseq, n - b, n - a)]
    fw_set, rv_set = set(fwd), set(rev)
    if st == 1:
        return fw_set, None
    if st == -1:
        return rv_set, {(x, y) for x, y, _ in rv_set}
    return fw_set | rv_set, None


def oracle_one(ps, toks, seq, loc, out, hist=None):
    """`hist`: earlier searches [(seq, loc), ...] made with the same pattern object before this one"""
    if loc is None or loc[1] > len(seq) or any(ch not in "ATGC" for ch in seq):
        return 0
    kind = toks.split()
    if kind[0] == "dna" and (len(kind[1]) == 0 or any(ch not in IUPAC_SETS for ch in kind[1])):
        return 0
    if kind[0] == "rep" and (int(kind[1]) * int(kind[2]) == 0):
        return 0
    from dnachisel import SequencePattern, Location
    pat = SequencePattern.from_string(ps)
    for hseq, hloc in (hist or []):
        try:
            pat.find_matches(hseq, Location(*hloc))
        except Exception:
            pass
    got = pat.find_matches(seq, Location(*loc))
    got_t = [(l.start, l.end, l.strand) for l in got]
    want, want_spans = expected(toks, seq, loc)
    # palindromic patterns are reported once, by span (their strand label is the forward one)
    want_spans_all = sorted({(x, y) for x, y, _ in want})
    palin = kind[0] == "rep" or rc(kind[1]) == kind[1]   # decided independently of the implementation's flag
    if palin:
        got_spans = sorted((x, y) for x, y, _ in got_t)
        ok = got_spans == want_spans_all     # each span exactly once
    else:
        ok = sorted(got_t) == sorted(want)   # exact occurrences with their strand, no duplicates
    if not ok:
        out.append(dict(kind="find-matches" + (":same-object" if hist else ""),
                        input=[ps, seq, list(loc)] + ([[[h[0], list(h[1])] for h in hist]] if hist else []),
                        detail="got %s expected spans %s" % (got_t, want_spans_all)))
    return 1


def search(ctx, budget, hints):
    rng = vlib.Rng(ctx.seed + 1111)
    out = []
    n = 0
    hist = []
    for ps, toks, seq, loc, reuse in cases(ctx, rng, 2500 * budget, True):
        hist = hist if reuse else []
        n += oracle_one(ps, toks, seq, loc, out, list(hist))
        if loc is not None:
            hist.append((seq, loc))
    best = {}
    for c in out:
        if c["kind"] not in best or len(str(c["input"])) < len(str(best[c["kind"]]["input"])):
            best[c["kind"]] = c
    return dict(counterexamples=list(best.values()), evaluations=n, hist={"find-matches": len(out)},
                samples=[dict(oracle="brute-force occurrences", pattern="GANTC", strand=0)], exhaustive=True)


def replay(ctx, case):
    out = []
    ps, seq, loc = case["input"][:3]
    hist = [(h[0], tuple(h[1])) for h in case["input"][3]] if len(case["input"]) > 3 else None
    oracle_one(ps, parse_shorthand(ps), seq, tuple(loc), out, hist)
    return bool(out)
