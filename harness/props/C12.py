"""C12 — a failed or interrupted solve leaves a usable, restriction-respecting problem."""
import vlib
import solverprops
import solvercase
import solverrec
from gen import problems

RULE = ("fault enumeration + correspondence: for each generated problem the clean run's evaluation calls are counted, then "
        "the same operation (resolve / optimize / direct exhaustive / direct random searches) is re-run with an exception "
        "injected at evaluation call k, for k in a sample of the indices (quick) or every index (thorough); naturally "
        "failing problems and pattern insertions next to frozen segments are included; every run is recorded and replayed by the Lean solver model (outcome, final "
        "sequence, assignment trace, tape); non-trivial = the fault hit after at least one assignment; the oracle "
        "checks length, hard restrictions, sequence_before, re-evaluation and re-solving on the real object")
TRUSTED = ["harness recorder/replay with fault injection at a chosen evaluation index", "oracle in harness/props/C12.py"]
ASSUMPTIONS = ["user resolution heuristics only produce sequences of the local mutation space",
               "the exception is raised from inside a specification's evaluate(); other interruption points "
               "(KeyboardInterrupt between two statements of the solver) are not enumerated"]

OPS = ["resolve", "resolve", "optimize", "exh_resolve", "rnd_resolve", "exh_optimize", "rnd_optimize", "resolve_filtered"]


def failing_direct_cases(rng, n):
    """direct searches that fail naturally, started from a sequence that differs from the recorded
    original one (the input is incompatible with a hard constraint, so it is rewritten at construction)"""
    comp = {"A": "T", "T": "A", "G": "C", "C": "G"}
    for i in range(n):
        d = problems.rand_small_problem(rng, objectives=False)
        seq = d["sequence"]
        a = rng.randint(0, len(seq) - 2)
        for c in d["constraints"]:
            if c["kind"] == "keep_idx":
                c["indices"] = [i for i in c["indices"] if i not in (a, a + 1)] or [i for i in range(len(seq)) if i not in (a, a + 1)][:1]
        d["constraints"].append(dict(kind="sequence", location=[a, a + 2, 1], sequence=comp[seq[a]] + rng.choice("NWS")))
        # two patterns that cannot both be avoided anywhere
        d["constraints"] += [dict(kind="pattern", pattern="W", location=None), dict(kind="pattern", pattern="S", location=None)]
        yield dict(desc=d, op=rng.choice(["exh_resolve", "exh_resolve", "rnd_resolve", "resolve"]), pre_ops=())


def insertion_near_frozen_cases(rng, n):
    """a pattern to insert in a region whose head or tail (centre included) is frozen: the insertion heuristic must
    not write over the frozen nucleotides, whatever happens afterwards"""
    from gen import hard
    for _ in range(n):
        L = rng.randint(16, 40)
        seq = "".join(rng.choice("AT") for _ in range(L))
        a = rng.randint(0, L - 12)
        b = rng.randint(a + 10, min(L, a + 24))
        pat = rng.choice(["GGTCTC", "ACGT", "GCGC", "CCGG", "GAATTC"])
        mid = (a + b) // 2
        if rng.random() < 0.6:
            frozen = [rng.randint(max(a + 1, mid - 4), mid), min(L, b + rng.choice([0, 0, 2]))]     # tail, centre included
        else:
            frozen = [max(0, a - rng.choice([0, 0, 2])), rng.randint(mid, min(b - 1, mid + 4))]     # head, centre included
        cons = [dict(kind="keep", location=[frozen[0], frozen[1], 1]),
                dict(kind="insert", pattern=pat, occurences=1, location=[a, b, rng.choice([1, 0])])]
        if rng.random() < 0.5:
            cons.append(problems.rand_soft(rng, seq, allow=["pattern", "gcwin"]))
        rng.shuffle(cons)
        yield dict(desc=dict(sequence=seq, constraints=cons, objectives=[], settings=problems.rand_settings(rng),
                             np_seed=rng.randint(0, 10 ** 6)), op="resolve", pre_ops=())


def circular_failing_cases(rng, n):
    """circular problems that cannot be solved: a forbidden site across the origin, sitting in frozen flanks (the frozen
    segments listed first or last), plus random circular problems"""
    from gen import hard
    from props import C13
    for i in range(n):
        if i % 3 == 2:
            yield dict(desc=C13.rand_case(rng), op="circ_resolve", pre_ops=())
            continue
        site = rng.choice(["GGTCTC", "CGTCTC", "GAATTC", "ACGT"])
        k = len(site)
        L = rng.randint(3 * k + 4, 60)
        w = rng.randint(k - 1, k + 4)
        seq = list(hard.rand_seq(rng, L))
        j = rng.randint(1, k - 1)
        seq[L - j:] = site[:j]
        seq[:k - j] = site[j:]
        cons = [dict(kind="keep", location=[0, w, rng.choice([0, 1])]), dict(kind="keep", location=[L - w, L, rng.choice([0, 1])])]
        if rng.random() < 0.3:
            cons.pop(rng.randint(0, 1))        # one flank only: often solvable by editing the other side
        pat = dict(kind="pattern", pattern=site, location=None)
        cons = cons + [pat] if rng.random() < 0.7 else [pat] + cons
        if rng.random() < 0.4:
            cons.append(problems.rand_soft(rng, "".join(seq), allow=["pattern", "gcwin"]))
        yield dict(desc=dict(sequence="".join(seq), constraints=cons, objectives=[], settings=problems.rand_settings(rng),
                             np_seed=rng.randint(0, 10 ** 6)), op="circ_resolve", pre_ops=())


def nested_restriction_cases(rng, n):
    """one nucleotide frozen strictly inside a codon of a coding region (a restriction nested in a longer one), the codon
    itself forbidden as a pattern, and a pair of constraints that cannot both hold: the solve fails after local
    successes, and the frozen nucleotide must still be there"""
    six = {"S": ["TCA", "TCC", "TCG", "TCT", "AGC", "AGT"], "L": ["CTA", "CTC", "CTG", "CTT", "TTA", "TTG"],
           "R": ["CGA", "CGC", "CGG", "CGT", "AGA", "AGG"]}
    for _ in range(n):
        m = rng.randint(3, 5)
        cods = [rng.choice(six[rng.choice("SLR")]) for _ in range(m)]
        seq = "".join(cods)
        j = rng.randint(0, m - 1)
        pos = 3 * j + rng.choice([1, 1, 0, 2])
        cons = [dict(kind="cds", location=[0, 3 * m, 1], table="Standard", start_codon=None, translation=None),
                dict(kind="keep", location=[pos, pos + 1, 1]),
                dict(kind="pattern", pattern=cods[j], location=None)]
        if rng.random() < 0.5:
            # a serine codon TCN whose middle C is frozen, with "TC" forbidden on the codon: the only synonyms avoiding it
            # (AGC / AGT) would change the frozen nucleotide, so no solution exists and the codon must stay as it is
            cods[j] = rng.choice(six["S"][:4])
            seq = "".join(cods)
            pos = 3 * j + 1
            cons = [dict(kind="cds", location=[0, 3 * m, 1], table="Standard", start_codon=None, translation=None),
                    dict(kind="keep", location=[pos, pos + 1, 1]),
                    dict(kind="pattern", pattern="TC", location=[3 * j, 3 * j + 3, 1])]
        elif rng.random() < 0.7:
            cons += [dict(kind="gcwin", mini=0.9, maxi=1.0, window=3 * m, location=None)]     # cannot hold: the solve fails
        rng.shuffle(cons)
        yield dict(desc=dict(sequence=seq, constraints=cons, objectives=[], settings=problems.rand_settings(rng),
                             np_seed=rng.randint(0, 10 ** 6)), op=rng.choice(["resolve", "resolve", "exh_resolve"]), pre_ops=())


def base_cases(rng, n):
    for c in nested_restriction_cases(rng, max(6, n // 6)):
        yield c
    for c in failing_direct_cases(rng, max(6, n // 5)):
        yield c
    for c in circular_failing_cases(rng, max(6, n // 5)):
        yield c
    for c in insertion_near_frozen_cases(rng, max(6, n // 6)):
        yield c
    for i in range(n):
        op = OPS[i % len(OPS)]
        small = op.startswith(("exh_", "rnd_"))
        if op == "resolve_filtered" and False:
            pass
        d = problems.rand_small_problem(rng, objectives=("optimize" in op)) if small \
            else problems.rand_solver_problem(rng, objectives=(op == "optimize"))
        pre = ("resolve",) if op == "optimize" else ()
        for c in d["constraints"]:
            # a heuristic that overwrites nucleotides outside the local mutation space breaks hard restrictions
            # by itself: outside this property (hypothesis of the theorems: heuristics stay inside the space)
            if c.get("heuristic") == "paste":
                c["heuristic"] = "lying"
        yield dict(desc=d, op=op, pre_ops=pre)


def oracle(results, out):
    from dnachisel import NoSolutionError
    n = 0
    for r in results:
        p, info, case = r["problem"], r["info"], r["case"]
        if info["outcome"] == "ok":
            continue
        n += 1
        inp = dict(desc=case["desc"], op=case["op"], pre_ops=list(case.get("pre_ops", ())), fault_at=case.get("fault_at"))
        start = r["line"].split(" | ")[4].strip()
        seq0 = case["desc"]["sequence"].upper()
        if len(p.sequence) != len(seq0):
            out.append(dict(kind="length-changed-after-failure", input=inp, detail=p.sequence))
        if not solverprops.in_space(p) or (not case["desc"].get("circular") and not case["op"].startswith("circ")
                                            and not solverprops.restrictions_respected(p, case["desc"]["sequence"].upper())):
            out.append(dict(kind="hard-restriction-broken-after-failure", input=inp, detail=p.sequence))
        if len(p.constraints) != len(case["desc"]["constraints"]) or len(p.objectives) != len(case["desc"].get("objectives", [])):
            out.append(dict(kind="specifications-lost-after-failure", input=inp,
                            detail="%d constraints / %d objectives left of %d / %d" % (len(p.constraints), len(p.objectives),
                                                                                        len(case["desc"]["constraints"]), len(case["desc"].get("objectives", [])))))
        if p.sequence_before != seq0:
            out.append(dict(kind="sequence-before-changed", input=inp, detail=p.sequence_before))
        if case["op"] == "exh_resolve" and info["outcome"] == "NoSolution" and p.sequence != start:
            out.append(dict(kind="exhaustive-fail-not-restored", input=inp, detail="%s != %s" % (p.sequence, start)))
        # the problem can be evaluated and solved again
        try:
            p.constraints_evaluations(autopass=False)
            p.objectives_evaluations()
            p.number_of_edits()
        except Exception as e:  # noqa
            out.append(dict(kind="cannot-evaluate-after-failure", input=inp, detail=repr(e)[:200]))
            continue
        try:
            p.resolve_constraints()
        except NoSolutionError:
            pass
        except Exception as e:  # noqa
            out.append(dict(kind="cannot-solve-again", input=inp, detail=repr(e)[:200]))
    return n


def with_faults(rng, bases, per_problem):
    """clean run first (counts the evaluations), then faults at chosen indices"""
    cases = []
    for case in bases:
        res, _ = solverprops.run_cases([case])
        if not res:
            continue
        n_eval = res[0]["info"]["n_eval"]
        cases.append(case)
        if n_eval == 0 or case.get("no_faults"):
            continue
        if per_problem is None or n_eval <= per_problem:
            ks = list(range(n_eval))
        else:
            ks = sorted(set([0, n_eval - 1] + [rng.randrange(n_eval) for _ in range(per_problem - 2)]))
        for k in ks:
            cases.append(dict(case, fault_at=k))
    return cases


def correspondence(ctx):
    bases = list(base_cases(ctx.rng, ctx.n(70, 700)))
    cases = with_faults(ctx.rng, bases, 8 if not ctx.thorough else 60)
    results, skipped = solverprops.run_cases(cases)
    ctx._results = results
    c = solverprops.correspondence_of(results)
    s = solverprops.summarize(c, skipped)
    s["hist"]["faulted-runs"] = sum(1 for r in results if r["case"].get("fault_at") is not None)
    return s


def search(ctx, budget, hints):
    out = []
    n = oracle(getattr(ctx, "_results", []), out)
    if budget > 1 or n == 0:
        rng = vlib.Rng(ctx.seed + 1212)
        cases = with_faults(rng, list(base_cases(rng, 40 * budget)), 10)
        more, _ = solverprops.run_cases(cases)
        n += oracle(more, out)
    cex, hist = solverprops.shrink_best(out)
    return dict(counterexamples=cex, evaluations=n, hist=hist,
                samples=[dict(oracle="after the exception: len, every choice's segment among its variants, sequence_before, "
                                     "re-evaluation, resolve_constraints() again raises at most NoSolutionError")])


def replay(ctx, case):
    inp = case["input"]
    r = solvercase.run_case(inp["desc"], inp["op"], fault_at=inp.get("fault_at"), pre_ops=tuple(inp.get("pre_ops", ())))
    if "skip" in r:
        return False
    r["case"] = dict(desc=inp["desc"], op=inp["op"], pre_ops=tuple(inp.get("pre_ops", ())), fault_at=inp.get("fault_at"))
    out = []
    oracle([r], out)
    return any(c["kind"] == case.get("kind") for c in out)
