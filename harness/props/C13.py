"""C13 — circular problems: a successful solve holds across the sequence origin."""
from fractions import Fraction

import vlib
import solverprops
import solvercase
import oracle_doc
from gen import hard, problems
from props import C11

RULE = ("correspondence: CircularDnaOptimizationProblem.resolve_constraints() on circular sequences of 8-36 nt with 1-3 "
        "constraints (whole-sequence patterns on strand 0 / +1 / -1, located patterns, GC windows, frozen regions, "
        "coding regions), sites planted across the origin at every split, specification objects already used on a shorter problem, all solver settings; every three-copy view "
        "built during the run is recorded (its specification objects, those overlapping the central copy, its "
        "nucleotide restrictions) and the run is replayed by the Lean model (majority _replace_sequence, central-copy "
        "loop, circular final check); non-trivial = at least 3 assignments; oracle on the real object: returns only "
        "if all_constraints_pass(autopass=False) and an independent scan of sequence + sequence[:k-1] (patterns) / "
        "every cyclic window (GC) finds nothing, length and frozen regions kept, otherwise NoSolutionError")
TRUSTED = ["harness recorder/replay incl. the _circularized_view hook", "independent cyclic scan in harness/props/C13.py"]
ASSUMPTIONS = ["specification calls made while a view is being constructed are not part of the modelled run",
               "a located specification is meant linearly inside its location (it is triplicated, not wrapped)"]


def rand_case(rng):
    n = rng.randint(8, 36)
    seq = hard.rand_seq(rng, n)
    cons = []
    for _ in range(rng.randint(1, 3)):
        r = rng.random()
        if r < 0.45:
            pat = problems.rand_pattern(rng)
            st = rng.choice([0, 0, 1, -1])
            whole = rng.random() < 0.7
            if whole:
                loc = None if (st == 0 and rng.random() < 0.7) else [0, n, st]
            else:
                loc = problems.rand_loc(rng, n, 3)
            cons.append(dict(kind="pattern", pattern=pat, location=loc))
        elif r < 0.65:
            w = min(rng.choice([4, 5, 8]), n)
            whole = rng.random() < 0.6
            cons.append(dict(kind="gcwin", mini=rng.choice([0.0, 0.25, 0.3]), maxi=rng.choice([0.7, 0.75, 1.0]), window=w,
                             location=None if whole else problems.rand_loc(rng, n, w, strands=(1, 0))))
        elif r < 0.72:
            cons.append(dict(kind="keep_edits", max_edits=rng.randint(1, 2), location=problems.rand_loc(rng, n, 3, strands=(1, 0))))
        elif r < 0.85:
            cons.append(hard.rand_hard_constraint(rng, seq, ["keep", "keep_idx"]))
        else:
            cons.append(hard.rand_hard_constraint(rng, seq, ["cds"]))
    # plant an occurrence of one whole-sequence pattern across the origin
    pats = [c for c in cons if c["kind"] == "pattern" and (c["location"] is None or c["location"][:2] == [0, n])]
    planted = False
    if pats and rng.random() < 0.7:
        c = rng.choice(pats)
        toks = C11.parse_shorthand(c["pattern"]).split()
        if toks[0] == "dna":
            inst = "".join(rng.choice(C11.IUPAC_SETS.get(ch, "A")) for ch in toks[1])
        else:
            inst = "".join(rng.choice("ATGC") for _ in range(int(toks[2]))) * int(toks[1])
        st = 0 if c["location"] is None else c["location"][2]
        if st == -1 or (st == 0 and rng.random() < 0.4):
            inst = C11.rc(inst)
        k = len(inst)
        if 2 <= k <= n:
            j = rng.randint(1, k - 1)
            t = list(seq)
            t[n - j:] = inst[:j]
            t[:k - j] = inst[j:]
            seq = "".join(t)
            planted = True
    desc = dict(sequence=seq, constraints=cons, objectives=[], settings=problems.rand_settings(rng),
                np_seed=rng.randint(0, 10 ** 6), planted=planted)
    ends = [c["location"][1] for c in cons if c.get("location")] + [max(c["indices"]) + 1 for c in cons if c.get("indices")]
    m_lo = max([6] + ends + [c.get("window", 0) for c in cons])
    if rng.random() < 0.3 and m_lo < n and all(c["kind"] != "cds" or c["location"][1] <= m_lo for c in cons):
        desc["reuse_after"] = seq[:rng.randint(m_lo, n - 1)]
    return desc


def budget_case(rng):
    """regions with a positive edit budget (AvoidChanges max_edits > 0) holding more forbidden sites than the budget
    allows, next to / across the origin: every view built during the solve must count edits against the original"""
    site = rng.choice(["GGTCTC", "CGTCTC", "GAATTC", "ACGT", "ATGCAT"])
    k = len(site)
    n = rng.randint(4 * k + 6, 60)
    w = rng.randint(k + 2, 2 * k + 4)
    seq = list(hard.rand_seq(rng, n))
    cons = []
    regions = rng.choice([[(0, w)], [(n - w, n)], [(0, w), (n - w, n)], [(rng.randint(1, n - w - 1),) * 2]])
    regions = [(a, a + w) if a == b else (a, b) for a, b in regions]
    for a, b in regions:
        for j in rng.sample(range(a, b - k + 1), min(2, b - k + 1 - a)):
            seq[j:j + k] = site
        cons.append(dict(kind="keep_edits", max_edits=1, location=[a, b, rng.choice([0, 1])]))
    if rng.random() < 0.5:
        j = rng.randint(1, k - 1)
        seq[n - j:] = site[:j]
        seq[:k - j] = site[j:]
    cons.append(dict(kind="pattern", pattern=site, location=None))
    if rng.random() < 0.5:
        cons.reverse()
    return dict(sequence="".join(seq), constraints=cons, objectives=[], settings=problems.rand_settings(rng),
                np_seed=rng.randint(0, 10 ** 6), planted=True)


def frozen_indices_case(rng):
    """listed positions frozen by AvoidChanges(indices=..., location=...) whose location starts before the first index,
    in a sequence full of sites of a whole-sequence pattern: every free position around them gets edited, the listed
    ones must come back unchanged (each of the three copies of the view has to freeze the right positions)"""
    n = rng.randint(12, 30)
    pat = rng.choice(["2xY", "2xR", "2xS", "2xW", "3xS", "3xW"])
    cls = {"Y": "CT", "R": "AG", "S": "CG", "W": "AT"}[pat[-1]]
    seq = "".join(rng.choice(cls) if rng.random() < 0.7 else rng.choice("ATGC") for _ in range(n))
    idx = sorted(rng.sample(range(2, n - 1), rng.randint(2, 5)))
    a = rng.randint(0, idx[0] - 1)
    b = rng.randint(idx[-1] + 1, n)
    keep = dict(kind="keep_idx", indices=idx if rng.random() < 0.6 else rng.sample(idx, len(idx)), location=[a, b, 1])
    cons = [keep, dict(kind="pattern", pattern=pat, location=None if rng.random() < 0.5 else [0, n, rng.choice([1, -1, 0])])]
    if rng.random() < 0.5:
        cons.reverse()
    return dict(sequence=seq, constraints=cons, objectives=[], settings=problems.rand_settings(rng),
                np_seed=rng.randint(0, 10 ** 6), planted=True)


def gen_cases(rng, n):
    for i in range(n):
        yield dict(desc=budget_case(rng) if i % 8 == 5 else frozen_indices_case(rng) if i % 8 == 3 else rand_case(rng),
                   op="circ_resolve")


def cyclic_breaches(desc, s):
    """independent reading of the circular meaning of every constraint -> list of breach descriptions"""
    n = len(s)
    original = desc["sequence"].upper()
    bad = []
    if n != len(original):
        return ["length %d -> %d" % (len(original), n)]
    for c in desc["constraints"]:
        k = c["kind"]
        loc = c.get("location")
        whole = loc is None or list(loc[:2]) == [0, n]
        if k == "pattern":
            toks = C11.parse_shorthand(c["pattern"])
            tk = toks.split()
            size = len(tk[1]) if tk[0] == "dna" else int(tk[1]) * int(tk[2])
            st = 0 if loc is None else loc[2]
            if whole:
                if size > n + 1 or size == 0:
                    continue
                ext = s + s[:size - 1]
                want, _ = C11.expected(toks, ext, (0, len(ext), st))
                # strand -1 occurrences of the circular sequence: scan the reverse complement circularly as well
                if want:
                    bad.append("pattern %s (strand %d) occurs in the circular sequence at %s" % (c["pattern"], st, sorted(want)[:3]))
            else:
                want, _ = C11.expected(toks, s, tuple(loc))
                if want:
                    bad.append("pattern %s occurs in %s at %s" % (c["pattern"], loc, sorted(want)[:3]))
        elif k == "gcwin":
            w = c["window"]
            lo, hi = Fraction(str(c["mini"])), Fraction(str(c["maxi"]))
            if whole:
                ext = s + s[:w - 1]
                rng_ = range(0, n)
            else:
                ext = s
                rng_ = range(loc[0], loc[1] - w + 1)
            for i in rng_:
                g = Fraction(sum(ch in "GC" for ch in ext[i:i + w]), w)
                if not (lo <= g <= hi):
                    bad.append("GC window at %d (size %d) = %s outside [%s, %s]" % (i, w, g, lo, hi))
                    break
        else:
            d = oracle_doc.doc(c, original, s)
            if d is not None and d["score"] < 0:
                if k == "keep_edits" and whole and c.get("indices") is None:
                    # open finding D20: a budget over the whole circular sequence is re-anchored on every view
                    bad.append("whole-span-budget: %s edits allowed, %d made" % (c.get("max_edits", c.get("max_edits_percent")), -d["score"] + (c.get("max_edits") or 0)))
                else:
                    bad.append("%s %s breached" % (k, c.get("location") or c.get("indices")))
    return bad


def oracle(results, out):
    import dnachisel as dc
    n = 0
    for r in results:
        p, info, case = r["problem"], r["info"], r["case"]
        inp = dict(desc=case["desc"], op=case["op"])
        oc = info["outcome"]
        n += 1
        if oc == "ok":
            try:
                passes = p.all_constraints_pass(autopass=False)
            except Exception as e:
                passes = "raised %r" % e
            if passes is not True:
                out.append(dict(kind="returned-but-circular-check-fails", input=inp, detail="%s -> %s: all_constraints_pass = %s" % (case["desc"]["sequence"], p.sequence, passes)))
            bad = cyclic_breaches(case["desc"], p.sequence)
            if bad:
                kinds = "junction" if any("circular sequence" in b or "GC window" in b for b in bad) else "restriction"
                if all(b.startswith("whole-span-budget") for b in bad):
                    kinds = "whole-span-edit-budget"
                out.append(dict(kind="returned-with-breach:%s" % kinds, input=inp, detail="%s -> %s: %s" % (case["desc"]["sequence"], p.sequence, "; ".join(bad)[:300])))
        elif oc != "NoSolution":
            n_ = len(case["desc"]["sequence"])
            whole_cds = any(c["kind"] == "cds" and list(c["location"][:2]) == [0, n_] for c in case["desc"]["constraints"])
            if oc == "ValueError" and whole_cds and "incompatible with translation" in repr(info.get("exception")):
                kind = "whole-sequence-cds:ValueError"
            else:
                kind = "wrong-exception:%s" % oc
            out.append(dict(kind=kind, input=inp, detail=repr(info.get("exception"))[:200]))
    return n


def correspondence(ctx):
    results, skipped = solverprops.run_cases(gen_cases(ctx.rng, ctx.n(500, 8000)))
    ctx._results = results
    for r in results:
        if r["info"]["views"] == 0:
            # the first view could not even be constructed (an exception from a constructor): nothing to replay
            r["no_model"] = True
            skipped["view-construction-raised"] = skipped.get("view-construction-raised", 0) + 1
    c = solverprops.correspondence_of(results)
    extra = {"planted-across-origin": sum(1 for r in results if r["case"]["desc"].get("planted"))}
    return solverprops.summarize(c, skipped, extra)


def search(ctx, budget, hints):
    out = []
    n = oracle(getattr(ctx, "_results", []), out)
    if budget > 1 or n == 0:
        rng = vlib.Rng(ctx.seed + 1313)
        more, _ = solverprops.run_cases(gen_cases(rng, 300 * budget))
        n += oracle(more, out)
    cex, hist = solverprops.shrink_best(out)
    return dict(counterexamples=cex, evaluations=n, hist=hist,
                samples=[dict(oracle="all_constraints_pass(autopass=False) + independent cyclic scan on the real object")])


def replay(ctx, case):
    inp = case["input"]
    r = solvercase.run_case(inp["desc"], inp["op"])
    if "skip" in r:
        return False
    r["case"] = dict(desc=inp["desc"], op=inp["op"])
    out = []
    oracle([r], out)
    return bool(out)
