"""C14 — the solver does not touch what is already fine."""
import numpy as np

import vlib
import solverprops
import solvercase
from gen import problems, hard

RULE = ("correspondence: second resolve_constraints() on problems already solved by a first (unrecorded) call, and "
        "optimize() after resolve+optimize, recorded and replayed by the Lean solver model (outcome, final sequence, "
        "assignment trace, tape use must agree); non-trivial = the problem has >= 2 non-enforced constraints or >= 1 "
        "objective evaluated; distinct = request lines.  Oracle on the real objects: sequence and numpy.random.get_state() "
        "unchanged over random interleavings of resolve/optimize calls; constructor keeps compatible segments")
TRUSTED = ["harness/solverrec.py recorder", "numpy.random.get_state() as witness that no random number was drawn"]
ASSUMPTIONS = ["evaluate() of the constraints/objectives involved is deterministic and draws no random number "
               "(true of every built-in except MatchTargetCodonUsage, which shuffles locations and is objective-only)"]


def gen_cases(rng, n):
    for i in range(n):
        d = problems.rand_solver_problem(rng, objectives=True)
        if i % 2 == 0:
            yield dict(desc=d, op="resolve", pre_ops=("resolve",))
        else:
            yield dict(desc=d, op="optimize", pre_ops=("resolve", "optimize"))


def rng_state_equal(a, b):
    return a[0] == b[0] and np.array_equal(a[1], b[1]) and a[2:] == b[2:]


def oracle_noop(rng, desc, out):
    """resolve on satisfied constraints / optimize on optimal objectives: no change, no draw, any order, repeated."""
    try:
        p = solvercase.build_problem(desc)
        # already fine by an independent reading of every constraint's documentation (not by the code's own evaluation)?
        seq0 = desc["sequence"].upper()
        fine = False
        if p.sequence == seq0 and not desc.get("reuse_after") and not desc.get("construct_first"):
            import oracle_doc
            docs = [oracle_doc.doc(c, seq0, seq0) for c in desc["constraints"]]
            fine = all(d is not None and d["score"] >= 0 for d in docs)
        state0 = np.random.get_state()
        try:
            p.resolve_constraints()
        except Exception as e:
            if fine:
                out.append(dict(kind="noop-resolve-raised", input=dict(desc=desc), detail="every constraint holds on %s by its documentation, yet %s" % (seq0, repr(e)[:150])))
                return 1
            raise
        if fine and (p.sequence != seq0 or not rng_state_equal(state0, np.random.get_state())):
            out.append(dict(kind="resolve-not-noop", input=dict(desc=desc),
                            detail="every constraint holds on %s by its documentation, yet resolve_constraints() gave %s / drew random numbers" % (seq0, p.sequence)))
            return 1
        if not desc.get("derived") and rng.random() < 0.35:
            # the solved sequence as the input of a fresh problem with the same specifications: already fine
            return oracle_noop(rng, dict(desc, sequence=p.sequence, derived=True), out)
        if rng.random() < 0.3:
            # the solved sequence is given to a new problem whose specification objects were used before on another
            # sequence: every constraint passes on it (decided on the fresh objects above), so nothing may happen
            solved = p.sequence
            if not all(c.evaluate(p).passes for c in p.constraints):
                return 0
            d2 = dict(desc, sequence=solved, reuse_after=hard.rand_seq(rng, len(solved)))
            p = solvercase.build_problem(d2)
            if p.sequence != solved:
                return 0      # construction itself rewrote it (a hard restriction refers to the sequence): other oracle
            try:
                state = np.random.get_state()
                p.resolve_constraints()
                if p.sequence != solved or not rng_state_equal(state, np.random.get_state()):
                    out.append(dict(kind="resolve-not-noop", input=dict(desc=d2), detail="%s -> %s (specification objects reused)" % (solved, p.sequence)))
            except Exception as e:
                out.append(dict(kind="noop-resolve-raised", input=dict(desc=d2), detail="all constraints pass on %s, yet %s" % (solved, repr(e)[:150])))
            return 1
    except Exception:
        return 0
    n = 0
    for _ in range(3):
        call = rng.choice(["resolve", "optimize", "resolve"])
        before_seq = p.sequence
        state = np.random.get_state()
        if call == "resolve":
            if not p.all_constraints_pass():
                return n
            try:
                p.resolve_constraints()
            except Exception as e:
                from dnachisel import NoSolutionError
                if not isinstance(e, NoSolutionError):
                    out.append(dict(kind="noop-resolve-raised", input=dict(desc=desc), detail=repr(e)[:200]))
            n += 1
            if p.sequence != before_seq or not rng_state_equal(state, np.random.get_state()):
                out.append(dict(kind="resolve-not-noop", input=dict(desc=desc),
                                detail="%s -> %s, rng state changed: %s" % (before_seq, p.sequence,
                                                                            not rng_state_equal(state, np.random.get_state()))))
        else:
            evs = [o.evaluate(p) for o in p.objectives]
            if not all(o.best_possible_score is not None and e.score == o.best_possible_score for o, e in zip(p.objectives, evs)):
                try:
                    p.optimize()
                except Exception:
                    return n
                continue
            p.optimize()
            n += 1
            if p.sequence != before_seq or not rng_state_equal(state, np.random.get_state()):
                out.append(dict(kind="optimize-not-noop", input=dict(desc=desc), detail="%s -> %s" % (before_seq, p.sequence)))
    return n


def oracle_constructor(rng, out, forced=None):
    """Building a problem keeps compatible segments, only rewrites incompatible ones (and upper-cases)."""
    import dnachisel as dc
    from dnachisel.MutationSpace import MutationSpace
    seq, descs = hard.rand_problem(rng, nmin=4, nmax=14, kmax=3)
    known_compatible = False
    share = rng.random() < 0.3
    if rng.random() < 0.15:
        # a gene (either strand) that already encodes the requested protein, frozen by a second specification given the
        # SAME Location object: every constraint holds on the input by construction
        from props import C07
        back = C07.std_back()
        m = rng.randint(1, 4)
        protein = "".join(rng.choice(C07.AAS) for _ in range(m))
        cds = "".join(rng.choice(sorted(back[a_])) for a_ in protein)
        st = rng.choice([1, -1, -1])
        left, right = hard.rand_seq(rng, rng.randint(0, 4)), hard.rand_seq(rng, rng.randint(0, 4))
        seq = left + (cds if st == 1 else hard.rc(cds)) + right
        loc = [len(left), len(left) + 3 * m, st]
        descs = [dict(kind="cds", location=loc, table="Standard", start_codon=None, translation=protein),
                 dict(kind="keep", location=list(loc))]
        if rng.random() < 0.5:
            descs.reverse()
        if rng.random() < 0.4:
            # the gene alone, protein read from the input, its own first codon kept (policy "keep"), any table: whatever
            # the first codon is, the input is compatible by definition
            descs = [dict(kind="cds", location=loc, table=rng.choice(hard.TABLES), start_codon="keep", translation=None)]
            # (a start-codon policy requires the gene to begin with a start codon of its table)
            seq = hard.plant_coding_region(rng, left + hard.rand_seq(rng, 3 * m) + right, descs[0])
        known_compatible, share = True, True
    given = seq if rng.random() < 0.7 else seq.lower()
    if forced is not None:
        given, descs = forced["sequence"], forced["constraints"]
        seq, share, known_compatible = given.upper(), bool(forced.get("shared_locations")), bool(forced.get("known_compatible"))
    try:
        if share:
            with hard.shared_locations():
                cons = [hard.build_constraint(d) for d in descs]
        else:
            cons = [hard.build_constraint(d) for d in descs]
        if rng.random() < 0.25:
            # the same constraint objects were used before on another sequence
            try:
                dc.DnaOptimizationProblem(hard.rand_seq(rng, len(seq)), constraints=cons, logger=None)
            except Exception:
                pass
        seed_used = rng.randint(0, 10 ** 6)
        np.random.seed(seed_used)
        p = dc.DnaOptimizationProblem(given, constraints=cons, logger=None)
    except Exception as e:
        if known_compatible:
            out.append(dict(kind="constructor-raised-on-compatible-input", input=dict(sequence=given, constraints=descs, shared_locations=share, known_compatible=True),
                            detail="every constraint holds on the input by construction, yet %s" % repr(e)[:150]))
            return 1
        return 0
    up = given.upper()
    if known_compatible and p.sequence != up:
        out.append(dict(kind="constructor-changed-compatible-input", input=dict(sequence=given, constraints=descs, shared_locations=share, known_compatible=True),
                        detail="%s -> %s although every hard constraint holds on the input by construction" % (up, p.sequence)))
        return 1
    final = p.sequence
    ok = len(final) == len(up)
    touched = set()
    for ch in p.mutation_space.choices_list:
        vs = [str(v) for v in ch.variants]
        if up[ch.start:ch.end] in vs:
            if final[ch.start:ch.end] != up[ch.start:ch.end]:
                ok = False
        else:
            touched.update(range(ch.start, ch.end))
            if final[ch.start:ch.end] not in vs:
                ok = False
    for i in range(len(up)):
        if i not in touched and final[i] != up[i]:
            ok = False
    # independent reading of "compatible": every hard constraint evaluates as passing on the input
    # (an explicit start-codon policy restricts more than evaluate() checks, so those problems are left out;
    #  the policy "keep" freezes the input's own first codon and is compatible by definition)
    try:
        stub = hard.init_constraints(up, descs)
        compatible = all(c.evaluate(stub).passes for c in stub.constraints) and \
            not any(d["kind"] == "cds" and d.get("start_codon") not in (None, "keep") for d in descs)
    except Exception:
        compatible = False
    if compatible and final != up:
        out.append(dict(kind="constructor-changed-compatible-input", input=dict(sequence=given, constraints=descs),
                        detail="%s -> %s although every hard constraint passes on the input" % (up, final)))
    # "replaces only the incompatible segments", read independently of the space the code built: for every group of
    # overlapping restrictions, the exact set of allowed words is enumerated; if the input already agrees with an
    # allowed word on the whole span over which allowed words differ, that span must come back unchanged
    try:
        import itertools
        restrs = sorted((a, b, set(vs)) for a, b, vs in hard.restrictions_of(stub))
        comps = []
        for a, b, vs in restrs:
            if comps and a < comps[-1][1]:
                comps[-1][1] = max(comps[-1][1], b)
                comps[-1][2].append((a, b, vs))
            else:
                comps.append([a, b, [(a, b, vs)]])
        for lo, hi, rs in comps:
            if hi - lo > 7 or len(rs) < 2:
                continue
            allowed = ["".join(w) for w in itertools.product("ATGC", repeat=hi - lo)
                       if all("".join(w[a - lo:b - lo]) in vs for a, b, vs in rs)]
            if not allowed:
                continue
            varying = [j for j in range(hi - lo) if len({w[j] for w in allowed}) > 1]
            if not varying:
                continue
            c0, c1 = lo + min(varying), lo + max(varying) + 1
            cores = {w[c0 - lo:c1 - lo] for w in allowed}
            if up[c0:c1] in cores and final[c0:c1] != up[c0:c1]:
                out.append(dict(kind="constructor-replaced-compatible-segment", input=dict(sequence=given, constraints=descs, np_seed=seed_used),
                                detail="%s -> %s: positions %d-%d (%s) were compatible with the overlapping restrictions %s" % (
                                    up, final, c0, c1, up[c0:c1], [(a, b) for a, b, _ in rs])))
                break
    except Exception:
        pass
    # idempotence of constrain_sequence and no draw the second time
    state = np.random.get_state()
    again = p.mutation_space.constrain_sequence(final)
    if again != final or not rng_state_equal(state, np.random.get_state()):
        ok = False
    if not ok:
        out.append(dict(kind="constructor-not-minimal", input=dict(sequence=given, constraints=descs), detail="%s -> %s" % (up, final)))
    return 1


def correspondence(ctx):
    results, skipped = solverprops.run_cases(gen_cases(ctx.rng, ctx.n(300, 4000)))
    c = solverprops.correspondence_of(results)
    return solverprops.summarize(c, skipped)


def search(ctx, budget, hints):
    rng = vlib.Rng(ctx.seed + 1414)
    out = []
    n = 0
    tstats = {}
    for i_ in range(120 * budget):
        d_ = problems.rand_solver_problem(rng, objectives=True)
        if i_ % 10 == 9:
            # GC windows longer than their region / the sequence: no window exists, whatever the composition
            n_ = rng.randint(6, 30)
            s_ = "".join(rng.choice(rng.choice(["AT", "GC", "ATGC"])) for _ in range(n_))
            w_ = n_ + rng.randint(1, 25)
            c_ = dict(kind="gcwin", mini=rng.choice([0.25, 0.4]), maxi=rng.choice([0.6, 0.75]), window=w_, location=None)
            if rng.random() < 0.5:
                a_ = rng.randint(0, n_ - 3)
                c_["location"] = [a_, rng.randint(a_ + 2, n_), rng.choice([1, 0])]
                c_["window"] = c_["location"][1] - a_ + rng.randint(1, 10)
            d_ = dict(sequence=s_, constraints=[c_], objectives=[], settings={}, np_seed=rng.randint(0, 10 ** 6))
        if i_ % 10 == 4:
            # GC bounds written as a string of integer percentages, every window exactly ON the lower (or upper) bound
            w_ = rng.choice([10, 20, 25, 50])
            ks_ = [k_ for k_ in range(5, 96) if (k_ * w_) % 100 == 0]
            k_ = rng.choice(ks_)
            lo_, hi_ = (k_, rng.randint(k_ + 1, 99)) if rng.random() < 0.6 else (rng.randint(1, k_ - 1), k_)
            unit_ = list("G" * (k_ * w_ // 100) + "A" * (w_ - k_ * w_ // 100))
            rng.shuffle(unit_)
            s_ = ("".join(unit_) * 4)[:w_ + rng.randint(0, 2 * w_)]
            d_ = dict(sequence=s_, constraints=[dict(kind="gcwin", mini=lo_ / 100.0, maxi=hi_ / 100.0, window=w_, location=None, as_string=True)],
                      objectives=[], settings={}, np_seed=rng.randint(0, 10 ** 6))
        n += vlib.limited(lambda: oracle_noop(rng, d_, out), 10, 0, tstats)
    for k_ in range(1, 100):
        # "k-100%/100bp" on a 100-nt sequence holding exactly k G/C: on the bound, nothing to do
        unit_ = list("G" * k_ + "A" * (100 - k_))
        rng.shuffle(unit_)
        d_ = dict(sequence="".join(unit_), constraints=[dict(kind="gcwin", mini=k_ / 100.0, maxi=1.0, window=100, location=None, as_string=True)],
                  objectives=[], settings={}, np_seed=k_)
        n += vlib.limited(lambda: oracle_noop(rng, d_, out), 10, 0, tstats)
    for _ in range(900 * budget):
        n += vlib.limited(lambda: oracle_constructor(rng, out), 10, 0, tstats)
    cex, hist = solverprops.shrink_best(out)
    hist.update({"skipped:" + k: v for k, v in tstats.items()})
    return dict(counterexamples=cex, evaluations=n, hist=hist,
                samples=[dict(oracle="sequence and numpy RNG state before/after resolve/optimize on satisfied problems")])


def replay(ctx, case):
    out = []
    inp = case["input"]
    if "desc" in inp:
        for s in range(20):
            oracle_noop(vlib.Rng(s), inp["desc"], out)
    else:
        for s in range(5):
            oracle_constructor(vlib.Rng(s), out, forced=inp)
    return any(c["kind"] == case.get("kind") for c in out)
