"""C15 — mutation-space operations stay inside the space and cover it."""
import math
import vlib
from gen import hard
from tape import Recorder

RULE = ("correspondence: mutation spaces built by the real from_optimization_problem from random mixes of hard "
        "constraints (AvoidChanges loc/indices, EnforceTranslation both strands/start policies/tables, EnforceSequence, "
        "EnforceChoice, EnforceChanges, AvoidRareCodons) on 3-12 nt, then build / localized / size / constrain_sequence / "
        "apply_random_mutations / all_variants with the numpy draws replayed from a recorded tape; non-trivial = the "
        "space has a merged (multi-nucleotide, multi-variant) choice or the location cuts a choice; distinct = request lines")
TRUSTED = ["harness/props/C15.py correspondence + explicit-enumeration oracle", "tape recorder (harness/tape.py)",
           "numpy.random replaced by the recorded tape in the model"]
ASSUMPTIONS = ["space_size is compared with the exact product up to 1e-9 relative (float exp/log): partial",
               "sequences are over ATGC; restrictions lie inside the sequence"]


def fmt_choice(c):
    return "%d-%d:%s" % (c.start, c.end, ",".join(sorted(str(v) for v in c.variants)))


def fmt_choices(cs):
    return "-" if not cs else " ".join(fmt_choice(c) for c in cs)


def build(seq, descs):
    """-> (stub, space, restrs) or raises"""
    from dnachisel.MutationSpace import MutationSpace
    stub = hard.init_constraints(seq, descs)
    restrs = hard.restrictions_of(stub)
    space = MutationSpace.from_optimization_problem(stub)
    return stub, space, restrs


def product(space):
    p = 1
    for c in space.multichoices:
        p *= len(c.variants)
    return p if space.multichoices else 0


def in_space(space, s):
    return all(s[c.start:c.end] in [str(v) for v in c.variants] for c in space.choices_list)


def correspondence(ctx):
    rng = ctx.rng
    c = vlib.Corr()
    errors = {}
    for _ in range(ctx.n(900)):
        seq, descs = hard.rand_problem(rng)
        try:
            built = vlib.limited(lambda: build(seq, descs), 10, None, errors)
            if built is None:
                continue
            stub, space, restrs = built
        except Exception as e:  # constructor / initialisation errors are outside this property
            errors[type(e).__name__] = errors.get(type(e).__name__, 0) + 1
            continue
        head = "%s %s" % (seq, hard.restr_tokens(restrs))
        merged = any(len(ch.variants) >= 2 and ch.end - ch.start >= 2 for ch in space.choices_list)
        c.add("space.build " + head,
              fmt_choices(space.choices_list) + " | unsolvable " + " ".join("%d-%d" % tuple(s) for s in space.unsolvable_segments),
              nontrivial=merged, branch="build:%s" % ("unsolvable" if space.unsolvable_segments else "ok"))
        n = len(seq)
        for _ in range(2):
            a = rng.randint(0, n)
            b = rng.randint(a, n + 2)
            loc = space.localized((a, b))
            pad = 0
            for x in loc.choices_index:
                if x is None:
                    pad += 1
                else:
                    break
            span = loc.choices_span
            cuts = any((ch.start < a < ch.end) or (ch.start < b < ch.end) for ch in space.choices_list)
            c.add("space.localized %s | %d %d" % (head, a, b),
                  "%s | pad %d len %d | span %s | size %d" % (fmt_choices(loc.choices_list), pad, len(loc.choices_index),
                                                             "None" if span is None else "%d-%d" % span, product(loc)),
                  nontrivial=cuts, branch="localized:%s" % ("cut" if cuts else "clean"))
        if space.unsolvable_segments:
            s2 = hard.rand_seq(rng, n)
            with Recorder() as rec:
                try:
                    space.constrain_sequence(s2)
                    ans = "no-error"
                except ValueError:
                    ans = "ValueError"
            c.add("space.constrain %s | %s | %s" % (head, s2, " ".join(map(str, rec.tape))), ans, branch="constrain:unsolvable")
            continue
        s2 = hard.rand_seq(rng, n) if rng.random() < 0.7 else seq
        with Recorder() as rec:
            cs = space.constrain_sequence(s2)
        c.add("space.constrain %s | %s | %s" % (head, s2, " ".join(map(str, rec.tape))), "%s used %d" % (cs, len(rec.tape)),
              nontrivial=len(rec.tape) > 0, branch="constrain:%s" % ("draws" if rec.tape else "nodraw"))
        # apply_random_mutations on a localized space, from a sequence of the space
        a = rng.randint(0, n - 1)
        b = rng.randint(a + 1, n)
        if rng.random() < 0.4:
            a, b = 0, n
        loc = space.localized((a, b))
        if not loc.multichoices:
            # nothing can vary here: any number of random mutations is a no-op that draws nothing
            nm = rng.choice([1, 1, 2, 5])
            with Recorder() as rec:
                try:
                    r = loc.apply_random_mutations(nm, cs)
                    ans = "%s used %d" % (r, len(rec.tape))
                except Exception as e:
                    ans = "raises:" + type(e).__name__
            c.add("space.apply %s | %d %d | %d | %s | %s" % (head, a, b, nm, cs, " ".join(map(str, rec.tape))), ans, branch="apply:frozen")
        if loc.multichoices:
            nm = rng.choice([0, 1, 1, 2, 2, 3, 5])
            with Recorder() as rec:
                r = loc.apply_random_mutations(nm, cs)
            c.add("space.apply %s | %d %d | %d | %s | %s" % (head, a, b, nm, cs, " ".join(map(str, rec.tape))),
                  "%s used %d" % (r, len(rec.tape)), nontrivial=len(loc.multichoices) >= 2,
                  branch="apply:n%d:m%d" % (nm, min(3, len(loc.multichoices))))
            if product(loc) <= 1500:
                vs = list(loc.all_variants(cs))
                c.add("space.all %s | %d %d | %s" % (head, a, b, cs), " ".join(vs), nontrivial=len(vs) > 2,
                      branch="all:%s" % ("big" if len(vs) > 16 else "small"))
                # the same space OBJECT asked again from another sequence of the space (operation history)
                vs2 = list(loc.all_variants(r))
                c.add("space.all %s | %d %d | %s" % (head, a, b, r), " ".join(vs2), nontrivial=len(vs2) > 2,
                      branch="all:second-call-same-object")
                with Recorder() as rec:
                    r2 = loc.apply_random_mutations(nm, r)
                c.add("space.apply %s | %d %d | %d | %s | %s" % (head, a, b, nm, r, " ".join(map(str, rec.tape))),
                      "%s used %d" % (r2, len(rec.tape)), branch="apply:second-call-same-object")
    # MutationChoice primitives directly
    from dnachisel.MutationSpace import MutationChoice
    for _ in range(ctx.n(600)):
        L = rng.randint(1, 5)
        st = rng.randint(0, 6)
        vs = sorted({hard.rand_seq(rng, L) if rng.random() < 0.6 else ("A" * (L - 1) + rng.choice("ATGC")) for _ in range(rng.randint(1, 5))})
        ch = MutationChoice((st, st + L), set(vs))
        c.add("choice.extract %d:%d:%s" % (st, st + L, ",".join(vs)), fmt_choices(ch.extract_varying_region()),
              nontrivial=len(vs) > 1, branch="extract")
    c.run()
    k = len(c.lines)
    return dict(evaluations=c.evaluations, nontrivial=len(c.nontrivial), hist=dict(c.hist, **{"skipped:" + k_: v for k_, v in errors.items()}),
                samples=[dict(request=c.lines[i], answer=c.impl[i]) for i in (0, k // 4, k // 2, 3 * k // 4)],
                disagreements=c.disagreements)


# -----------------------------------------------------------------------------------------
def oracle_problem(rng, seq, descs, out):
    n_checks = 0
    try:
        stub, space, restrs = build(seq, descs)
    except Exception:
        return 0
    n = len(seq)
    inp = dict(sequence=seq, constraints=descs)
    # localized keeps exactly the overlapping choices
    a = rng.randint(0, n - 1)
    b = rng.randint(a + 1, n)
    loc = space.localized((a, b))
    want = [ch for ch in space.choices_list if ch.start < b and a < ch.end]
    if [id(x) for x in loc.choices_list] != [id(x) for x in want]:
        out.append(dict(kind="localized-choices", input=dict(inp, location=[a, b]),
                        detail="got %s want %s" % (fmt_choices(loc.choices_list), fmt_choices(want))))
    n_checks += 1
    # building a derived space (new constraints on top of this one, as the pattern-insertion heuristic does) must not
    # alter this space: its index, its choices and its localizations stay what they were
    try:
        import dnachisel as dc
        from dnachisel.MutationSpace import MutationSpace
        snap = [None if c is None else (c.start, c.end, tuple(sorted(str(v) for v in c.variants))) for c in space.choices_index]
        a2 = rng.randint(0, n - 1)
        b2 = rng.randint(a2 + 1, min(n, a2 + 4))
        stub.mutation_space = space
        new_c = dc.EnforceSequence(sequence=seq[a2:b2], location=(a2, b2, 1)).initialized_on_problem(stub, role="constraint")
        MutationSpace.from_optimization_problem(stub, new_constraints=[new_c])
        snap2 = [None if c is None else (c.start, c.end, tuple(sorted(str(v) for v in c.variants))) for c in space.choices_index]
        loc_again = space.localized((a, b))
        if snap != snap2 or fmt_choices(loc_again.choices_list) != fmt_choices(want):
            out.append(dict(kind="derived-space-altered-parent", input=dict(inp, location=[a, b], new_restriction=[a2, b2]),
                            detail="localized(%d, %d) now gives %s, the space's choices there are %s" % (
                                a, b, fmt_choices(loc_again.choices_list), fmt_choices(want))))
        n_checks += 1
    except Exception:
        pass
    # well-formedness hypothesis of the Lean theorems (C12.SpaceWF / C15.ChoicesFit): sorted, pairwise
    # disjoint, non-empty segments inside the sequence, variants of the segment's length, no duplicates
    for name, cl in (("space", space.choices_list), ("localized-multichoices", loc.multichoices)):
        okfit = True
        prev_end = 0
        for ch in cl:
            vs = [str(v) for v in ch.variants]
            if not (prev_end <= ch.start < ch.end <= n) or any(len(v) != ch.end - ch.start for v in vs) or len(set(vs)) != len(vs):
                okfit = False
            prev_end = ch.end
        if not okfit:
            out.append(dict(kind="space-not-wellformed:" + name, input=dict(inp, location=[a, b]), detail=fmt_choices(cl)))
    n_checks += 1
    # size
    p = product(loc)
    sz = float(loc.space_size)
    want_sz = 0.0 if p == 0 else min(float(p), math.exp(100))
    if abs(sz - want_sz) > 1e-9 * max(1.0, want_sz):
        out.append(dict(kind="space-size", input=dict(inp, location=[a, b]), detail="%r vs product %d" % (sz, p)))
    n_checks += 1
    if space.unsolvable_segments:
        return n_checks
    # constrain: result in the space, compatible segments kept, idempotent and second call draws nothing
    s2 = hard.rand_seq(rng, n)
    cs = space.constrain_sequence(s2)
    ok = in_space(space, cs) and len(cs) == n
    for ch in space.choices_list:
        if s2[ch.start:ch.end] in [str(v) for v in ch.variants] and cs[ch.start:ch.end] != s2[ch.start:ch.end]:
            ok = False
    with Recorder() as rec:
        cs2 = space.constrain_sequence(cs)
    if not ok or cs2 != cs or rec.tape:
        out.append(dict(kind="constrain", input=dict(inp, start=s2), detail="%s -> %s -> %s draws=%s" % (s2, cs, cs2, rec.tape)))
    n_checks += 1
    # all_variants
    def check_all(cur, kind):
        vs = list(loc.all_variants(cur))
        span = loc.choices_span
        ok = len(vs) == product(loc) and len(set(vs)) == len(vs) and vs[0] == cur
        for v in vs:
            if not in_space(space, v) or v[:span[0]] != cur[:span[0]] or v[span[1]:] != cur[span[1]:]:
                ok = False
        # every combination
        import itertools
        want_set = set()
        for combo in itertools.product(*[[(ch.start, ch.end, str(v)) for v in ch.variants] for ch in loc.multichoices]):
            t = list(cur)
            for s_, e_, v in combo:
                t[s_:e_] = v
            want_set.add("".join(t))
        if not ok or set(vs) != want_set:
            out.append(dict(kind=kind, input=dict(inp, location=[a, b], current=cur), detail=str(vs[:6])))
    if loc.multichoices and product(loc) <= 3000:
        check_all(cs, "all-variants")
        n_checks += 1
    # apply n mutations
    if not loc.multichoices:
        nm = rng.choice([1, 1, 2, 4])
        try:
            r = loc.apply_random_mutations(nm, cs)
        except Exception as e:
            r = "raised %s" % type(e).__name__
        if r != cs:
            out.append(dict(kind="apply-mutations", input=dict(inp, location=[a, b], current=cs, n=nm),
                            detail="%s on a space with no multi-variant choice (min(n, 0) = 0 choices must change)" % r))
        n_checks += 1
    if loc.multichoices:
        nm = rng.randint(0, 4)
        r = loc.apply_random_mutations(nm, cs)
        changed = [ch for ch in loc.multichoices if r[ch.start:ch.end] != cs[ch.start:ch.end]]
        ok = len(changed) == min(nm, len(loc.multichoices)) and in_space(space, r) and len(r) == n
        outside = all(r[i] == cs[i] for i in range(n) if not any(ch.start <= i < ch.end for ch in loc.multichoices))
        if not ok or not outside:
            out.append(dict(kind="apply-mutations", input=dict(inp, location=[a, b], current=cs, n=nm), detail=r))
        n_checks += 1
        # operation history on the same space object: enumerate again from the mutated sequence, mutate again
        if ok and outside and product(loc) <= 3000:
            check_all(r, "all-variants:second-call-same-object")
            r2 = loc.apply_random_mutations(nm, r)
            changed2 = [ch for ch in loc.multichoices if r2[ch.start:ch.end] != r[ch.start:ch.end]]
            if len(changed2) != min(nm, len(loc.multichoices)) or not in_space(space, r2):
                out.append(dict(kind="apply-mutations:second-call-same-object",
                                input=dict(inp, location=[a, b], current=r, n=nm), detail=r2))
            n_checks += 2
    return n_checks


def big_codon_space(rng, out):
    """many six-variant codon choices: the product leaves the 64-bit integer range long before the code's cap"""
    import dnachisel as dc
    k = rng.randint(18, 34)
    seq = "".join(rng.choice(["CTG", "TCA", "AGA", "CTC", "TTA"]) for _ in range(k))
    p = dc.DnaOptimizationProblem(seq, constraints=[dc.EnforceTranslation()], logger=None)
    prod = 1
    for c in p.mutation_space.multichoices:
        prod *= len(c.variants)
    sz = float(p.mutation_space.space_size)
    if not (abs(sz - prod) <= 1e-6 * prod):
        out.append(dict(kind="space-size", input=dict(sequence=seq, constraints=[dict(kind="cds", location=[0, 3 * k, 1], table="Standard",
                                                                                       start_codon=None, translation=None)]),
                        detail="space_size %r, product of variant counts %d" % (sz, prod)))
    return 1


def search(ctx, budget, hints):
    rng = vlib.Rng(ctx.seed + 1515)
    out = []
    n = 0
    tstats = {}
    for _ in range(6 * budget):
        n += vlib.limited(lambda: big_codon_space(rng, out), 15, 0, tstats)
    for _ in range(500 * budget):
        seq, descs = hard.rand_problem(rng)
        n += vlib.limited(lambda: oracle_problem(rng, seq, descs, out), 15, 0, tstats)
    best, hist = {}, {"skipped:" + k: v for k, v in tstats.items()}
    for c in out:
        hist[c["kind"]] = hist.get(c["kind"], 0) + 1
        if c["kind"] not in best or len(str(c["input"])) < len(str(best[c["kind"]]["input"])):
            best[c["kind"]] = c
    return dict(counterexamples=list(best.values()), evaluations=n, hist=hist,
                samples=[dict(oracle="explicit enumeration of the localized space", example="EnforceTranslation+AvoidChanges")])


def replay(ctx, case):
    out = []
    inp = case["input"]
    for s in range(400):
        oracle_problem(vlib.Rng(s), inp["sequence"], inp["constraints"], out)
        if any(c["kind"] == case.get("kind") for c in out):
            return True
    return False
