"""C16 — Genbank annotations define the same problem as the Python API."""
import io
import os
import re
import tempfile

import vlib
from gen import hard

RULE = ("correspondence: Specification.list_from_label on labels rendered from abstract labels (every registered name, "
        "shorthand or class name, @/~, ':' or '=' parameters, '&' joins, ints / floats / percentages / quoted strings / "
        "'|' lists, optional parentheses, surrounding blanks) plus a malformed stream (extra separators, spaces before "
        "'(', nested parentheses, numeric edge tokens); the implementation runs with a registry of recording classes so "
        "that exactly what the parser passes to the constructor is compared with the model; "
        "find_specification_label_in_feature on label/note qualifiers; oracle on the real classes: from_label(render l) "
        "vs the constructor called with the abstract label's values (class, attributes, location, strand), "
        "from_record(record) vs the direct API, write_record -> from_record(path), to_record() sequence after edits, "
        "documented shorthands resolve; feature strands +1 / -1 / none; non-trivial = '&' joins, keyword lists, or strand -1 features")
TRUSTED = ["harness/props/C16.py templates of valid constructor calls per class", "object canonicalisation (vars())",
           "Biopython Genbank writer / reader (exercised, not modelled)"]
ASSUMPTIONS = ["labels are ASCII without line breaks (the model answers out-of-model otherwise)",
               "the numeric value of a float token is Python's float(); the model decides only that it is a float"]


def hx(s):
    return s.encode("latin-1").hex() if s else "."


# ------------------------------------------------------------------------------------------
# canonical text shared with the driver

def atom_text(v):
    if isinstance(v, bool):
        return "b:%r" % v
    if isinstance(v, int):
        return "i:%d" % v
    if isinstance(v, float):
        return "f:%r" % v
    if isinstance(v, str):
        return "s:" + hx(v)
    return "?:" + type(v).__name__


def val_text(v):
    if isinstance(v, (list, tuple)):
        return "l:[" + ";".join(atom_text(x) for x in v) + "]"
    return atom_text(v)


def normalise_model(ans):
    """the model keeps the text of float tokens: convert with Python's float() for comparison"""
    def rep(m):
        return "f:%r" % float(bytes.fromhex(m.group(1)).decode("latin-1"))
    return re.sub(r"f:([0-9a-f]+)", rep, ans)


def compare(model, impl):
    return normalise_model(model) == impl


_SPY = {}


def spy_registry():
    """every registered name -> a recording class (subclass of Specification, so that whole problems can be built)"""
    import dnachisel as dc
    if _SPY:
        return _SPY
    reg = dc.builtin_specifications.DEFAULT_SPECIFICATIONS_DICT
    made = {}
    for name, cls in reg.items():
        if cls.__name__ not in made:
            def __init__(self, *args, **kwargs):
                self.args = args
                self.kwargs = dict(kwargs)
                self.location = kwargs.get("location")
                self.boost = 1

            def evaluate(self, problem):
                return dc.SpecEvaluation(self, problem, score=0)

            def localized(self, location, problem=None, with_righthand=True):
                return self

            def initialized_on_problem(self, problem, role=None):
                return self

            made[cls.__name__] = type(cls.__name__, (dc.Specification,),
                                      dict(__init__=__init__, evaluate=evaluate, localized=localized,
                                           initialized_on_problem=initialized_on_problem, best_possible_score=0))
        _SPY[name] = made[cls.__name__]
    return _SPY


def spy_text(role, spec):
    ks = sorted((k, v) for k, v in spec.kwargs.items() if k != "location")
    return "%s %s | %s | %s" % (role, type(spec).__name__, " ".join(atom_text(a) for a in spec.args),
                                " ".join("%s=%s" % (hx(k), val_text(v)) for k, v in ks))


def impl_parse(label, location=(0, 9, 1)):
    import dnachisel as dc
    try:
        specs = dc.Specification.list_from_label(label, location, specifications_dict=spy_registry())
    except ValueError:
        return "ValueError"
    except TypeError:
        return "TypeError"
    except Exception as e:
        return "raises:" + type(e).__name__
    return " & ".join(spy_text(role, s) for role, s in specs)


# ------------------------------------------------------------------------------------------
# abstract labels

INTS = ["0", "1", "2", "7", "-3", "+4", "12", "007", "100", "1_000"]
FLOATS = ["0.5", "1.5", "-0.25", "40.0", "1e3", "2.5E-1", ".5", "5.", "1_0.5", "inf", "-inf", "nan", "Infinity"]
BARE = ["BsaI_site", "ATGC", "ATH", "40%", "e_coli", "h_sapiens", "e_coli -> h_sapiens", "both", "keep", "here", "2x4mer",
        "40-60%/50bp", "Standard", "ATG.{3}TAA", "True", "None", "a b", "x-y", "é"[:0] + "z9"]
QUOTED = ["'12'", "'a b'", "'0.5'", "'BsaI_site'", "''", "'it''s'", "'a, b'", "'k:v'"]
EDGE = ["1__0", "_1", "1_", "1e", "e5", "--1", "+-1", "0x10", "1 0", " 7", "7 ", ".", "-", "+", "1.2.3", "in f", "nAn",
        "'abc", "abc'", "'a'b", "a|b", "|", "a||b", "1|2.5|x", "(x)", "x(y", "x)y", "a:b", "a=b", "a:b:c", "a=b=c", "a:b=c",
        ":", "=", ":x", "x:", "", " ", ",", ",x", "x,", "@", "&", "~z"]
KEYS = ["strand", "window", "mini", "maxi", "occurences", "species", "target", "boost", "k", "choices", "pattern", "location",
        "start_codon", "max_edits", "x y"]


def rand_atom(rng, clean=True):
    r = rng.random()
    if r < 0.25:
        return rng.choice(INTS)
    if r < 0.4:
        return rng.choice(FLOATS)
    if r < 0.75:
        return rng.choice(BARE)
    if r < 0.9 or clean:
        return rng.choice(QUOTED[:5] if clean else QUOTED)
    return rng.choice(EDGE)


def rand_sublabel(rng, names, clean=True):
    role = rng.choice("@~")
    name = rng.choice(names)
    parts = []
    used = set()
    for _ in range(rng.choice([0, 0, 1, 1, 2, 3])):
        if rng.random() < 0.5:
            parts.append(rand_atom(rng, clean))
        else:
            k = rng.choice(KEYS[:-2] if clean else KEYS)
            if clean and k in used:
                continue
            used.add(k)
            if rng.random() < 0.25:
                v = "|".join(rand_atom(rng, clean) for _ in range(rng.randint(2, 3)))
            else:
                v = rand_atom(rng, clean)
            parts.append(k + rng.choice(":=") + v)
    if clean:
        # positional arguments first (as any Python call)
        parts.sort(key=lambda p: (":" in p or "=" in p) and not p.startswith("'"))
    body = ", ".join(parts)
    if not parts and rng.random() < 0.5:
        return role + name
    return "%s%s(%s)" % (role, name, body)


def mutate(rng, label):
    ops = rng.randint(1, 2)
    s = label
    for _ in range(ops):
        r = rng.random()
        i = rng.randint(0, len(s))
        if r < 0.3:
            s = s[:i] + rng.choice(["(", ")", " ", ",", ", ", ":", "=", "|", "&", "'", "@", "~", "\t"]) + s[i:]
        elif r < 0.5 and s:
            i = min(i, len(s) - 1)
            s = s[:i] + s[i + 1:]
        elif r < 0.7:
            s = s.replace(", ", rng.choice([",", ",  ", " , ", ", , "]), 1)
        elif r < 0.85:
            s = s.replace("(", rng.choice([" (", "((", "( "]), 1)
        else:
            s = rng.choice(EDGE) + s if rng.random() < 0.5 else s + rng.choice(EDGE)
    return s


def rand_label(rng, names):
    r = rng.random()
    if r < 0.6:
        k = rng.choice([1, 1, 1, 2, 3])
        subs = [rand_sublabel(rng, names, clean=True) for _ in range(k)]
        sep = rng.choice(["&", " & ", " &", "& "])
        lab = sep.join(subs)
        if rng.random() < 0.2:
            lab = rng.choice([" ", "  ", "\t"]) + lab + rng.choice(["", " "])
        return lab, "clean:%d" % k
    if r < 0.8:
        subs = [rand_sublabel(rng, names + ["nope", "No", "KEEP"], clean=False) for _ in range(rng.choice([1, 1, 2]))]
        return " & ".join(subs), "dirty"
    return mutate(rng, " & ".join(rand_sublabel(rng, names, clean=True) for _ in range(rng.choice([1, 2])))), "mutated"


def correspondence(ctx):
    import dnachisel as dc
    from Bio.SeqFeature import SeqFeature, FeatureLocation
    from dnachisel.biotools import find_specification_label_in_feature
    rng = ctx.rng
    c = vlib.Corr()
    names = list(dc.builtin_specifications.DEFAULT_SPECIFICATIONS_DICT.keys())
    for _ in range(ctx.n(4000)):
        lab, br = rand_label(rng, names)
        if any(ord(ch) > 127 or ch == "\n" for ch in lab):
            continue
        ans = impl_parse(lab)
        c.add("label.parse " + hx(lab), ans, meta=dict(label=lab), compare=compare,
              nontrivial=("&" in lab or "|" in lab) and not ans.endswith("Error"),
              branch="parse:%s:%s" % (br, ans if ans.endswith("Error") or ans.startswith("raises") else "ok"))
    for tok in INTS + FLOATS + BARE + QUOTED + EDGE:
        for t in (tok, " " + tok, tok + " "):
            v = dc.Specification._format_string_value(t)
            c.add("label.value " + hx(t), atom_text(v), meta=dict(token=t), compare=compare, branch="value:" + atom_text(v)[0])
    for _ in range(ctx.n(400)):
        q = {}
        for field in ("label", "note"):
            r = rng.random()
            if r < 0.3:
                continue
            v = rng.choice(["@cds", "~gc(40%)", "gene X", "", " @cds", "@", "~", "x@cds"])
            q[field] = [v] if rng.random() < 0.5 else v
        ty = rng.choice(["misc_feature", "CDS"])
        f = SeqFeature(FeatureLocation(0, 3, 1), type=ty, qualifiers=q)
        r = find_specification_label_in_feature(f)

        def tok(field):
            if field not in q:
                return "-"
            v = q[field]
            return hx(v[0] if isinstance(v, list) else v)
        c.add("label.find %s %s %s" % (ty, tok("label"), tok("note")), "none" if r is None else hx(r), branch="find:%s" % ("none" if r is None else "some"))
    c.run()
    kk = len(c.lines)
    return dict(evaluations=c.evaluations, nontrivial=len(c.nontrivial), hist=dict(c.hist),
                samples=[dict(request=c.lines[i][:300], answer=str(c.impl[i])[:300], label=(c.meta[i] or {}).get("label")) for i in (0, kk // 3, kk // 2) if i < kk],
                disagreements=[dict(request=x["request"][:1500], model=x["model"][:600], impl=str(x["impl"])[:600], meta=x["meta"])
                               for x in c.disagreements])


# ------------------------------------------------------------------------------------------
# oracle on the real classes

def templates(rng, n, span):
    """-> (name variants, positional python values, keyword python values): valid constructor calls on a region of `span` nt"""
    pat = rng.choice(["BsaI_site", "BsmBI_site", "ATGC", "ATH", "GGTCTC", "4x2mer", "GC{2,4}A", "A[ATGC]{3,}TTT", "ATG.{3}TAA"])
    def dna(k, alphabet="ATGC"):
        return "".join(rng.choice(alphabet) for _ in range(k))
    T = [
        (["no", "AvoidPattern"], [pat], rng.choice([{}, {"strand": "both"}, {"strand": 1}, {"strand": -1}])),
        (["no", "AvoidPattern"], [], {"pattern": pat}),
        (["insert", "EnforcePatternOccurence"], [pat], rng.choice([{}, {"occurences": 2}, {"occurences": 0, "strand": "both"}])),
        (["keep", "AvoidChanges"], [], rng.choice([{}, {"max_edits": 2}])),
        (["change", "EnforceChanges"], [], rng.choice([{}, {"minimum": 2}, {"amount_percent": 50}])),
        (["change", "EnforceChanges"], [rng.choice(["40%", "100%"])], {}),
        (["gc", "EnforceGCContent"], [], rng.choice([{"mini": 0.3, "maxi": 0.7}, {"mini": 0.25, "maxi": 0.75, "window": 6},
                                                     {"target": 0.5, "window": 5}])),
        (["gc", "EnforceGCContent"], [rng.choice(["40-60%", "30-70%/6bp", "50%/5bp", "%d-%d%%" % (rng.randint(1, 49), rng.randint(50, 99)),
                                                  "%d-%d%%/%dbp" % (rng.randint(1, 49), rng.randint(50, 99), rng.choice([5, 6, 8]))])], {}),
        (["all_unique_kmers", "UniquifyAllKmers"], [rng.choice([4, 6])], rng.choice([{}, {"include_reverse_complement": 0}])),
        (["all_unique_kmers"], [], {"k": 5}),
        (["AvoidHairpins"], [], rng.choice([{}, {"stem_size": 5, "hairpin_window": 20}])),
        (["sequence", "EnforceSequence"], [dna(span, "ATGCNWSRYK")], {}),
        (["choice", "EnforceChoice"], [], {"choices": [dna(span), dna(span)]}),
        (["choice", "EnforceChoice"], [dna(span) + "|" + dna(span, "ATGCN")], {}),
    ]
    # documented shorthand strings on the label side, their documented meaning as explicit parameters on the API side
    T += [
        (["gc", "EnforceGCContent"], [], {"mini": 0.4, "maxi": 0.6}, "40-60%"),
        (["gc", "EnforceGCContent"], [], {"mini": 0.3, "maxi": 0.7, "window": 6}, "30-70%/6bp"),
        (["gc", "EnforceGCContent"], [], {"target": 0.5, "window": 5}, "50%/5bp"),
        (["gc", "EnforceGCContent"], [], {"target": 0.45}, "45%"),
        (["gc", "EnforceGCContent"], [], {"mini": 0.25, "maxi": 0.75, "window": 8}, "25-75%, window:8"),
        (["change", "EnforceChanges"], [], {"amount_percent": 40}, "40%"),
        (["change", "EnforceChanges"], [], {"minimum_percent": 50}, "minimum=50%"),
    ]
    if span % 3 == 0 and span >= 3:
        T += [
            (["harmonize_rca", "HarmonizeRCA"], [], {"species": "h_sapiens", "original_species": "e_coli"}, "e_coli -> h_sapiens"),
            (["cds", "EnforceTranslation"], [], rng.choice([{}, {"genetic_table": "Bacterial"}, {"start_codon": "keep"}])),
            (["use_best_codon", "MaximizeCAI"], [], {"species": rng.choice(["e_coli", "h_sapiens"])}),
            (["use_best_codon", "MaximizeCAI"], [rng.choice(["e_coli", "b_subtilis"])], {}),
            (["match_codon_usage", "MatchTargetCodonUsage"], [], {"species": "s_cerevisiae"}),
            (["harmonize_rca", "HarmonizeRCA"], [rng.choice(["e_coli -> h_sapiens", "h_sapiens -> e_coli"])], {}),
            (["no_rare_codons", "AvoidRareCodons"], [rng.choice([0.1, 0.2])], {"species": "e_coli"}),
            (["CodonOptimize"], [], {"species": "e_coli", "method": rng.choice(["use_best_codon", "match_codon_usage", "harmonize_rca"])}),
        ]
    return T


def sequence_for(rng, n):
    return hard.rand_seq(rng, n)


def render_value(rng, v):
    if isinstance(v, list):
        return "|".join(render_value(rng, x) for x in v)
    if isinstance(v, str):
        # a string that would read as a number must be quoted; otherwise quoting is optional
        import dnachisel as dc
        plain = not isinstance(dc.Specification._format_string_value(v), (int, float)) and not v.startswith("'")
        if plain and rng.random() < 0.8:
            return v
        return "'%s'" % v
    return repr(v)


def render_sub(rng, role, name, args, kwargs):
    parts = [render_value(rng, a) for a in args] + ["%s%s%s" % (k, rng.choice(":="), render_value(rng, v)) for k, v in kwargs.items()]
    if not parts and rng.random() < 0.5:
        return role + name
    return "%s%s(%s)" % (role, name, ", ".join(parts))


def canon_val(v, depth=0):
    import numpy as np
    from dnachisel import Location
    from dnachisel.SequencePattern import SequencePattern
    if depth > 4:
        return "..."
    if isinstance(v, Location):
        return ("Location",) + tuple(v.to_tuple())
    if isinstance(v, SequencePattern):
        return (type(v).__name__, canon_val({k: x for k, x in vars(v).items() if k not in ("compiled_expression", "lookahead_expression")}, depth + 1))
    if isinstance(v, np.ndarray):
        return ("array", tuple(canon_val(x, depth + 1) for x in v.tolist()))
    if isinstance(v, (np.integer,)):
        return int(v)
    if isinstance(v, (np.floating,)):
        return float(v)
    if isinstance(v, dict):
        return ("dict", tuple(sorted((str(k), repr(canon_val(x, depth + 1))) for k, x in v.items())))
    if isinstance(v, (list, tuple, set, frozenset)):
        items = [canon_val(x, depth + 1) for x in v]
        if isinstance(v, (set, frozenset)):
            items = sorted(items, key=repr)
        return (type(v).__name__, tuple(items))
    if isinstance(v, bool) or v is None or isinstance(v, str):
        return v
    if isinstance(v, (int, float)):
        return float(v)      # 50 and 50.0 are the same parameter value
    if hasattr(v, "__dict__") and depth < 3:
        return (type(v).__name__, canon_val(vars(v), depth + 1))
    return type(v).__name__


def canon(spec):
    return (type(spec).__name__, canon_val(vars(spec)))


def diff_canon(a, b):
    if a[0] != b[0]:
        return "class %s vs %s" % (a[0], b[0])
    da, db = dict(a[1][1]), dict(b[1][1])
    bad = [k for k in sorted(set(da) | set(db)) if da.get(k) != db.get(k)]
    return "; ".join("%s: %s vs %s" % (k, da.get(k), db.get(k)) for k in bad)[:400]


def gen_case(rng):
    n = rng.randint(30, 80)
    seq = sequence_for(rng, n)
    feats = []
    for _ in range(rng.randint(1, 3)):
        a = rng.randint(0, n - 12)
        span = rng.choice([6, 9, 12, 15, 10, 11])
        if rng.random() < 0.12:
            # a zero-length feature ("between two nucleotides", written a^a+1 in a Genbank file)
            a, span = rng.randint(1, n - 1), 0
        b = min(n, a + span)
        span = b - a
        strand = rng.choice([1, 1, -1, None]) if span else rng.choice([1, -1])     # None: an unstranded feature (records built in Python / Snapgene)
        subs = []
        for _ in range(rng.choice([1, 1, 2, 3])):
            tpl = rng.choice([t for t in templates(rng, n, span)
                              if span or t[0][0] not in ("sequence", "choice")])    # the grammar cannot write an empty string
            names, args, kwargs = tpl[:3]
            sub = [rng.choice("@~"), rng.choice(names), list(args), dict(kwargs)]
            if len(tpl) > 3:
                sub.append(tpl[3])
            subs.append(sub)
        label = rng.choice([" & ", "&", " &"]).join(
            ("%s%s(%s)" % (s[0], s[1], s[4])) if len(s) > 4 else render_sub(rng, *s[:4]) for s in subs)
        feats.append(dict(label=label, location=[a, b, strand], field=rng.choice(["label", "label", "note"]), subs=subs))
    return dict(sequence=seq, features=feats, edit_seed=rng.randint(0, 10 ** 6))


def oracle_case(inp, out, tmpdir):
    import numpy as np
    import dnachisel as dc
    from dnachisel import Location
    from Bio.SeqFeature import SeqFeature, FeatureLocation
    from Bio.SeqRecord import SeqRecord
    from Bio.Seq import Seq
    seq = inp["sequence"]
    desc = inp["features"]
    rng = vlib.Rng(inp.get("edit_seed", 0))
    reg = dc.builtin_specifications.DEFAULT_SPECIFICATIONS_DICT
    feats, direct = [], {"constraint": [], "objective": []}
    for d in desc:
        a, b, strand = d["location"]
        feats.append(SeqFeature(FeatureLocation(a, b, strand), type="misc_feature", qualifiers={d.get("field", "label"): d["label"]}))
        for role, name, args, kwargs in [x[:4] for x in d["subs"]]:
            # the Python API reads "no strand" as 0
            direct["constraint" if role == "@" else "objective"].append((reg[name], args, kwargs, (a, b, strand or 0)))

    def build_direct():
        cons = [cls(*args, location=Location(*loc), **kw) for cls, args, kw, loc in direct["constraint"]]
        objs = [cls(*args, location=Location(*loc), **kw) for cls, args, kw, loc in direct["objective"]]
        return cons, objs
    try:
        cons, objs = build_direct()
    except Exception:
        return 0       # the template itself is not a valid call on this region
    # (1) label by label, before any problem is built
    got_c, got_o = [], []
    try:
        for f, d in zip(feats, desc):
            for role, spec in dc.Specification.list_from_biopython_feature(f):
                (got_c if role == "constraint" else got_o).append(spec)
    except Exception as e:
        out.append(dict(kind="from-label-raised", input=inp, detail=repr(e)[:200]))
        return 1
    for role, want, got in (("constraint", cons, got_c), ("objective", objs, got_o)):
        if len(want) != len(got):
            out.append(dict(kind="spec-count", input=inp, detail="%s: %d vs %d" % (role, len(got), len(want))))
            return 1
        for w, g in zip(want, got):
            if canon(w) != canon(g):
                out.append(dict(kind="label-vs-constructor:%s" % type(w).__name__, input=inp, detail=diff_canon(canon(g), canon(w))))
                return 1
    # (2) whole problems
    record = SeqRecord(Seq(seq), id="x", name="x", features=feats, annotations={"molecule_type": "DNA"})
    np.random.seed(1)
    try:
        cons, objs = build_direct()
        p_direct = dc.DnaOptimizationProblem(seq, constraints=cons, objectives=objs, logger=None)
    except Exception:
        return 1     # the direct problem cannot be initialised (e.g. region/choices mismatch): nothing to compare
    np.random.seed(1)
    try:
        p_rec = dc.DnaOptimizationProblem.from_record(record, logger=None)
    except Exception as e:
        out.append(dict(kind="from-record-raised", input=inp, detail=repr(e)[:200]))
        return 1

    def same_problem(p, q, what):
        if p.sequence != q.sequence:
            out.append(dict(kind=what + ":sequence", input=inp, detail="%s vs %s" % (p.sequence, q.sequence)))
            return False
        for role in ("constraints", "objectives"):
            A, B = getattr(p, role), getattr(q, role)
            if len(A) != len(B):
                out.append(dict(kind=what + ":count", input=inp, detail="%s %d vs %d" % (role, len(A), len(B))))
                return False
            for x, y in zip(A, B):
                if canon(x) != canon(y):
                    out.append(dict(kind=what + ":%s" % type(y).__name__, input=inp, detail=diff_canon(canon(x), canon(y))))
                    return False
        return True
    if not same_problem(p_rec, p_direct, "record-vs-api"):
        return 1
    # the documented meaning of the `strand` parameter, read independently of both construction paths: "both" = the
    # pattern is searched on both strands of the region (location strand 0), 1 / -1 = that strand, whatever the strand
    # of the annotated feature
    for role in ("constraint", "objective"):
        for spec, (cls, args, kw, loc) in zip(getattr(p_rec, role + "s"), direct[role]):
            if "strand" in kw and cls.__name__ in ("AvoidPattern", "EnforcePatternOccurence"):
                want = {"both": 0, 1: 1, -1: -1}[kw["strand"]]
                if spec.location.strand != want:
                    out.append(dict(kind="strand-parameter-not-applied:%s" % cls.__name__, input=inp,
                                    detail="strand=%r on a feature of strand %r: the specification works on strand %r" % (
                                        kw["strand"], loc[2], spec.location.strand)))
                    return 1
    # (3) through a Genbank file (a Genbank file cannot hold an unstranded feature: those records stop here)
    path = os.path.join(tmpdir, "r.gb")
    if any(d["location"][2] is None for d in desc):
        return 1
    try:
        dc.biotools.write_record(record, path)
        back = dc.biotools.load_record(path)
        labels_back = [dc.biotools.find_specification_label_in_feature(f) for f in back.features]
        if len(labels_back) != len(desc):
            out.append(dict(kind="genbank-roundtrip:feature-count", input=inp, detail="%d features written, %d read back" % (len(desc), len(labels_back))))
            return 1
        if labels_back != [d["label"] for d in desc]:
            # Biopython's Genbank writer hard-wraps a qualifier that has no blank within a line's width and the reader
            # joins the pieces with a blank: the label itself does not survive (known finding, see DESIGN.md)
            bad = [(d["label"], l) for d, l in zip(desc, labels_back) if d["label"] != l]
            out.append(dict(kind="genbank-io-mangles-long-label", input=inp, detail="written %r, read back %r" % bad[0]))
            return 1
        np.random.seed(1)
        p_file = dc.DnaOptimizationProblem.from_record(path, logger=None)
    except Exception as e:
        out.append(dict(kind="genbank-roundtrip-raised", input=inp, detail=repr(e)[:200]))
        return 1
    if not same_problem(p_file, p_direct, "genbank-roundtrip"):
        return 1
    # (4) to_record carries the current sequence
    t = list(p_rec.sequence)
    for i in range(len(t)):
        if rng.random() < 0.2:
            t[i] = rng.choice("ATGC")
    p_rec.sequence = "".join(t)
    rec2 = p_rec.to_record(with_sequence_edits=rng.random() < 0.5)
    if str(rec2.seq) != p_rec.sequence:
        out.append(dict(kind="to-record-sequence", input=inp, detail="%s vs %s" % (str(rec2.seq), p_rec.sequence)))
    p_rec.to_record(filepath=path)
    back = dc.biotools.load_record(path)
    if str(back.seq).upper() != p_rec.sequence:
        out.append(dict(kind="to-record-file-sequence", input=inp, detail="%s vs %s" % (str(back.seq), p_rec.sequence)))
    return 1


DOC_SHORTHAND = re.compile(r"``[@~]([A-Za-z_]+)")


def documented_shorthands():
    path = os.path.join(vlib.REPO, "docs", "genbank", "genbank_api.rst")
    txt = open(path).read()
    names = set(DOC_SHORTHAND.findall(txt))
    # names used in prose examples: ``all_unique_kmers``, ``avoid_matches``, ``tm`` ...
    for m in re.finditer(r"(?:use|annotation|specification)\s+``([a-z_]+)``", txt):
        names.add(m.group(1))
    return sorted(names)


def search(ctx, budget, hints):
    import dnachisel as dc
    rng = vlib.Rng(ctx.seed + 1616)
    out = []
    n = 0
    tstats = {}
    with tempfile.TemporaryDirectory(prefix="c16_") as tmpdir:
        for _ in range(250 * budget):
            case_ = gen_case(rng)
            n += vlib.limited(lambda: oracle_case(case_, out, tmpdir), 20, 0, tstats)
    reg = dc.builtin_specifications.DEFAULT_SPECIFICATIONS_DICT
    docs = documented_shorthands()
    for name in docs:
        n += 1
        if name not in reg:
            out.append(dict(kind="documented-shorthand-unregistered:%s" % name, input=dict(label="@%s" % name),
                            detail="docs/genbank/genbank_api.rst documents %r but DEFAULT_SPECIFICATIONS_DICT has no such name" % name))
    best, hist = {}, dict({"documented-names": len(docs)}, **{"skipped:" + k: v for k, v in tstats.items()})
    for c in out:
        hist[c["kind"]] = hist.get(c["kind"], 0) + 1
        k = c["kind"]
        if k not in best or len(str(c["input"])) < len(str(best[k]["input"])):
            best[k] = c
    return dict(counterexamples=list(best.values()), evaluations=n, hist=hist,
                samples=[dict(oracle="from_label vs constructor; from_record vs API; genbank round trip; to_record sequence; documented names")])


def replay(ctx, case):
    import dnachisel as dc
    inp = case["input"]
    if "features" not in inp:
        name = inp["label"][1:]
        return name not in dc.builtin_specifications.DEFAULT_SPECIFICATIONS_DICT
    out = []
    with tempfile.TemporaryDirectory(prefix="c16_") as tmpdir:
        oracle_case(inp, out, tmpdir)
    return bool(out)
