"""C17 — edit accounting and summaries agree with the actual sequences."""
import re
import signal
import struct

import vlib
from gen import hard, problems

RULE = ("correspondence: number_of_edits() / sequence_edits_as_features() of real problem objects after a manual "
        "assignment (mismatch runs touching both ends, single positions, everything), text_summary_message() of real "
        "ProblemConstraintsEvaluations (real and synthetic pass flags, failed_only filter), scores_sum() to 1e-12 (CPython 3.12 sum() is compensated) "
        "against the model's IEEE left fold; oracle: random histories of 1-5 operations (resolve_constraints, optimize, "
        "manual assignment, direct random/exhaustive searches) on random linear and circular problems; after every operation the reports "
        "are compared with an independent position-by-position count against the sequence the problem was created with; "
        "non-trivial = a history with at least two sequence-changing operations")
TRUSTED = ["harness/props/C17.py independent recomputation of the reports", "text parsing of the summaries"]
ASSUMPTIONS = ["manual assignments keep the sequence length (number_of_edits raises ValueError otherwise — modelled and compared)",
               "the text total is compared through Python's own %-formatting of the independently computed sum"]

COMP = {"A": "T", "T": "A", "G": "C", "C": "G"}


def fbits(x):
    return struct.unpack("<Q", struct.pack("<d", float(x)))[0]


def close_total(model, impl):
    """CPython >= 3.12 sums floats with Neumaier compensation; the model folds left to right: equal up to rounding"""
    try:
        m = struct.unpack("<d", struct.pack("<Q", int(model)))[0]
    except Exception:
        return False
    return abs(m - impl) <= 1e-12 * max(1.0, abs(impl))


def rand_edit(rng, s):
    n = len(s)
    t = list(s)
    mode = rng.random()
    for i in range(n):
        if rng.random() < (0.1 if mode < 0.5 else (0.6 if mode < 0.9 else 1.0)):
            t[i] = rng.choice("ATGC")
    if n and rng.random() < 0.35:
        t[-1] = COMP[s[-1]]
    if n and rng.random() < 0.35:
        t[0] = COMP[s[0]]
    return "".join(t)


def features_text(problem):
    out = []
    for f in problem.sequence_edits_as_features():
        lab = f.qualifiers["label"]
        out.append("%d-%d:%s" % (int(f.location.start), int(f.location.end), lab))
    return " ".join(out)


def correspondence(ctx):
    import dnachisel as dc
    from dnachisel.Specification.SpecEvaluation import ProblemConstraintsEvaluations, SpecEvaluation, ProblemObjectivesEvaluations
    rng = ctx.rng
    c = vlib.Corr()
    for _ in range(ctx.n(2000)):
        n = rng.choice([1, 2, 3, rng.randint(1, 40)])
        s = hard.rand_seq(rng, n)
        t = rand_edit(rng, s)
        if rng.random() < 0.03:
            t += "A"
        p = dc.DnaOptimizationProblem(s, logger=None)
        p.sequence = t
        try:
            a = "%d | %s" % (int(p.number_of_edits()), features_text(p))
        except ValueError:
            a = "ValueError"
        ends = len(t) == n and (s[-1] != t[-1] or s[0] != t[0])
        c.add("report.edits %s %s" % (s, t), a, nontrivial=ends, branch="edits:%s" % ("ends" if ends else "inner"))
    spec = dc.AvoidPattern("AT")
    for _ in range(ctx.n(600)):
        k = rng.choice([0, 1, 2, rng.randint(0, 8)])
        scores = [rng.choice([-3, -1, -0.5, 0, 0, 0.0, 1, 2.5]) for _ in range(k)]
        evs = [SpecEvaluation(spec, None, score=sc) for sc in scores]
        pe = ProblemConstraintsEvaluations(evs)
        if rng.random() < 0.4:
            pe = pe.filter("failing")
        flags = ["1" if e.passes else "0" for e in pe.evaluations]
        c.add("report.summary " + " ".join(flags), pe.text_summary_message().replace(" ", "_"), nontrivial="0" in flags,
              branch="summary:%s" % ("fail" if "0" in flags else "success"))
    for _ in range(ctx.n(600)):
        k = rng.randint(0, 6)
        pairs = [(rng.choice([0, 0.5, 1, 1.0, 2, 3, 0.1]), rng.choice([0, -1, -2.5, 0.3, -0.1, 7, -1e-3, -123456.789]))
                 for _ in range(k)]
        evs = []
        for b, sc in pairs:
            sp = dc.AvoidPattern("AT", boost=b)
            evs.append(SpecEvaluation(sp, None, score=sc))
        tot = ProblemObjectivesEvaluations(evs).scores_sum()
        c.add("report.total " + " ".join("%d %d" % (fbits(b), fbits(sc)) for b, sc in pairs), float(tot),
              nontrivial=k >= 2, branch="total:%d" % min(k, 3), compare=close_total)
    c.run()
    kk = len(c.lines)
    return dict(evaluations=c.evaluations, nontrivial=len(c.nontrivial), hist=dict(c.hist),
                samples=[dict(request=c.lines[i][:300], answer=str(c.impl[i])[:200]) for i in (0, kk // 2, kk - 1) if i < kk],
                disagreements=[dict(request=x["request"][:1500], model=x["model"][:400], impl=str(x["impl"])[:400], meta=x["meta"])
                               for x in c.disagreements])


# ------------------------------------------------------------------------------------------
OPS = ["resolve", "optimize", "assign", "assign", "rnd_resolve", "rnd_optimize", "assign_original", "exh_resolve",
       "exh_optimize", "resolve_locally"]


class _Timeout(BaseException):
    pass


def _alarm(*a):
    raise _Timeout()


def check_reports(p, original, out, inp, where):
    """independent recomputation of every report from (original, p.sequence)"""
    circular = type(p).__name__.startswith("Circular")
    from dnachisel.biotools import score_to_formatted_string
    cur = p.sequence
    n = len(cur)
    bad = []
    diff = [i for i in range(n) if cur[i] != original[i]]
    ne = int(p.number_of_edits())
    if ne != len(diff):
        bad.append(("number-of-edits", "reported %d, actual %d" % (ne, len(diff))))
    covered = []
    for f in p.sequence_edits_as_features():
        a, b = int(f.location.start), int(f.location.end)
        covered.extend(range(a, b))
        lab = f.qualifiers["label"]
        if lab != "%s=>%s" % (original[a:b], cur[a:b]):
            bad.append(("edit-label", "feature %d-%d labelled %r, true %r" % (a, b, lab, "%s=>%s" % (original[a:b], cur[a:b]))))
    if covered != diff:
        bad.append(("edit-features-cover", "features cover %s, edited positions %s" % (covered[:12], diff[:12])))
    for autopass in (True, False):
        for failed_only in (False, True):
            try:
                txt = p.constraints_text_summary(failed_only=failed_only, autopass=autopass)
            except Exception as e:
                bad.append(("summary-raised", repr(e)[:100]))
                continue
            head = txt.split("\n")[0]
            listed_fail = len(re.findall(r"^ FAIL ┍", txt, flags=re.M))
            listed_pass = len(re.findall(r"^✔PASS ┍", txt, flags=re.M))
            success = head.startswith("===> SUCCESS")
            if success != (listed_fail == 0) or not (success or head.startswith("===> FAILURE: %d " % listed_fail)):
                bad.append(("summary-success", "header %r with %d failing / %d passing evaluations listed" % (head, listed_fail, listed_pass)))
            # the listing itself is truthful
            want = []
            listed = p._circularized_view(with_constraints=True).constraints if circular else p.constraints
            view = p._circularized_view(with_constraints=True) if circular else p
            for c in listed:
                if autopass and c.enforced_by_nucleotide_restrictions:
                    want.append(True)
                else:
                    want.append(bool(c.evaluate(view).passes))
            wf = sum(1 for w in want if not w)
            wp = 0 if failed_only else sum(1 for w in want if w)
            if (listed_fail, listed_pass) != (wf, wp):
                bad.append(("summary-listing", "listed %d fail / %d pass, evaluations give %d / %d" % (listed_fail, listed_pass, wf, wp)))
    if p.objectives:
        # the individual objective scores are those the problem lists (for a circular problem: on the three-copy view)
        tot = 0
        for ev in p.objectives_evaluations().evaluations:
            tot = tot + ev.specification.boost * ev.score
        if not circular:
            # ... which for a linear problem are the objectives' own evaluations
            tot2 = 0
            for o in p.objectives:
                tot2 = tot2 + o.boost * o.evaluate(p).score
            if abs(float(tot2) - float(tot)) > 1e-9 * max(1.0, abs(float(tot))):
                bad.append(("objectives-listed-scores", "listed evaluations sum to %r, objectives evaluate to %r" % (float(tot), float(tot2))))
        rep = p.objective_scores_sum()
        if abs(float(rep) - float(tot)) > 1e-9 * max(1.0, abs(float(tot))):
            bad.append(("objectives-total", "reported %r, boost-weighted sum %r" % (float(rep), float(tot))))
        txt = p.objectives_text_summary()
        head = txt.split("\n")[0]
        m = re.match(r"===> TOTAL OBJECTIVES SCORE:\s*(\S+)$", head)
        if not m:
            bad.append(("objectives-text", "header %r" % head))
        else:
            shown = m.group(1)
            v = float(tot)
            cands = {str(int(v) if int(v) == v else v), "%.02f" % v, "%.02E." % v}
            # tolerate the last-bit difference of a differently ordered float sum
            v2 = float(rep)
            cands |= {str(int(v2) if int(v2) == v2 else v2), "%.02f" % v2, "%.02E." % v2}
            if shown not in cands:
                bad.append(("objectives-text", "shown %r, value %r" % (shown, v)))
    for k, d in bad:
        out.append(dict(kind=k, input=inp, detail="%s: %s (original %s, current %s)" % (where, d, original, cur)))
    return 1


def run_history(desc, ops, out):
    import numpy as np
    import dnachisel as dc
    np.random.seed(desc.get("np_seed", 0))
    try:
        cons = [problems.build_spec(d) for d in desc["constraints"]]
        objs = [problems.build_spec(d) for d in desc.get("objectives", [])]
        cls = dc.CircularDnaOptimizationProblem if desc.get("circular") else dc.DnaOptimizationProblem
        p = cls(desc["sequence"], constraints=cons, objectives=objs, logger=None)
    except Exception:
        return 0, 0
    problems.apply_settings(p, desc.get("settings", {}))
    original = desc["sequence"].upper()
    inp = dict(desc=desc, ops=ops)
    n = check_reports(p, original, out, inp, "after construction")
    changes = 0
    for i, op in enumerate(ops):
        before = p.sequence
        try:
            if op[0] == "resolve":
                p.resolve_constraints()
            elif op[0] == "optimize":
                p.optimize()
            elif op[0] == "rnd_resolve":
                p.resolve_constraints_by_random_mutations()
            elif op[0] == "rnd_optimize":
                p.optimize_by_random_mutations()
            elif op[0] in ("exh_resolve", "exh_optimize", "resolve_locally"):
                # the direct searches on the whole problem, when its space can be enumerated
                if p.mutation_space.space_size <= 3000:
                    {"exh_resolve": p.resolve_constraints_by_exhaustive_search, "exh_optimize": p.optimize_by_exhaustive_search,
                     "resolve_locally": p.resolve_constraints_locally}[op[0]]()
            elif op[0] == "assign":
                p.sequence = op[1]
            elif op[0] == "assign_original":
                p.sequence = original
        except dc.NoSolutionError:
            pass
        except _Timeout:
            raise
        except Exception:
            pass
        if p.sequence != before:
            changes += 1
        n += check_reports(p, original, out, inp, "after op %d (%s)" % (i, op[0]))
    return n, changes


def rand_history(rng):
    desc = problems.rand_solver_problem(rng, nmin=6, nmax=36)
    desc["objectives"] = [o for o in desc["objectives"] if not o["kind"].startswith("user")]
    desc["constraints"] = [c for c in desc["constraints"] if not c["kind"].startswith("user")]
    if rng.random() < 0.3:
        # circular problems list their evaluations on the three-copy view; the direct random searches are linear-only
        desc["circular"] = True
        desc["constraints"] = [c for c in desc["constraints"] if c["kind"] in ("pattern", "gcwin", "keep", "keep_idx", "keep_edits")]
        desc["objectives"] = [o for o in desc["objectives"] if o["kind"] in ("gc_obj", "pattern_obj", "keep_obj", "change_obj")]
    if not desc.get("circular") and rng.random() < 0.3:
        # most positions frozen: the whole space can be enumerated by the direct exhaustive searches
        n_ = len(desc["sequence"])
        free = set(rng.sample(range(n_), rng.randint(1, 4)))
        desc["constraints"].append(dict(kind="keep_idx", indices=[i for i in range(n_) if i not in free]))
    if desc["objectives"] and rng.random() < 0.15:
        # very large (non-integer) boosts: totals of six and more digits in the text summaries
        for o in desc["objectives"]:
            if "boost" in o:
                o["boost"] = rng.choice([150000.25, 987654.5, 12345678.75]) * rng.choice([1, 1, 3])
    ops = []
    for _ in range(rng.randint(1, 5)):
        k = rng.choice(OPS if not desc.get("circular") else ["resolve", "optimize", "assign", "assign_original"])
        if k == "assign":
            ops.append(["assign", rand_edit(rng, desc["sequence"])])
        else:
            ops.append([k])
    return desc, ops


def search(ctx, budget, hints):
    rng = vlib.Rng(ctx.seed + 1717)
    out = []
    n = nontriv = timeouts = 0
    old = signal.signal(signal.SIGALRM, _alarm)
    try:
        for _ in range(150 * budget):
            desc, ops = rand_history(rng)
            signal.alarm(8)
            try:
                k, ch = run_history(desc, ops, out)
                n += k
                nontriv += ch >= 2
            except _Timeout:
                timeouts += 1
            finally:
                signal.alarm(0)
    finally:
        signal.signal(signal.SIGALRM, old)
    best, hist = {}, {"histories-with-2+-changes": nontriv, "timeouts": timeouts}
    for c in out:
        hist[c["kind"]] = hist.get(c["kind"], 0) + 1
        k = c["kind"]
        if k not in best or len(str(c["input"])) < len(str(best[k]["input"])):
            best[k] = c
    return dict(counterexamples=list(best.values()), evaluations=n, hist=hist,
                samples=[dict(oracle="reports recomputed position by position against the construction-time sequence")])


def replay(ctx, case):
    out = []
    inp = case["input"]
    run_history(inp["desc"], inp["ops"], out)
    return bool(out)
