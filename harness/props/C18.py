"""C18 — Location arithmetic is exact interval arithmetic."""
import copy
import vlib

RULE = ("correspondence: every Location method on random (start,end,strand) triples/pairs/lists and on ALL pairs "
        "with coordinates in 0..6; a case is non-trivial when the locations overlap partially, nest, touch or are "
        "identical (overlap/merge), or when a clamp is active (extended); distinct = distinct request lines")
TRUSTED = ["harness/props/C18.py correspondence + set-of-indices oracle",
           "Biopython FeatureLocation (conversion round trip is exercised, not modelled)"]
ASSUMPTIONS = ["locations are integer triples; strand in {-1,0,1}",
               "the model is pure: 'does not alter the caller's objects' is decided by the harness snapshotting "
               "the argument objects (oracle), not by a theorem"]


def L(t):
    from dnachisel import Location
    return Location(*t)


def fmt(loc):
    return "none" if loc is None else "%d %d %d" % (loc.start, loc.end, loc.strand)


def rand_loc(rng, hi=20, allow_empty=True):
    a = rng.randint(0, hi)
    b = rng.randint(a if allow_empty else a + 1, hi + 1)
    return (a, b, rng.choice([-1, 0, 1]))


def small_locs(maxc=6):
    return [(a, b, s) for a in range(maxc + 1) for b in range(a, maxc + 1) for s in (-1, 0, 1)]


def relation(a, b):
    if a[:2] == b[:2]:
        return "identical"
    if a[1] <= b[0] or b[1] <= a[0]:
        return "touching" if (a[1] == b[0] or b[1] == a[0]) else "disjoint"
    if (a[0] <= b[0] and b[1] <= a[1]) or (b[0] <= a[0] and a[1] <= b[1]):
        return "nested"
    return "partial"


def correspondence(ctx):
    from dnachisel import Location
    from Bio.SeqFeature import FeatureLocation
    rng = ctx.rng
    c = vlib.Corr()
    pairs = []
    sl = small_locs(6 if ctx.thorough else 5)
    for a in sl:
        for b in sl:
            pairs.append((a, b))
    for _ in range(ctx.n(3000)):
        pairs.append((rand_loc(rng, 40), rand_loc(rng, 40)))
    for a, b in pairs:
        rel = relation(a, b)
        c.add("loc.overlap %d %d %d %d %d %d" % (a + b), fmt(L(a).overlap_region(L(b))),
              nontrivial=rel not in ("disjoint",), branch="overlap:" + rel)
    for a, b in pairs[:: 7]:
        la, lb = L(a), L(b)
        c.add("loc.lt %d %d %d %d %d %d" % (a + b),
              "%s %s %s" % (str(la < lb).lower(), str(la == lb).lower(), str(la <= lb).lower()),
              nontrivial=a[0] == b[0], branch="order")
    for _ in range(ctx.n(2000)):
        a = rand_loc(rng, 40)
        n = rng.randint(0, 12)
        lo = rng.choice([0, 0, 0, rng.randint(0, 10)])
        hi = rng.choice([None, None, rng.randint(a[1], 50), rng.randint(0, 50)])
        left, right = rng.random() < 0.8, rng.random() < 0.8
        r = L(a).extended(n, lower_limit=lo, upper_limit=hi, left=left, right=right)
        clamp = (left and a[0] - n < lo) or (right and hi is not None and a[1] + n > hi)
        c.add("loc.extended %d %d %d %d %d %s %d %d" % (a + (n, lo, "-" if hi is None else hi, left, right)), fmt(r),
              nontrivial=clamp, branch="extended:" + ("clamped" if clamp else "free"))
    for _ in range(ctx.n(2000)):
        k = rng.randint(0, 7)
        locs = [rand_loc(rng, rng.choice([8, 15, 40])) for _ in range(k)]
        objs = [L(t) for t in locs]
        merged = Location.merge_overlapping_locations(copy.deepcopy(objs))
        c.add("loc.merge " + " ".join("%d %d %d" % t for t in locs), " ; ".join(fmt(m) for m in merged),
              nontrivial=len(merged) < len(locs), branch="merge:%s" % ("merged" if len(merged) < len(locs) else "kept"))
    for _ in range(ctx.n(500)):
        a = rand_loc(rng, 30)
        n = rng.randint(-10, 30)
        la = L(a)
        c.add("loc.shift %d %d %d %d" % (a + (n,)), "%s ; %s ; %d" % (fmt(la + n), fmt(la - n), len(la)), branch="shift")
        c.add("loc.indices %d %d %d" % a, " ".join(str(i) for i in la.indices), nontrivial=a[2] == -1, branch="indices")
        s = "".join(rng.choice("ATGC" if rng.random() < 0.7 else "ATGCNRYKMSWBDHV") for _ in range(rng.randint(0, 45)))
        try:
            r = la.extract_sequence(s)
            r = vlib.seq_tok(r)
        except KeyError:
            r = "KeyError"
        c.add("loc.extract %d %d %d %s" % (a + (vlib.seq_tok(s),)), r, nontrivial=a[2] == -1 and a[1] > a[0],
              branch="extract:%d" % a[2])
        strand = rng.choice([None, -1, 0, 1])
        fl = FeatureLocation(a[0], a[1], strand)
        c.add("loc.ofbio %d %d %s" % (a[0], a[1], "-" if strand is None else strand), fmt(Location.from_data(fl)),
              nontrivial=strand is None, branch="ofbio")
    c.run()
    return dict(evaluations=c.evaluations, nontrivial=len(c.nontrivial), hist=c.hist,
                samples=[dict(request=c.lines[i], answer=c.impl[i]) for i in (0, len(c.lines) // 2, len(c.lines) - 1)],
                disagreements=c.disagreements)


# ----------------------------------------------------------------------------------------------
# independent oracle: set-of-indices semantics, evaluated on the real code

def idx(t):
    return set(range(t[0], t[1]))


def check_pair(a, b, out):
    from dnachisel import Location
    la, lb = L(a), L(b)
    before = (la.to_tuple(), lb.to_tuple())
    r = la.overlap_region(lb)
    r2 = lb.overlap_region(la)
    inter = idx(a) & idx(b)
    if (la.to_tuple(), lb.to_tuple()) != before:
        out.append(dict(kind="overlap-mutates-input", input=[a, b]))
    if a[0] < a[1] and b[0] < b[1]:
        got = None if r is None else set(range(r.start, r.end))
        got2 = None if r2 is None else set(range(r2.start, r2.end))
        want = inter if inter else None
        if got != want or got2 != want:
            out.append(dict(kind="overlap-not-intersection", input=[a, b],
                            detail="got %s / %s, intersection %s" % (fmt(r), fmt(r2), sorted(inter))))
        elif r is not None and (r.strand != a[2] or r2.strand != b[2]):
            out.append(dict(kind="overlap-strand", input=[a, b], detail="%s %s" % (fmt(r), fmt(r2))))
    # ordering / equality / hash
    lt, gt, eq = la < lb, la > lb, la == lb
    if [lt, gt, eq].count(True) != 1 or eq != (a == b) or lt != (a < b) or (la <= lb) != (a <= b) or (la >= lb) != (a >= b):
        out.append(dict(kind="ordering", input=[a, b]))
    if eq and hash(la) != hash(lb):
        out.append(dict(kind="hash", input=[a, b]))
    if eq != (len({la, lb}) == 1):
        out.append(dict(kind="hash-set", input=[a, b]))


def check_single(a, rng, out):
    from dnachisel import Location
    from Bio.SeqFeature import FeatureLocation
    la = L(a)
    n = rng.randint(0, 9)
    lo = rng.choice([0, rng.randint(0, 8)])
    hi = rng.choice([None, rng.randint(0, 30)])
    left, right = rng.random() < 0.8, rng.random() < 0.8
    r = la.extended(n, lower_limit=lo, upper_limit=hi, left=left, right=right)
    ws = max(lo, a[0] - n) if left else a[0]
    we = (min(hi, a[1] + n) if hi is not None else a[1] + n) if right else a[1]
    if (r.start, r.end, r.strand) != (ws, we, a[2]) or la.to_tuple() != a:
        out.append(dict(kind="extended", input=[a, n, lo, hi, left, right], detail=fmt(r)))
    k = rng.randint(-5, 20)
    if ((la + k) - k).to_tuple() != a or (la + k).to_tuple() != (a[0] + k, a[1] + k, a[2]) or len(la) != a[1] - a[0]:
        out.append(dict(kind="shift", input=[a, k]))
    if Location.from_tuple(la.to_tuple()).to_tuple() != a or Location.from_tuple(a[:2]).to_tuple() != (a[0], a[1], 0) \
            or Location.from_data(a).to_tuple() != a or Location.from_data(la).to_tuple() != a \
            or Location.from_data(la) is la:
        out.append(dict(kind="tuple-conversion", input=[a]))
    bio = la.to_biopython_location()
    back = Location.from_data(bio)
    if back.to_tuple() != a or (int(bio.start), int(bio.end), bio.strand) != a:
        out.append(dict(kind="biopython-conversion", input=[a], detail=fmt(back)))
    if Location.from_data(FeatureLocation(a[0], a[1], None)).to_tuple() != (a[0], a[1], 0):
        out.append(dict(kind="biopython-strand-none", input=[a]))
    s = "".join(rng.choice("ATGC") for _ in range(rng.randint(a[1], a[1] + 5)))
    sub = la.extract_sequence(s)
    comp = {"A": "T", "T": "A", "G": "C", "C": "G"}
    want = s[a[0]:a[1]] if a[2] != -1 else "".join(comp[ch] for ch in reversed(s[a[0]:a[1]]))
    if sub != want:
        out.append(dict(kind="extract", input=[a, s], detail=sub))
    ind = la.indices
    if sorted(ind) != list(range(a[0], a[1])) or (a[2] == -1 and ind != list(range(a[0], a[1]))[::-1]) \
            or (a[2] != -1 and ind != list(range(a[0], a[1]))):
        out.append(dict(kind="indices", input=[a]))


def check_merge(locs, out):
    from dnachisel import Location
    objs = [L(t) for t in locs]
    snapshot = [o.to_tuple() for o in objs]
    merged = Location.merge_overlapping_locations(objs)
    after = [o.to_tuple() for o in objs]
    if after != snapshot:
        out.append(dict(kind="merge-mutates-input", input=[list(t) for t in locs],
                        detail="caller's objects after the call: %s" % after))
    mt = [m.to_tuple() for m in merged]
    union_in = set().union(*[idx(t) for t in locs]) if locs else set()
    union_out = set().union(*[idx(t) for t in mt]) if mt else set()
    ok = union_in == union_out and mt == sorted(mt)
    for i in range(len(mt)):
        for j in range(i + 1, len(mt)):
            if idx(mt[i]) & idx(mt[j]):
                ok = False
    if not ok:
        out.append(dict(kind="merge-result", input=[list(t) for t in locs], detail=str(mt)))


def search(ctx, budget, hints):
    rng = vlib.Rng(ctx.seed + 77)
    out = []
    n = 0
    sl = small_locs(4)
    for a in sl:
        for b in sl:
            check_pair(a, b, out)
            n += 1
    for _ in range(1500 * budget):
        check_pair(rand_loc(rng, 30), rand_loc(rng, 30), out)
        check_single(rand_loc(rng, 25), rng, out)
        locs = [rand_loc(rng, rng.choice([6, 12, 30]), allow_empty=False) for _ in range(rng.randint(0, 6))]
        check_merge(locs, out)
        n += 3
    for h in hints:
        pass
    # shrink: prefer the smallest input per kind
    best = {}
    for c in out:
        k = c["kind"]
        if k not in best or len(str(c["input"])) < len(str(best[k]["input"])):
            best[k] = c
    hist = {}
    for c in out:
        hist[c["kind"]] = hist.get(c["kind"], 0) + 1
    return dict(counterexamples=list(best.values()), evaluations=n, hist=hist,
                samples=[dict(oracle="set-of-indices", pair=[[1, 4, 1], [3, 6, -1]])])


def replay(ctx, case):
    out = []
    kind = case.get("kind", "")
    inp = case.get("input")
    if kind.startswith("merge"):
        check_merge([tuple(t) for t in inp], out)
    elif kind.startswith("overlap") or kind in ("ordering", "hash", "hash-set"):
        check_pair(tuple(inp[0]), tuple(inp[1]), out)
    else:
        for s in range(200):
            check_single(tuple(inp[0]), vlib.Rng(s), out)
    return any(c["kind"] == kind for c in out)
