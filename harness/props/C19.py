"""C19 — sequence utilities obey their algebraic laws."""
import vlib

RULE = ("correspondence: biotools functions on random inputs (lengths straddling the 30-base switch of "
        "`complement`, every genetic table, window sizes 1..n+2, index lists with duplicates); non-trivial = "
        "IUPAC/unknown characters or length > 30 (complement), start-codon / stop-codon cases (translate), "
        "window < n (gc), at least one mismatch run touching an end (diff), several groups (grouping)")
TRUSTED = ["harness/props/C19.py correspondence + direct-definition oracle",
           "Biopython Seq.translate / Seq.complement are modelled from their source (tables are generated)",
           "numpy cumsum/diff/nonzero as used"]
ASSUMPTIONS = ["GC values are compared as exact fractions num/window (the float is num/window in IEEE double)",
               "the X/B/J/Z rows of back-translation tables are outside the round-trip theorem (ambiguous amino acids)"]

IUPAC = "ACGTWSMKRYBDHVN"


def rand_seq(rng, n, alphabet="ATGC"):
    return "".join(rng.choice(alphabet) for _ in range(n))


def tname(name):
    return name.replace(" ", "_")


def correspondence(ctx):
    import numpy as np
    from dnachisel import biotools as bt
    from dnachisel.biotools import biotables
    rng = ctx.rng
    c = vlib.Corr()
    names = list(biotables.CODON_TABLE_NAMES)
    # complement / reverse complement
    for _ in range(ctx.n(1500)):
        n = rng.choice([0, 1, 5, 29, 30, 31, 32, rng.randint(0, 70)])
        r = rng.random()
        alpha = "ATGC" if r < 0.4 else (IUPAC if r < 0.8 else IUPAC + "UZXatgcn-*")
        s = rand_seq(rng, n, alpha)
        for fn, op in ((bt.complement, "seq.complement"), (bt.reverse_complement, "seq.rc")):
            try:
                a = vlib.seq_tok(fn(s))
            except KeyError:
                a = "KeyError"
            c.add("%s %s" % (op, vlib.seq_tok(s)), a, nontrivial=(n > 30 or alpha != "ATGC"),
                  branch="complement:%s:%s" % ("long" if n > 30 else "short", "atgc" if alpha == "ATGC" else "iupac"))
    # translate
    for _ in range(ctx.n(2500)):
        name = rng.choice(names)
        n = rng.choice([0, 3, 6, 9, rng.randint(0, 40)])
        s = rand_seq(rng, n, "ATGC" if rng.random() < 0.9 else "ATGCN")
        st = rng.random() < 0.4
        try:
            a = vlib.seq_tok(bt.translate(s, table=name, assume_start_codon=st))
        except Exception as e:
            a = "TranslationError" if type(e).__name__ == "TranslationError" else "Other:" + type(e).__name__
        c.add("seq.translate %s %d %s" % (tname(name), st, vlib.seq_tok(s)), a,
              nontrivial=st or "*" in a or n % 3 != 0, branch="translate:%s" % ("start" if st else "plain"))
    # reverse_translate
    for _ in range(ctx.n(1500)):
        name = rng.choice(names)
        p = rand_seq(rng, rng.randint(0, 12), "ACDEFGHIKLMNPQRSTVWY*" if rng.random() < 0.85 else "ACDEFGHIKLMNPQRSTVWY*BJZO")
        try:
            a = vlib.seq_tok(bt.reverse_translate(p, table=name))
        except KeyError:
            a = "KeyError"
        c.add("seq.revtrans %s %s" % (tname(name), vlib.seq_tok(p)), a, nontrivial=len(p) > 0, branch="revtrans")
    # gc content
    for _ in range(ctx.n(1500)):
        n = rng.randint(1, 40)
        s = rand_seq(rng, n)
        g = bt.gc_content(s)
        num = int(round(g * n))
        c.add("seq.gc %s" % s, "%d %d" % (num, n) if 1.0 * num / n == g else "float-mismatch", branch="gc:global")
        w = rng.randint(1, n + 2)
        arr = bt.gc_content(s, window_size=w)
        nums = []
        ok = True
        for v in arr:
            k = int(round(float(v) * w))
            ok = ok and (1.0 * k / w == float(v))
            nums.append(k)
        c.add("seq.gcwin %d %s" % (w, s), " ".join(map(str, nums)) if ok else "float-mismatch",
              nontrivial=w < n, branch="gc:window:%s" % ("lt" if w < n else ("eq" if w == n else "gt")))
    # differences
    for _ in range(ctx.n(1500)):
        n = rng.randint(0, 30)
        s = rand_seq(rng, n)
        t = list(s)
        mode = rng.random()
        for i in range(n):
            if rng.random() < (0.15 if mode < 0.5 else 0.6):
                t[i] = rng.choice("ATGC")
        if n and rng.random() < 0.3:
            t[-1] = {"A": "T", "T": "A", "G": "C", "C": "G"}[s[-1]]
        if n and rng.random() < 0.3:
            t[0] = {"A": "T", "T": "A", "G": "C", "C": "G"}[s[0]]
        t = "".join(t)
        if rng.random() < 0.03:
            t = t + "A"
        try:
            arr = bt.sequences_differences_array(s, t)
            cnt = int(bt.sequences_differences(s, t))
            segs = [(int(a), int(b)) for a, b in bt.sequences_differences_segments(s, t)]
            segtxt = " ".join("%d-%d" % p for p in segs)
            a = "%d | %s | %s | %s" % (cnt, " ".join("1" if x else "0" for x in arr), segtxt, segtxt)
        except ValueError:
            a = "ValueError"
        ends = n > 0 and len(t) == n and (s[-1] != t[-1] or s[0] != t[0])
        c.add("seq.diff %s %s" % (vlib.seq_tok(s), vlib.seq_tok(t)), a, nontrivial=ends, branch="diff:%s" % ("ends" if ends else "inner"))
    # subdivide, grouping, windows_overlap
    for _ in range(ctx.n(1500)):
        a0 = rng.randint(-5, 30)
        b0 = a0 + rng.randint(-2, 40)
        m = rng.randint(1, 15)
        r = bt.subdivide_window((a0, b0), m)
        c.add("seq.subdivide %d %d %d" % (a0, b0, m), " ".join("%d:%d" % p for p in r), nontrivial=len(r) > 1, branch="subdivide")
        k = rng.randint(0, 12)
        xs = [rng.randint(0, 40) for _ in range(k)]
        gap = rng.choice([None, rng.randint(1, 6)])
        spread = rng.choice([None, rng.randint(1, 9)])
        g = bt.group_nearby_indices(xs, max_gap=gap, max_group_spread=spread)
        c.add("seq.group %s %s %s" % ("-" if gap is None else gap, "-" if spread is None else spread, " ".join(map(str, xs))),
              " | ".join(" ".join(map(str, grp)) for grp in g), nontrivial=len(g) > 1, branch="group:idx")
        segs = [(x, x + rng.randint(1, 8)) for x in xs]
        g = bt.group_nearby_segments(segs, max_start_gap=gap, max_start_spread=spread)
        c.add("seq.groupseg %s %s %s" % ("-" if gap is None else gap, "-" if spread is None else spread,
                                          " ".join("%d %d" % p for p in segs)),
              " | ".join(" ".join("%d:%d" % p for p in grp) for grp in g), nontrivial=len(g) > 1, branch="group:seg")
        w1 = (rng.randint(0, 12), 0)
        w1 = (w1[0], w1[0] + rng.randint(0, 8))
        w2 = (rng.randint(0, 12), 0)
        w2 = (w2[0], w2[0] + rng.randint(0, 8))
        r = bt.windows_overlap(w1, w2)
        c.add("seq.winoverlap %d %d %d %d" % (w1 + w2), "none" if r is None else "%d %d" % tuple(r), branch="winoverlap")
    c.run()
    k = len(c.lines)
    return dict(evaluations=c.evaluations, nontrivial=len(c.nontrivial), hist=c.hist,
                samples=[dict(request=c.lines[i], answer=c.impl[i]) for i in (0, k // 5, 2 * k // 5, 3 * k // 5, k - 1)],
                disagreements=c.disagreements)


# ------------------------------------------------------------------------------------------
COMP = dict(zip("ACGTWSMKRYBDHVN", "TGCAWSKMYRVHDBN"))


def oracle_case(rng, out, names, dual):
    from dnachisel import biotools as bt
    n = rng.choice([0, 1, 7, 29, 30, 31, 45, rng.randint(0, 64)])
    s = rand_seq(rng, n, IUPAC if rng.random() < 0.5 else "ATGC")
    rc = bt.reverse_complement(s)
    if bt.reverse_complement(rc) != s:
        out.append(dict(kind="rc-not-involutive", input=[s], detail=rc))
    if rc != "".join(COMP[ch] for ch in reversed(s)):
        out.append(dict(kind="rc-not-basewise", input=[s], detail=rc))
    name = rng.choice(names)
    if name not in dual:
        p = rand_seq(rng, rng.randint(0, 15), "ACDEFGHIKLMNPQRSTVWY*")
        back = bt.translate(bt.reverse_translate(p, table=name), table=name)
        if back != p:
            out.append(dict(kind="translate-roundtrip", input=[name, p], detail=back))
        back = bt.translate(bt.reverse_translate(p, randomize_codons=True, table=name), table=name)
        if back != p:
            out.append(dict(kind="translate-roundtrip", input=[name, p, "randomize_codons"], detail=back))
    n = rng.randint(1, 35)
    s = rand_seq(rng, n)
    g = bt.gc_content(s)
    if abs(g - sum(ch in "GC" for ch in s) / n) > 1e-12:
        out.append(dict(kind="gc-global", input=[s], detail=float(g)))
    w = rng.randint(1, n) if rng.random() < 0.8 else rng.randint(n + 1, 2 * n + 2)   # also: more than the sequence holds (no window)
    arr = bt.gc_content(s, window_size=w)
    want = [sum(ch in "GC" for ch in s[i:i + w]) / w for i in range(max(0, n - w + 1))]
    if len(arr) != len(want) or any(abs(float(a) - b) > 1e-12 for a, b in zip(arr, want)):
        out.append(dict(kind="gc-window", input=[s, w], detail=[float(x) for x in arr]))
    t = "".join(ch if rng.random() < 0.7 else rng.choice("ATGC") for ch in s)
    if rng.random() < 0.4:
        t = t[:-1] + COMP[s[-1]]
    mism = [i for i in range(n) if s[i] != t[i]]
    arr = bt.sequences_differences_array(s, t)
    segs = bt.sequences_differences_segments(s, t)
    covered = [i for a, b in segs for i in range(int(a), int(b))]
    sep = all(int(segs[i][1]) < int(segs[i + 1][0]) for i in range(len(segs) - 1))
    if [i for i in range(n) if arr[i]] != mism or int(bt.sequences_differences(s, t)) != len(mism) or covered != mism or not sep:
        out.append(dict(kind="differences", input=[s, t], detail=str([(int(a), int(b)) for a, b in segs])))
    a0 = rng.randint(0, 20)
    b0 = a0 + rng.randint(1, 40)
    m = rng.randint(1, 12)
    pieces = bt.subdivide_window((a0, b0), m)
    ok = pieces and pieces[0][0] == a0 and pieces[-1][1] == b0 and all(0 < q - p <= m for p, q in pieces) \
        and all(pieces[i][1] == pieces[i + 1][0] for i in range(len(pieces) - 1))
    if not ok:
        out.append(dict(kind="subdivide", input=[a0, b0, m], detail=str(pieces)))
    xs = [rng.randint(0, 40) for _ in range(rng.randint(0, 12))]
    gap = rng.choice([None, rng.randint(1, 6)])
    spread = rng.choice([None, rng.randint(1, 9)])
    groups = bt.group_nearby_indices(xs, max_gap=gap, max_group_spread=spread)
    flat = [x for g in groups for x in g]
    ok = flat == sorted(xs) and all(len(g) > 0 for g in groups)
    for g in groups:
        for i in range(1, len(g)):
            if gap is not None and not (g[i] - g[i - 1] < gap):
                ok = False
            if spread is not None and not (g[i] - g[0] < spread):
                ok = False
    if not ok:
        out.append(dict(kind="group-indices", input=[xs, gap, spread], detail=str(groups)))
    segs = [(x, x + rng.randint(1, 5)) for x in xs]
    groups = bt.group_nearby_segments(segs, max_start_gap=gap, max_start_spread=spread)
    flat = [x for g in groups for x in g]
    ok = flat == sorted(segs) and all(len(g) > 0 for g in groups)
    for g in groups:
        for i in range(1, len(g)):
            if gap is not None and not (g[i][0] - g[i - 1][0] < gap):
                ok = False
            if spread is not None and not (g[i][0] - g[0][0] < spread):
                ok = False
    if not ok:
        out.append(dict(kind="group-segments", input=[segs, gap, spread], detail=str(groups)))


def search(ctx, budget, hints):
    from Bio.Data import CodonTable
    from dnachisel.biotools import biotables
    rng = vlib.Rng(ctx.seed + 1919)
    names = list(biotables.CODON_TABLE_NAMES)
    dual = {n for n in names if any(c in CodonTable.unambiguous_dna_by_name[n].forward_table
                                    for c in CodonTable.unambiguous_dna_by_name[n].stop_codons)}
    out = []
    n = 800 * budget
    for _ in range(n):
        oracle_case(rng, out, names, dual)
    best, hist = {}, {}
    for c in out:
        hist[c["kind"]] = hist.get(c["kind"], 0) + 1
        if c["kind"] not in best or len(str(c["input"])) < len(str(best[c["kind"]]["input"])):
            best[c["kind"]] = c
    return dict(counterexamples=list(best.values()), evaluations=n * 9, hist=hist,
                samples=[dict(oracle="direct definitions", example="rc(rc(s))==s, translate(reverse_translate(p))==p, ...")])


def replay(ctx, case):
    from Bio.Data import CodonTable
    from dnachisel.biotools import biotables
    names = list(biotables.CODON_TABLE_NAMES)
    dual = {n for n in names if any(c in CodonTable.unambiguous_dna_by_name[n].forward_table
                                    for c in CodonTable.unambiguous_dna_by_name[n].stop_codons)}
    out = []
    for seed in range(300):
        oracle_case(vlib.Rng(seed), out, names, dual)
    return any(c["kind"] == case.get("kind") for c in out)
