"""C20 — scores, pass/optimal flags and declared best scores are mutually consistent."""
from fractions import Fraction

import vlib
import bspec
import oracle_doc
from gen import hard
from props import C10

RULE = ("correspondence: evaluate() of the modelled built-ins (as C10) — score, passes, locations; oracle on the real "
        "objects: passes == (score >= 0), is_optimal == (score == best_possible_score); for classes declaring a best "
        "possible score: score <= best on every sequence, and when the documented goal is met completely (decided in "
        "exact rational arithmetic, independently) the score is exactly the declared best; non-trivial = goal met exactly "
        "on a bound (e.g. a GC window whose count sits exactly on mini/maxi/target)")
TRUSTED = ["harness/oracle_doc.py, exact-fraction goal test in harness/props/C20.py"]
ASSUMPTIONS = ["thresholds are read as the decimal literals given (0.3 = 3/10) when deciding whether the goal is met"]

KINDS = ["pattern", "insert", "gcwin", "gcwin", "gcwin", "gcglobal", "keep", "keep_edits", "change_obj", "change_min",
         "sequence", "choice", "terminal", "length", "rare", "cai", "kmers", "cds", "stop", "gc_obj", "gc_obj", "keep_obj"]


def rand_case(rng):
    n = rng.randint(4, 30)
    seq = hard.rand_seq(rng, n)
    k = rng.choice(KINDS)
    if k == "gc_obj":
        w = min(rng.choice([4, 5, 10, 20]), n)
        d = dict(kind="gc_obj", target=rng.choice([0.25, 0.3, 0.5, 0.6, 0.7]), window=w, boost=1)
    elif k == "keep_obj":
        d = dict(kind="keep_obj", location=None, boost=1)
    elif k == "gcwin":
        w = min(rng.choice([5, 10, 10, 20]), n)
        d = dict(kind="gcwin", mini=rng.choice([0.0, 0.1, 0.3, 0.4]), maxi=rng.choice([0.6, 0.7, 0.9, 1.0]), window=w, location=None)
    else:
        d = bspec.rand_spec_desc(rng, seq, [k])
    # sequences whose GC windows sit exactly on a bound: periodic with a chosen GC count
    if d["kind"] in ("gcwin", "gc_obj") and rng.random() < 0.6:
        w = d["window"]
        bound = d.get("target", rng.choice([d.get("mini", 0), d.get("maxi", 1)]))
        kgc = int(round(bound * w))
        unit = list("G" * kgc + "A" * (w - kgc))
        rng.shuffle(unit)
        s2 = ("".join(unit) * (n // w + 2))[:n]
        seq = s2 if rng.random() < 0.5 else seq
        return dict(sequence=seq, spec=d, evaluated=s2)
    p = rng.choice([0.0, 0.1, 0.4])
    s2 = "".join(ch if rng.random() > p else rng.choice("ATGC") for ch in seq)
    case = dict(sequence=seq, spec=d, evaluated=s2)
    if rng.random() < 0.2:
        # the specification object was used before, on another sequence (a batch of problems sharing one list)
        case["used_before"] = hard.rand_seq(rng, n + rng.choice([0, 0, 3]))
        if rng.random() < 0.5:
            case["evaluated"] = seq     # the untouched sequence: e.g. 'no change' is met completely
    if d["kind"] in ("cai", "rca", "rare") and rng.random() < 0.4:
        other = rng.choice([k_ for k_ in ("cai", "rca") if k_ != d["kind"]] or ["rca"])
        first = dict(kind=other, location=d["location"], table_seed=d["table_seed"], boost=1)
        if other == "rca":
            first["orig_table_seed"] = d["table_seed"]
        case["table_first_used_by"] = first
        if d["kind"] == "cai" and rng.random() < 0.5:
            # a sequence of most-frequent codons: the goal is met, the score must be the declared best
            import random as _r
            table = hard.user_table(_r.Random(d["table_seed"]))
            a, b, st = d["location"]
            comp = {"A": "T", "T": "A", "G": "C", "C": "G"}
            aas = list(table.keys())
            best = "".join(max(sorted(table[aa]), key=lambda c: table[aa][c]) for aa in [rng.choice(aas) for _ in range((b - a) // 3)])
            region = best if st != -1 else "".join(comp[c] for c in reversed(best))
            case["evaluated"] = s2[:a] + region + s2[b:]
    return case


def goal_met_exact(d, s):
    """True / False when decidable in exact arithmetic from the documentation, else None."""
    k = d["kind"]
    n = len(s)
    if k in ("gcwin", "gc_obj", "gcglobal"):
        a, b, _ = oracle_doc.loc_of(d, n)
        w = d.get("window")
        lo = Fraction(str(d["target"])) if "target" in d else Fraction(str(d["mini"]))
        hi = Fraction(str(d["target"])) if "target" in d else Fraction(str(d["maxi"]))
        if w is None:
            g = Fraction(sum(c in "GC" for c in s[a:b]), b - a)
            return lo <= g <= hi
        return all(lo <= Fraction(sum(c in "GC" for c in s[i:i + w]), w) <= hi for i in range(a, b - w + 1))
    if k == "terminal":
        w = d["window"]
        lo, hi = Fraction(str(d["mini"])), Fraction(str(d["maxi"]))
        return all(lo <= Fraction(sum(c in "GC" for c in s[x:y]), w) <= hi for x, y in ((0, w), (n - w, n)))
    return None


def oracle_case(case, out):
    seq, d, s2 = case["sequence"], case["spec"], case["evaluated"]
    try:
        if case.get("table_first_used_by"):
            with hard.shared_tables():
                bspec.build(case["table_first_used_by"])
                spec, stub = bspec.init_spec(d, seq, case.get("used_before"))
        else:
            spec, stub = bspec.init_spec(d, seq, case.get("used_before"))
    except Exception:
        return 0
    stub.sequence = s2
    try:
        ev = spec.evaluate(stub)
    except Exception:
        return 0
    best = spec.best_possible_score
    sc = ev.score
    if bool(ev.passes) != bool(sc >= 0) or bool(ev.is_optimal) != bool(sc == best):
        out.append(dict(kind="flags-inconsistent:%s" % d["kind"], input=case,
                        detail="score %r passes %s is_optimal %s best %r" % (float(sc), ev.passes, ev.is_optimal, best)))
    # `minimum=` (EnforceChanges) and `max_edits=` (AvoidChanges) are the documented *constraint*
    # configurations: their score measures slack and may be positive
    if best is not None and d["kind"] not in ("change_min", "keep_edits") and d.get("max_edits_percent") is None:
        if sc > best:
            out.append(dict(kind="score-above-best:%s" % d["kind"], input=case, detail="score %r best %r" % (float(sc), best)))
        met = goal_met_exact(d, s2)
        if met is None:
            want = oracle_doc.doc(d, seq, s2)
            if want is not None and d["kind"] not in ("kmers", "cai", "rare", "hairpin") and want["score"] == 0:
                met = True
        if met and sc != best:
            out.append(dict(kind="goal-met-score-not-best:%s" % d["kind"], input=case, detail="score %r best %r" % (float(sc), best)))
    return 1


def correspondence(ctx):
    r = C10.correspondence(ctx)
    return r


def search(ctx, budget, hints):
    rng = vlib.Rng(ctx.seed + 2020)
    out = []
    n = 0
    for _ in range(9000 * budget):
        n += oracle_case(rand_case(rng), out)
    best, hist = {}, {}
    for c in out:
        hist[c["kind"]] = hist.get(c["kind"], 0) + 1
        k = c["kind"]
        if k not in best or len(c["input"]["sequence"]) < len(best[k]["input"]["sequence"]):
            best[k] = c
    return dict(counterexamples=list(best.values()), evaluations=n, hist=hist,
                samples=[dict(oracle="flags vs score; score <= best; exact-fraction goal test", case=rand_case(vlib.Rng(3)))])


def replay(ctx, case):
    out = []
    oracle_case(case["input"], out)
    return bool(out)
