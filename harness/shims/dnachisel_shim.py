# import shim: Biopython >=1.86 dropped Bio.Align.AlignInfo.PSSM
import Bio.Align.AlignInfo as _A
if not hasattr(_A, "PSSM"):
    class PSSM:  # placeholder, only used for isinstance checks in MotifPssmPattern
        pass
    _A.PSSM = PSSM
import sys, types, itertools
if 'python_codon_tables' not in sys.modules:
    try:
        import python_codon_tables
    except ImportError:
        m = types.ModuleType('python_codon_tables')
        from Bio.Data import CodonTable
        def _mk(seed):
            t = CodonTable.unambiguous_dna_by_name["Standard"]
            back = {}
            for c, aa in t.forward_table.items(): back.setdefault(aa, []).append(c)
            back['*'] = list(t.stop_codons)
            import random
            r = random.Random(seed)
            tab = {}
            for aa, cs in sorted(back.items()):
                ws = [r.randint(1, 20) for _ in cs]
                tot = sum(ws)
                tab[aa] = {c: round(w / tot, 2) for c, w in zip(sorted(cs), ws)}
            return tab
        _names = ['b_subtilis','c_elegans','d_melanogaster','e_coli','g_gallus','h_sapiens','m_musculus','s_cerevisiae']
        def get_codons_table(name, **k):
            import copy
            return _mk(_names.index(name.split('_1')[0]) if name in _names else hash(name) % 1000)
        m.get_codons_table = get_codons_table
        m.available_codon_tables_names = _names
        sys.modules['python_codon_tables'] = m
