"""Build a real problem from a description, run one solver operation while recording, and
produce the model request + the implementation's answer."""
import numpy as np

from gen import hard, problems
import solverrec


def build_problem(desc, circular=False):
    import dnachisel as dc
    base = dc.CircularDnaOptimizationProblem if circular else dc.DnaOptimizationProblem
    Rec = solverrec.rec_class(base)
    np.random.seed(desc.get("np_seed", 0))
    if desc.get("construct_first"):
        # specifications constructed earlier by the user on the same codon-usage table objects
        with hard.shared_tables():
            for d0 in desc["construct_first"]:
                problems.build_spec(d0)
            cons = [problems.build_spec(d) for d in desc["constraints"]]
            objs = [problems.build_spec(d) for d in desc.get("objectives", [])]
    else:
        cons = [problems.build_spec(d) for d in desc["constraints"]]
        objs = [problems.build_spec(d) for d in desc.get("objectives", [])]
    if desc.get("reuse_after"):
        # the same specification objects were used before on another (shorter) problem: natural when one list of
        # constraints is applied to several sequences; it must not influence this problem
        try:
            warm = dc.DnaOptimizationProblem(desc["reuse_after"], constraints=cons, objectives=objs, logger=None)
            warm.all_constraints_pass()
        except Exception:
            pass
        np.random.seed(desc.get("np_seed", 0))
    p = Rec(desc["sequence"], constraints=cons, objectives=objs, logger=None)
    if desc.get("space_window"):
        # the problem works on a localized view of its mutation space (what the solver gives its local problems)
        p.mutation_space = p.mutation_space.localized(tuple(desc["space_window"]))
    problems.apply_settings(p, desc.get("settings", {}))
    return p


def restr_tokens_of(problem, seq0):
    stub = hard.Stub(seq0)
    stub.constraints = problem.constraints
    return hard.restr_tokens(hard.restrictions_of(stub))


def run_case(desc, op, fault_at=None, pre_ops=()):
    """-> dict(line, answer, info, problem) or dict(skip=reason)"""
    try:
        p = build_problem(desc, circular=op.startswith("circ") or bool(desc.get("circular")))
    except Exception as e:  # constructor errors (unsolvable space, bad parameters) are outside the solver properties
        return dict(skip="%s" % type(e).__name__)
    seq0 = desc["sequence"].upper()
    rt = restr_tokens_of(p, seq0)
    for pre in pre_ops:   # e.g. resolve before optimize; not recorded
        try:
            solverrec.OPS[pre](p)
        except Exception as e:
            return dict(skip="pre-op %s: %s" % (pre, type(e).__name__))
    # constraints carrying a (possibly stale) `is_focus` flag, as left behind by an earlier resolve_constraint
    focus = [i for i in desc.get("focus", []) if i < len(p.constraints)]
    for i in focus:
        p.constraints[i].is_focus = True
    line, answer, info = solverrec.run_recorded(p, op, seq0, rt, fault_at=fault_at, focus_handles=focus,
                                                space_window=desc.get("space_window"))
    r = dict(line=line, answer=answer, info=info, problem=p)
    if op == "resolve_filtered":
        r["no_model"] = True      # the filter argument is not part of the model: oracle only
    if desc.get("circular") and not op.startswith("circ"):
        r["no_model"] = True      # direct searches on a circular problem: the views are not modelled, oracle only
    return r
