"""Shared driver for the solver-level properties: run recorded cases, build the correspondence,
hand the finished real problems to a property-specific oracle."""
import json
import signal

import vlib
import solvercase
import solverrec


class _Timeout(BaseException):
    pass


def _alarm(*a):
    raise _Timeout()


def run_cases(cases, case_timeout=6):
    """cases: iterable of dict(desc, op, pre_ops, fault_at, tag).  Returns list of results
    dict(case, line, answer, info, problem) and a histogram of skipped cases."""
    results, skipped = [], {}
    old = signal.signal(signal.SIGALRM, _alarm)
    try:
        for case in cases:
            signal.alarm(case_timeout)
            try:
                r = solvercase.run_case(case["desc"], case["op"], fault_at=case.get("fault_at"),
                                        pre_ops=case.get("pre_ops", ()))
            except _Timeout:
                solverrec.REG.active = False
                solverrec.REG.suppress = 0
                solverrec.REG.depth = 0
                r = dict(skip="timeout")
            finally:
                signal.alarm(0)
            if "skip" in r:
                skipped[r["skip"]] = skipped.get(r["skip"], 0) + 1
                continue
            if r["info"]["attrs_mutated"]:
                # EnforceChanges flips its own enforced flag when re-initialised: attribute tables are static
                skipped["attr-mutation"] = skipped.get("attr-mutation", 0) + 1
                r["no_model"] = True
            if "RecursionError" in r["info"]["outcome"]:
                # the interpreter's recursion limit is not part of the model: such a run is judged by the oracle only
                skipped["recursion-limit"] = skipped.get("recursion-limit", 0) + 1
                r["no_model"] = True
            r["case"] = case
            results.append(r)
    finally:
        signal.signal(signal.SIGALRM, old)
    return results, skipped


def correspondence_of(results):
    c = vlib.Corr()
    for r in results:
        if r.get("no_model"):
            continue
        info = r["info"]
        nontrivial = info["trace"] >= 3
        branch = "%s:%s:%s" % (r["case"]["op"], info["outcome"].split(":")[0],
                               "random" if info["tape"] else ("search" if info["trace"] >= 3 else "noop"))
        c.add(r["line"], r["answer"], meta=dict(desc=r["case"]["desc"], op=r["case"]["op"], fault_at=r["case"].get("fault_at")),
              nontrivial=nontrivial, branch=branch)
    c.run()
    return c


def summarize(c, skipped, extra_hist=None):
    hist = dict(c.hist)
    for k, v in skipped.items():
        hist["skipped:" + k] = v
    if extra_hist:
        hist.update(extra_hist)
    samples = []
    for i in (0, len(c.lines) // 2, len(c.lines) - 1):
        if 0 <= i < len(c.lines):
            samples.append(dict(request=c.lines[i][:600] + (" ..." if len(c.lines[i]) > 600 else ""), answer=c.impl[i][:300]))
    dis = [dict(request=d["request"][:3000], model=d["model"][:600], impl=d["impl"][:600], meta=d["meta"]) for d in c.disagreements]
    return dict(evaluations=c.evaluations, nontrivial=len(c.nontrivial), hist=hist, samples=samples, disagreements=dis)


def in_space(problem, s=None):
    s = problem.sequence if s is None else s
    return all(s[c.start:c.end] in [str(v) for v in c.variants] for c in problem.mutation_space.choices_list)


def restrictions_respected(problem, seq0, s=None):
    """hard restrictions read directly from the constraints' restrict_nucleotides() on the sequence the problem was built
    from (not from the mutation space the code derived from them)"""
    from gen import hard
    s = problem.sequence if s is None else s
    stub = hard.Stub(seq0)
    stub.constraints = problem.constraints
    try:
        restrs = hard.restrictions_of(stub)
    except Exception:
        return True
    return all(s[a:b] in vs for a, b, vs in restrs)


def shrink_best(out):
    best, hist = {}, {}
    for c in out:
        hist[c["kind"]] = hist.get(c["kind"], 0) + 1
        if c["kind"] not in best or len(json.dumps(c["input"], default=str)) < len(json.dumps(best[c["kind"]]["input"], default=str)):
            best[c["kind"]] = c
    return list(best.values()), hist
