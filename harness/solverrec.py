"""Recording of a real solver run, from outside /repo, in the form the Lean model replays.

* every Specification subclass's own `evaluate` / `localized` / `initialized_on_problem` /
  `resolution_heuristic` is wrapped at class level (objects stay the real ones, so attribute
  aliasing such as `is_focus` behaves exactly as in an unobserved run);
* `numpy.random.randint/choice` are wrapped (the tape);
* `Rec`, a subclass of the problem class with a recording `__setattr__`, logs every assignment to
  a `sequence` attribute (local problems are built with `self.__class__`, so they are `Rec`s too).

One run -> one request line for the driver (`solve.<op> | ...`) + the implementation's answer
`outcome ; final ; trace ; tape_used`.
"""
import functools
import inspect
import struct

import numpy as np


def fbits(x):
    return str(struct.unpack("<Q", struct.pack("<d", float(x)))[0])


def stok(s):
    return s if s else "."


class Fault(Exception):
    """Raised by harness-defined specifications to model an exception thrown from user code."""

    def __init__(self, fid):
        Exception.__init__(self, "fault %d" % fid)
        self.fid = fid


class Registry:
    def __init__(self):
        self.active = False
        self.suppress = 0
        self.depth = 0
        self.reset()

    def reset(self):
        self.objs = []          # strong refs, index = handle
        self.ids = {}
        self.attrs = {}
        self.E, self.EF, self.A, self.H = {}, {}, [], []
        self.trace = []
        self.tape = []
        self.faults = {}        # id(exception) -> fault id
        self.next_fault = 1
        self.n_eval = 0
        self.depth = 0
        self.fault_at = None    # inject a Fault at the k-th evaluate call (1-based), or None
        self.view_settings = None
        self.views = []         # circular runs: (constraint handles, central handles, restriction tokens) per view built

    def handle(self, obj):
        k = id(obj)
        if k not in self.ids:
            self.ids[k] = len(self.objs)
            self.objs.append(obj)
            self.attrs[self.ids[k]] = snapshot_attrs(obj)
        return self.ids[k]

    def fault_id(self, exc):
        k = id(exc)
        if k not in self.faults:
            if isinstance(exc, Fault):
                self.faults[k] = exc.fid
            else:
                self.faults[k] = 1000 + self.next_fault
                self.next_fault += 1
            self._keep = getattr(self, "_keep", []) + [exc]
        return self.faults[k]


REG = Registry()


def accepts_rh(obj):
    f = type(obj).localized
    f = getattr(f, "_vp_orig", f)
    try:
        ps = inspect.signature(f).parameters
    except (TypeError, ValueError):
        return True
    return "with_righthand" in ps or any(p.kind == p.VAR_KEYWORD for p in ps.values())


def snapshot_attrs(obj):
    best = obj.best_possible_score
    return (bool(obj.enforced_by_nucleotide_restrictions), int(obj.priority),
            None if best is None else float(best), float(obj.boost) if hasattr(obj, "boost") else 1.0,
            bool(obj.optimize_passively), accepts_rh(obj), hasattr(obj, "resolution_heuristic"))


def canon_locs(locs):
    if locs is None:
        return "-"
    if len(locs) == 0:
        return "e"
    return ",".join("%d.%d.%d" % (l.start, l.end, l.strand) for l in locs)


_MARK = "_vp_mark"


def derive_kind(receiver, result, tok):
    if result is receiver:
        return "s"
    if getattr(result, "__dict__", {}).get(_MARK) is tok:
        del result.__dict__[_MARK]
        return "c"
    return "f"


def wrap_evaluate(orig):
    def evaluate(self, problem):
        if not REG.active or REG.suppress or REG.depth:
            return orig(self, problem)
        h = REG.handle(self)
        key = (h, problem.sequence)
        idx = REG.n_eval           # 0-based index of this call among all evaluations
        REG.n_eval += 1
        REG.depth += 1
        try:
            if REG.fault_at is not None and idx == REG.fault_at:
                raise Fault(7000 + idx)
            ev = orig(self, problem)
        except Exception as e:
            from dnachisel import NoSolutionError
            if isinstance(e, NoSolutionError):
                raise
            REG.EF[idx] = "F%d" % REG.fault_id(e)
            raise
        finally:
            REG.depth -= 1
        REG.E[key] = "%s:%s" % (fbits(ev.score), canon_locs(ev.locations))
        return ev
    evaluate = functools.wraps(orig)(evaluate)
    evaluate._vp_orig = orig
    return evaluate


def wrap_localized(orig):
    params = None
    try:
        params = inspect.signature(orig).parameters
    except (TypeError, ValueError):
        pass
    accepts = params is None or "with_righthand" in params or any(p.kind == p.VAR_KEYWORD for p in params.values())

    def localized(self, location, problem=None, **kw):
        if not REG.active or REG.suppress or REG.depth:
            return orig(self, location, problem=problem, **kw)
        if "with_righthand" in kw and not accepts:
            # the TypeError the unwrapped call would raise at argument binding (solver-level, not a spec fault)
            raise TypeError("localized() got an unexpected keyword argument 'with_righthand'")
        h = REG.handle(self)
        rh = 0 if "with_righthand" not in kw else (2 if kw["with_righthand"] else 1)
        seq = problem.sequence if problem is not None else ""
        key = (h, location.start, location.end, location.strand, rh, seq)
        tok = object()
        self.__dict__[_MARK] = tok
        slot = len(REG.A)
        REG.A.append(None)
        ktxt = "L:%d:%d:%d:%d:%d:%s" % (h, location.start, location.end, location.strand, rh, stok(seq))
        REG.depth += 1
        try:
            r = orig(self, location, problem=problem, **kw)
        except Exception as e:
            REG.A[slot] = ktxt + ":F%d" % REG.fault_id(e)
            raise
        finally:
            REG.depth -= 1
            self.__dict__.pop(_MARK, None)
        if r is None:
            REG.A[slot] = ktxt + ":N"
        else:
            kind = derive_kind(self, r, tok)
            REG.A[slot] = ktxt + ":%d.%s" % (REG.handle(r), kind)
        return r
    localized = functools.wraps(orig)(localized)
    localized._vp_orig = orig
    return localized


def wrap_init(orig):
    def initialized_on_problem(self, problem, *a, **k):
        if not REG.active or REG.suppress or REG.depth:
            return orig(self, problem, *a, **k)
        role = k.get("role", a[0] if a else None)
        h = REG.handle(self)
        ktxt = "I:%d:%s:%d" % (h, stok(problem.sequence), 1 if role == "objective" else 0)
        tok = object()
        self.__dict__[_MARK] = tok
        slot = len(REG.A)
        REG.A.append(None)
        REG.depth += 1
        try:
            r = orig(self, problem, *a, **k)
        except Exception as e:
            REG.A[slot] = ktxt + ":F%d" % REG.fault_id(e)
            raise
        finally:
            REG.depth -= 1
            self.__dict__.pop(_MARK, None)
        kind = derive_kind(self, r, tok)
        REG.A[slot] = ktxt + ":%d.%s" % (REG.handle(r), kind)
        return r
    initialized_on_problem = functools.wraps(orig)(initialized_on_problem)
    initialized_on_problem._vp_orig = orig
    return initialized_on_problem


def wrap_heuristic(orig):
    def resolution_heuristic(self, problem):
        if not REG.active or REG.suppress or REG.depth:
            return orig(self, problem)
        from dnachisel import NoSolutionError
        h = REG.handle(self)
        seq0 = problem.sequence
        REG.suppress += 1
        ok = True
        try:
            orig(self, problem)
        except NoSolutionError:
            ok = False
            raise
        finally:
            REG.suppress -= 1
            REG.H.append(((h, seq0), (problem.sequence, ok)))
            REG.trace.append(problem.sequence)   # the one assignment the model logs for a heuristic
    resolution_heuristic = functools.wraps(orig)(resolution_heuristic)
    resolution_heuristic._vp_orig = orig
    return resolution_heuristic


WRAPPERS = {"evaluate": wrap_evaluate, "localized": wrap_localized,
            "initialized_on_problem": wrap_init, "resolution_heuristic": wrap_heuristic}


def all_subclasses(cls):
    out, todo = [], [cls]
    while todo:
        c = todo.pop()
        for s in c.__subclasses__():
            if s not in out:
                out.append(s)
                todo.append(s)
    return out


def patch_all():
    from dnachisel import Specification
    for cls in [Specification] + all_subclasses(Specification):
        for name, w in WRAPPERS.items():
            f = cls.__dict__.get(name)
            if f is not None and callable(f) and not hasattr(f, "_vp_orig"):
                setattr(cls, name, w(f))


_tape_patched = False


def patch_tape():
    global _tape_patched
    if _tape_patched:
        return
    _tape_patched = True
    ri, ch = np.random.randint, np.random.choice

    def randint(*a, **k):
        r = ri(*a, **k)
        if REG.active and not REG.suppress:
            REG.tape.extend(int(x) for x in np.asarray(r).reshape(-1).tolist())
        return r

    def choice(*a, **k):
        r = ch(*a, **k)
        if REG.active and not REG.suppress:
            REG.tape.extend(int(x) for x in np.asarray(r).reshape(-1).tolist())
        return r

    np.random.randint, np.random.choice = randint, choice


_view_patched = False


def patch_circular_view():
    """Record every `_circularized_view(...)` built during a recorded circular run: the view's specification
    objects become handles, the view problem becomes a `Rec` (its sequence assignments are traced); the
    specification calls made while the view is being constructed are not part of the modelled run."""
    global _view_patched
    if _view_patched:
        return
    _view_patched = True
    import dnachisel as dc
    from dnachisel import Location
    from gen import hard
    cls = dc.CircularDnaOptimizationProblem
    orig = cls._circularized_view

    def _circularized_view(self, *a, **k):
        if not REG.active or REG.suppress or REG.depth:
            return orig(self, *a, **k)
        seq3 = 3 * self.sequence
        REG.depth += 1
        try:
            view = orig(self, *a, **k)
        finally:
            REG.depth -= 1
        view.__class__ = rec_class(type(view))
        L = len(self.sequence)
        central_loc = Location(L, 2 * L)
        cons = [REG.handle(c) for c in view.constraints]
        central = [REG.handle(c) for c in view.constraints if c.location.overlap_region(central_loc) is not None]
        stub = hard.Stub(seq3)
        stub.constraints = view.constraints
        REG.depth += 1
        try:
            rt = hard.restr_tokens(hard.restrictions_of(stub))
        finally:
            REG.depth -= 1
        REG.views.append((cons, central, rt))
        REG.view_settings = settings_tokens(view)
        return view
    _circularized_view._vp_orig = orig
    cls._circularized_view = _circularized_view


_rec_cache = {}


def rec_class(base):
    """Subclass of a problem class with a recording __setattr__."""
    if base in _rec_cache:
        return _rec_cache[base]

    class Rec(base):
        def __setattr__(self, k, v):
            if k == "sequence" and REG.active and not REG.suppress:
                REG.trace.append(v)
            object.__setattr__(self, k, v)
    Rec.__name__ = "Rec" + base.__name__
    _rec_cache[base] = Rec
    return Rec


OPS = {
    "resolve": lambda p: p.resolve_constraints(),
    "optimize": lambda p: p.optimize(),
    "exh_resolve": lambda p: p.resolve_constraints_by_exhaustive_search(),
    "rnd_resolve": lambda p: p.resolve_constraints_by_random_mutations(),
    "exh_optimize": lambda p: p.optimize_by_exhaustive_search(),
    "rnd_optimize": lambda p: p.optimize_by_random_mutations(),
    "circ_resolve": lambda p: p.resolve_constraints(),
    # only the constraints at even positions of the list are asked to be solved
    "resolve_filtered": lambda p: p.resolve_constraints(cst_filter=lambda c, _ids=None: id(c) in {id(x) for x in p.constraints[::2]}),
}


def classify_exception(e):
    from dnachisel import NoSolutionError
    if id(e) in REG.faults:
        return "fault:%d" % REG.faults[id(e)]
    if isinstance(e, NoSolutionError):
        return "NoSolution"
    if isinstance(e, Fault):
        return "fault:%d" % e.fid
    if isinstance(e, ValueError):
        return "ValueError"
    if isinstance(e, (TypeError, AttributeError, KeyError, IndexError)):
        return "crash"
    return "Other:" + type(e).__name__


def settings_tokens(p):
    tol = p.optimization_stagnation_tolerance
    return "%d %d %d %s %s" % (p.randomization_threshold, p.max_random_iters, p.mutations_per_iteration,
                               "-" if tol is None else str(tol), ",".join(str(int(e)) for e in p.local_extensions))


def run_recorded(problem, op, seq0, restr_tokens, fault_at=None, focus_handles=(), space_window=None):
    """Run `op` on an already constructed (Rec) problem while recording.  Returns
    (request_line, impl_answer, info)."""
    patch_all()
    patch_tape()
    if op.startswith("circ"):
        patch_circular_view()
    REG.reset()
    REG.fault_at = fault_at
    cons = [REG.handle(c) for c in problem.constraints]
    objs = [REG.handle(o) for o in problem.objectives]
    start_seq = problem.sequence
    REG.active = True
    try:
        try:
            OPS[op](problem)
            outcome = "ok"
        except Exception as e:  # noqa
            outcome = classify_exception(e)
            info_exc = e
        else:
            info_exc = None
    finally:
        REG.active = False
    # attribute stability
    mutated = [h for h, o in enumerate(REG.objs) if snapshot_attrs(o) != REG.attrs[h]]
    attrs = " ".join("%d:%d:%d:%s:%s:%d:%d:%d" % (h, a[0], a[1], "-" if a[2] is None else fbits(a[2]), fbits(a[3]),
                                                   a[4], a[5], a[6]) for h, a in sorted(REG.attrs.items()))
    E = " ".join("%d:%s:%s" % (h, stok(s), v) for (h, s), v in REG.E.items())
    EF = " ".join("%d:%s" % (k, v) for k, v in sorted(REG.EF.items()))
    A = " ".join(a for a in REG.A if a is not None)
    H = " ".join("%d:%s:%s:%d" % (h, stok(s), stok(s2), ok) for (h, s), (s2, ok) in REG.H)
    # the three-copy view is a fresh problem: it runs with the default solver settings, not the circular problem's
    sett_tokens = REG.view_settings if (op.startswith("circ") and REG.view_settings) else settings_tokens(problem)
    seq0_field = stok(seq0) if not space_window else "%s %d %d" % (stok(seq0), space_window[0], space_window[1])
    line = " | ".join(["solve." + op, sett_tokens, seq0_field, restr_tokens, stok(start_seq),
                       " ".join(map(str, cons)), " ".join(map(str, objs)), attrs, E, EF, A, H,
                       " ".join(map(str, REG.tape)), " ".join(map(str, focus_handles))]
                      + [x for cons_v, central_v, rt in REG.views
                         for x in (" ".join(map(str, cons_v)), " ".join(map(str, central_v)), rt)])
    answer = "%s ; %s ; %s ; %d" % (outcome, stok(problem.sequence), ",".join(stok(s) for s in REG.trace), len(REG.tape))
    info = dict(outcome=outcome, n_eval=REG.n_eval, n_handles=len(REG.objs), tape=len(REG.tape), trace=len(REG.trace),
                attrs_mutated=mutated, exception=info_exc, heuristics=len(REG.H), views=len(REG.views))
    return line, answer, info
