"""Recording of numpy's global random generator from outside /repo.

The code always calls through the `np.random` module attribute, so replacing
`np.random.randint/choice/shuffle` by recording wrappers captures every draw.
The tape is a flat list of ints: one per randint, k per choice(n, k, replace=False).
"""
import numpy as np


class Recorder:
    def __init__(self):
        self.tape = []
        self.calls = []

    def __enter__(self):
        self._ri, self._ch, self._sh = np.random.randint, np.random.choice, np.random.shuffle

        def randint(*a, **k):
            r = self._ri(*a, **k)
            flat = np.asarray(r).reshape(-1).tolist()
            self.tape.extend(int(x) for x in flat)
            self.calls.append(("randint", len(flat)))
            return r

        def choice(*a, **k):
            r = self._ch(*a, **k)
            flat = np.asarray(r).reshape(-1).tolist()
            self.tape.extend(int(x) for x in flat)
            self.calls.append(("choice", len(flat)))
            return r

        def shuffle(x):
            self.calls.append(("shuffle", len(x)))
            return self._sh(x)

        np.random.randint, np.random.choice, np.random.shuffle = randint, choice, shuffle
        return self

    def __exit__(self, *a):
        np.random.randint, np.random.choice, np.random.shuffle = self._ri, self._ch, self._sh
