"""Shared machinery of the checks: Lean build + axiom audit, driver I/O,
evidence, replay files, known findings, verdict."""
import fcntl
import hashlib
import json
import os
import random
import re
import subprocess
import sys
import time

HERE = os.path.dirname(os.path.abspath(__file__))
VERIF = os.path.dirname(HERE)
REPO = os.environ.get("DNACHISEL_REPO", "/repo")
LEAN = os.path.join(VERIF, "lean")
DRIVER = os.path.join(LEAN, ".lake", "build", "bin", "driver")
ALLOWED_AXIOMS = {"propext", "Classical.choice", "Quot.sound"}
FORBIDDEN = re.compile(
    r"\bsorry\b|\badmit\b|^\s*axiom\s|native_decide|bv_decide|implemented_by|\bunsafe\s|maxHeartbeats\s+0\b"
)


def import_dnachisel():
    """Import the real package from REPO through the shims (never edits /repo)."""
    for p in (os.path.join(HERE, "shims"), REPO):
        if p in sys.path:
            sys.path.remove(p)
    sys.path.insert(0, os.path.join(HERE, "shims"))
    sys.path.insert(0, REPO)
    import warnings

    warnings.filterwarnings("ignore")
    import dnachisel_shim  # noqa: F401
    import dnachisel

    assert os.path.realpath(dnachisel.__file__).startswith(os.path.realpath(REPO)), dnachisel.__file__
    return dnachisel


class Lock:
    def __init__(self, name):
        self.path = os.path.join(LEAN, "." + name + ".lock")

    def __enter__(self):
        self.f = open(self.path, "w")
        fcntl.flock(self.f, fcntl.LOCK_EX)
        return self

    def __exit__(self, *a):
        fcntl.flock(self.f, fcntl.LOCK_UN)
        self.f.close()


def sh(cmd, cwd=None, timeout=3600, env=None):
    e = dict(os.environ)
    if env:
        e.update(env)
    p = subprocess.run(cmd, cwd=cwd, shell=isinstance(cmd, str), capture_output=True, text=True,
                       timeout=timeout, env=e)
    return p.returncode, p.stdout + p.stderr


def strip_lean_comments(text):
    # remove /- ... -/ (nested not handled beyond one level; good enough) and -- comments
    out = []
    depth = 0
    i = 0
    n = len(text)
    while i < n:
        if text.startswith("/-", i):
            depth += 1
            i += 2
        elif text.startswith("-/", i) and depth > 0:
            depth -= 1
            i += 2
        elif depth > 0:
            if text[i] == "\n":
                out.append("\n")
            i += 1
        elif text.startswith("--", i):
            while i < n and text[i] != "\n":
                i += 1
        else:
            out.append(text[i])
            i += 1
    return "".join(out)


def forbidden_words():
    hits = []
    for root, _, files in os.walk(LEAN):
        if ".lake" in root:
            continue
        for fn in files:
            if not fn.endswith(".lean"):
                continue
            p = os.path.join(root, fn)
            if os.sep + "Audit" + os.sep in p:
                continue
            txt = strip_lean_comments(open(p).read())
            # drop string literals
            txt = re.sub(r'"(?:[^"\\]|\\.)*"', '""', txt)
            for ln, line in enumerate(txt.split("\n"), 1):
                if FORBIDDEN.search(line):
                    hits.append("%s:%d: %s" % (os.path.relpath(p, VERIF), ln, line.strip()[:120]))
    return hits


def regenerate_tables():
    with Lock("gen"):
        rc, out = sh([sys.executable, os.path.join(HERE, "extract_tables.py")], timeout=600)
    return rc == 0, out


THEOREM_RE = re.compile(r"^\s*(?:@\[[^\]]*\]\s*)?(?:protected\s+|private\s+)?theorem\s+([^\s:({\[]+)", re.M)
NAMESPACE_RE = re.compile(r"^\s*(namespace|end)\s+(\S+)", re.M)


def theorems_of(path):
    """Fully-qualified names of the theorems stated in a Props file."""
    txt = strip_lean_comments(open(path).read())
    names = []
    stack = []
    for line in txt.split("\n"):
        m = re.match(r"^\s*namespace\s+(\S+)", line)
        if m:
            stack.append(m.group(1))
            continue
        m = re.match(r"^\s*end\s+(\S+)", line)
        if m and stack and stack[-1] == m.group(1):
            stack.pop()
            continue
        m = THEOREM_RE.match(line)
        if m:
            nm = m.group(1)
            if nm.startswith("_root_."):
                names.append(nm[len("_root_."):])
            else:
                names.append(".".join(stack + [nm]))
    return names


def lean_check(prop, clean=False, leanchecker=False):
    """Build Props/<prop> and the driver; audit axioms of every theorem in the file.

    Returns dict(ok, build_log, theorems={name: [axioms]}, failed=[...], forbidden=[...])"""
    res = dict(ok=True, build_log="", theorems={}, failed=[], forbidden=[], build_s=0.0)
    t0 = time.time()
    props_file = os.path.join(LEAN, "DnaModel", "Props", prop + ".lean")
    with Lock("lake"):
        if clean:
            sh("rm -rf .lake/build/lib/lean/DnaModel/Props .lake/build/lib/lean/DnaModel/Proofs", cwd=LEAN)
        rc, out = sh(["lake", "build", "DnaModel.Props." + prop, "driver"], cwd=LEAN, timeout=5400)
        res["build_log"] = out[-20000:]
        if rc != 0:
            res["ok"] = False
            # which declarations failed
            for m in re.finditer(r"error: ([^\n]*)", out):
                res["failed"].append(m.group(1)[:300])
        names = theorems_of(props_file) if os.path.exists(props_file) else []
        if rc == 0:
            audit = os.path.join(LEAN, "DnaModel", "Audit", prop + ".lean")
            os.makedirs(os.path.dirname(audit), exist_ok=True)
            body = "import DnaModel.Props.%s\n" % prop + "".join("#print axioms %s\n" % n for n in names)
            with open(audit, "w") as f:
                f.write(body)
            rc2, out2 = sh(["lake", "env", "lean", audit], cwd=LEAN, timeout=1800)
            if rc2 != 0:
                res["ok"] = False
                res["failed"].append("axiom audit failed: " + out2[-2000:])
            for m in re.finditer(r"^'(.*)' depends on axioms: \[([^\]]*)\]", out2, re.M):
                res["theorems"][m.group(1)] = [a.strip() for a in m.group(2).replace("\n", " ").split(",") if a.strip()]
            for m in re.finditer(r"^'(.*)' does not depend on any axioms", out2, re.M):
                res["theorems"][m.group(1)] = []
            for n in names:
                if n not in res["theorems"]:
                    res["ok"] = False
                    res["failed"].append("theorem %s not found by the audit" % n)
            for n, ax in res["theorems"].items():
                bad = [a for a in ax if a not in ALLOWED_AXIOMS]
                if bad:
                    res["ok"] = False
                    res["failed"].append("theorem %s depends on %s" % (n, bad))
            if leanchecker:
                rc3, out3 = sh(["lake", "env", "leanchecker", "DnaModel.Props." + prop], cwd=LEAN, timeout=5400)
                res["leanchecker"] = (rc3 == 0)
                if rc3 != 0:
                    res["ok"] = False
                    res["failed"].append("leanchecker: " + out3[-1500:])
        else:
            res["theorem_names"] = names
    res["forbidden"] = forbidden_words()
    if res["forbidden"]:
        res["ok"] = False
        res["failed"] += ["forbidden word: " + h for h in res["forbidden"]]
    res["build_s"] = time.time() - t0
    res["names"] = names
    return res


def run_driver(lines, timeout=3600):
    """Pipe request lines to the compiled Lean driver, return the answer lines."""
    if not lines:
        return []
    data = "\n".join(lines) + "\n"
    p = subprocess.run([DRIVER], input=data, capture_output=True, text=True, timeout=timeout)
    if p.returncode != 0:
        raise RuntimeError("driver failed: " + p.stderr[-2000:])
    out = p.stdout.split("\n")
    if out and out[-1] == "":
        out.pop()
    if len(out) != len(lines):
        raise RuntimeError("driver answered %d lines for %d requests" % (len(out), len(lines)))
    return out


class Rng(random.Random):
    pass


def seq_tok(s):
    return s if s else "."


class Corr:
    """Accumulates correspondence cases: request line for the model + the
    implementation's canonical answer; diffs after one driver run."""

    def __init__(self):
        self.lines = []
        self.impl = []
        self.meta = []
        self.nontrivial = set()
        self.hist = {}
        self.disagreements = []
        self.evaluations = 0

    def add(self, line, impl_answer, meta=None, nontrivial=False, branch=None, compare=None):
        self.lines.append(line)
        self.impl.append(impl_answer)
        self.meta.append(meta)
        if compare is not None:
            self.compare = getattr(self, "compare", {})
            self.compare[len(self.lines) - 1] = compare
        if nontrivial:
            self.nontrivial.add(line)
        if branch is not None:
            self.hist[branch] = self.hist.get(branch, 0) + 1

    def run(self):
        answers = run_driver(self.lines)
        self.evaluations = len(self.lines)
        cmps = getattr(self, "compare", {})
        for i, (line, a, b, m) in enumerate(zip(self.lines, answers, self.impl, self.meta)):
            ok = cmps[i](a, b) if i in cmps else (a == b)
            if not ok:
                self.disagreements.append(dict(request=line, model=a, impl=b, meta=m))
        return self.disagreements


def load_known_findings():
    p = os.path.join(VERIF, "known_findings.json")
    if not os.path.exists(p):
        return []
    return json.load(open(p)).get("findings", [])


def write_replay(prop, payload):
    os.makedirs(os.path.join(VERIF, "replays"), exist_ok=True)
    h = hashlib.sha1(json.dumps(payload, sort_keys=True, default=str).encode()).hexdigest()[:10]
    rel = os.path.join("replays", "%s-%s.json" % (prop, h))
    with open(os.path.join(VERIF, rel), "w") as f:
        json.dump(payload, f, indent=1, default=str)
    return rel


def write_evidence(prop, tier, seed, coverage, assumptions, wall_s, violations):
    os.makedirs(os.path.join(VERIF, "evidence"), exist_ok=True)
    ev = dict(property_id=prop, tier=tier, seed=seed, level="proof", coverage=coverage,
              assumptions=assumptions, wall_s=round(wall_s, 2), violations=violations)
    with open(os.path.join(VERIF, "evidence", prop + ".json"), "w") as f:
        json.dump(ev, f, indent=1, default=str)
    return ev


class _Limit(BaseException):
    pass


def _limit_alarm(*a):
    raise _Limit()


def limited(fn, seconds, default=None, stats=None):
    """fn() under a wall-clock limit (SIGALRM): a case on which the *implementation* does not come back in time
    (e.g. an exponential merge of overlapping restrictions at problem construction) is skipped and counted, it never
    blocks a check.  Not re-entrant: do not nest inside another alarm-based guard."""
    import signal
    old = signal.signal(signal.SIGALRM, _limit_alarm)
    signal.alarm(seconds)
    try:
        return fn()
    except _Limit:
        if stats is not None:
            stats["timeouts"] = stats.get("timeouts", 0) + 1
        return default
    finally:
        signal.alarm(0)
        signal.signal(signal.SIGALRM, old)
