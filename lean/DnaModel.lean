-- Root of the `DnaModel` library.
import DnaModel.Gen.Tables
import DnaModel.Model.Seq
import DnaModel.Model.Loc
import DnaModel.Model.Pattern
import DnaModel.Model.Space
import DnaModel.Model.Solver
import DnaModel.Model.TableSpec
import DnaModel.Props.C18
import DnaModel.Props.C19
import DnaModel.Props.C11
import DnaModel.Props.C15
import DnaModel.Props.C01
import DnaModel.Props.C14
import DnaModel.Props.C06
import DnaModel.Props.C02
import DnaModel.Props.C03
import DnaModel.Props.C12
