/-
L4 — built-in specifications: `dnachisel/builtin_specifications/*.py` (the classes that need no
external program), as they are after `initialized_on_problem` (location resolved, references
captured).  `evaluate` mirrors each implementation's algorithm; `localized` mirrors each
`localized`; `restrict` mirrors `restrict_nucleotides`.  Core Lean only.

Scores live in a numeric type `K` (`Float` in the driver, `Rat` in the theorems).
`none` as the result of `evaluate` means "the Python code raises".
-/
import DnaModel.Model.Pattern
import DnaModel.Model.Space
import DnaModel.Model.Solver

namespace Dna

/-- the arithmetic the built-in specifications use -/
class NumK (K : Type) extends Score K where
  ofInt : Int → K
  sub : K → K → K
  div : K → K → K

instance : NumK Float where
  ofInt i := Float.ofInt i
  sub := (· - ·)
  div := (· / ·)

instance : Score Rat := ⟨0, (· + ·), (· * ·), fun a b => decide (a < b), fun a b => decide (a ≤ b), fun a b => a == b⟩
instance : NumK Rat where
  ofInt i := (i : Rat)
  sub := (· - ·)
  div := (· / ·)

namespace NumK
variable {K : Type} [NumK K]
def neg (a : K) : K := NumK.sub (Score.zero : K) a
/-- `max(0, a)` -/
def pos (a : K) : K := if Score.lt (Score.zero : K) a then a else Score.zero
/-- `abs` -/
def abs (a : K) : K := if Score.lt a (Score.zero : K) then neg a else a
def sum (l : List K) : K := l.foldl Score.add Score.zero
end NumK

/-- `start_codon` parameter of EnforceTranslation -/
inductive StartPolicy where
  | none                       -- start_codon=None
  | keep                       -- "keep"
  | codons (cs : List Seq)     -- "ATG" or ["ATG", "GTG"]
deriving Repr, DecidableEq

/-- where AvoidChanges / EnforceChanges apply -/
inductive Scope where
  | loc (l : Loc)
  | indices (l : Loc) (idx : List Int)     -- `l` is (min, max + 1) for AvoidChanges, the full span for EnforceChanges
deriving Repr, DecidableEq

/-- `localization_data` of a localized UniquifyAllKmers: fixed k-mers and changing indices for the
    specification's location and for its reference ("extended") -/
structure KmerData where
  locFixed : List Seq
  locChanging : List Int
  extFixed : List Seq
  extChanging : List Int
deriving Repr, DecidableEq

structure BEval (K : Type) where
  score : K
  locs : Option (List Loc)

inductive BSpec (K : Type) where
  | avoidPattern (pat : Pattern) (loc : Loc)
  | patternOccurence (pat : Pattern) (occ : Int) (loc : Loc)
  | gc (mini maxi : K) (window : Option Nat) (loc : Loc)
  | translation (table : Nat) (start : StartPolicy) (tr : Seq) (loc : Loc)
  | stopCodons (table : Nat) (loc : Loc)
  | avoidChanges (maxEdits : K) (target : Seq) (scope : Scope)
  | enforceChanges (minimum amount : Option K) (amountPercent100 minimumPercent100 : Bool) (reference : Seq) (scope : Scope)
  | enforceSequence (sq : Seq) (loc : Loc)
  | enforceChoice (choices : List Seq) (loc : Loc)
  | terminalGC (mini maxi : K) (window : Nat) (ends : List Loc)
  | lengthBounds (minLen : Int) (maxLen : Option Int)
  | rareCodons (minFreq : K) (freqs : List (Seq × K)) (loc : Loc)
  | cai (logFreq : List (Seq × K)) (logBest : List (Char × K)) (codonAA : List (Seq × Char)) (loc : Loc)
  | kmers (k : Nat) (rc : Bool) (loc ref : Loc) (data : Option KmerData)
  | hairpins (stem window : Nat) (loc : Loc)
  /-- HarmonizeRCA: relative codon adaptiveness in the target / original organism, the original codons and the
      smallest possible discrepancy per codon (both fixed by `initialized_on_problem`) -/
  | rca (rcaT rcaO : List (Seq × K)) (orig : List Seq) (smallest : List K) (loc : Loc)

namespace BSpec
variable {K : Type} [NumK K]

def tableOf (i : Nat) : Option Gen.CodonTable := Gen.codonTables[i]?

/-- `codon_index_to_location` -/
def codonLoc (loc : Loc) (i : Nat) : Loc :=
  if loc.strand ≥ 0 then ⟨loc.start + 3 * i, loc.start + 3 * (i + 1), 1⟩
  else ⟨loc.stop - 3 * (i + 1), loc.stop - 3 * i, -1⟩

/-- `gc_content(sequence, window)` as numerators (`none` when the window is 0) -/
def gcFractions (s : Seq) (window : Option Nat) : List (Nat × Nat) :=
  match window with
  | none => [(gcCount s, s.length)]
  | some w => (gcWindowsCumsum s w).map (fun n => (n, w))

def frac (p : Nat × Nat) : K := NumK.div (NumK.ofInt (p.1 : Int)) (NumK.ofInt (p.2 : Int))

/-- `max(0, mini - gc) + max(0, gc - maxi)` -/
def gcBreach (mini maxi gc : K) : K :=
  Score.add (NumK.pos (NumK.sub mini gc)) (NumK.pos (NumK.sub gc maxi))

/-- intervals `(r[0], r[-1] + 1)` of `group_nearby_indices(indices, max_group_spread=spread)` -/
def intervalsOf (indices : List Int) (spread : Int) : List Loc :=
  (groupNearbyIndices indices none (some spread)).filterMap (fun g =>
    match g.head?, g.getLast? with
    | some a, some b => some ⟨a, b + 1, 1⟩
    | _, _ => none)

/-- (log-frequency of the codon, log-frequency of the best synonym of its amino acid); `none` = KeyError -/
def caiTerm (logFreq : List (Seq × K)) (logBest : List (Char × K)) (codonAA : List (Seq × Char)) (c : Seq) : Option (K × K) :=
  match lookup c logFreq, (lookup c codonAA).bind (fun aa => lookup aa logBest) with
  | some f, some o => some (f, o)
  | _, _ => none

/-- `codons_indices_to_locations` -/
def codonIndicesToLocs (loc : Loc) (indices : List Nat) : List Loc :=
  if loc.strand == -1 then
    let pos := (indices.map (fun (i : Nat) => loc.stop - 3 * (i : Int))).mergeSort (· ≤ ·)
    (groupNearbyIndices pos none (some Gen.codonGroupSpread)).filterMap (fun g =>
      match g.head?, g.getLast? with
      | some a, some b => some ⟨a - 3, b, -1⟩
      | _, _ => none)
  else
    let pos := indices.map (fun (i : Nat) => loc.start + 3 * (i : Int))
    (groupNearbyIndices pos none (some Gen.codonGroupSpread)).filterMap (fun g =>
      match g.head?, g.getLast? with
      | some a, some b => some ⟨a, b + 3, 0⟩
      | _, _ => none)

/-- the sub-sequence a Scope reads (`extract_subsequence`) -/
def scopeExtract (sc : Scope) (s : Seq) : Option Seq :=
  match sc with
  | .loc l => l.extract s
  | .indices _ idx => optAllChars (idx.map (fun i => if i < 0 then none else s[i.toNat]?))
where optAllChars : List (Option Char) → Option Seq
  | [] => some []
  | none :: _ => none
  | some c :: r => (optAllChars r).map (c :: ·)

/-- positions (absolute) of the sub-sequence items selected by `sel` -/
def scopePositions (sc : Scope) (rel : List Nat) : List Int :=
  match sc with
  | .loc l => rel.map (fun (i : Nat) => if l.strand == -1 then l.stop - (i : Int) else (i : Int) + l.start)
  | .indices _ idx => rel.filterMap (fun i => idx[i]?)

def scopeSize (sc : Scope) : Int :=
  match sc with
  | .loc l => l.len
  | .indices _ idx => idx.length

/-- `extract_kmer(i)` of UniquifyAllKmers on the whole sequence; `none` = KeyError in reverse_complement -/
def kmerAt (s : Seq) (rcSeq : Option Seq) (k : Nat) (i : Int) : Seq :=
  let sub := pySlice s i (i + k)
  match rcSeq with
  | none => sub
  | some r =>
    let L : Int := s.length
    let rcv := pySlice r (L - i - k) (L - i)
    if seqLt rcv sub then rcv else sub

/-- first index of `word` as a substring of `text` (`str.index`) -/
def findSub (word : Seq) : Seq → Option Nat
  | [] => if word.isEmpty then some 0 else none
  | c :: cs => if word.isPrefixOf (c :: cs) then some 0 else (findSub word cs).map (· + 1)

/-- group items by key, keys in first-occurrence order (a Python dict of lists) -/
def groupByKey {α : Type} (items : List (Seq × α)) : List (Seq × List α) :=
  items.foldl (fun acc p =>
    if acc.any (fun q => q.1 == p.1) then acc.map (fun q => if q.1 == p.1 then (q.1, q.2 ++ [p.2]) else q)
    else acc ++ [(p.1, [p.2])]) []

/-- the k-mer extractor's reverse-complemented sequence (`none` inside = no reverse complement;
    outer `none` = KeyError) -/
def kmerRc (s : Seq) (rc : Bool) : Option (Option Seq) :=
  if rc then (reverseComplement s).map some else some none

/-- `UniquifyAllKmers.evaluate` (global or local form) -/
def evaluateKmers (k : Nat) (rc : Bool) (loc ref : Loc) (data : Option KmerData) (s : Seq) : Option (BEval K) :=
  match kmerRc s rc with
  | none => none
  | some r =>
    match data with
    | none =>
      let idxs := rangeStep ref.start (ref.stop - k) 1
      let groups := groupByKey (idxs.map (fun i => (kmerAt s r k i, i)))
      let starts : List Int := (groups.filter (fun g => g.2.length > 1)).flatMap (fun g =>
        g.2.filter (fun st => decide (loc.start ≤ st ∧ st < st + k ∧ st + (k : Int) < loc.stop)))
      let sorted := starts.mergeSort (· ≤ ·)
      some ⟨NumK.ofInt (-(sorted.length : Int)), some (sorted.map (fun st => ⟨st, st + k, 0⟩))⟩
    | some d =>
      let varLoc := groupByKey (d.locChanging.map (fun i => (kmerAt s r k i, i)))
      let varExt := groupByKey (d.extChanging.map (fun i => (kmerAt s r k i, i)))
      let dup : List Int := (varLoc.filter (fun g => g.2.length > 1)).flatMap (·.2)
      let locKeys := varLoc.map (·.1)
      let extKeys := varExt.map (·.1)
      let part1 : List Int := [extKeys, d.locFixed, d.extFixed].flatMap (fun c =>
        (varLoc.filter (fun g => c.contains g.1)).flatMap (·.2))
      let part2 : List Int := [locKeys, d.locFixed].flatMap (fun c =>
        (varExt.filter (fun g => c.contains g.1)).flatMap (·.2))
      let all := dup ++ part1 ++ part2
      some ⟨NumK.ofInt (-(all.length : Int)), some (all.map (fun i => ⟨i, i + k, 0⟩))⟩

/-- `AvoidHairpins.evaluate` -/
def evaluateHairpins (stem window : Nat) (loc : Loc) (s : Seq) : Option (BEval K) :=
  match loc.extract s with
  | none => none
  | some sub =>
    match reverseComplement sub with
    | none => none
    | some rev =>
      let hits : List (Int × Int) := (List.range (sub.length - stem)).filterMap (fun (i : Nat) =>
        let word := (sub.drop i).take stem
        let rest := pySlice rev (-((i : Int) + window)) (-((i : Int) + stem))
        (findSub word rest).map (fun idx => ((i : Int), (i : Int) + window - (idx : Int) - 1)))
      let groups := groupNearbySegments hits none (some 10)
      let locs := (groups.filterMap (fun g => match g.head?, g.getLast? with
        | some a, some z => some (⟨a.1, z.2, 0⟩ : Loc)
        | _, _ => none)).mergeSort Loc.le
      some ⟨NumK.ofInt (-(hits.length : Int)), some locs⟩

/-- `evaluate(problem)`: `none` = the implementation raises -/
def evaluate (b : BSpec K) (s : Seq) : Option (BEval K) :=
  match b with
  | avoidPattern pat loc =>
    (pat.findMatches s loc).map (fun ms => ⟨NumK.ofInt (-(ms.length : Int)), some ms⟩)
  | patternOccurence pat occ loc =>
    (pat.findMatches s loc).map (fun ms =>
      ⟨NumK.neg (NumK.abs (NumK.ofInt ((ms.length : Int) - occ))), some [loc]⟩)
  | gc mini maxi window loc =>
    match window with
    | some 0 => none
    | _ =>
      match loc.extract s with
      | none => none
      | some sub =>
        if window.isNone && sub.length == 0 then none else   -- division by zero
        let breaches : List K := (gcFractions sub window).map (fun p => gcBreach mini maxi (frac p))
        let starts : List Int := (List.range breaches.length).filterMap (fun (i : Nat) =>
          match breaches[i]? with
          | some v => if Score.lt (Score.zero : K) v then some (loc.start + (i : Int)) else none
          | none => none)
        let locs : List Loc :=
          match starts, window with
          | [], _ => []
          | [st], some w => [⟨st, st + w, 0⟩]
          | [_], none => [⟨loc.start, loc.stop, 0⟩]
          | many, some w =>
            (groupNearbySegments (many.map (fun st => (st, st + (w : Int)))) none (some (max 1 Gen.gcLocationsSpan))).filterMap
              (fun g => match g.head?, g.getLast? with
                | some a, some z => some ⟨a.1, z.2, 0⟩
                | _, _ => none)
          | _, none => []
        some ⟨NumK.neg (NumK.sum breaches), some locs⟩
  | translation tbl start tr loc =>
    match tableOf tbl, loc.extract s with
    | some t, some sub =>
      match translate t (start != .none) sub with
      | none => none
      | some got =>
        if got.length > tr.length then none else     -- IndexError on self.translation[index]
        let errs := (List.range got.length).filter (fun i => got[i]? != tr[i]?)
        some ⟨NumK.ofInt (-(errs.length : Int)), some (errs.map (codonLoc loc))⟩
    | _, _ => none
  | stopCodons tbl loc =>
    match tableOf tbl, loc.extract s with
    | some t, some sub =>
      match translate t false sub with
      | none => none
      | some got =>
        let errs := (List.range got.length).filter (fun i => got[i]? == some '*')
        some ⟨NumK.ofInt (-(errs.length : Int)), some (errs.map (codonLoc loc))⟩
    | _, _ => none
  | avoidChanges maxEdits target scope =>
    match scopeExtract scope s with
    | none => none
    | some sub =>
      if sub.length != target.length then none else
      let d := diffArray sub target
      let rel := (List.range d.length).filter (fun i => d[i]? == some true)
      let positions := scopePositions scope rel
      some ⟨NumK.sub maxEdits (NumK.ofInt (rel.length : Int)), some (intervalsOf positions Gen.avoidChangesIntervalLength)⟩
  | enforceChanges minimum amount _ _ reference scope =>
    match scopeExtract scope s with
    | none => none
    | some sub =>
      if sub.length != reference.length then none else
      let d := diffArray sub reference
      let eqRel := (List.range d.length).filter (fun i => d[i]? == some false)
      let equalities := scopePositions scope eqRel
      let nDiff : Int := scopeSize scope - eqRel.length
      let theLoc : Loc := match scope with | .loc l => l | .indices l _ => l
      match minimum with
      | some m => some ⟨NumK.sub (NumK.ofInt nDiff) m, some [theLoc]⟩
      | none =>
        match amount with
        | none => none
        | some a =>
          let sc := NumK.neg (NumK.abs (NumK.sub (NumK.ofInt nDiff) a))
          let intervals :=
            if Score.le (NumK.ofInt nDiff) a then intervalsOf equalities Gen.enforceChangesIntervalLength
            else intervalsOf (theLoc.indices.filter (fun i => !equalities.contains i)) Gen.enforceChangesIntervalLength
          some ⟨sc, some intervals⟩
  | enforceSequence sq loc =>
    match loc.extract s with
    | none => none
    | some sub =>
      if sub.length > sq.length then none else
      let checks := (List.range sub.length).map (fun i =>
        match sub[i]?, sq[i]? with
        | some n, some letter => (lookup letter Gen.iupac).map (fun set => !set.contains n)
        | _, _ => none)
      if checks.any (·.isNone) then none else
      let rel := (List.range sub.length).filter (fun i => checks[i]? == some (some true))
      let positions : List Int := rel.map (fun (i : Nat) => if loc.strand == -1 then loc.stop - 1 - (i : Int) else (i : Int) + loc.start)
      some ⟨NumK.ofInt (-(rel.length : Int)), some (intervalsOf positions Gen.enforceSequenceIntervalLength)⟩
  | enforceChoice choices loc =>
    (loc.extract s).map (fun sub =>
      if choices.contains sub then ⟨NumK.ofInt 0, some []⟩ else ⟨NumK.ofInt (-1), some [loc]⟩)
  | terminalGC mini maxi _ ends =>
    let evals : List (Option K) := ends.map (fun l =>
      match l.extract s with
      | some sub => if sub.length == 0 then none else
          some (NumK.neg (gcBreach mini maxi (frac (gcCount sub, sub.length))))
      | none => none)
    if evals.any (·.isNone) then none else
    let scores := evals.filterMap id
    let locs := (List.range ends.length).filterMap (fun i =>
      match scores[i]?, ends[i]? with
      | some sc, some l => if Score.lt sc (Score.zero : K) then some l else none
      | _, _ => none)
    some ⟨NumK.sum scores, some locs⟩
  | lengthBounds minLen maxLen =>
    let L : Int := s.length
    let ok := match maxLen with | none => decide (L ≥ minLen) | some m => decide (minLen ≤ L ∧ L ≤ m)
    some ⟨NumK.ofInt (if ok then 0 else -1), none⟩
  | rareCodons minFreq freqs loc =>
    match loc.extract s with
    | none => none
    | some sub =>
      if sub.length % 3 != 0 then none else
      let codons := chunk3 sub
      let rare := (List.range codons.length).filter (fun i =>
        match codons[i]? with
        | some c => (match lookup c freqs with | some f => Score.lt f minFreq | none => false)
        | none => false)
      let locs := codonIndicesToLocs loc rare
      let total : K := NumK.sum (rare.filterMap (fun i =>
        match codons[i]? with
        | some c => (lookup c freqs).map (fun f => NumK.sub f minFreq)
        | none => none))
      -- Python's `sum` starts from the int 0; freqs of unknown codons raise KeyError
      if rare.any (fun i => match codons[i]? with | some c => (lookup c freqs).isNone | none => true) then none else
      some ⟨if locs.isEmpty then NumK.ofInt 0 else total, some locs⟩
  | cai logFreq logBest codonAA loc =>
    match loc.extract s with
    | none => none
    | some sub =>
      if sub.length % 3 != 0 then none else
      let codons := chunk3 sub
      let terms : List (Option (K × K)) := codons.map (caiTerm logFreq logBest codonAA)
      if terms.any (·.isNone) then none else
      let ts := terms.filterMap id
      match ts with
      | [(f, o)] =>
        some ⟨NumK.sub f o, some (if Score.eq f o then [] else [loc])⟩
      | _ =>
        let nonopt : List K := ts.map (fun p => NumK.sub p.2 p.1)
        let idx := (List.range nonopt.length).filter (fun i =>
          match nonopt[i]? with | some v => !Score.eq v (Score.zero : K) | none => false)
        some ⟨NumK.neg (NumK.sum nonopt), some (codonIndicesToLocs loc idx)⟩
  | kmers k rc loc ref data => evaluateKmers k rc loc ref data s
  | hairpins stem window loc => evaluateHairpins stem window loc s
  | rca rcaT rcaO orig smallest loc =>
    match loc.extract s with
    | none => none
    | some sub =>
      if sub.length % 3 != 0 then none else
      let codons := chunk3 sub
      match codons with
      | [c] =>
        -- a single codon is compared with the *first* original codon
        match lookup c rcaT, orig.head?.bind (fun o => lookup o rcaO) with
        | some a, some b =>
          let score : K := NumK.neg (NumK.abs (NumK.sub a b))
          some ⟨score, some (if Score.eq score (Score.zero : K) then [] else [loc])⟩
        | _, _ => none
      | _ =>
        let ro : List (Option K) := orig.map (fun o => lookup o rcaO)
        let rt : List (Option K) := codons.map (fun c => lookup c rcaT)
        if ro.any (·.isNone) || rt.any (·.isNone) then none else
        -- numpy arrays of different lengths do not broadcast (unless one has a single element: not modelled)
        if orig.length != codons.length || smallest.length != codons.length then none else
        let disc : List K := List.zipWith (fun a b => NumK.abs (NumK.sub a b)) (ro.filterMap id) (rt.filterMap id)
        let nonopt : List K := List.zipWith (fun m d => NumK.sub m d) smallest disc
        let idx := (List.range nonopt.length).filter (fun i =>
          match nonopt[i]? with | some v => !Score.eq v (Score.zero : K) | none => false)
        some ⟨NumK.neg (NumK.sum disc), some (codonIndicesToLocs loc idx)⟩

/-- the codon-aligned sub-location of `CodonSpecification.localized` and the codon range -/
def codonWindow (self overlap : Loc) : Loc × Nat × Nat :=
  if self.strand != -1 then
    let sc := ((overlap.start - self.start) / 3).toNat
    let ec := ((overlap.stop - self.start - 1) / 3).toNat + 1
    (⟨self.start + 3 * sc, min self.stop (self.start + 3 * ec), self.strand⟩, sc, ec)
  else
    let sc := ((self.stop - overlap.stop) / 3).toNat
    let ec := ((self.stop - overlap.start - 1) / 3).toNat + 1
    (⟨max self.start (self.stop - 3 * ec), self.stop - 3 * sc, self.strand⟩, sc, ec)

inductive Localized (K : Type) where
  | none                    -- returns None
  | same                    -- returns self
  | new (b : BSpec K)       -- a new specification
  | typeError               -- the keyword `with_righthand` is not accepted

/-- `localized(location, problem, with_righthand)`; `rh = none` means the keyword is not passed -/
def localized (b : BSpec K) (location : Loc) (rh : Option Bool) : Localized K :=
  let right := rh.getD true
  match b with
  | avoidPattern pat loc =>
    match loc.overlap location with
    | none => .none
    | some _ =>
      let ext := location.extended ((pat.size : Int) - 1) 0 Option.none true right
      match loc.overlap ext with
      | some nl => .new (avoidPattern pat nl)
      | none => .new (avoidPattern pat loc)   -- unreachable: `copy_with_changes(location=None)`
  | patternOccurence _ _ loc =>
    if rh.isSome then .typeError else
    match loc.overlap location with
    | none => .none
    | some _ => .same
  | gc mini maxi window loc =>
    match window with
    | none => .same
    | some w =>
      match loc.overlap location with
      | none => .none
      | some _ =>
        let ext := location.extended ((w : Int) - 1) 0 Option.none true right
        match loc.overlap ext with
        | some nl => .new (gc mini maxi window nl)
        | none => .none
  | translation tbl start tr loc =>
    match loc.overlap location with
    | none => .none
    | some ov =>
      let (nl, sc, ec) := codonWindow loc ov
      let atStart := if loc.strand == -1 then decide (nl.stop ≥ loc.stop) else decide (nl.start ≤ loc.start)
      .new (translation tbl (if atStart then start else .none) ((tr.drop sc).take (ec - sc)) nl)
  | stopCodons tbl loc =>
    match loc.overlap location with
    | none => .none
    | some ov => .new (stopCodons tbl (codonWindow loc ov).1)
  | avoidChanges maxEdits target scope =>
    if !Score.eq maxEdits (Score.zero : K) then .same else
    match scope with
    | .indices l idx =>
      let pos := (List.range idx.length).filter (fun i =>
        match idx[i]? with | some v => decide (location.start ≤ v ∧ v < location.stop) | none => false)
      .new (avoidChanges maxEdits (pos.filterMap (fun i => target[i]?)) (.indices l (pos.filterMap (fun i => idx[i]?))))
    | .loc l =>
      match l.overlap location with
      | none => .none
      | some nl =>
        let rel := nl.shift (-l.start)
        .new (avoidChanges maxEdits (pySlice target rel.start rel.stop) (.loc nl))
  | enforceChanges minimum amount ap100 mp100 reference scope =>
    if !ap100 then .same else
    match scope with
    | .indices l idx =>
      let pos := (List.range idx.length).filter (fun i =>
        match idx[i]? with | some v => decide (location.start ≤ v ∧ v < location.stop) | none => false)
      let n : K := NumK.ofInt (pos.length : Int)
      .new (enforceChanges (minimum.map (fun _ => n)) (amount.map (fun _ => n)) ap100 mp100
        (pos.filterMap (fun i => reference[i]?)) (.indices l (pos.filterMap (fun i => idx[i]?))))
    | .loc l =>
      match l.overlap location with
      | none => .none
      | some nl =>
        let rel := nl.shift (-l.start)
        let n : K := NumK.ofInt location.len
        .new (enforceChanges (minimum.map (fun _ => n)) (amount.map (fun _ => n)) ap100 mp100
          (pySlice reference rel.start rel.stop) (.loc nl))
  | enforceSequence sq loc =>
    if rh.isSome then .typeError else
    match loc.overlap location with
    | none => .none
    | some nl =>
      let (a, z) := if loc.strand == -1 then (loc.stop - nl.stop, loc.stop - nl.start)
                    else (nl.start - loc.start, nl.stop - loc.start)
      .new (enforceSequence (pySlice sq a z) nl)
  | enforceChoice _ _ => .same
  | terminalGC mini maxi w ends =>
    if rh.isSome then .typeError else
    let kept := ends.filter (fun e => (location.overlap e).isSome)
    if kept.length == 2 then .same else .new (terminalGC mini maxi w kept)
  | lengthBounds _ _ => if rh.isSome then .typeError else .same
  | rareCodons minFreq freqs loc =>
    match loc.overlap location with
    | none => .none
    | some ov => .new (rareCodons minFreq freqs (codonWindow loc ov).1)
  | cai lf lb ca loc =>
    match loc.overlap location with
    | none => .none
    | some ov => .new (cai lf lb ca (codonWindow loc ov).1)
  | kmers _ _ _ _ _ => .same      -- needs the problem's sequence: see `localizedKmers`
  | rca rt ro orig smallest loc =>
    -- `localized_on_window` of the base class only relocates: the per-codon data stay those of the whole region
    match loc.overlap location with
    | none => .none
    | some ov => .new (rca rt ro orig smallest (codonWindow loc ov).1)
  | hairpins stem window loc =>
    match loc.overlap location with
    | none => .none
    | some nl =>
      let st := max loc.start (nl.start - window)
      let en := if right then min loc.stop (nl.stop + window) else nl.stop
      .new (hairpins stem window ⟨st, en, nl.strand⟩)

/-- `sorted(l.indices)[:m]` for a possibly negative `m` -/
def indicesUpTo (l : Loc) (m : Int) : List Int := pySliceTo (l.indices.mergeSort (· ≤ ·)) m

/-- `UniquifyAllKmers.localized(location, problem, with_righthand)` (uses the problem's sequence);
    `none` = KeyError -/
def localizedKmers (k : Nat) (rc : Bool) (loc ref : Loc) (location : Loc) (rh : Option Bool) (s : Seq) :
    Option (Localized K) :=
  match location.overlap ref with
  | none => some .none
  | some _ =>
    match kmerRc s rc with
    | none => none
    | some r =>
      let right := rh.getD true
      let reference := location.extended ((k : Int) - 1) 0 Option.none true right
      match reference.overlap ref with
      | none => none      -- `None.indices`: AttributeError
      | some zone =>
        let changing := indicesUpTo zone (-(k : Int) + 1)
        let part (l : Loc) : List Seq × List Int :=
          let kidx := dedup (indicesUpTo l (-(k : Int)))
          let fixedIdx := kidx.filter (fun i => !changing.contains i)
          (dedup (fixedIdx.map (fun i => kmerAt s r k i)), kidx.filter (fun i => changing.contains i))
        let pl := part loc
        let pe := part ref
        some (.new (kmers k rc zone ref (some ⟨pl.1, pl.2, pe.1, pe.2.filter (fun i => !pl.2.contains i)⟩)))

/-- `restrict_nucleotides(sequence)`; `none` = raises -/
def restrict (b : BSpec K) (s : Seq) : Option (List Space.Restriction) :=
  match b with
  | translation tbl start tr loc =>
    match tableOf tbl with
    | none => none
    | some t =>
      match tr with
      | [] => none                  -- self.translation[0] raises IndexError
      | aa0 :: _ =>
        let firstLoc := codonLoc loc 0
        match firstLoc.extract s with
        | none => none
        | some firstCodon =>
          let firstChoices : Option (List Seq) := match start with
            | .none => lookup [aa0] t.back
            | .keep => some [firstCodon]
            | .codons cs => some cs
          let rest : List (Option (Loc × List Seq)) := (List.range tr.length).tail.map (fun i =>
            match tr[i]? with
            | some aa => (lookup [aa] t.back).map (fun cs => (codonLoc loc i, cs))
            | none => none)
          match firstChoices with
          | none => none
          | some fc =>
            if rest.any (·.isNone) then none else
            let all := (firstLoc, fc) :: rest.filterMap id
            let std : List (Option Space.Restriction) := all.map (fun p =>
              let vs : Option (List Seq) := if p.1.strand == -1 then Space.optAll (p.2.map reverseComplement) else some p.2
              vs.map (fun v => ⟨p.1.start.toNat, p.1.stop.toNat, v⟩))
            if std.any (·.isNone) then none else
            some ((std.filterMap id).mergeSort (fun a b => a.start < b.start || (a.start == b.start && a.stop ≤ b.stop)))
  | avoidChanges maxEdits _ scope =>
    if !Score.eq maxEdits (Score.zero : K) then some [] else
    match scope with
    | .indices l idx =>
      some ((idx.filter (fun i => decide (l.start ≤ i ∧ i < l.stop))).map (fun i =>
        ⟨i.toNat, i.toNat + 1, [pySlice s i (i + 1)]⟩))
    | .loc l => some [⟨l.start.toNat, l.stop.toNat, [pySlice s l.start l.stop]⟩]
  | enforceChanges _ _ _ mp100 _ scope =>
    if !mp100 then some [] else
    let positions : List Int := match scope with
      | .indices l idx => idx.filter (fun i => decide (l.start ≤ i ∧ i < l.stop))
      | .loc l => (List.range (l.stop - l.start).toNat).map (fun (k : Nat) => l.start + (k : Int))
    Space.optAll (positions.map (fun i =>
      match pySlice s i (i + 1) with
      | [c] => (lookup c Gen.otherBases).map (fun os => (⟨i.toNat, i.toNat + 1, os.map (fun x => [x])⟩ : Space.Restriction))
      | _ => none))
  | enforceSequence sq loc =>
    Space.optAll ((List.range (loc.stop - loc.start).toNat).map (fun (k : Nat) =>
      let i : Int := loc.start + (k : Int)
      if loc.strand == -1 then
        match sq[(loc.stop - i - 1).toNat]? with
        | some letter => (lookup letter Gen.iupac).map (fun set =>
            (⟨i.toNat, i.toNat + 1, set.map (fun n => [compChar n])⟩ : Space.Restriction))
        | none => none
      else
        match sq[(i - loc.start).toNat]? with
        | some letter => (lookup letter Gen.iupac).map (fun set => (⟨i.toNat, i.toNat + 1, set.map (fun n => [n])⟩ : Space.Restriction))
        | none => none))
  | enforceChoice choices loc =>
    -- `set(self.choices)`
    if loc.strand != -1 then some [⟨loc.start.toNat, loc.stop.toNat, dedup choices⟩]
    else (Space.optAll (choices.map reverseComplement)).map (fun cs => [⟨loc.start.toNat, loc.stop.toNat, dedup cs⟩])
  | rareCodons minFreq freqs loc =>
    let nonrare := sortSeqs ((freqs.filter (fun p => !Score.lt p.2 minFreq)).map (·.1))
    let nonrare' : Option (List Seq) := if loc.strand == -1 then (Space.optAll (nonrare.map reverseComplement)).map sortSeqs else some nonrare
    nonrare'.map (fun nr => (rangeStep loc.start loc.stop 3).map (fun i => ⟨i.toNat, i.toNat + 3, nr⟩))
  | _ => some []

end BSpec
end Dna
