/-
Circular problems (C13): `CircularViewProblem._replace_sequence`, the three-copy view, and
`CircularDnaOptimizationProblem.resolve_constraints` with its (circular) final check.
Built on Model/Solver.lean; core Lean only.
-/
import DnaModel.Model.Solver

namespace Dna.Circular
open Dna Solver

/-- `3 * sequence` -/
def triple (s : Seq) : Seq := s ++ s ++ s

/-- `return_the_loony(a, b, c)`: the element unlike the other two -/
def loony (a b c : Char) : Char := if a == b then c else if a == c then b else a

/-- the sequence of length `L` that `_replace_sequence` extracts from a three-copy sequence -/
def consensus (t : Seq) : Seq :=
  let L := t.length / 3
  (List.range L).map fun i => loony (t.getD i 'N') (t.getD (i + L) 'N') (t.getD (i + 2 * L) 'N')

/-- `CircularViewProblem._replace_sequence(new_sequence)`: an edit made in one copy is mirrored in the other two -/
def majority (t : Seq) : Seq := triple (consensus t)

/-- `problem.sequence[L : 2 * L]` -/
def middle (t : Seq) (L : Nat) : Seq := (t.drop L).take L

/-- what `_circularized_view(with_constraints=True)` builds, apart from the sequence: the circularized and
    initialised constraint objects, those of them that overlap the central copy (in order), and their
    nucleotide restrictions -/
structure View (σ : Type) where
  constraints : List σ
  central : List σ
  restrs : List Space.Restriction

variable {σ K : Type} [BEq σ] [Score K]

/-- the `k`-th call of `_circularized_view` on the current sequence `s`: the view problem's frame and its
    (constrained) three-copy sequence -/
def buildView (views : Nat → Option (View σ)) (k : Nat) (s : Seq) (st : St σ K) :
    Except Err (View σ × Frame σ × Seq) × St σ K :=
  match views k with
  | none => (.error (.tableMiss "view"), st)
  | some v =>
    match Space.fromRestrictions (triple s) v.restrs with
    | .error e => (.error (Err.ofSpace e), st)
    | .ok sp =>
      match sp.constrainSequence (triple s) st.tape with
      | .error e => (.error (Err.ofSpace e), st)
      | .ok (t, tape') =>
        (.ok (v, { constraints := v.constraints, objectives := [], space := sp, seqBefore := triple s }, t),
         { st with tape := tape' })

/-- evaluate every constraint in order (a list comprehension: no short-circuit) -/
def evalList (ops : SpecOps σ K) (s : Seq) : List σ → St σ K → Except Err (List (Eval K)) × St σ K
  | [], st => (.ok [], st)
  | c :: cs, st =>
    match evalAt ops c s st with
    | (.error e, st) => (.error e, st)
    | (.ok e, st) =>
      match evalList ops s cs st with
      | (.error e', st) => (.error e', st)
      | (.ok r, st) => (.ok (e :: r), st)

/-- `perform_final_constraints_check` of the circular problem: `all_constraints_pass(autopass=False)` builds a
    fresh view of the current sequence and evaluates all its constraints; on failure the text summary
    builds another view and evaluates them again before `NoSolutionError` is raised -/
def circFinalCheck (ops : SpecOps σ K) (views : Nat → Option (View σ)) (k : Nat) (s : Seq) (st : St σ K) :
    Except Err Unit × St σ K :=
  match buildView views k s st with
  | (.error e, st) => (.error e, st)
  | (.ok (v, _, t), st) =>
    match evalList ops t v.constraints st with
    | (.error e, st) => (.error e, st)
    | (.ok evs, st) =>
      if evs.all (·.passes) then (.ok (), st)
      else
        match buildView views (k + 1) s st with
        | (.error e, st) => (.error e, st)
        | (.ok (v2, _, t2), st) =>
          match evalList ops t2 v2.constraints st with
          | (.error e, st) => (.error e, st)
          | (.ok _, st) => (.error (.noSolution "final check: some constraints appear unsolved (circular)"), st)

/-- `CircularDnaOptimizationProblem.resolve_constraints()` -/
def circResolve (ops : SpecOps σ K) (sett : Settings) (views : Nat → Option (View σ)) (s : Seq) (st : St σ K) :
    Except Err Unit × Seq × St σ K :=
  match buildView views 0 s st with
  | (.error e, st) => (.error e, s, st)
  | (.ok (v, F, t), st) =>
    match resolveEach ops sett majority F v.central t st with
    | (.error e, _, st) => (.error e, s, st)
    | (.ok (), t', st) =>
      let s' := middle t' s.length
      let st := logSeq s' st
      match circFinalCheck ops views 1 s' st with
      | (r, st) => (r, s', st)

end Dna.Circular
