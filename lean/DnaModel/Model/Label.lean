/-
Genbank label grammar (C16): `Specification.from_label`, `list_from_label`,
`_format_string_value`, `find_specification_label_in_feature`, and the collection loop of
`DnaOptimizationProblem.from_record`, over `List Char`.  Core Lean only.

Scope of the model: ASCII labels without line breaks (anything else answers `outOfModel`;
Python's `str.strip`, `\S`, `int()` and `float()` have Unicode cases that are not modelled).
-/
namespace Dna.Label

abbrev Str := List Char

/-- ASCII characters for which `str.isspace()` holds (also the ASCII part of regex `\s`) -/
def isSpace (c : Char) : Bool :=
  c == ' ' || c == '\t' || c == '\n' || c == '\r' || c == '\x0b' || c == '\x0c' ||
  c == '\x1c' || c == '\x1d' || c == '\x1e' || c == '\x1f'

def lstrip (s : Str) : Str := s.dropWhile isSpace
def rstrip (s : Str) : Str := (s.reverse.dropWhile isSpace).reverse
/-- `s.strip()` -/
def strip (s : Str) : Str := rstrip (lstrip s)

def consHead (c : Char) : List Str → List Str
  | [] => [[c]]
  | p :: ps => (c :: p) :: ps

/-- `s.split(sep)` for a one-character separator -/
def splitChar (sep : Char) : Str → List Str
  | [] => [[]]
  | c :: cs => if c == sep then [] :: splitChar sep cs else consHead c (splitChar sep cs)

/-- `s.split(", ")` -/
def splitCS : Str → List Str
  | [] => [[]]
  | [c] => [[c]]
  | c :: d :: cs => if c == ',' && d == ' ' then [] :: splitCS cs else consHead c (splitCS (d :: cs))

/-! ### values: `_format_string_value` -/

inductive Atom where
  | int (n : Int)
  | float (txt : Str)     -- the text Python's `float()` accepted (its numeric value is not modelled)
  | str (s : Str)
deriving Repr, DecidableEq

inductive Val where
  | atom (a : Atom)
  | list (as : List Atom)
deriving Repr, DecidableEq

def digitVal (c : Char) : Nat := c.toNat - '0'.toNat

/-- a Python *digitpart*: `digit (["_"] digit)*`, consumed to the end of the string; value accumulated in `acc` -/
def digitPart (acc : Nat) (prevDigit : Bool) : Str → Option Nat
  | [] => if prevDigit then some acc else none
  | c :: cs =>
    if c.isDigit then digitPart (acc * 10 + digitVal c) true cs
    else if c == '_' && prevDigit then
      match cs with
      | d :: _ => if d.isDigit then digitPart acc false cs else none
      | [] => none
    else none

/-- `int(s)` for ASCII `s`: `None` models `ValueError` -/
def pyInt? (s : Str) : Option Int :=
  match strip s with
  | '+' :: r => (digitPart 0 false r).map Int.ofNat
  | '-' :: r => (digitPart 0 false r).map (fun n => - Int.ofNat n)
  | r => (digitPart 0 false r).map Int.ofNat

/-- consume a maximal digitpart at the head; `none` if the head is not a digit -/
def dropDigitPart : Str → Option Str
  | [] => none
  | c :: cs => if c.isDigit then some (go cs) else none
where
  go : Str → Str
    | [] => []
    | c :: cs =>
      if c.isDigit then go cs
      else if c == '_' then
        match cs with
        | d :: _ => if d.isDigit then go cs else c :: cs
        | [] => c :: cs
      else c :: cs

def lower (s : Str) : Str := s.map Char.toLower

/-- optional exponent, then end of string -/
def expThenEnd (s : Str) : Bool :=
  match s with
  | [] => true
  | e :: r =>
    if e == 'e' || e == 'E' then
      let r := match r with
        | '+' :: r' => r'
        | '-' :: r' => r'
        | _ => r
      match dropDigitPart r with
      | some [] => true
      | _ => false
    else false

def dropSign : Str → Str
  | '+' :: r => r
  | '-' :: r => r
  | t => t

def isInfNan (t : Str) : Bool :=
  let l := lower t
  l == ['i', 'n', 'f'] || l == ['i', 'n', 'f', 'i', 'n', 'i', 't', 'y'] || l == ['n', 'a', 'n']

/-- `digitpart [. [digitpart]] [exponent] | . digitpart [exponent]` to the end of the string -/
def floatBody (t : Str) : Bool :=
  match t with
  | '.' :: r =>
    match dropDigitPart r with
    | some rest => expThenEnd rest
    | none => false
  | _ =>
    match dropDigitPart t with
    | none => false
    | some ('.' :: r) =>
      match dropDigitPart r with
      | some rest => expThenEnd rest
      | none => expThenEnd r
    | some rest => expThenEnd rest

/-- does `float(s)` succeed (ASCII `s`)? -/
def pyFloatOk (s : Str) : Bool :=
  let t := dropSign (strip s)
  if isInfNan t then true else floatBody t

/-- content of `re.match(r"'(.*)'", v)` (no line breaks in scope): between the first and the last quote -/
def quoted? (v : Str) : Option Str :=
  match v with
  | '\'' :: r =>
    let back := r.reverse.dropWhile (· != '\'')
    match back with
    | _ :: inner => some inner.reverse
    | [] => none
  | _ => none

def formatAtom (v : Str) : Atom :=
  match quoted? v with
  | some s => .str s
  | none =>
    match pyInt? v with
    | some n => .int n
    | none => if pyFloatOk v then .float v else .str v

/-- the value of a keyword parameter: `a|b` lists are split first -/
def formatKwValue (v : Str) : Val :=
  if v.contains '|' then .list ((splitChar '|' v).map formatAtom) else .atom (formatAtom v)

/-! ### `from_label` -/

inductive Role where
  | constraint
  | objective
deriving Repr, DecidableEq

inductive PErr where
  | valueError       -- no specification recognised / `key, value = arg.split(...)` with several separators
  | typeError        -- unknown specification name
  | outOfModel
deriving Repr, DecidableEq

inductive Arg where
  | pos (a : Atom)
  | kw (k : Str) (v : Val)
deriving Repr, DecidableEq

def parseKw (sep : Char) (arg : Str) : Except PErr (Option Arg) :=
  match splitChar sep arg with
  | [k, v] => .ok (some (.kw k (formatKwValue v)))
  | _ => .error .valueError

def parseArg (arg : Str) : Except PErr (Option Arg) :=
  if arg.isEmpty then .ok none
  else if arg.contains ':' then parseKw ':' arg
  else if arg.contains '=' then parseKw '=' arg
  else .ok (some (.pos (formatAtom arg)))

def parseArgs : List Str → Except PErr (List Arg)
  | [] => .ok []
  | a :: as => do
    let r ← parseArg a
    let rs ← parseArgs as
    pure (match r with | some x => x :: rs | none => rs)

/-- index of the last `(` of `run` -/
def lastParen (run : Str) : Option Nat :=
  let r := run.reverse.dropWhile (· != '(')
  match r with
  | [] => none
  | _ :: before => some before.length

structure Lexed where
  role : Role
  name : Str
  params : Str
deriving Repr, DecidableEq

/-- `label.strip()`, default `()`, and the regular expression `([@~])(\S+)(\(.*\))` -/
def lex (label : Str) : Except PErr Lexed :=
  if label.any (fun c => c == '\n' || c.toNat ≥ 128) then .error .outOfModel else
  let l := strip label
  let l := if l.getLast? == some ')' then l else l ++ ['(', ')']
  match l with
  | r :: rest =>
    if r == '@' || r == '~' then
      let run := rest.takeWhile (fun c => !isSpace c)
      match lastParen run with
      | none => .error .valueError
      | some i =>
        if i == 0 then .error .valueError
        else
          let group3 := rest.drop i
          .ok ⟨if r == '@' then .constraint else .objective, rest.take i, (group3.drop 1).dropLast⟩
    else .error .valueError
  | [] => .error .valueError

structure Parsed where
  role : Role
  cls : String
  args : List Atom
  /-- the keyword dictionary without the injected `location`, in insertion order -/
  kwargs : List (Str × Val)
deriving Repr, DecidableEq

/-- `kwargs[key] = value` -/
def dictSet (d : List (Str × Val)) (k : Str) (v : Val) : List (Str × Val) :=
  if d.any (·.1 == k) then d.map (fun e => if e.1 == k then (k, v) else e) else d ++ [(k, v)]

def splitArgs : List Arg → List Atom × List (Str × Val) → List Atom × List (Str × Val)
  | [], acc => acc
  | .pos a :: r, (ps, ks) => splitArgs r (ps ++ [a], ks)
  | .kw k v :: r, (ps, ks) => splitArgs r (ps, dictSet ks k v)

def lookupName (registry : List (String × String)) (name : Str) : Option String :=
  (registry.find? (fun e => e.1.toList == name)).map (·.2)

/-- `Specification.from_label(label, location)` up to the constructor call: which class is called with which
    positional and keyword arguments (the `location` keyword is always the feature's location) -/
def fromLabel (registry : List (String × String)) (label : Str) : Except PErr Parsed := do
  let lx ← lex label
  match lookupName registry lx.name with
  | none => .error .typeError
  | some cls =>
    let args ← parseArgs (splitCS lx.params)
    let (ps, ks) := splitArgs args ([], [])
    pure ⟨lx.role, cls, ps, ks.filter (fun e => e.1 != "location".toList)⟩

/-- `Specification.list_from_label`: sub-labels separated by `&` -/
def listFromLabel (registry : List (String × String)) (label : Str) : Except PErr (List Parsed) :=
  (splitChar '&' label).mapM (fromLabel registry)

/-! ### records -/

structure Feature where
  type : String
  label : Option Str
  note : Option Str
  start : Int
  stop : Int
  strand : Int
deriving Repr, DecidableEq

/-- a qualifier value that starts with `@` or `~` -/
def specLabel? (v : Option Str) : Option Str :=
  match v with
  | some (c :: r) => if c == '@' || c == '~' then some (c :: r) else none
  | _ => none

/-- `find_specification_label_in_feature`: the `label` qualifier first, then `note` -/
def findLabel (f : Feature) : Option Str :=
  match specLabel? f.label with
  | some l => some l
  | none => specLabel? f.note

structure Located where
  spec : Parsed
  start : Int
  stop : Int
  strand : Int
deriving Repr, DecidableEq

/-- the specification-collecting loop of `from_record`: (constraints, objectives) in feature order -/
def fromFeatures (registry : List (String × String)) :
    List Feature → Except PErr (List Located × List Located)
  | [] => .ok ([], [])
  | f :: fs =>
    if f.type != "misc_feature" then fromFeatures registry fs else
    match findLabel f with
    | none => fromFeatures registry fs
    | some l => do
      let specs ← listFromLabel registry l
      let (cs, os) ← fromFeatures registry fs
      let here := specs.map (fun p => (⟨p, f.start, f.stop, f.strand⟩ : Located))
      pure (here.filter (·.spec.role == .constraint) ++ cs, here.filter (·.spec.role == .objective) ++ os)

end Dna.Label
