/-
L1 — `dnachisel/Location.py`.  Core Lean only.
-/
import DnaModel.Model.Seq

namespace Dna

structure Loc where
  start : Int
  stop : Int      -- Python attribute `end`
  strand : Int
deriving DecidableEq, Repr, Inhabited

namespace Loc

/-- `Location.overlap_region` -/
def overlap (self other : Loc) : Option Loc :=
  let left := if other.start < self.start then other else self
  let right := if other.start < self.start then self else other
  if right.start ≥ left.stop then none
  else some ⟨right.start, min left.stop right.stop, self.strand⟩

/-- `Location.extended(extension_length, lower_limit, upper_limit, left, right)` -/
def extended (self : Loc) (ext : Int) (lower : Int := 0) (upper : Option Int := none)
    (left : Bool := true) (right : Bool := true) : Loc :=
  let lo := if left then max lower (self.start - ext) else self.start
  let hi :=
    if right then
      match upper with
      | some u => min u (self.stop + ext)
      | none => self.stop + ext
    else self.stop
  ⟨lo, hi, self.strand⟩

/-- `to_tuple` -/
def toTuple (l : Loc) : Int × Int × Int := (l.start, l.stop, l.strand)

/-- `from_tuple` for 3-tuples -/
def ofTuple (t : Int × Int × Int) : Loc := ⟨t.1, t.2.1, t.2.2⟩

/-- `from_tuple` for 2-tuples -/
def ofPair (t : Int × Int) (defaultStrand : Int := 0) : Loc := ⟨t.1, t.2, defaultStrand⟩

/-- `__lt__`: tuple comparison -/
def lt (a b : Loc) : Bool :=
  a.start < b.start || (a.start == b.start && (a.stop < b.stop || (a.stop == b.stop && a.strand < b.strand)))

def le (a b : Loc) : Bool := !(lt b a)

/-- `__add__` -/
def shift (l : Loc) (n : Int) : Loc := ⟨l.start + n, l.stop + n, l.strand⟩

/-- `__sub__` -/
def unshift (l : Loc) (n : Int) : Loc := ⟨l.start - n, l.stop - n, l.strand⟩

/-- `__len__` -/
def len (l : Loc) : Int := l.stop - l.start

/-- membership of an index (set-of-indices semantics) -/
def Mem (i : Int) (l : Loc) : Prop := l.start ≤ i ∧ i < l.stop

instance : Membership Int Loc := ⟨fun l i => Mem i l⟩

instance (i : Int) (l : Loc) : Decidable (i ∈ l) := by
  show Decidable (l.start ≤ i ∧ i < l.stop); infer_instance

def Nonempty (l : Loc) : Prop := l.start < l.stop

/-- `indices` -/
def indices (l : Loc) : List Int :=
  let r := (List.range (l.stop - l.start).toNat).map (fun (i : Nat) => l.start + (i : Int))
  if l.strand != -1 then r else r.reverse

/-- `extract_sequence`; `none` = KeyError from `complement` -/
def extract (l : Loc) (s : Seq) : Option Seq :=
  let sub := pySlice s l.start l.stop
  if l.strand == -1 then reverseComplement sub else some sub

/-- one step of the merge loop over the sorted list; accumulator reversed -/
def mergeStep (acc : List Loc) (loc : Loc) : List Loc :=
  match acc with
  | [] => [loc]
  | last :: rest =>
    match last.overlap loc with
    | some _ => { last with stop := max last.stop loc.stop } :: rest
    | none => loc :: last :: rest

/-- `Location.merge_overlapping_locations` (as a pure function) -/
def mergeOverlapping (locs : List Loc) : List Loc :=
  ((locs.mergeSort le).foldl mergeStep []).reverse

/-- `from_biopython_location` followed by the `None -> 0` strand rule of `from_data` -/
def ofBio (start stop : Int) (strand : Option Int) : Loc := ⟨start, stop, strand.getD 0⟩

end Loc
end Dna
