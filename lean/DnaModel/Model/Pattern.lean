/-
L2 — `dnachisel/SequencePattern/*.py`.  Core Lean only.

Patterns are either an IUPAC string (DnaNotationPattern, HomopolymerPattern,
EnzymeSitePattern: all become an IUPAC string) or a repeated k-mer
(`([ATGC]{k})\1{n-1}`).  `re.search` on such an expression is modelled as
"least index at which the fixed-length pattern matches" (trusted, exercised by
the correspondence).
-/
import DnaModel.Model.Loc

namespace Dna

inductive Pattern where
  | dna (seq : Seq)                    -- IUPAC notation
  | repeated (nRepeats kmer : Nat)     -- RepeatedKmerPattern(n_repeats, kmer_size)
deriving Repr, DecidableEq

/-- the regular-expression character class of an IUPAC letter (`NUCLEOTIDE_TO_REGEXPR`) -/
def classOf (c : Char) : List Char := (lookup c Gen.nucToRegexClass).getD []

/-- does the IUPAC string match a prefix of `s`? -/
def prefixMatch : Seq → Seq → Bool
  | [], _ => true
  | _ :: _, [] => false
  | p :: ps, c :: cs => (classOf p).contains c && prefixMatch ps cs

/-- `k` characters of ATGC followed by `n-1` copies of the same block -/
def repeatMatch (n k : Nat) (s : Seq) : Bool :=
  let block := s.take k
  block.length == k && block.all isAtgc &&
    (List.range n).all (fun j => (s.drop (j * k)).take k == block)

namespace Pattern

/-- `pattern.size` -/
def size : Pattern → Nat
  | dna p => p.length
  | repeated n k => n * k

/-- does the pattern match at the head of `s`? -/
def matchesAt : Pattern → Seq → Bool
  | dna p, s => prefixMatch p s
  | repeated n k, s => repeatMatch n k s

/-- `is_palyndromic` as the constructors compute it -/
def isPalindromic : Pattern → Bool
  | dna p => reverseComplement p == some p
  | repeated _ _ => true

/-- least index at which the pattern matches (`re.search(...).start()`) -/
def firstMatch (p : Pattern) : Seq → Option Nat
  | [] => if p.matchesAt [] then some 0 else none
  | c :: cs => if p.matchesAt (c :: cs) then some 0 else (firstMatch p cs).map (· + 1)

/-- the loop of `find_matches_in_string`: search, record `start + position`,
    cut the string at `start + 1`; `fuel` bounds the iterations -/
def scan (p : Pattern) : Nat → Seq → Nat → List Nat
  | 0, _, _ => []
  | fuel + 1, s, pos =>
    match p.firstMatch s with
    | none => []
    | some st => (st + pos) :: scan p fuel (s.drop (st + 1)) (pos + st + 1)

/-- `find_matches_in_string(sequence)`: start positions -/
def findInString (p : Pattern) (s : Seq) : List Nat := scan p (s.length + 1) s 0

/-- `find_matches(sequence, location, forced_strand=1)` -/
def findForward (p : Pattern) (s : Seq) (loc : Loc) : List Loc :=
  let sub := pySlice s loc.start loc.stop
  (p.findInString sub).map (fun (st : Nat) => ⟨(st : Int) + loc.start, (st : Int) + p.size + loc.start, 1⟩)

/-- `find_matches(sequence, location, forced_strand=-1)`; `none` = KeyError in reverse_complement -/
def findReverse (p : Pattern) (s : Seq) (loc : Loc) : Option (List Loc) :=
  match reverseComplement (pySlice s loc.start loc.stop) with
  | none => none
  | some sub =>
    some ((p.findInString sub).map
      (fun (st : Nat) => ⟨loc.stop - ((st : Int) + p.size), loc.stop - (st : Int), -1⟩))

/-- `find_matches(sequence, location)` — strand dispatch and palindrome rule.
    Strands other than 1, -1, 0 fall through to the whole-sequence search. -/
def findMatches (p : Pattern) (s : Seq) (loc : Loc) : Option (List Loc) :=
  if loc.strand == 1 then some (p.findForward s loc)
  else if loc.strand == -1 then
    (if p.isPalindromic then some (p.findForward s loc) else p.findReverse s loc)
  else if loc.strand == 0 then
    (if p.isPalindromic then some (p.findForward s loc)
     else (p.findReverse s loc).map (fun r => p.findForward s loc ++ r))
  else some ((p.findInString s).map (fun (st : Nat) => ⟨(st : Int), (st : Int) + p.size, 1⟩))

end Pattern
end Dna
