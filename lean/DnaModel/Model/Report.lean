/-
Reports of a problem's life (C17): edit accounting and text summaries.
Models DnaOptimizationProblem.{sequence_edits_as_array, number_of_edits},
RecordRepresentationMixin.sequence_edits_as_features, ProblemConstraintsEvaluations.text_summary_message,
SpecEvaluations.scores_sum.  Core Lean only.
-/
import DnaModel.Model.Seq
import DnaModel.Model.Solver

namespace Dna

/-- what the reports read: the original sequence (`sequence_before`, set once by `initialize`) and the current one -/
structure Life where
  before : Seq
  cur : Seq

/-- any assignment to `problem.sequence` (manual, or by a solver method): `sequence_before` is not touched -/
def Life.assign (p : Life) (s : Seq) : Life := { p with cur := s }

/-- `number_of_edits()` -/
def Life.numberOfEdits (p : Life) : Nat := diffCount p.cur p.before

structure EditFeature where
  start : Nat
  stop : Nat
  labelBefore : Seq
  labelAfter : Seq
deriving Repr, DecidableEq

def sliceN (s : Seq) (a b : Nat) : Seq := (s.drop a).take (b - a)

/-- `sequence_edits_as_features()`: one feature per segment, labelled `before[start:end]=>sequence[start:end]` -/
def Life.editFeatures (p : Life) : List EditFeature :=
  (diffSegments p.cur p.before).map fun (a, b) => ⟨a, b, sliceN p.before a b, sliceN p.cur a b⟩

inductive Summary where
  | success
  | failure (n : Nat)
deriving Repr, DecidableEq

/-- `ProblemConstraintsEvaluations.text_summary_message()` from the `passes` flags of the listed evaluations -/
def summaryOf (passes : List Bool) : Summary :=
  let failed := passes.filter (fun b => !b)
  if failed.isEmpty then .success else .failure failed.length

def Summary.render : Summary → String
  | .success => "SUCCESS - all constraints evaluations pass"
  | .failure n => s!"FAILURE: {n} constraints evaluations failed"

/-- `SpecEvaluations.scores_sum()`: `sum([boost * score ...])`, a left fold from 0 -/
def weightedTotal {K : Type} [Score K] (es : List (K × K)) : K :=
  es.foldl (fun acc e => Score.add acc (Score.mul e.1 e.2)) Score.zero

end Dna
