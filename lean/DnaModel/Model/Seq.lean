/-
L0 — sequences.  Mirrors dnachisel/biotools/{sequences_operations,gc_content,
sequences_differences,indices_operations}.py.  Core Lean only.
-/
import DnaModel.Gen.Tables

namespace Dna

abbrev Seq := List Char

/-! ### Python slicing -/

/-- Python's normalisation of a slice bound for a sequence of length `n`. -/
def pyIndex (n : Nat) (i : Int) : Nat :=
  if i < 0 then (if i + n < 0 then 0 else (i + n).toNat)
  else if i > n then n else i.toNat

/-- `s[a:b]` with Python semantics (negative indices, clamping). -/
def pySlice {α : Type} (s : List α) (a b : Int) : List α :=
  let lo := pyIndex s.length a
  let hi := pyIndex s.length b
  (s.drop lo).take (hi - lo)

/-- `s[a:]` -/
def pySliceFrom {α : Type} (s : List α) (a : Int) : List α :=
  s.drop (pyIndex s.length a)

/-- `s[:b]` -/
def pySliceTo {α : Type} (s : List α) (b : Int) : List α :=
  s.take (pyIndex s.length b)

/-- window of `k` items starting at `i` (natural indices): `s[i:i+k]` -/
def win {α : Type} (s : List α) (i k : Nat) : List α := (s.drop i).take k

/-! ### association lists (Python dicts with literal keys) -/

def lookup {α β : Type} [BEq α] (k : α) : List (α × β) → Option β
  | [] => none
  | (a, b) :: rest => if a == k then some b else lookup k rest

/-! ### complement / reverse complement -/

/-- the `len <= 30` path: `COMPLEMENTS[nuc]`, `KeyError` on unknown characters -/
def complementCsv : Seq → Option Seq
  | [] => some []
  | c :: cs =>
    match lookup c Gen.complementsCsv, complementCsv cs with
    | some d, some ds => some (d :: ds)
    | _, _ => none

/-- the long path: Biopython's byte translation table (unknown characters unchanged) -/
def complementBio (s : Seq) : Seq :=
  s.map (fun c => (lookup c Gen.bioComplement).getD c)

/-- `biotools.complement`; `none` = `KeyError` -/
def complement (s : Seq) : Option Seq :=
  if s.length ≤ 30 then complementCsv s else some (complementBio s)

/-- `biotools.reverse_complement` -/
def reverseComplement (s : Seq) : Option Seq := (complement s).map List.reverse

/-- base-wise complement through the CSV table, total version used in theorems
    (characters outside the table are left unchanged) -/
def compChar (c : Char) : Char := (lookup c Gen.complementsCsv).getD c

def rc (s : Seq) : Seq := (s.map compChar).reverse

/-! ### translation -/

def chunk3 : Seq → List Seq
  | a :: b :: c :: rest => [a, b, c] :: chunk3 rest
  | _ => []

def isAtgc (c : Char) : Bool := c == 'A' || c == 'T' || c == 'G' || c == 'C'

/-- one codon through Biopython's `_translate_str` with an unambiguous table -/
def translateCodon (t : Gen.CodonTable) (codon : Seq) : Option Char :=
  match lookup codon t.forward with
  | some aa => some aa
  | none =>
    if t.stops.contains codon then some '*'
    else if codon.all (fun c => c == 'G' || c == 'A' || c == 'T' || c == 'C') then some 'X'
    else none

def translateCodons (t : Gen.CodonTable) : List Seq → Option Seq
  | [] => some []
  | c :: cs =>
    match translateCodon t c, translateCodons t cs with
    | some a, some as => some (a :: as)
    | _, _ => none

/-- `biotools.translate(seq, table=name, assume_start_codon)`; `none` = TranslationError.
    Trailing partial codons are ignored (Biopython warns). -/
def translate (t : Gen.CodonTable) (assumeStart : Bool) (s : Seq) : Option Seq :=
  if assumeStart && t.starts.contains (s.take 3) then
    (translateCodons t (chunk3 (s.drop 3))).map ('M' :: ·)
  else translateCodons t (chunk3 s)

def findTable (name : String) : Option Gen.CodonTable :=
  match lookup name Gen.codonTableNames with
  | some i => Gen.codonTables[i]?
  | none => none

/-- `reverse_translate(protein, table)` without randomisation: first codon of each row;
    `none` = KeyError -/
def reverseTranslate (t : Gen.CodonTable) : Seq → Option Seq
  | [] => some []
  | aa :: rest =>
    match lookup [aa] t.back, reverseTranslate t rest with
    | some (c :: _), some r => some (c ++ r)
    | _, _ => none

/-! ### GC content -/

def isGC (c : Char) : Bool := c == 'G' || c == 'C'

def gcCount (s : Seq) : Nat := (s.filter isGC).length

/-- numerators of `gc_content(s, window)`: for each window start `i` the GC count of
    `s[i:i+w]`, computed as the code does with cumulative sums
    (`cs[w-1:] - hstack([0], cs[:-w])`).  Requires `1 ≤ w`. -/
def cumsumFrom (acc : Nat) : Seq → List Nat
  | [] => []
  | c :: cs => (acc + (if isGC c then 1 else 0)) :: cumsumFrom (acc + (if isGC c then 1 else 0)) cs

def cumsum (s : Seq) : List Nat := cumsumFrom 0 s

def gcWindowsCumsum (s : Seq) (w : Nat) : List Nat :=
  let cs := cumsum s
  let a := cs.drop (w - 1)
  -- cs[:-w] : python slice with negative stop
  let b := 0 :: pySliceTo cs (-(w : Int))
  List.zipWith (fun x y => x - y) a b

/-- direct definition: GC count of each full window -/
def gcWindowsDirect (s : Seq) (w : Nat) : List Nat :=
  (List.range (s.length + 1 - w)).map (fun i => gcCount (win s i w))

/-! ### differences -/

def diffArray : Seq → Seq → List Bool
  | a :: as, b :: bs => (a != b) :: diffArray as bs
  | _, _ => []

def diffCount (s t : Seq) : Nat := ((diffArray s t).filter id).length

/-- `np.diff(xs)` -/
def npDiff : List Int → List Int
  | a :: b :: r => (b - a) :: npDiff (b :: r)
  | _ => []

/-- `xs.nonzero()[0]`, indices counted from `i` -/
def nonzeroFrom (i : Nat) : List Int → List Nat
  | [] => []
  | d :: ds => if d != 0 then i :: nonzeroFrom (i + 1) ds else nonzeroFrom (i + 1) ds

/-- `np.diff([0] + arr + [0]).nonzero()[0]`: the code's run-length encoding, before pairing -/
def diffOfPadded (arr : List Bool) : List Nat :=
  nonzeroFrom 0 (npDiff (0 :: (arr.map (fun b => if b then (1 : Int) else 0)) ++ [0]))

def pairUp : List Nat → List (Nat × Nat)
  | a :: b :: rest => (a, b) :: pairUp rest
  | _ => []

def diffSegments (s t : Seq) : List (Nat × Nat) :=
  let d := diffOfPadded (diffArray s t)
  (pairUp d).take (d.length / 2)

/-- run-length encoding of the `true` runs of a boolean array, as `(start, end)` pairs:
    the declarative reading of `sequences_differences_segments` -/
def runsFrom (i : Nat) (cur : Option Nat) : List Bool → List (Nat × Nat)
  | [] => match cur with
    | some st => [(st, i)]
    | none => []
  | true :: bs => runsFrom (i + 1) (some (cur.getD i)) bs
  | false :: bs => match cur with
    | some st => (st, i) :: runsFrom (i + 1) none bs
    | none => runsFrom (i + 1) none bs

def runs (arr : List Bool) : List (Nat × Nat) := runsFrom 0 none arr

/-! ### windows and grouping -/

/-- `windows_overlap((s1,e1),(s2,e2))` (note: closed comparison `start2 <= end1`) -/
def windowsOverlap (w1 w2 : Int × Int) : Option (Int × Int) :=
  let (a, b) := if w2.1 < w1.1 then (w2, w1) else (w1, w2)
  if a.1 ≤ b.1 ∧ b.1 ≤ a.2 then some (b.1, min a.2 b.2) else none

/-- `range(start, end, step)` for `step > 0` -/
def rangeStep (start stop : Int) (step : Nat) : List Int :=
  if step = 0 then [] else
  let n := if stop ≤ start then 0 else ((stop - start).toNat + step - 1) / step
  (List.range n).map (fun (i : Nat) => start + (i : Int) * (step : Int))

/-- `subdivide_window((start, end), max_span)` -/
def subdivideWindow (start stop : Int) (maxSpan : Nat) : List (Int × Int) :=
  let inds := rangeStep start stop maxSpan ++ [stop]
  List.zip inds (inds.drop 1)

/-- the test of the grouping loop: may `x` join the group whose first item is `first`
    and whose latest item is `last`? -/
def groupOk (maxGap maxSpread : Option Int) (key : α → Int) (first last x : α) : Bool :=
  (match maxGap with | none => true | some m => decide (key x - key last < m)) &&
  (match maxSpread with | none => true | some m => decide (key x - key first < m))

/-- the grouping loop over the sorted items; `curRev` is the current group, latest first -/
def groupGo (maxGap maxSpread : Option Int) (key : α → Int) (first last : α) (curRev : List α) :
    List α → List (List α)
  | [] => [curRev.reverse]
  | x :: xs =>
    if groupOk maxGap maxSpread key first last x then
      groupGo maxGap maxSpread key first x (x :: curRev) xs
    else curRev.reverse :: groupGo maxGap maxSpread key x x [x] xs

def groupSorted (maxGap maxSpread : Option Int) (key : α → Int) : List α → List (List α)
  | [] => []
  | x :: xs => groupGo maxGap maxSpread key x x [x] xs

/-- `group_nearby_indices(indices, max_gap, max_group_spread)` -/
def groupNearbyIndices (indices : List Int) (maxGap maxSpread : Option Int) : List (List Int) :=
  groupSorted maxGap maxSpread id (indices.mergeSort (· ≤ ·))

def segLe (a b : Int × Int) : Bool := a.1 < b.1 || (a.1 == b.1 && a.2 ≤ b.2)

/-- `group_nearby_segments(segments, max_start_gap, max_start_spread)` -/
def groupNearbySegments (segs : List (Int × Int)) (maxGap maxSpread : Option Int) :
    List (List (Int × Int)) :=
  groupSorted maxGap maxSpread (·.1) (segs.mergeSort segLe)

end Dna
