/-
L5 — the solver: `ConstraintsSolverMixin.py`, `ObjectivesMaximizerMixin.py`,
`DnaOptimizationProblem.py` (the parts that touch `problem.sequence`).  Core Lean only.

Specifications are *abstract*: a type `σ` of object handles and a record of
functions (`SpecOps`).  A user-defined Specification subclass — including one
whose `localized` is wrong, whose `evaluate` raises, or whose resolution heuristic
returns garbage — is just some inhabitant of `SpecOps σ K`; the theorems quantify
over all of them.  Scores live in a type `K` with the operations the solver uses.

Python object state that matters is explicit:
* `problem.sequence` of the problem being worked on survives errors: every function takes the
  problem's immutable part (`Frame`) and its current sequence, and returns the new current
  sequence next to its `Except` outcome (so the rest of the problem is unchanged by construction);
* the attributes `is_focus` / `evaluation` that `resolve_constraint` writes on
  specification objects are the `Shared` record (they alias across local problems);
* `numpy.random` is a tape; every assignment to a `sequence` attribute is logged in
  `St.trace` (compared with the real run by the correspondence check).
-/
import DnaModel.Model.Space

namespace Dna

class Score (K : Type) where
  zero : K
  add : K → K → K
  mul : K → K → K
  lt : K → K → Bool
  le : K → K → Bool
  eq : K → K → Bool

instance : Score Int := ⟨0, (· + ·), (· * ·), fun a b => decide (a < b), fun a b => decide (a ≤ b), fun a b => a == b⟩
instance : Score Float := ⟨0.0, (· + ·), (· * ·), fun a b => decide (a < b), fun a b => decide (a ≤ b), fun a b => a == b⟩

structure Eval (K : Type) where
  score : K
  /-- `evaluation.locations` (may be `None`) -/
  locs : Option (List Loc)

/-- `evaluation.passes`: `score >= 0` -/
def Eval.passes {K : Type} [Score K] (e : Eval K) : Bool := Score.le (Score.zero : K) e.score

inductive Err where
  | noSolution (what : String)   -- NoSolutionError
  | valueError                    -- ValueError raised by the solver itself
  | crash (what : String)         -- unintended TypeError / AttributeError / KeyError
  | fault (id : Nat)              -- exception raised by a specification (user code)
  | tape                          -- harness error: tape exhausted / out of range
  | tableMiss (what : String)     -- harness error: the model asked for something the run never computed
deriving Repr, DecidableEq

def Err.ofSpace : SpaceErr → Err
  | .valueError => .valueError
  | .crash w => .crash w
  | .tape => .tape

/-- how an object returned by `localized` / `initialized_on_problem` relates to the receiver:
    the receiver itself, a `copy.copy` of it (inherits instance attributes), or a fresh object -/
inductive Derive where
  | same | copy | fresh
deriving Repr, DecidableEq

inductive Role where
  | constraint | objective
deriving Repr, DecidableEq

/-- the attributes that `resolve_constraint` writes on specification objects -/
structure Shared (σ K : Type) where
  focus : List σ := []               -- objects whose `is_focus` instance attribute is True
  evalAttr : List (σ × Eval K) := []   -- objects carrying an `evaluation` attribute (latest first)

/-- everything of a problem object except its current sequence: the solver never modifies it -/
structure Frame (σ : Type) where
  constraints : List σ
  objectives : List σ
  space : Space
  seqBefore : Seq

structure Problem (σ : Type) extends Frame σ where
  seq : Seq

/-- what a resolution heuristic is given (it receives the local problem) -/
structure LocalView (σ : Type) where
  seq : Seq
  constraints : List σ
  space : Space

structure SpecOps (σ K : Type) where
  /-- `evaluate(problem)`; the last argument is the index of this call among all evaluations of the
      run, so that impure user code (e.g. "raise at the k-th call") is an inhabitant too -/
  evaluate : σ → Seq → Nat → Except Nat (Eval K)
  /-- `localized(location, problem=problem[, with_righthand=b])`; `none` = returns None.  The last
      argument is the index of this call among all object-creating calls (`localized` /
      `initialized_on_problem`): each call may allocate a new object -/
  localize : σ → Loc → Option Bool → Seq → Nat → Except Nat (Option (σ × Derive))
  initOn : σ → Seq → Role → Nat → Except Nat (σ × Derive)
  enforced : σ → Bool
  priority : σ → Int
  best : σ → Option K
  boost : σ → K
  passive : σ → Bool
  /-- does `localized` accept the `with_righthand` keyword? -/
  acceptsRighthand : σ → Bool
  /-- `resolution_heuristic(local_problem)`: final local sequence and outcome; the `Nat` is the index
      of this call among all heuristic calls of the run (heuristics may be impure / randomised) -/
  heuristic : σ → Option (LocalView σ → Nat → Seq × Except Err Unit)

structure Settings where
  randomizationThreshold : Nat := Gen.defaultRandomizationThreshold
  maxRandomIters : Nat := Gen.defaultMaxRandomIters
  mutationsPerIteration : Nat := Gen.defaultMutationsPerIteration
  stagnationTolerance : Option Nat := Gen.defaultStagnationTolerance
  localExtensions : List Int := Gen.defaultLocalExtensions

structure St (σ K : Type) where
  shared : Shared σ K := {}
  tape : Tape
  /-- every value assigned to a `sequence` attribute, most recent first -/
  trace : List Seq := []
  /-- number of `evaluate` calls so far -/
  nEval : Nat := 0
  /-- number of `localized` / `initialized_on_problem` calls so far -/
  nAlloc : Nat := 0
  /-- number of `resolution_heuristic` calls so far -/
  nHeur : Nat := 0

namespace Solver
variable {σ K : Type} [BEq σ] [Score K]

/-- log of `problem.sequence = v` -/
def logSeq (v : Seq) (st : St σ K) : St σ K := { st with trace := v :: st.trace }

def liftFault {α : Type} : Except Nat α → Except Err α
  | .ok a => .ok a
  | .error n => .error (.fault n)

def isFocus (st : St σ K) (h : σ) : Bool := st.shared.focus.contains h

def evalAttrOf (st : St σ K) (h : σ) : Option (Eval K) :=
  match st.shared.evalAttr.find? (fun p => p.1 == h) with
  | some p => some p.2
  | none => none

/-- attribute inheritance for an object derived from `h` -/
def inherit (st : St σ K) (h h' : σ) (d : Derive) : St σ K :=
  match d with
  | .same => st
  | .fresh => st
  | .copy =>
    let sh := st.shared
    let sh := if sh.focus.contains h then { sh with focus := h' :: sh.focus } else sh
    let sh := match sh.evalAttr.find? (fun p => p.1 == h) with
      | some p => { sh with evalAttr := (h', p.2) :: sh.evalAttr }
      | none => sh
    { st with shared := sh }

/-- one call of `c.evaluate(problem)` -/
def evalAt (ops : SpecOps σ K) (c : σ) (s : Seq) (st : St σ K) : Except Err (Eval K) × St σ K :=
  (liftFault (ops.evaluate c s st.nEval), { st with nEval := st.nEval + 1 })

/-- one call of `c.localized(...)`, with attribute inheritance for the returned object -/
def localizeAt (ops : SpecOps σ K) (c : σ) (loc : Loc) (rh : Option Bool) (s : Seq) (st : St σ K) :
    Except Err (Option σ) × St σ K :=
  let st' := { st with nAlloc := st.nAlloc + 1 }
  match ops.localize c loc rh s st.nAlloc with
  | .error n => (.error (.fault n), st')
  | .ok none => (.ok none, st')
  | .ok (some (c', d)) => (.ok (some c'), inherit st' c c' d)

/-- one call of `c.initialized_on_problem(problem, role)` -/
def initAt (ops : SpecOps σ K) (c : σ) (s : Seq) (role : Role) (st : St σ K) : Except Err σ × St σ K :=
  let st' := { st with nAlloc := st.nAlloc + 1 }
  match ops.initOn c s role st.nAlloc with
  | .error n => (.error (.fault n), st')
  | .ok (c', d) => (.ok c', inherit st' c c' d)

/-- `all(c.evaluate(self).passes for c in cs)` with Python's short-circuit -/
def allPass (ops : SpecOps σ K) (s : Seq) : List σ → St σ K → Except Err Bool × St σ K
  | [], st => (.ok true, st)
  | c :: cs, st =>
    match evalAt ops c s st with
    | (.error e, st) => (.error e, st)
    | (.ok e, st) => if e.passes then allPass ops s cs st else (.ok false, st)

/-- `all_constraints_pass(autopass)` -/
def allConstraintsPass (ops : SpecOps σ K) (F : Frame σ) (s : Seq) (st : St σ K) (autopass : Bool := true) :
    Except Err Bool × St σ K :=
  allPass ops s (F.constraints.filter (fun c => !autopass || !ops.enforced c)) st

/-- `constraints_evaluations()` (autopass=True): enforced constraints get the placeholder score 1 -/
def constraintsEvaluations (ops : SpecOps σ K) (s : Seq) :
    List σ → St σ K → Except Err (List (Option (Eval K))) × St σ K
  | [], st => (.ok [], st)
  | c :: cs, st =>
    if ops.enforced c then
      match constraintsEvaluations ops s cs st with
      | (.error e, st) => (.error e, st)
      | (.ok r, st) => (.ok (none :: r), st)
    else
      match evalAt ops c s st with
      | (.error e, st) => (.error e, st)
      | (.ok e, st) =>
        match constraintsEvaluations ops s cs st with
        | (.error e', st) => (.error e', st)
        | (.ok r, st) => (.ok (some e :: r), st)

/-- `sum([e.score for e in evaluations if not e.passes])`, left fold from 0 -/
def failingScoreSum (evs : List (Option (Eval K))) : K :=
  evs.foldl (fun acc e => match e with
    | some e => if e.passes then acc else Score.add acc e.score
    | none => acc) Score.zero

def allEvalsPass (evs : List (Option (Eval K))) : Bool :=
  evs.all (fun e => match e with | some e => e.passes | none => true)

/-- `get_focus_constraint()` -/
def getFocus (st : St σ K) (F : Frame σ) : Option (σ × List σ) :=
  match F.constraints.filter (isFocus st) with
  | [f] => some (f, F.constraints.filter (fun c => !isFocus st c))
  | _ => none

/-! ### constraint searches on one (local) problem

Every function takes the frame `F`, the current sequence `s`, the state, and returns
`(outcome, new current sequence, state)`. -/

/-- the test applied to each candidate of the exhaustive constraint search -/
def exhaustiveTest (ops : SpecOps σ K) (F : Frame σ) (focus : Option (σ × List σ)) (v : Seq) (st : St σ K) :
    Except Err Bool × St σ K :=
  match focus with
  | some (f, others) =>
    match evalAt ops f v st with
    | (.error e, st) => (.error e, st)
    | (.ok e, st) => if e.passes then allPass ops v others st else (.ok false, st)
  | none => allConstraintsPass ops F v st

/-- the loop of `resolve_constraints_by_exhaustive_search`; `cur` is the current sequence -/
def exhaustiveLoop (ops : SpecOps σ K) (F : Frame σ) (focus : Option (σ × List σ)) :
    List Seq → Seq → St σ K → Except Err Bool × Seq × St σ K
  | [], cur, st => (.ok false, cur, st)
  | v :: vs, _, st =>
    match exhaustiveTest ops F focus v (logSeq v st) with
    | (.error e, st) => (.error e, v, st)
    | (.ok true, st) => (.ok true, v, st)
    | (.ok false, st) => exhaustiveLoop ops F focus vs v st

/-- `resolve_constraints_by_exhaustive_search` -/
def resolveExhaustive (ops : SpecOps σ K) (F : Frame σ) (s : Seq) (st : St σ K) :
    Except Err Unit × Seq × St σ K :=
  let focus := getFocus st F
  match F.space.allVariants s with
  | .error e => (.error (Err.ofSpace e), s, st)
  | .ok variants =>
    match exhaustiveLoop ops F focus variants s st with
    | (.error e, cur, st) => (.error e, cur, st)
    | (.ok true, cur, st) => (.ok (), cur, st)
    | (.ok false, _, st) =>
      (.error (.noSolution "Exhaustive search failed to satisfy all constraints."), s, logSeq s st)

/-- one candidate of the random searches: `apply_random_mutations` -/
def mutate (sett : Settings) (F : Frame σ) (s : Seq) (st : St σ K) : Except Err Seq × St σ K :=
  match F.space.applyRandomMutations sett.mutationsPerIteration s st.tape with
  | .error e => (.error (Err.ofSpace e), st)
  | .ok (s', t') => (.ok s', { st with tape := t' })

/-- the generic loop of `resolve_constraints_by_random_mutations` -/
def randomLoop (ops : SpecOps σ K) (sett : Settings) (F : Frame σ) :
    Nat → List (Option (Eval K)) → K → Seq → St σ K → Except Err Unit × Seq × St σ K
  | 0, _, _, s, st => (.error (.noSolution "Random search did not find a solution"), s, st)
  | fuel + 1, evs, score, s, st =>
    if allEvalsPass evs then (.ok (), s, st) else
    match mutate sett F s st with
    | (.error e, st) => (.error e, s, st)
    | (.ok s', st) =>
      let st := logSeq s' st
      match constraintsEvaluations ops s' F.constraints st with
      | (.error e, st) => (.error e, s', st)
      | (.ok evs', st) =>
        let newScore := failingScoreSum evs'
        if Score.lt score newScore then randomLoop ops sett F fuel evs' newScore s' st
        else randomLoop ops sett F fuel evs' score s (logSeq s st)

/-- `resolve_single_constraint_by_random_mutations` -/
def singleLoop (ops : SpecOps σ K) (sett : Settings) (F : Frame σ) (f : σ) (others : List σ) :
    Nat → K → Seq → St σ K → Except Err Unit × Seq × St σ K
  | 0, _, s, st => (.error (.noSolution "Random search did not find a solution"), s, st)
  | fuel + 1, score, s, st =>
    match mutate sett F s st with
    | (.error e, st) => (.error e, s, st)
    | (.ok s', st) =>
      let st := logSeq s' st
      match evalAt ops f s' st with
      | (.error e, st) => (.error e, s', st)
      | (.ok ne, st) =>
        if Score.lt score ne.score then
          match allPass ops s' others st with
          | (.error e, st) => (.error e, s', st)
          | (.ok true, st) =>
            if ne.passes then (.ok (), s', st) else singleLoop ops sett F f others fuel ne.score s' st
          | (.ok false, st) => singleLoop ops sett F f others fuel score s (logSeq s st)
        else singleLoop ops sett F f others fuel score s (logSeq s st)

/-- `resolve_constraints_by_random_mutations` -/
def resolveRandom (ops : SpecOps σ K) (sett : Settings) (F : Frame σ) (s : Seq) (st : St σ K) :
    Except Err Unit × Seq × St σ K :=
  match getFocus st F with
  | some (f, others) =>
    match evalAttrOf st f with
    | none => (.error (.crash "AttributeError: evaluation"), s, st)
    | some ev => singleLoop ops sett F f others sett.maxRandomIters ev.score s st
  | none =>
    match constraintsEvaluations ops s F.constraints st with
    | (.error e, st) => (.error e, s, st)
    | (.ok evs, st) => randomLoop ops sett F sett.maxRandomIters evs (failingScoreSum evs) s st

/-- `space_size < randomization_threshold` decided on the exact product -/
def useExhaustive (sett : Settings) (sp : Space) : Bool := sp.sizeProduct < sett.randomizationThreshold

/-- `resolve_constraints_locally` -/
def resolveLocally (ops : SpecOps σ K) (sett : Settings) (F : Frame σ) (s : Seq) (st : St σ K) :
    Except Err Unit × Seq × St σ K :=
  if useExhaustive sett F.space then resolveExhaustive ops F s st else resolveRandom ops sett F s st

/-! ### creation of local problems -/

/-- `[c.initialized_on_problem(local, role) for c in cs]` -/
def initAll (ops : SpecOps σ K) (s : Seq) (role : Role) : List σ → St σ K → Except Err (List σ) × St σ K
  | [], st => (.ok [], st)
  | c :: cs, st =>
    match initAt ops c s role st with
    | (.error e, st) => (.error e, st)
    | (.ok c', st) =>
      match initAll ops s role cs st with
      | (.error e, st) => (.error e, st)
      | (.ok r, st) => (.ok (c' :: r), st)

/-- `self.__class__(sequence=..., constraints=..., objectives=..., mutation_space=...)` -/
def newLocal (ops : SpecOps σ K) (s : Seq) (cs os : List σ) (sp : Space) (st : St σ K) :
    Except Err (Frame σ) × St σ K :=
  let st := logSeq s st      -- `self.sequence = sequence.upper()` in `__init__`
  match initAll ops s .constraint cs st with
  | (.error e, st) => (.error e, st)
  | (.ok cs', st) =>
    match initAll ops s .objective os st with
    | (.error e, st) => (.error e, st)
    | (.ok os', st) => (.ok { constraints := cs', objectives := os', space := sp, seqBefore := s }, st)

/-- `[cst.localized(loc, problem=self) for cst in cs]`, keeping the non-None ones -/
def localizeAll (ops : SpecOps σ K) (s : Seq) (loc : Loc) : List σ → St σ K → Except Err (List σ) × St σ K
  | [], st => (.ok [], st)
  | c :: cs, st =>
    match localizeAt ops c loc none s st with
    | (.error e, st) => (.error e, st)
    | (.ok r, st) =>
      match localizeAll ops s loc cs st with
      | (.error e, st) => (.error e, st)
      | (.ok rest, st) => (.ok (r.toList ++ rest), st)

/-- keep the constraints that evaluate as passing -/
def keepPassing (ops : SpecOps σ K) (s : Seq) : List σ → St σ K → Except Err (List σ) × St σ K
  | [], st => (.ok [], st)
  | c :: cs, st =>
    match evalAt ops c s st with
    | (.error e, st) => (.error e, st)
    | (.ok e, st) =>
      match keepPassing ops s cs st with
      | (.error e', st) => (.error e', st)
      | (.ok r, st) => (.ok (if e.passes then c :: r else r), st)

/-! ### `resolve_constraint` -/

inductive ExtOutcome where
  | solved        -- `break` after `_replace_sequence`
  | next          -- `continue`: try the next extension

/-- solving the local problem: the constraint's own `resolution_heuristic` if it has one, else
    `resolve_constraints_locally`; returns the local problem's final sequence -/
def localSolve (ops : SpecOps σ K) (sett : Settings) (constraint : σ) (LF : Frame σ) (s : Seq) (st : St σ K) :
    Except Err Unit × Seq × St σ K :=
  match ops.heuristic constraint with
  | some h =>
    let r := h ⟨s, LF.constraints, LF.space⟩ st.nHeur
    (r.2, r.1, logSeq r.1 { st with nHeur := st.nHeur + 1 })
  | none => resolveLocally ops sett LF s st

/-- one (location, extension) attempt of `resolve_constraint` -/
def tryExtension (ops : SpecOps σ K) (sett : Settings) (replaceSeq : Seq → Seq) (F : Frame σ)
    (constraint : σ) (nextLoc : Option Loc) (location : Loc) (ext : Int) (isLast : Bool)
    (s : Seq) (st : St σ K) : Except Err ExtOutcome × Seq × St σ K :=
  let newLoc := location.extended ext
  let sp := F.space.localized newLoc.start newLoc.stop
  if sp.sizeProduct == 0 then
    if !isLast then (.ok .next, s, st)
    else (.error (.noSolution "Constraint breach in region that cannot be mutated."), s, st)
  else
  match sp.choicesSpan with
  | none => (.error (.crash "choices_span is None"), s, st)
  | some (a, b) =>
    let newLoc : Loc := ⟨a, b, 0⟩
    let overlapsNext : Bool := match nextLoc with
      | some nl => (match nl.overlap newLoc with | some o => o.len != 0 | none => false)
      | none => false
    -- `with_righthand=False` is only passed to specifications whose `localized` accepts it
    let rh : Option Bool := if overlapsNext && ops.acceptsRighthand constraint then some false else none
    match localizeAt ops constraint newLoc rh s st with
    | (.error e, st) => (.error e, s, st)
    | (.ok none, st) =>
      -- the constraint does not overlap the mutable region: like a frozen region
      if !isLast then (.ok .next, s, st)
      else (.error (.noSolution "Constraint breach in region that cannot be mutated."), s, st)
    | (.ok (some lc), st) =>
      match evalAt ops lc s st with
      | (.error e, st) => (.error e, s, st)
      | (.ok ev, st) =>
        if ev.passes then (.ok .next, s, st) else
        -- this_local_constraint.is_focus = True ; .evaluation = evaluation
        let st := { st with shared := { focus := lc :: st.shared.focus, evalAttr := (lc, ev) :: st.shared.evalAttr } }
        let others := F.constraints.filter (fun c => !(c == constraint) && !ops.enforced c)
        match localizeAll ops s newLoc others st with
        | (.error e, st) => (.error e, s, st)
        | (.ok locals, st) =>
          match keepPassing ops s locals st with
          | (.error e, st) => (.error e, s, st)
          | (.ok passing, st) =>
            match newLocal ops s (lc :: passing) [] sp st with
            | (.error e, st) => (.error e, s, st)
            | (.ok LF, st) =>
              match localSolve ops sett constraint LF s st with
              | (.ok (), ls, st) => (.ok .solved, replaceSeq ls, logSeq (replaceSeq ls) st)
              | (.error (.noSolution w), _, st) =>
                if isLast then (.error (.noSolution w), s, st) else (.ok .next, s, st)
              | (.error e, _, st) => (.error e, s, st)

/-- the `for extension in self.local_extensions` loop -/
def extensionsLoop (ops : SpecOps σ K) (sett : Settings) (replaceSeq : Seq → Seq) (F : Frame σ)
    (constraint : σ) (nextLoc : Option Loc) (location : Loc) (lastExt : Option Int) :
    List Int → Seq → St σ K → Except Err Unit × Seq × St σ K
  | [], s, st => (.ok (), s, st)
  | ext :: exts, s, st =>
    match tryExtension ops sett replaceSeq F constraint nextLoc location ext (lastExt == some ext) s st with
    | (.error e, s, st) => (.error e, s, st)
    | (.ok .solved, s, st) => (.ok (), s, st)
    | (.ok .next, s, st) => extensionsLoop ops sett replaceSeq F constraint nextLoc location lastExt exts s st

/-- the `for i, location in enumerate(locations)` loop -/
def locationsLoop (ops : SpecOps σ K) (sett : Settings) (replaceSeq : Seq → Seq) (F : Frame σ) (constraint : σ) :
    List Loc → Seq → St σ K → Except Err Unit × Seq × St σ K
  | [], s, st => (.ok (), s, st)
  | loc :: rest, s, st =>
    match extensionsLoop ops sett replaceSeq F constraint rest.head? loc sett.localExtensions.getLast?
        sett.localExtensions s st with
    | (.error e, s, st) => (.error e, s, st)
    | (.ok (), s, st) => locationsLoop ops sett replaceSeq F constraint rest s st

/-- `resolve_constraint(constraint)`; `replaceSeq` is `_replace_sequence` (identity for linear problems) -/
def resolveConstraint (ops : SpecOps σ K) (sett : Settings) (replaceSeq : Seq → Seq) (F : Frame σ) (constraint : σ)
    (s : Seq) (st : St σ K) : Except Err Unit × Seq × St σ K :=
  match evalAt ops constraint s st with
  | (.error e, st) => (.error e, s, st)
  | (.ok ev, st) =>
    if ev.passes then (.ok (), s, st) else
    match ev.locs with
    | none => (.error (.noSolution "breached constraint reports no breach location"), s, st)
    | some locs => locationsLoop ops sett replaceSeq F constraint (locs.mergeSort Loc.le) s st

/-- evaluate every specification of the list in order (no short-circuit): what building a text
    summary (`constraints_text_summary(autopass=False)`) does before an error message is raised -/
def evaluateAll (ops : SpecOps σ K) (s : Seq) : List σ → St σ K → Except Err Unit × St σ K
  | [], st => (.ok (), st)
  | c :: cs, st =>
    match evalAt ops c s st with
    | (.error e, st) => (.error e, st)
    | (.ok _, st) => evaluateAll ops s cs st

/-- `perform_final_constraints_check`: every constraint, no autopass; on the first failing one the
    error message is built from `constraints_text_summary(failed_only=True, autopass=False)`,
    which evaluates `all` constraints once more -/
def finalCheck (ops : SpecOps σ K) (s : Seq) (all : List σ) : List σ → St σ K → Except Err Unit × St σ K
  | [], st => (.ok (), st)
  | c :: cs, st =>
    match evalAt ops c s st with
    | (.error e, st) => (.error e, st)
    | (.ok e, st) =>
      if e.passes then finalCheck ops s all cs st
      else
        match evaluateAll ops s all st with
        | (.error e', st) => (.error e', st)
        | (.ok (), st) => (.error (.noSolution "final check: some constraints appear unsolved"), st)

def resolveEach (ops : SpecOps σ K) (sett : Settings) (replaceSeq : Seq → Seq) (F : Frame σ) :
    List σ → Seq → St σ K → Except Err Unit × Seq × St σ K
  | [], s, st => (.ok (), s, st)
  | c :: cs, s, st =>
    match resolveConstraint ops sett replaceSeq F c s st with
    | (.error e, s, st) => (.error e, s, st)
    | (.ok (), s, st) => resolveEach ops sett replaceSeq F cs s st

/-- stable sort by decreasing priority -/
def byPriority (ops : SpecOps σ K) (cs : List σ) : List σ :=
  cs.mergeSort (fun a b => ops.priority b ≤ ops.priority a)

/-- `resolve_constraints(final_check)` -/
def resolveConstraints (ops : SpecOps σ K) (sett : Settings) (F : Frame σ) (s : Seq) (st : St σ K)
    (finalChk : Bool := true) : Except Err Unit × Seq × St σ K :=
  let cs := F.constraints.filter (fun c => !ops.enforced c)
  if cs.isEmpty then (.ok (), s, st) else
  match resolveEach ops sett id F (byPriority ops cs) s st with
  | (.error e, s, st) => (.error e, s, st)
  | (.ok (), s, st) =>
    if finalChk then
      match finalCheck ops s F.constraints F.constraints st with
      | (r, st) => (r, s, st)
    else (.ok (), s, st)

/-! ### objectives -/

/-- `objective_scores_sum()`: `sum([boost * score ...])`, left fold from 0 -/
def scoresSum (ops : SpecOps σ K) (s : Seq) : List σ → K → St σ K → Except Err K × St σ K
  | [], acc, st => (.ok acc, st)
  | o :: os, acc, st =>
    match evalAt ops o s st with
    | (.error e, st) => (.error e, st)
    | (.ok e, st) => scoresSum ops s os (Score.add acc (Score.mul (ops.boost o) e.score)) st

def objectiveScoresSum (ops : SpecOps σ K) (F : Frame σ) (s : Seq) (st : St σ K) : Except Err K × St σ K :=
  scoresSum ops s F.objectives Score.zero st

/-- `sum([obj.best_possible_score * obj.boost for obj in objectives])` (left fold from 0) when
    every objective declares a best score, else `None` -/
def bestSum (ops : SpecOps σ K) (os : List σ) : Option K :=
  if os.all (fun o => (ops.best o).isSome) then
    some (os.foldl (fun acc o => match ops.best o with
      | some b => Score.add acc (Score.mul b (ops.boost o))
      | none => acc) Score.zero)
  else none

/-- `best_possible_score is not None and score >= best_possible_score` -/
def reachedBest (bp : Option K) (score : K) : Bool :=
  match bp with
  | some b => Score.le b score
  | none => false

/-- `tolerance is not None and stagnating_iterations > tolerance` -/
def stagnated (sett : Settings) (stagnating : Nat) : Bool :=
  match sett.stagnationTolerance with
  | some tol => decide (stagnating > tol)
  | none => false

/-- the loop of `optimize_by_exhaustive_search`; returns the best sequence found -/
def optExhaustiveLoop (ops : SpecOps σ K) (F : Frame σ) (bestPossible : Option K) :
    List Seq → K → Seq → Seq → St σ K → Except Err Seq × Seq × St σ K
  | [], _, bestSeq, cur, st => (.ok bestSeq, cur, st)
  | v :: vs, bestScore, bestSeq, _, st =>
    let st := logSeq v st
    match allConstraintsPass ops F v st with
    | (.error e, st) => (.error e, v, st)
    | (.ok false, st) => optExhaustiveLoop ops F bestPossible vs bestScore bestSeq v st
    | (.ok true, st) =>
      match objectiveScoresSum ops F v st with
      | (.error e, st) => (.error e, v, st)
      | (.ok score, st) =>
        if Score.lt bestScore score then
          if reachedBest bestPossible score then (.ok v, v, st)
          else optExhaustiveLoop ops F bestPossible vs score v v st
        else optExhaustiveLoop ops F bestPossible vs bestScore bestSeq v st

/-- `optimize_by_exhaustive_search` -/
def optimizeExhaustive (ops : SpecOps σ K) (F : Frame σ) (s : Seq) (st : St σ K) :
    Except Err Unit × Seq × St σ K :=
  match allConstraintsPass ops F s st with
  | (.error e, st) => (.error e, s, st)
  | (.ok false, st) =>
    -- the message contains `constraints_text_summary(failed_only=True)`: one more round of evaluations
    match constraintsEvaluations ops s F.constraints st with
    | (.error e, st) => (.error e, s, st)
    | (.ok _, st) => (.error (.noSolution "Optimization can only be done when all constraints are verified."), s, st)
  | (.ok true, st) =>
    let bestPossible := bestSum ops F.objectives
    match objectiveScoresSum ops F s st with
    | (.error e, st) => (.error e, s, st)
    | (.ok cur, st) =>
      match F.space.allVariants s with
      | .error e => (.error (Err.ofSpace e), s, st)
      | .ok variants =>
        match optExhaustiveLoop ops F bestPossible variants cur s s st with
        | (.error e, cur, st) => (.error e, cur, st)
        | (.ok bestSeq, _, st) => (.ok (), bestSeq, logSeq bestSeq st)

/-- the loop of `optimize_by_random_mutations` -/
def optRandomLoop (ops : SpecOps σ K) (sett : Settings) (F : Frame σ) (bestPossible : Option K) :
    Nat → K → Nat → Seq → St σ K → Except Err Unit × Seq × St σ K
  | 0, _, _, s, st => (.ok (), s, st)
  | fuel + 1, score, stagnating, s, st =>
    if reachedBest bestPossible score then (.ok (), s, st) else
    if stagnated sett stagnating then (.ok (), s, st) else
    match mutate sett F s st with
    | (.error e, st) => (.error e, s, st)
    | (.ok s', st) =>
      let st := logSeq s' st
      match allConstraintsPass ops F s' st with
      | (.error e, st) => (.error e, s', st)
      | (.ok true, st) =>
        match objectiveScoresSum ops F s' st with
        | (.error e, st) => (.error e, s', st)
        | (.ok newScore, st) =>
          if Score.lt score newScore then optRandomLoop ops sett F bestPossible fuel newScore 1 s' st
          else optRandomLoop ops sett F bestPossible fuel score (stagnating + 1) s (logSeq s st)
      | (.ok false, st) => optRandomLoop ops sett F bestPossible fuel score (stagnating + 1) s (logSeq s st)

/-- `optimize_by_random_mutations` -/
def optimizeRandom (ops : SpecOps σ K) (sett : Settings) (F : Frame σ) (s : Seq) (st : St σ K) :
    Except Err Unit × Seq × St σ K :=
  match allConstraintsPass ops F s st with
  | (.error e, st) => (.error e, s, st)
  | (.ok false, st) =>
    match constraintsEvaluations ops s F.constraints st with
    | (.error e, st) => (.error e, s, st)
    | (.ok _, st) => (.error .valueError, s, st)
  | (.ok true, st) =>
    match objectiveScoresSum ops F s st with
    | (.error e, st) => (.error e, s, st)
    | (.ok score, st) =>
      optRandomLoop ops sett F (bestSum ops F.objectives) sett.maxRandomIters score 0 s st

/-- optimising the local problem: exhaustive or random search depending on the size of its space -/
def localOptimize (ops : SpecOps σ K) (sett : Settings) (LF : Frame σ) (s : Seq) (st : St σ K) :
    Except Err Unit × Seq × St σ K :=
  if useExhaustive sett LF.space then optimizeExhaustive ops LF s st else optimizeRandom ops sett LF s st

/-- one location of `optimize_objective` -/
def optimizeLocation (ops : SpecOps σ K) (sett : Settings) (F : Frame σ) (location : Loc)
    (s : Seq) (st : St σ K) : Except Err Unit × Seq × St σ K :=
  let sp := F.space.localized location.start location.stop
  if sp.sizeProduct == 0 then (.ok (), s, st) else
  match sp.choicesSpan with
  | none => (.error (.crash "choices_span is None"), s, st)
  | some (a, b) =>
    let loc : Loc := ⟨a, b, 0⟩
    match localizeAll ops s loc F.constraints st with
    | (.error e, st) => (.error e, s, st)
    | (.ok lcs, st) =>
      match localizeAll ops s loc (F.objectives.filter (fun o => !Score.eq (ops.boost o) (Score.zero : K))) st with
      | (.error e, st) => (.error e, s, st)
      | (.ok los, st) =>
        match newLocal ops s lcs los sp st with
        | (.error e, st) => (.error e, s, st)
        | (.ok LF, st) =>
          match localOptimize ops sett LF s st with
          | (.error e, _, st) => (.error e, s, st)
          | (.ok (), ls, st) => (.ok (), ls, logSeq ls st)

def optimizeLocations (ops : SpecOps σ K) (sett : Settings) (F : Frame σ) :
    List Loc → Seq → St σ K → Except Err Unit × Seq × St σ K
  | [], s, st => (.ok (), s, st)
  | l :: ls, s, st =>
    match optimizeLocation ops sett F l s st with
    | (.error e, s, st) => (.error e, s, st)
    | (.ok (), s, st) => optimizeLocations ops sett F ls s st

/-- `objective.best_possible_score is not None and evaluation.score == objective.best_possible_score` -/
def atBest (ops : SpecOps σ K) (o : σ) (score : K) : Bool :=
  match ops.best o with
  | some b => Score.eq score b
  | none => false

/-- `optimize_objective(objective)` -/
def optimizeObjective (ops : SpecOps σ K) (sett : Settings) (F : Frame σ) (objective : σ)
    (s : Seq) (st : St σ K) : Except Err Unit × Seq × St σ K :=
  match evalAt ops objective s st with
  | (.error e, st) => (.error e, s, st)
  | (.ok ev, st) =>
    if atBest ops objective ev.score then (.ok (), s, st) else
    match ev.locs with
    | none => (.error (.crash "TypeError: 'NoneType' object is not iterable (evaluation.locations)"), s, st)
    | some locs => optimizeLocations ops sett F locs s st

def optimizeEach (ops : SpecOps σ K) (sett : Settings) (F : Frame σ) :
    List σ → Seq → St σ K → Except Err Unit × Seq × St σ K
  | [], s, st => (.ok (), s, st)
  | o :: os, s, st =>
    match optimizeObjective ops sett F o s st with
    | (.error e, s, st) => (.error e, s, st)
    | (.ok (), s, st) => optimizeEach ops sett F os s st

/-- `optimize()` -/
def optimize (ops : SpecOps σ K) (sett : Settings) (F : Frame σ) (s : Seq) (st : St σ K) :
    Except Err Unit × Seq × St σ K :=
  optimizeEach ops sett F
    (F.objectives.filter (fun o => !ops.passive o && !Score.eq (ops.boost o) (Score.zero : K))) s st

end Solver
end Dna
