/-
L3 — `dnachisel/MutationSpace/MutationChoice.py`, `MutationSpace.py`.  Core Lean only.

Python sets are lists in arbitrary order here, kept duplicate-free: the input of a
restriction is de-duplicated (`set(choice[1])`), and `merge_with` /
`extract_varying_region` produce duplicate-free lists from duplicate-free lists
(theorem `C15.*_nodup`).  Every consumer that sorts in the code sorts in the model
(`sortSeqs`).  Random draws come from a tape (list of naturals): each
`np.random.randint(n)` consumes one entry (validated `< n`), each
`np.random.choice(n, k, replace=False)` consumes `k` distinct entries `< n`.
-/
import DnaModel.Model.Loc

namespace Dna

/-! ### ordering of sequences (Python `str` comparison on ASCII) -/

def seqLt : Seq → Seq → Bool
  | [], [] => false
  | [], _ :: _ => true
  | _ :: _, [] => false
  | a :: as, b :: bs => a.toNat < b.toNat || (a == b && seqLt as bs)

def seqLe (a b : Seq) : Bool := !(seqLt b a)

/-- `sorted(variants)` -/
def sortSeqs (l : List Seq) : List Seq := l.mergeSort seqLe

def dedup {α : Type} [BEq α] : List α → List α
  | [] => []
  | a :: as => if as.contains a then dedup as else a :: dedup as

structure Choice where
  start : Nat
  stop : Nat
  variants : List Seq
  anyNuc : Bool := false
deriving Repr, DecidableEq, Inhabited

abbrev Tape := List Nat

inductive SpaceErr where
  | valueError        -- "Cannot constrain a sequence when some positions are unsolvable"
  | crash (what : String)   -- unintended TypeError / KeyError / AttributeError in the Python code
  | tape              -- the tape is exhausted or an entry is out of range (harness error)
deriving Repr, DecidableEq

/-- `np.random.randint(n)` -/
def drawInt (n : Nat) : Tape → Except SpaceErr (Nat × Tape)
  | [] => .error .tape
  | x :: t => if x < n then .ok (x, t) else .error .tape

/-- `np.random.choice(n, k, replace=False)` -/
def drawDistinct (n k : Nat) (t : Tape) : Except SpaceErr (List Nat × Tape) :=
  let xs := t.take k
  if xs.length == k && xs.all (· < n) && (dedup xs).length == k then .ok (xs, t.drop k) else .error .tape

/-- write `v` over `s[start:start+|v|]` (bytearray slice assignment of equal length) -/
def splice (s : Seq) (start : Nat) (v : Seq) : Seq :=
  s.take start ++ v ++ s.drop (start + v.length)

namespace Choice

def seg (c : Choice) (s : Seq) : Seq := (s.drop c.start).take (c.stop - c.start)

/-- `MutationChoice.random_variant` -/
def randomVariant (c : Choice) (s : Seq) (t : Tape) : Except SpaceErr (Seq × Tape) :=
  let cur := c.seg s
  let vs := sortSeqs (c.variants.filter (· != cur))
  match drawInt vs.length t with
  | .error e => .error e
  | .ok (i, t') => match vs[i]? with
    | some v => .ok (v, t')
    | none => .error .tape

/-- the slice of variant `v` of choice `o` that lies on the overlap with `[s, e)` -/
def overlapSlice (o : Choice) (v : Seq) (s e : Nat) : Seq :=
  let istart := max o.start s
  let iend := min o.stop e
  (v.drop (istart - o.start)).take (iend - istart)

/-- cartesian product, first factor slowest (`itertools.product`) -/
def cartesian {α : Type} : List (List α) → List (List α)
  | [] => [[]]
  | l :: ls => l.flatMap (fun a => (cartesian ls).map (a :: ·))

/-- the variants of `o` that agree with `cand` (a variant of `self`) on the overlap of the two segments -/
def compatSlot (self : Choice) (cand : Seq) (o : Choice) : List Seq :=
  o.variants.filter (fun v =>
    overlapSlice o v self.start self.stop ==
      (cand.drop (max o.start self.start - self.start)).take (min o.stop self.stop - max o.start self.start))

/-- the variants of the merged choice: for every variant of `self`, every combination of compatible variants of the
    (sorted) `others`, concatenated, kept when its `self` window is that variant -/
def mergeCore (self : Choice) (ostart : Nat) (others : List Choice) : List Seq :=
  self.variants.flatMap (fun cand =>
    (cartesian (others.map (compatSlot self cand))).filterMap (fun subseqs =>
      let sq := subseqs.flatten
      if (sq.drop (self.start - ostart)).take (self.stop - self.start) == cand then some sq else none))

/-- `MutationChoice.merge_with(others)`; `others` sorted by start here -/
def mergeWith (self : Choice) (others : List Choice) : Option Choice :=
  let others := others.mergeSort (fun a b => a.start ≤ b.start)
  match others.head?, others.getLast? with
  | some first, some last =>
    some { start := first.start, stop := last.stop, variants := mergeCore self first.start others }
  | _, _ => none

/-- first and last+1 column at which the variants are not all equal to the reference -/
def varyingColumns (reference : Seq) (others : List Seq) : Option (Nat × Nat) :=
  let cols := (List.range reference.length).filter (fun i => others.any (fun v => v[i]? != reference[i]?))
  match cols.head?, cols.getLast? with
  | some a, some b => some (a, b + 1)
  | _, _ => none

/-- `MutationChoice.extract_varying_region` -/
def extractVaryingRegion (c : Choice) : List Choice :=
  match c.variants with
  | [] => [c]
  | [_] => [c]
  | reference :: rest =>
    -- the Python code starts with start = -1, end = len(reference) when no column varies: unreachable for >= 2
    -- distinct variants of equal length (the variants are a Python set); the choice is then left as it is
    match varyingColumns reference rest with
    | none => [c]
    | some (st, en) =>
      -- the variants are pairwise distinct (Python set), so the central slices are distinct and the
      -- flanks are single values: no duplicate removal is needed
      (if st > 0 then [{ start := c.start, stop := c.start + st, variants := [reference.take st] }] else []) ++
      [{ start := c.start + st, stop := c.start + en,
         variants := c.variants.map (fun v => (v.drop st).take (en - st)) }] ++
      (if en < reference.length then
        [{ start := c.start + en, stop := c.stop, variants := [reference.drop en] }] else [])

end Choice

/-! ### MutationSpace -/

structure Space where
  /-- `choices_index`, left padding included -/
  index : List (Option Choice)
deriving Repr

namespace Space

/-- `MutationSpace(choices_index, left_padding)` -/
def ofIndex (choicesIndex : List (Option Choice)) (leftPadding : Nat := 0) : Space :=
  ⟨List.replicate leftPadding none ++ choicesIndex⟩

/-- `choices_list`: consecutive distinct non-None entries of the index -/
def dedupConsecutive : List (Option Choice) → Option Choice → List Choice
  | [], _ => []
  | none :: rest, last => dedupConsecutive rest last
  | some c :: rest, last =>
    if last == some c then dedupConsecutive rest last else c :: dedupConsecutive rest (some c)

def choicesList (sp : Space) : List Choice := dedupConsecutive sp.index none

def unsolvable (sp : Space) : List (Nat × Nat) :=
  (sp.choicesList.filter (·.variants.length == 0)).map (fun c => (c.start, c.stop))

def multichoices (sp : Space) : List Choice := sp.choicesList.filter (·.variants.length ≥ 2)

/-- `choices_span` -/
def choicesSpan (sp : Space) : Option (Nat × Nat) :=
  match sp.multichoices.head?, sp.multichoices.getLast? with
  | some a, some b => some (a.start, b.stop)
  | _, _ => none

/-- exact product of the variant counts of the multi-choices; `space_size` is
    `0` when there is none, else `exp(min(100, Σ log nᵢ))` -/
def sizeProduct (sp : Space) : Nat :=
  if sp.multichoices.isEmpty then 0 else (sp.multichoices.map (·.variants.length)).foldl (· * ·) 1

/-- `localized(location)`: `MutationSpace(choices_index[start:end], left_padding=start)` -/
def localized (sp : Space) (start stop : Int) : Space :=
  ofIndex (pySlice sp.index start stop) start.toNat

/-- `constrain_sequence` -/
def constrainLoop : List Choice → Seq → Seq → Tape → Except SpaceErr (Seq × Tape)
  | [], _, acc, t => .ok (acc, t)
  | c :: cs, orig, acc, t =>
    match c.variants with
    | [] => .error .valueError
    | [v] => constrainLoop cs orig (splice acc c.start v) t
    | vs =>
      if vs.contains (pySlice orig c.start c.stop) then constrainLoop cs orig acc t
      else
        match drawInt vs.length t with
        | .error e => .error e
        | .ok (i, t') =>
          match (sortSeqs vs)[i]? with
          | some v => constrainLoop cs orig (splice acc c.start v) t'
          | none => .error .tape

def constrainSequence (sp : Space) (s : Seq) (t : Tape) : Except SpaceErr (Seq × Tape) :=
  constrainLoop sp.choicesList s s t

/-- `pick_random_mutations(n, sequence)` -/
def randomVariants : List Choice → Seq → Tape → Except SpaceErr (List (Nat × Seq) × Tape)
  | [], _, t => .ok ([], t)
  | c :: cs, s, t =>
    match c.randomVariant s t with
    | .error e => .error e
    | .ok (v, t') =>
      match randomVariants cs s t' with
      | .error e => .error e
      | .ok (r, t'') => .ok ((c.start, v) :: r, t'')

def pickRandomMutations (sp : Space) (n : Nat) (s : Seq) (t : Tape) :
    Except SpaceErr (List (Nat × Seq) × Tape) :=
  let mc := sp.multichoices
  let k := min mc.length n
  if k == 1 then
    match drawInt mc.length t with
    | .error e => .error e
    | .ok (i, t') => match mc[i]? with
      | some c => randomVariants [c] s t'
      | none => .error .tape
  else
    match drawDistinct mc.length k t with
    | .error e => .error e
    | .ok (is, t') => randomVariants (is.filterMap (fun i => mc[i]?)) s t'

/-- `apply_random_mutations(n, sequence)` -/
def applyRandomMutations (sp : Space) (n : Nat) (s : Seq) (t : Tape) : Except SpaceErr (Seq × Tape) :=
  match sp.pickRandomMutations n s t with
  | .error e => .error e
  | .ok (muts, t') => .ok (muts.foldl (fun acc m => splice acc m.1 m.2) s, t')

def indexOf? (l : List Seq) (x : Seq) : Option Nat :=
  match l with
  | [] => none
  | a :: as => if a == x then some 0 else (indexOf? as x).map (· + 1)

def distTo (cur i : Nat) : Nat := if i ≥ cur then i - cur else cur - i

/-- the sort key comparison `(|alphasort[v] - alphasort[current]|, v)` on (variant, alphabetical rank) pairs -/
def distLe (cur : Nat) (a b : Seq × Nat) : Bool :=
  distTo cur a.2 < distTo cur b.2 || (distTo cur a.2 == distTo cur b.2 && seqLe a.1 b.1)

/-- the order in which `all_variants` visits the variants of one choice; when the current
    sub-sequence is not one of the variants its rank defaults to 0 -/
def variantsByDistance (c : Choice) (s : Seq) : List Seq :=
  let sorted := sortSeqs c.variants
  let cur := (indexOf? sorted (c.seg s)).getD 0
  (sorted.zipIdx.mergeSort (distLe cur)).map (·.1)

def optAll {α : Type} : List (Option α) → Option (List α)
  | [] => some []
  | none :: _ => none
  | some a :: rest => (optAll rest).map (a :: ·)

/-- `all_variants(sequence)` (the whole generator, as a list) -/
def allVariants (sp : Space) (s : Seq) : Except SpaceErr (List Seq) :=
  match sp.choicesSpan with
  | none => .ok [s]      -- fully determined space: the only variant is the sequence itself
  | some _ =>
    let slots := sp.multichoices.map (fun c => (variantsByDistance c s).map (fun v => (c.start, v)))
    .ok ((Choice.cartesian slots).map (fun combo => combo.foldl (fun acc m => splice acc m.1 m.2) s))

/-! ### construction from restrictions -/

/-- a nucleotide restriction as returned by `restrict_nucleotides`: segment + allowed sub-sequences -/
structure Restriction where
  start : Nat
  stop : Nat
  variants : List Seq
deriving Repr, DecidableEq

def setRange {α : Type} (l : List α) (start stop : Nat) (v : α) (pad : α) : List α :=
  let l := if stop > l.length then l ++ List.replicate (stop - l.length) pad else l
  (List.range l.length).filterMap (fun i => if start ≤ i && i < stop then some v else l[i]?)

/-- processing one (sorted) restriction in `from_optimization_problem` -/
def applyRestriction (index : List (Option Choice)) (r : Restriction) : Except SpaceErr (List (Option Choice)) :=
  let choice : Choice := { start := r.start, stop := r.stop, variants := dedup r.variants }
  let underlying := (index.drop r.start).take (r.stop - r.start)
  let newChoice : Except SpaceErr Choice :=
    if underlying.isEmpty then .ok choice
    else if underlying.any (·.isNone) then .error (.crash "None in underlying choices")
    else if underlying.all (fun c => match c with | some c => c.anyNuc | none => false) then .ok choice
    else
      match choice.mergeWith (dedup (underlying.filterMap id)) with
      | some c => .ok c
      | none => .error (.crash "merge_with on empty set")
  match newChoice with
  | .error e => .error e
  | .ok nc =>
    .ok ((nc.extractVaryingRegion).foldl (fun idx c => setRange idx c.start c.stop (some c) none) index)

def restrictionLe (a b : Restriction) : Bool :=
  let la := a.stop - a.start
  let lb := b.stop - b.start
  la < lb || (la == lb && a.start ≤ b.start)

def foldRestrictions : List Restriction → List (Option Choice) → Except SpaceErr (List (Option Choice))
  | [], idx => .ok idx
  | r :: rs, idx =>
    match applyRestriction idx r with
    | .error e => .error e
    | .ok idx' => foldRestrictions rs idx'

/-- the initial index: one any-nucleotide choice per position -/
def initialIndex (s : Seq) : Option (List (Option Choice)) :=
  optAll ((List.range s.length).map (fun i =>
    match s[i]? with
    | some c => (lookup c Gen.anyNucleotideVariants).map
        (fun vs => some { start := i, stop := i + 1, variants := vs.map (fun x => [x]), anyNuc := true })
    | none => none))

/-- `MutationSpace.from_optimization_problem(problem)` given the constraints' restrictions
    in the order the code collects them -/
def fromRestrictions (s : Seq) (rs : List Restriction) : Except SpaceErr Space :=
  match initialIndex s with
  | none => .error (.crash "KeyError: non-ATGC nucleotide")
  | some idx =>
    match foldRestrictions (rs.mergeSort restrictionLe) idx with
    | .error e => .error e
    | .ok idx' => .ok (ofIndex idx')

end Space
end Dna
