/-
The table-driven instance of `SpecOps`: specification objects are natural-number handles and
every method is a finite lookup table recorded from a real run (or generated).  This is how the
solver model is executed against the implementation: same tables, same tape ⇒ same assignments.
A lookup that misses is reported as a fault with a reserved id (`miss* + handle`), never defaulted.
-/
import DnaModel.Model.Solver
import Std.Data.HashMap

namespace Dna.TableSpec
open Dna

structure Attr where
  enforced : Bool
  priority : Int
  best : Option Float
  boost : Float
  passive : Bool
  acceptsRh : Bool
  hasHeuristic : Bool
deriving Inhabited

inductive Res (α : Type) where
  | val (a : α)
  | fault (id : Nat)

/-- one recorded object-creating call, in call order -/
inductive Alloc where
  /-- `localized`: handle, start, stop, strand, rh (0 = absent, 1 = False, 2 = True), sequence -/
  | loc (key : Nat × Int × Int × Int × Nat × Seq) (res : Res (Option (Nat × Derive)))
  /-- `initialized_on_problem`: handle, sequence, role (0 constraint / 1 objective) -/
  | init (key : Nat × Seq × Nat) (res : Res (Nat × Derive))

structure Tables where
  attrs : Std.HashMap Nat Attr := {}
  /-- values of `evaluate`, a function of (object, sequence) -/
  evals : Std.HashMap (Nat × Seq) (Eval Float) := {}
  /-- exceptions raised by `evaluate`, by index of the call among all evaluations of the run -/
  evalFaults : List (Nat × Nat) := []
  /-- `localized` / `initialized_on_problem` calls in the order they happened -/
  allocs : Array Alloc := #[]
  /-- heuristic calls in call order: (handle, local sequence) -> final local sequence, succeeded? -/
  heurs : Array ((Nat × Seq) × (Seq × Bool)) := #[]

/-- reserved fault ids for lookups that miss or diverge from the recorded run -/
def missEval : Nat := 100000000
def missLoc : Nat := 200000000
def missInit : Nat := 300000000

def find {κ ν : Type} [BEq κ] (k : κ) : List (κ × ν) → Option ν
  | [] => none
  | (a, b) :: rest => if a == k then some b else find k rest

def attrOf (t : Tables) (h : Nat) : Attr := (t.attrs[h]?).getD default

def rhCode : Option Bool → Nat
  | none => 0
  | some false => 1
  | some true => 2

def ops (t : Tables) : SpecOps Nat Float where
  evaluate h s k := match find k t.evalFaults with
    | some n => .error n
    | none => match t.evals[(h, s)]? with
      | some e => .ok e
      | none => .error (missEval + h)
  localize h loc rh s k := match t.allocs[k]? with
    | some (.loc key res) =>
      if key == (h, loc.start, loc.stop, loc.strand, rhCode rh, s) then
        (match res with | .val r => .ok r | .fault n => .error n)
      else .error (missLoc + h)
    | _ => .error (missLoc + h)
  initOn h s role k := match t.allocs[k]? with
    | some (.init key res) =>
      if key == (h, s, (match role with | .constraint => 0 | .objective => 1)) then
        (match res with | .val r => .ok r | .fault n => .error n)
      else .error (missInit + h)
    | _ => .error (missInit + h)
  enforced h := (attrOf t h).enforced
  priority h := (attrOf t h).priority
  best h := (attrOf t h).best
  boost h := (attrOf t h).boost
  passive h := (attrOf t h).passive
  acceptsRighthand h := (attrOf t h).acceptsRh
  heuristic h :=
    if (attrOf t h).hasHeuristic then
      some (fun v k => match t.heurs[k]? with
        | some (key, (s', ok)) =>
          if key == (h, v.seq) then (if ok then (s', .ok ()) else (s', .error (.noSolution "heuristic")))
          else (v.seq, .error (.tableMiss "heuristic"))
        | none => (v.seq, .error (.tableMiss "heuristic")))
    else none

end Dna.TableSpec
