/-
`Choice.cartesian` = `itertools.product` (first factor slowest): membership, length, no duplicates.
-/
import DnaModel.Model.Space
import Mathlib.Data.List.Forall2
import Mathlib.Data.List.Nodup

namespace Dna.Cart
open Dna Choice

theorem mem_cartesian {α : Type} : ∀ (ls : List (List α)) (t : List α),
    t ∈ cartesian ls ↔ List.Forall₂ (· ∈ ·) t ls
  | [], t => by simp [cartesian]
  | l :: ls, t => by
    simp only [cartesian, List.mem_flatMap, List.mem_map]
    constructor
    · rintro ⟨a, ha, u, hu, rfl⟩
      exact List.Forall₂.cons ha ((mem_cartesian ls u).1 hu)
    · intro h
      cases h with
      | cons ha hu => exact ⟨_, ha, _, (mem_cartesian ls _).2 hu, rfl⟩

theorem length_cartesian {α : Type} : ∀ (ls : List (List α)),
    (cartesian ls).length = (ls.map List.length).foldr (· * ·) 1
  | [] => by simp [cartesian]
  | l :: ls => by
    simp only [cartesian, List.map_cons, List.foldr_cons, ← length_cartesian ls]
    induction l with
    | nil => simp
    | cons a l ih => simp [List.flatMap_cons, ih, Nat.add_mul, Nat.succ_mul, Nat.add_comm]

theorem nodup_cartesian {α : Type} : ∀ (ls : List (List α)), (∀ l ∈ ls, l.Nodup) → (cartesian ls).Nodup
  | [], _ => by simp [cartesian]
  | l :: ls, h => by
    have hl : l.Nodup := h l (by simp)
    have ih := nodup_cartesian ls (fun x hx => h x (by simp [hx]))
    simp only [cartesian]
    rw [List.nodup_flatMap]
    constructor
    · intro a _
      exact ih.map (fun x y hxy => by simpa using hxy)
    · refine hl.imp ?_
      intro a b hab
      simp only [Function.onFun, List.disjoint_left, List.mem_map]
      rintro x ⟨u, _, rfl⟩ ⟨v, _, hv⟩
      exact hab (by simpa using (List.cons_eq_cons.1 hv).1.symm)

/-- the first element of the product is the tuple of first elements -/
theorem head_cartesian {α : Type} : ∀ (ls : List (List α)) (hs : List α),
    List.Forall₂ (fun h l => l.head? = some h) hs ls → (cartesian ls).head? = some hs
  | [], hs, h => by cases h; simp [cartesian]
  | l :: ls, hs, h => by
    cases h with
    | cons ha hu =>
      rename_i a as
      have ih := head_cartesian ls as hu
      cases l with
      | nil => simp at ha
      | cons x xs =>
        simp only [List.head?_cons, Option.some.injEq] at ha
        subst ha
        simp only [cartesian, List.flatMap_cons]
        cases hc : cartesian ls with
        | nil => simp [hc] at ih
        | cons u us =>
          simp only [hc, List.head?_cons, Option.some.injEq] at ih
          subst ih
          simp

end Dna.Cart
