/-
The write-back invariant of `MutationSpace.from_optimization_problem` over the whole fold of restrictions:
the index stays made of whole blocks (`Blocks`, `Full`) and every processed restriction cuts the language of the
index down by exactly that restriction (`applyRestriction_spec`, `foldRestrictions_spec`, `fromRestrictions_exact`).
-/
import DnaModel.Model.Space
import DnaModel.Proofs.Merge
import DnaModel.Proofs.Split
import Mathlib.Data.List.Nodup
set_option linter.unusedVariables false
set_option linter.unusedSimpArgs false
namespace Dna.Fold
open Dna Choice Merge Space

abbrev Idx := List (Option Choice)

def DNA : List Char := ['A', 'T', 'G', 'C']

/-- what the index says about the choice `c` found at position `i` -/
structure BlockOK (idx : Idx) (i : Nat) (c : Choice) : Prop where
  lo : c.start ≤ i
  hi : i < c.stop
  inb : c.stop ≤ idx.length
  all : ∀ j, c.start ≤ j → j < c.stop → idx[j]? = some (some c)
  len : ∀ v ∈ c.variants, v.length = c.stop - c.start
  any : c.anyNuc = true → c.stop = c.start + 1 ∧ ∀ ch ∈ DNA, [ch] ∈ c.variants

def Blocks (idx : Idx) : Prop := ∀ (i : Nat) (c : Choice), idx[i]? = some (some c) → BlockOK idx i c
def Full (idx : Idx) : Prop := ∀ (i : Nat), i < idx.length → ∃ c : Choice, idx[i]? = some (some c)
def Accepts (idx : Idx) (t : Seq) : Prop := ∀ (i : Nat) (c : Choice), idx[i]? = some (some c) → c.seg t ∈ c.variants

def under (idx : Idx) (a b : Nat) : Idx := (idx.drop a).take (b - a)

theorem under_getElem? (idx : Idx) (a b i : Nat) :
    (under idx a b)[i]? = if i < b - a then idx[a + i]? else none := by
  simp only [under, List.getElem?_take, List.getElem?_drop]

theorem under_split (idx : Idx) (a m b : Nat) (h1 : a ≤ m) (h2 : m ≤ b) :
    under idx a b = under idx a m ++ under idx m b := by
  apply List.ext_getElem?
  intro i
  rw [List.getElem?_append, under_getElem?, under_getElem?]
  have hl : (under idx a m).length = min (m - a) (idx.length - a) := by simp [under]
  by_cases hi : i < (under idx a m).length
  · have : i < m - a := by omega
    simp only [hi, this, if_true]
    have : i < b - a := by omega
    simp [this]
  · simp only [hi, if_false, under_getElem?]
    by_cases hlen : m ≤ idx.length
    · have hl' : (under idx a m).length = m - a := by omega
      rw [hl']
      by_cases hib : i < b - a
      · have : i - (m - a) < b - m := by omega
        simp only [hib, this, if_true]
        congr 1; omega
      · have : ¬ (i - (m - a) < b - m) := by omega
        simp [hib, this]
    · have h1' : idx[a + i]? = none := by
        apply List.getElem?_eq_none; omega
      have h2' : idx[m + (i - (under idx a m).length)]? = none := by
        apply List.getElem?_eq_none; omega
      simp [h1', h2']

theorem under_const (idx : Idx) (c : Choice) (a e : Nat) (hall : ∀ j, c.start ≤ j → j < c.stop → idx[j]? = some (some c))
    (h1 : c.start ≤ a) (h2 : e ≤ c.stop) :
    under idx a e = List.replicate (e - a) (some c) := by
  apply List.ext_getElem?
  intro i
  rw [under_getElem?, List.getElem?_replicate]
  by_cases hi : i < e - a
  · simp only [hi, if_true]
    exact hall (a + i) (by omega) (by omega)
  · simp [hi]

theorem dedup_replicate_append (c : Choice) (k : Nat) (L : List Choice) (h : c ∉ L) :
    dedup (List.replicate (k + 1) c ++ L) = c :: dedup L := by
  induction k with
  | zero =>
    simp only [List.replicate, List.cons_append, List.nil_append, dedup]
    have : L.contains c = false := by simpa using h
    simp [this, h]
  | succ k ih =>
    rw [List.replicate_succ, List.cons_append, dedup]
    have : (List.replicate (k + 1) c ++ L).contains c = true := by
      simp [List.replicate_succ]
    simp only [this, if_true]
    exact ih

theorem filterMap_replicate (c : Choice) (k : Nat) :
    (List.replicate k (some c)).filterMap id = List.replicate k c := by
  induction k with
  | zero => rfl
  | succ k ih => simp [List.replicate_succ, ih]

theorem mem_under_filterMap (idx : Idx) (a b : Nat) (x : Choice) (h : x ∈ (under idx a b).filterMap id) :
    ∃ j, a ≤ j ∧ j < b ∧ idx[j]? = some (some x) := by
  simp only [List.mem_filterMap, id] at h
  obtain ⟨o, ho, rfl⟩ := h
  obtain ⟨i, hi⟩ := List.getElem?_of_mem ho
  rw [under_getElem?] at hi
  split at hi
  · exact ⟨a + i, by omega, by omega, hi⟩
  · cases hi

/-- the distinct choices under `[a, b)`, in the order the model lists them: contiguous blocks from the block holding
    `a` to the block holding `b - 1` -/
theorem under_runs (idx : Idx) (hB : Blocks idx) (hF : Full idx) :
    ∀ k a b, b - a ≤ k → a < b → b ≤ idx.length →
      ∃ c0 rest, idx[a]? = some (some c0) ∧ dedup ((under idx a b).filterMap id) = c0 :: rest ∧
        Contig c0.start (c0 :: rest) ∧ b ≤ stopOf c0.start (c0 :: rest) ∧
        (∀ o ∈ c0 :: rest, idx[o.start]? = some (some o) ∧ o.start < b) := by
  intro k
  induction k with
  | zero => intro a b h1 h2; omega
  | succ k ih =>
    intro a b hk hab hb
    obtain ⟨c0, hc0⟩ := hF a (by omega)
    have ok0 := hB a c0 hc0
    have hstart0 : idx[c0.start]? = some (some c0) := ok0.all c0.start (Nat.le_refl _) (by have := ok0.lo; have := ok0.hi; omega)
    by_cases hcov : b ≤ c0.stop
    · refine ⟨c0, [], hc0, ?_, ⟨rfl, by have := ok0.lo; have := ok0.hi; omega, trivial⟩, by simpa [stopOf] using hcov, ?_⟩
      · rw [under_const idx c0 a b ok0.all ok0.lo hcov, filterMap_replicate]
        obtain ⟨n, hn⟩ : ∃ n, b - a = n + 1 := ⟨b - a - 1, by omega⟩
        have := dedup_replicate_append c0 n [] (by simp)
        simpa [hn, dedup] using this
      · intro o ho
        have : o = c0 := by simpa using ho
        subst this
        exact ⟨hstart0, by have := ok0.lo; omega⟩
    · have hlt : c0.stop < b := by omega
      obtain ⟨c1, rest1, hc1, hd1, hcon1, hstop1, hall1⟩ := ih c0.stop b (by have := ok0.hi; omega) hlt hb
      have ok1 := hB c0.stop c1 hc1
      have hne : c1 ≠ c0 := by
        intro h; have := ok1.hi; rw [h] at this; omega
      have hs1 : c1.start = c0.stop := by
        by_contra hneq
        have hlt1 : c1.start < c0.stop := by have := ok1.lo; omega
        have h0pos : c0.start < c0.stop := by have := ok0.lo; have := ok0.hi; omega
        have e1 := ok1.all (c0.stop - 1) (by omega) (by have := ok1.hi; omega)
        have e0 := ok0.all (c0.stop - 1) (by omega) (by omega)
        rw [e0] at e1
        exact hne (by simpa using e1.symm)
      refine ⟨c0, c1 :: rest1, hc0, ?_, ?_, ?_, ?_⟩
      · rw [under_split idx a c0.stop b (by have := ok0.hi; omega) (by omega), List.filterMap_append,
          under_const idx c0 a c0.stop ok0.all ok0.lo (Nat.le_refl _), filterMap_replicate]
        obtain ⟨n, hn⟩ : ∃ n, c0.stop - a = n + 1 := ⟨c0.stop - a - 1, by have := ok0.hi; omega⟩
        rw [hn, dedup_replicate_append, hd1]
        intro hmem
        obtain ⟨j, hj1, hj2, hj3⟩ := mem_under_filterMap idx c0.stop b c0 hmem
        have := (hB j c0 hj3).hi
        omega
      · refine ⟨rfl, by have := ok0.lo; have := ok0.hi; omega, ?_⟩
        rw [← hs1]; exact hcon1
      · simp only [stopOf] at hstop1 ⊢
        exact hstop1
      · intro o ho
        rcases List.mem_cons.1 ho with rfl | ho
        · exact ⟨hstart0, by have := ok0.lo; omega⟩
        · exact hall1 o ho

theorem contig_cover (a : Nat) (os : List Choice) (h : Contig a os) (i : Nat) (h1 : a ≤ i) (h2 : i < stopOf a os) :
    ∃ o ∈ os, o.start ≤ i ∧ i < o.stop := by
  induction os generalizing a with
  | nil => simp [stopOf] at h2; omega
  | cons o os ih =>
    obtain ⟨e1, e2, e3⟩ := h
    by_cases hi : i < o.stop
    · exact ⟨o, by simp, by omega, hi⟩
    · obtain ⟨x, hx, hx'⟩ := ih o.stop e3 (by omega) (by simpa [stopOf] using h2)
      exact ⟨x, by simp [hx], hx'⟩

theorem contig_disjoint (a : Nat) (os : List Choice) (h : Contig a os) :
    os.Pairwise (fun x y => x.stop ≤ y.start) := by
  induction os generalizing a with
  | nil => exact List.Pairwise.nil
  | cons o os ih =>
    obtain ⟨e1, e2, e3⟩ := h
    exact List.Pairwise.cons (fun y hy => ((contig_ge o.stop os e3).2 y hy).1) (ih o.stop e3)

/-! ### writing pieces back -/

theorem setRange_spec (l : Idx) (s e : Nat) (v : Option Choice) (he : e ≤ l.length) :
    (setRange l s e v none).length = l.length ∧
    ∀ i, (setRange l s e v none)[i]? = if i < l.length then (if s ≤ i ∧ i < e then some v else l[i]?) else none := by
  have hno : ¬ (e > l.length) := by omega
  simp only [setRange, hno, if_false]
  have hmap : (List.range l.length).filterMap (fun i => if (decide (s ≤ i) && decide (i < e)) = true then some v else l[i]?) =
      (List.range l.length).map (fun i => if s ≤ i ∧ i < e then v else (l[i]?).getD none) := by
    rw [← List.filterMap_eq_map]
    apply List.filterMap_congr
    intro i hi
    have hi' : i < l.length := by simpa using hi
    by_cases hc : s ≤ i ∧ i < e
    · have : (decide (s ≤ i) && decide (i < e)) = true := by simp [hc.1, hc.2]
      simp [this, hc]
    · have : ¬ ((decide (s ≤ i) && decide (i < e)) = true) := by simpa using hc
      simp only [this, if_false, Function.comp]
      rw [List.getElem?_eq_getElem hi']
      simp [hc]
  rw [hmap]
  refine ⟨by simp, ?_⟩
  intro i
  by_cases hi : i < l.length
  · simp only [hi, if_true, List.getElem?_map, List.getElem?_range hi, Option.map_some]
    by_cases hc : s ≤ i ∧ i < e
    · simp [hc]
    · simp only [hc, if_false]
      rw [List.getElem?_eq_getElem hi]; simp
  · simp only [hi, if_false]
    apply List.getElem?_eq_none; simp; omega

def writeAll (pieces : List Choice) (idx : Idx) : Idx :=
  pieces.foldl (fun idx c => setRange idx c.start c.stop (some c) none) idx

theorem writeAll_spec (pieces : List Choice) (idx : Idx) (a : Nat) (hc : Contig a pieces)
    (he : stopOf a pieces ≤ idx.length) :
    (writeAll pieces idx).length = idx.length ∧
    (∀ i, (∀ p ∈ pieces, ¬ (p.start ≤ i ∧ i < p.stop)) → (writeAll pieces idx)[i]? = idx[i]?) ∧
    (∀ p ∈ pieces, ∀ i, p.start ≤ i → i < p.stop → (writeAll pieces idx)[i]? = some (some p)) := by
  induction pieces generalizing idx a with
  | nil => simp [writeAll]
  | cons p ps ih =>
    obtain ⟨e1, e2, e3⟩ := hc
    have hge := contig_ge p.stop ps e3
    have hpe : p.stop ≤ idx.length := by simp only [stopOf] at he; omega
    obtain ⟨sl1, sl2⟩ := setRange_spec idx p.start p.stop (some p) hpe
    obtain ⟨i1, i2, i3⟩ := ih (setRange idx p.start p.stop (some p) none) p.stop e3 (by rw [sl1]; simpa [stopOf] using he)
    have hw : writeAll (p :: ps) idx = writeAll ps (setRange idx p.start p.stop (some p) none) := rfl
    rw [hw]
    refine ⟨by rw [i1, sl1], ?_, ?_⟩
    · intro i hi
      rw [i2 i (fun q hq => hi q (by simp [hq])), sl2 i]
      have hnp := hi p (by simp)
      by_cases hil : i < idx.length
      · simp [hil, hnp]
      · simp only [hil, if_false]; exact (List.getElem?_eq_none (by omega)).symm
    · intro q hq i h1 h2
      rcases List.mem_cons.1 hq with rfl | hq
      · rw [i2 i ?_, sl2 i]
        · have : i < idx.length := by omega
          simp [this, h1, h2]
        · intro x hx hx'
          have := (hge.2 x hx).1
          omega
      · exact i3 q hq i h1 h2

end Dna.Fold

namespace Dna.Fold
open Dna Choice Merge Space Split

/-- the pieces of a non-empty choice are non-empty and are not "any nucleotide" choices -/
theorem extract_more (c : Choice) (hlen : ∀ v ∈ c.variants, v.length = c.stop - c.start) (hlt : c.start < c.stop)
    (hany : c.anyNuc = false) :
    ∀ p ∈ c.extractVaryingRegion, p.start < p.stop ∧ p.anyNuc = false := by
  rcases hv : c.variants with _ | ⟨reference, _ | ⟨second, more⟩⟩
  · have : c.extractVaryingRegion = [c] := by unfold extractVaryingRegion; rw [hv]
    rw [this]; simp [hlt, hany]
  · have : c.extractVaryingRegion = [c] := by unfold extractVaryingRegion; rw [hv]
    rw [this]; simp [hlt, hany]
  · have hrl : reference.length = c.stop - c.start := hlen reference (by simp [hv])
    have hex : c.extractVaryingRegion =
        match varyingColumns reference (second :: more) with
        | none => [c]
        | some (st, en) =>
          (if st > 0 then [{ start := c.start, stop := c.start + st, variants := [reference.take st] }] else []) ++
          [{ start := c.start + st, stop := c.start + en,
             variants := c.variants.map (fun v => (v.drop st).take (en - st)) }] ++
          (if en < reference.length then
            [{ start := c.start + en, stop := c.stop, variants := [reference.drop en] }] else []) := by
      unfold extractVaryingRegion
      rw [hv]
      simp only []
      rw [← hv]
      rcases varyingColumns reference (second :: more) with _ | ⟨a, b⟩ <;> rfl
    rw [hex]
    cases hcol : varyingColumns reference (second :: more) with
    | none => simp [hlt, hany]
    | some ab =>
      obtain ⟨a, b⟩ := ab
      obtain ⟨hab, hbl, _, _, _⟩ := varyingColumns_spec reference (second :: more) a b hcol
      simp only []
      intro p hp
      by_cases ha : a > 0 <;> by_cases hb : b < reference.length <;>
        simp only [ha, hb, if_true, if_false, List.nil_append, List.append_nil, List.cons_append, List.singleton_append,
          List.mem_cons, List.mem_singleton, List.not_mem_nil, or_false] at hp
      · rcases hp with rfl | rfl | rfl <;> simp <;> omega
      · rcases hp with rfl | rfl <;> simp <;> omega
      · rcases hp with rfl | rfl <;> simp <;> omega
      · subst hp; simp; omega

theorem mem_dedup' {α : Type} [BEq α] [LawfulBEq α] (l : List α) (x : α) : x ∈ dedup l ↔ x ∈ l := by
  induction l with
  | nil => simp [dedup]
  | cons a as ih =>
    simp only [dedup]
    split
    · rename_i hc
      rw [ih]
      constructor
      · intro h; exact List.mem_cons_of_mem _ h
      · intro h
        rcases List.mem_cons.1 h with rfl | h
        · simpa using hc
        · exact h
    · simp [ih]


theorem dedup_nodup {α : Type} [BEq α] [LawfulBEq α] (l : List α) : (dedup l).Nodup := by
  induction l with
  | nil => simp [dedup]
  | cons a as ih =>
    simp only [dedup]
    split
    · exact ih
    · rename_i hc
      refine List.nodup_cons.2 ⟨?_, ih⟩
      rw [mem_dedup']
      simpa using hc


theorem flatten_inj (os : List Choice) (a b : List Seq)
    (ha : List.Forall₂ (fun p o => p.length = o.stop - o.start) a os)
    (hb : List.Forall₂ (fun p o => p.length = o.stop - o.start) b os) (h : a.flatten = b.flatten) : a = b := by
  induction ha generalizing b with
  | nil => cases hb; rfl
  | @cons p o ps os' hp _ ih =>
    cases hb with
    | @cons q _ qs _ hq hqs =>
      simp only [List.flatten_cons] at h
      have hpq : p = q := by
        have := congrArg (List.take p.length) h
        rw [List.take_left' rfl, List.take_left' (by omega)] at this
        exact this
      subst hpq
      rw [List.append_cancel_left h |> ih qs hqs]

theorem mergeCore_nodup (self : Choice) (ostart : Nat) (others : List Choice)
    (hs : self.variants.Nodup) (ho : ∀ o ∈ others, o.variants.Nodup)
    (hov : ∀ o ∈ others, ∀ v ∈ o.variants, v.length = o.stop - o.start) :
    (mergeCore self ostart others).Nodup := by
  simp only [mergeCore]
  rw [List.nodup_flatMap]
  constructor
  · intro cand _
    have hcart : (cartesian (others.map (compatSlot self cand))).Nodup := by
      apply Cart.nodup_cartesian
      intro l hl
      simp only [List.mem_map] at hl
      obtain ⟨o, hom, rfl⟩ := hl
      exact (ho o hom).filter _
    have hp := List.Pairwise.and_mem.1 hcart
    refine List.Pairwise.filterMap _ ?_ hp
    rintro a a' ⟨ha, ha', hne⟩ b hb b' hb'
    intro hbb
    apply hne
    have la : List.Forall₂ (fun p o => p.length = o.stop - o.start) a others := by
      have := (Cart.mem_cartesian _ _).1 ha
      rw [List.forall₂_map_right_iff] at this
      exact lengths_of_mem others a hov (this.imp (fun p o hp => (List.mem_filter.1 hp).1))
    have la' : List.Forall₂ (fun p o => p.length = o.stop - o.start) a' others := by
      have := (Cart.mem_cartesian _ _).1 ha'
      rw [List.forall₂_map_right_iff] at this
      exact lengths_of_mem others a' hov (this.imp (fun p o hp => (List.mem_filter.1 hp).1))
    apply flatten_inj others a a' la la'
    split at hb <;> split at hb' <;> simp_all
  · refine hs.imp ?_
    intro c1 c2 hne
    simp only [Function.onFun, List.disjoint_left, List.mem_filterMap]
    rintro x ⟨u, _, hu⟩ ⟨v, _, hv⟩
    split at hu <;> split at hv <;> simp_all


/-- the pieces of a duplicate-free choice are duplicate-free -/
theorem extract_nodup (c : Choice) (hlen : ∀ v ∈ c.variants, v.length = c.stop - c.start) (hnd : c.variants.Nodup) :
    ∀ p ∈ c.extractVaryingRegion, p.variants.Nodup := by
  rcases hv : c.variants with _ | ⟨reference, _ | ⟨second, more⟩⟩
  · have : c.extractVaryingRegion = [c] := by unfold extractVaryingRegion; rw [hv]
    rw [this]; simp [hv]
  · have : c.extractVaryingRegion = [c] := by unfold extractVaryingRegion; rw [hv]
    rw [this]; simp [hv]
  · have hrl : reference.length = c.stop - c.start := hlen reference (by simp [hv])
    have hex : c.extractVaryingRegion =
        match varyingColumns reference (second :: more) with
        | none => [c]
        | some (st, en) =>
          (if st > 0 then [{ start := c.start, stop := c.start + st, variants := [reference.take st] }] else []) ++
          [{ start := c.start + st, stop := c.start + en,
             variants := c.variants.map (fun v => (v.drop st).take (en - st)) }] ++
          (if en < reference.length then
            [{ start := c.start + en, stop := c.stop, variants := [reference.drop en] }] else []) := by
      unfold extractVaryingRegion
      rw [hv]
      simp only []
      rw [← hv]
      rcases varyingColumns reference (second :: more) with _ | ⟨a, b⟩ <;> rfl
    rw [hex]
    cases hcol : varyingColumns reference (second :: more) with
    | none =>
      intro p hp
      simp only [List.mem_singleton] at hp; subst hp; exact hnd
    | some ab =>
      obtain ⟨a, b⟩ := ab
      obtain ⟨hab, hbl, _, _, hout⟩ := varyingColumns_spec reference (second :: more) a b hcol
      simp only []
      have hagree : ∀ v ∈ c.variants, ∀ i, i < reference.length → (i < a ∨ b ≤ i) → v[i]? = reference[i]? := by
        intro v hvm i hi hio
        rw [hv] at hvm
        rcases List.mem_cons.1 hvm with rfl | hvm
        · rfl
        · exact hout i hi hio v hvm
      have hmid : (c.variants.map (fun v => (v.drop a).take (b - a))).Nodup := by
        refine List.Nodup.map_on ?_ hnd
        intro x hx y hy hxy
        have lx : x.length = reference.length := by rw [hlen x hx, hrl]
        have ly : y.length = reference.length := by rw [hlen y hy, hrl]
        have t1 : x.take a = y.take a := by
          rw [take_eq_of_cols x reference a lx (fun i hi hia => hagree x hx i hi (Or.inl hia)),
            take_eq_of_cols y reference a ly (fun i hi hia => hagree y hy i hi (Or.inl hia))]
        have d1 : x.drop b = y.drop b := by
          rw [drop_eq_of_cols x reference b lx (fun i hi hib => hagree x hx i hi (Or.inr hib)),
            drop_eq_of_cols y reference b ly (fun i hi hib => hagree y hy i hi (Or.inr hib))]
        rw [← three_parts x a b (by omega), ← three_parts y a b (by omega), t1, d1]
        rw [hxy]
      intro p hp
      by_cases ha : a > 0 <;> by_cases hb : b < reference.length <;>
        simp only [ha, hb, if_true, if_false, List.nil_append, List.append_nil, List.cons_append, List.singleton_append,
          List.mem_cons, List.mem_singleton, List.not_mem_nil, or_false] at hp
      · rcases hp with rfl | rfl | rfl
        · simp
        · exact hmid
        · simp
      · rcases hp with rfl | rfl
        · simp
        · exact hmid
      · rcases hp with rfl | rfl
        · exact hmid
        · simp
      · subst hp; exact hmid


/-- every choice written in the index has pairwise distinct variants -/
def VarsNodup (idx : Idx) : Prop := ∀ (i : Nat) (c : Choice), idx[i]? = some (some c) → c.variants.Nodup

/-- **writing a merged choice back**: if `nc` spans whole blocks of the index and accepts exactly the words accepted
    by those blocks and by the new restriction, the index after the write-back is again made of whole blocks and
    accepts exactly the words the old index and the restriction accept -/
theorem writeBack_spec (idx : Idx) (nc : Choice) (R : Seq → Prop)
    (hB : Blocks idx) (hF : Full idx) (hN : VarsNodup idx) (p6 : nc.variants.Nodup)
    (p1 : nc.start < nc.stop) (p1' : nc.stop ≤ idx.length)
    (p2 : ∀ v ∈ nc.variants, v.length = nc.stop - nc.start)
    (p3 : nc.anyNuc = false)
    (p4 : ∀ (j : Nat) (c : Choice), idx[j]? = some (some c) →
      (nc.start ≤ c.start ∧ c.stop ≤ nc.stop) ∨ (c.stop ≤ nc.start ∨ nc.stop ≤ c.start))
    (p5 : ∀ t : Seq, t.length = idx.length → (∀ ch ∈ t, ch ∈ DNA) →
      (nc.seg t ∈ nc.variants ↔ (R t ∧ ∀ (j : Nat) (c : Choice), nc.start ≤ j → j < nc.stop → idx[j]? = some (some c) → c.seg t ∈ c.variants))) :
    let idx' := writeAll nc.extractVaryingRegion idx
    Blocks idx' ∧ Full idx' ∧ VarsNodup idx' ∧ idx'.length = idx.length ∧
    ∀ t : Seq, t.length = idx.length → (∀ ch ∈ t, ch ∈ DNA) → (Accepts idx' t ↔ Accepts idx t ∧ R t) := by
  intro idx'
  obtain ⟨t1, t2, t3⟩ := extractVaryingRegion_tiles nc p2 (by omega)
  have hmore := extract_more nc p2 p1 p3
  obtain ⟨w1, w2, w3⟩ := writeAll_spec nc.extractVaryingRegion idx nc.start t1 (by rw [t2]; exact p1')
  have hge := contig_ge nc.start _ t1
  rw [t2] at hge
  -- positions of the span hold a piece, the others are unchanged
  have hin : ∀ i, nc.start ≤ i → i < nc.stop → ∃ p ∈ nc.extractVaryingRegion, p.start ≤ i ∧ i < p.stop ∧ idx'[i]? = some (some p) := by
    intro i h1 h2
    obtain ⟨p, hp, hp'⟩ := contig_cover nc.start _ t1 i h1 (by rw [t2]; exact h2)
    exact ⟨p, hp, hp'.1, hp'.2, w3 p hp i hp'.1 hp'.2⟩
  have hout : ∀ i, (i < nc.start ∨ nc.stop ≤ i) → idx'[i]? = idx[i]? := by
    intro i hi
    apply w2
    intro p hp hp'
    have := hge.2 p hp
    omega
  have hpiece : ∀ p ∈ nc.extractVaryingRegion, ∀ i, p.start ≤ i → i < p.stop → BlockOK idx' i p := by
    intro p hp i h1 h2
    have := hge.2 p hp
    exact ⟨h1, h2, by rw [w1]; omega, fun j hj1 hj2 => w3 p hp j hj1 hj2, t3 p hp, by simp [(hmore p hp).2]⟩
  have hBlocks : Blocks idx' := by
    intro i c hc
    by_cases hi : nc.start ≤ i ∧ i < nc.stop
    · obtain ⟨p, hp, hp1, hp2, hp3⟩ := hin i hi.1 hi.2
      rw [hp3] at hc
      have : p = c := by simpa using hc
      subst this
      exact hpiece p hp i hp1 hp2
    · have hi' : i < nc.start ∨ nc.stop ≤ i := by omega
      rw [hout i hi'] at hc
      have ok := hB i c hc
      have hdis : c.stop ≤ nc.start ∨ nc.stop ≤ c.start := by
        rcases p4 i c hc with h | h
        · have := ok.lo; have := ok.hi; omega
        · exact h
      refine ⟨ok.lo, ok.hi, by rw [w1]; exact ok.inb, ?_, ok.len, ok.any⟩
      intro j hj1 hj2
      rw [hout j (by omega)]
      exact ok.all j hj1 hj2
  have hFull : Full idx' := by
    intro i hi
    rw [w1] at hi
    by_cases hc : nc.start ≤ i ∧ i < nc.stop
    · obtain ⟨p, _, _, _, hp3⟩ := hin i hc.1 hc.2
      exact ⟨p, hp3⟩
    · rw [hout i (by omega)]
      exact hF i hi
  have hNodup : VarsNodup idx' := by
    intro i c hc
    by_cases hi : nc.start ≤ i ∧ i < nc.stop
    · obtain ⟨p, hp, _, _, hp3⟩ := hin i hi.1 hi.2
      rw [hp3] at hc
      have : p = c := by simpa using hc
      subst this
      exact extract_nodup nc p2 p6 p hp
    · rw [hout i (by omega)] at hc
      exact hN i c hc
  refine ⟨hBlocks, hFull, hNodup, w1, ?_⟩
  intro t ht hdna
  have hlang := extractVaryingRegion_language nc t p2 (by omega)
  have h5 := p5 t ht hdna
  constructor
  · intro hacc
    have hnc : nc.seg t ∈ nc.variants := by
      rw [hlang]
      intro p hp
      have hpos := (hmore p hp).1
      exact hacc p.start p (w3 p hp p.start (Nat.le_refl _) hpos)
    obtain ⟨hR, hins⟩ := h5.1 hnc
    refine ⟨?_, hR⟩
    intro i c hc
    by_cases hi : nc.start ≤ i ∧ i < nc.stop
    · exact hins i c hi.1 hi.2 hc
    · exact hacc i c (by rw [hout i (by omega)]; exact hc)
  · rintro ⟨hacc, hR⟩
    have hnc : nc.seg t ∈ nc.variants := h5.2 ⟨hR, fun j c _ _ hc => hacc j c hc⟩
    intro i c hc
    by_cases hi : nc.start ≤ i ∧ i < nc.stop
    · obtain ⟨p, hp, _, _, hp3⟩ := hin i hi.1 hi.2
      rw [hp3] at hc
      have : p = c := by simpa using hc
      subst this
      exact (hlang.1 hnc) p hp
    · rw [hout i (by omega)] at hc
      exact hacc i c hc

end Dna.Fold

namespace Dna.Fold
open Dna Choice Merge Space Split

theorem contig_sorted' (a : Nat) (os : List Choice) (h : Contig a os) :
    os.Pairwise (fun x y => (decide (x.start ≤ y.start)) = true) := by
  induction os generalizing a with
  | nil => exact List.Pairwise.nil
  | cons o os ih =>
    obtain ⟨h1, h2, h3⟩ := h
    refine List.Pairwise.cons ?_ (ih o.stop h3)
    intro y hy
    have := (contig_ge o.stop os h3).2 y hy
    simp; omega

theorem stopOf_last (first : Choice) (rest : List Choice) :
    ∃ l, (first :: rest).getLast? = some l ∧ l ∈ first :: rest ∧ l.stop = stopOf first.start (first :: rest) := by
  induction rest generalizing first with
  | nil => exact ⟨first, rfl, by simp, rfl⟩
  | cons r rs ih =>
    obtain ⟨l, hl1, hl2, hl3⟩ := ih r
    refine ⟨l, by simpa [List.getLast?_cons_cons] using hl1, List.mem_cons_of_mem _ hl2, ?_⟩
    simp only [stopOf] at hl3 ⊢
    exact hl3

/-- `merge_with` on contiguous blocks: the merged choice spans the blocks and accepts exactly the compatible words -/
theorem mergeWith_spec (self : Choice) (first : Choice) (rest : List Choice)
    (hc : Contig first.start (first :: rest)) (h1 : first.start ≤ self.start) (h2 : self.start ≤ self.stop)
    (h3 : self.stop ≤ stopOf first.start (first :: rest))
    (hov : ∀ o ∈ first :: rest, ∀ v ∈ o.variants, v.length = o.stop - o.start) :
    ∃ m, self.mergeWith (first :: rest) = some m ∧ m.start = first.start ∧ m.stop = stopOf first.start (first :: rest) ∧
      m.anyNuc = false ∧ m.variants = mergeCore self first.start (first :: rest) ∧
      ∀ sq, sq ∈ m.variants ↔
        sq.length = m.stop - m.start ∧ sl sq (self.start - m.start) (self.stop - self.start) ∈ self.variants ∧
        ∀ o ∈ first :: rest, sl sq (o.start - m.start) (o.stop - o.start) ∈ o.variants := by
  have hsorted : (first :: rest).mergeSort (fun a b => decide (a.start ≤ b.start)) = first :: rest :=
    List.mergeSort_of_pairwise (contig_sorted' first.start _ hc)
  obtain ⟨l, hl1, _, hl2⟩ := stopOf_last first rest
  refine ⟨{ start := first.start, stop := l.stop, variants := mergeCore self first.start (first :: rest) }, ?_, rfl, hl2, rfl, rfl, ?_⟩
  · simp only [mergeWith, hsorted, List.head?_cons, hl1]
  · intro sq
    simp only
    rw [mergeCore_exact self first.start (first :: rest) sq hc h1 h2 h3 hov, hl2]

theorem seg_eq_sl (c : Choice) (t : Seq) : c.seg t = sl t c.start (c.stop - c.start) := rfl

theorem seg_single (t : Seq) (c : Choice) (h : c.stop = c.start + 1) (hl : c.start < t.length) :
    ∃ ch ∈ t, c.seg t = [ch] := by
  refine ⟨t[c.start], List.getElem_mem hl, ?_⟩
  simp only [Choice.seg, h, Nat.add_sub_cancel_left]
  rw [List.drop_eq_getElem_cons hl, List.take_succ_cons, List.take_zero]

/-- **one restriction of `from_optimization_problem`**: processing a restriction keeps the index made of whole blocks
    and cuts its language down by exactly the restriction -/
theorem applyRestriction_spec (idx : Idx) (r : Restriction) (idx' : Idx)
    (hB : Blocks idx) (hF : Full idx) (hN : VarsNodup idx) (h1 : r.start < r.stop) (h2 : r.stop ≤ idx.length)
    (hlen : ∀ v ∈ r.variants, v.length = r.stop - r.start)
    (h : applyRestriction idx r = .ok idx') :
    Blocks idx' ∧ Full idx' ∧ VarsNodup idx' ∧ idx'.length = idx.length ∧
    ∀ t : Seq, t.length = idx.length → (∀ ch ∈ t, ch ∈ DNA) →
      (Accepts idx' t ↔ Accepts idx t ∧ sl t r.start (r.stop - r.start) ∈ r.variants) := by
  obtain ⟨c0, rest, hc0, hU, hcon, hstop, hallU⟩ := under_runs idx hB hF (r.stop - r.start) r.start r.stop (Nat.le_refl _) h1 h2
  have ok0 := hB r.start c0 hc0
  have hunder : (idx.drop r.start).take (r.stop - r.start) = under idx r.start r.stop := rfl
  have hne : ((idx.drop r.start).take (r.stop - r.start)).isEmpty = false := by
    rw [hunder]
    have : (under idx r.start r.stop)[0]? = some (some c0) := by
      have hpos : 0 < r.stop - r.start := by omega
      rw [under_getElem?]; simp [hpos, hc0]
    cases hu : under idx r.start r.stop with
    | nil => rw [hu] at this; simp at this
    | cons x xs => rfl
  have hnone : ((idx.drop r.start).take (r.stop - r.start)).any (·.isNone) = false := by
    rw [hunder, List.any_eq_false]
    intro o ho
    obtain ⟨i, hi⟩ := List.getElem?_of_mem ho
    rw [under_getElem?] at hi
    split at hi
    · rename_i hlt
      obtain ⟨c, hc⟩ := hF (r.start + i) (by omega)
      rw [hc] at hi
      have : o = some c := by simpa using hi.symm
      simp [this]
    · cases hi
  -- blocks at positions of the restriction
  have hblock : ∀ j, r.start ≤ j → j < r.stop → ∀ c : Choice, idx[j]? = some (some c) → some c ∈ under idx r.start r.stop := by
    intro j hj1 hj2 c hc
    apply List.mem_of_getElem? (i := j - r.start)
    rw [under_getElem?]
    have : j - r.start < r.stop - r.start := by omega
    simp only [this, if_true]
    rw [← hc]; congr 1; omega
  unfold applyRestriction at h
  simp only [] at h
  split at h
  · cases h
  rename_i nc hnc
  have hidx0 : idx' = writeAll nc.extractVaryingRegion idx := by
    have : Except.ok (writeAll nc.extractVaryingRegion idx) = (Except.ok idx' : Except SpaceErr Idx) := h
    injection this with this; exact this.symm
  clear h
  rw [if_neg (by simp [hne]), if_neg (by simp [hnone])] at hnc
  split at hnc
  · -- every underlying choice is an "any nucleotide" choice: the restriction replaces them
    rename_i hany
    have h : nc = { start := r.start, stop := r.stop, variants := dedup r.variants } := by
      injection hnc with hnc; exact hnc.symm
    rw [hunder, List.all_eq_true] at hany
    have hidx' : idx' = writeAll (extractVaryingRegion { start := r.start, stop := r.stop, variants := dedup r.variants }) idx := by
      rw [hidx0, h]
    have hanyAt : ∀ j, r.start ≤ j → j < r.stop → ∀ c : Choice, idx[j]? = some (some c) → c.anyNuc = true := by
      intro j hj1 hj2 c hc
      have := hany (some c) (hblock j hj1 hj2 c hc)
      simpa using this
    have := writeBack_spec idx { start := r.start, stop := r.stop, variants := dedup r.variants }
      (fun t => sl t r.start (r.stop - r.start) ∈ r.variants) hB hF hN (dedup_nodup _) h1 h2
      (by intro v hv; exact hlen v ((mem_dedup' _ _).1 hv)) rfl
      (by
        intro j c hc
        have ok := hB j c hc
        simp only
        by_cases hint : c.start < r.stop ∧ r.start < c.stop
        · left
          have hpos : idx[max c.start r.start]? = some (some c) := ok.all _ (by omega) (by have := ok.lo; have := ok.hi; omega)
          have := (ok.any (hanyAt (max c.start r.start) (by omega) (by have := ok.lo; have := ok.hi; omega) c hpos)).1
          omega
        · right; have := ok.lo; have := ok.hi; omega)
      (by
        intro t ht hdna
        simp only [seg_eq_sl, mem_dedup']
        constructor
        · intro hr
          refine ⟨hr, ?_⟩
          intro j c hj1 hj2 hc
          have ok := hB j c hc
          obtain ⟨hs, hvars⟩ := ok.any (hanyAt j hj1 hj2 c hc)
          obtain ⟨ch, hch, hseg⟩ := seg_single t c hs (by have := ok.inb; omega)
          rw [← seg_eq_sl, hseg]
          exact hvars ch (hdna ch hch)
        · exact fun h => h.1)
    rw [← hidx'] at this
    exact this
  · -- some underlying choice is a real one: merge
    rename_i hany
    rw [hunder, hU] at hnc
    obtain ⟨m, hm, hms, hme, hmany, hmvar, hmv⟩ := mergeWith_spec { start := r.start, stop := r.stop, variants := dedup r.variants } c0 rest
      hcon ok0.lo (by simp only; omega) hstop (fun o ho => (hB o.start o (hallU o ho).1).len)
    rw [hm] at hnc
    have hncm : nc = m := by injection hnc with hnc; exact hnc.symm
    have hidx' : idx' = writeAll m.extractVaryingRegion idx := by rw [hidx0, hncm]
    have hm1 : m.start ≤ r.start := by have := ok0.lo; omega
    have hm2 : r.stop ≤ m.stop := by omega
    have hgeU := contig_ge c0.start (c0 :: rest) hcon
    obtain ⟨l, _, hlmem, hlstop⟩ := stopOf_last c0 rest
    have hstoplen : stopOf c0.start (c0 :: rest) ≤ idx.length := by
      rw [← hlstop]; exact (hB l.start l (hallU l hlmem).1).inb
    -- a block meeting the span is one of the merged blocks
    have hinU : ∀ (j : Nat) (c : Choice), idx[j]? = some (some c) → m.start ≤ j → j < m.stop → c ∈ c0 :: rest := by
      intro j c hc hj1 hj2
      obtain ⟨o, ho, ho1, ho2⟩ := contig_cover c0.start (c0 :: rest) hcon j (by omega) (by omega)
      have := (hB o.start o (hallU o ho).1).all j ho1 ho2
      rw [hc] at this
      have : c = o := by simpa using this
      rw [this]; exact ho
    have hmnd : m.variants.Nodup := by
      rw [hmvar]
      exact mergeCore_nodup _ _ _ (dedup_nodup _) (fun o ho => hN o.start o (hallU o ho).1)
        (fun o ho => (hB o.start o (hallU o ho).1).len)
    have := writeBack_spec idx m (fun t => sl t r.start (r.stop - r.start) ∈ r.variants) hB hF hN hmnd
      (by have := ok0.lo; omega) (by omega)
      (by intro v hv; exact ((hmv v).1 hv).1) hmany
      (by
        intro j c hc
        have ok := hB j c hc
        by_cases hint : c.start < m.stop ∧ m.start < c.stop
        · left
          have hpos : idx[max c.start m.start]? = some (some c) := ok.all _ (by omega) (by have := ok.lo; have := ok.hi; omega)
          have hmem := hinU (max c.start m.start) c hpos (by omega) (by have := ok.lo; have := ok.hi; omega)
          have := hgeU.2 c hmem
          omega
        · right; have := ok.lo; have := ok.hi; omega)
      (by
        intro t ht hdna
        rw [hmv (m.seg t)]
        have hlenseg : (m.seg t).length = m.stop - m.start := by
          simp only [Choice.seg, List.length_take, List.length_drop]; omega
        have hself : sl (m.seg t) (r.start - m.start) (r.stop - r.start) = sl t r.start (r.stop - r.start) := by
          rw [seg_eq_sl, sl_sl _ _ _ _ _ (by have := ok0.lo; omega)]
          congr 1; have := ok0.lo; omega
        have hoth : ∀ o ∈ c0 :: rest, sl (m.seg t) (o.start - m.start) (o.stop - o.start) = o.seg t := by
          intro o ho
          have := hgeU.2 o ho
          have hopos := (hB o.start o (hallU o ho).1).hi
          rw [seg_eq_sl, sl_sl _ _ _ _ _ (by omega), seg_eq_sl]
          congr 1; omega
        simp only [hself, mem_dedup']
        constructor
        · rintro ⟨_, hr, ho⟩
          refine ⟨hr, ?_⟩
          intro j c hj1 hj2 hc
          have hmem := hinU j c hc hj1 hj2
          rw [← hoth c hmem]; exact ho c hmem
        · rintro ⟨hr, hins⟩
          refine ⟨hlenseg, hr, ?_⟩
          intro o ho
          rw [hoth o ho]
          have := hgeU.2 o ho
          have hpos := (hB o.start o (hallU o ho).1)
          exact hins o.start o (by omega) (by have := hpos.hi; omega) (hallU o ho).1)
    rw [← hidx'] at this
    exact this

end Dna.Fold

namespace Dna.Fold
open Dna Choice Merge Space Split

/-- a restriction that lies inside a sequence of length `n`, with variants of its segment's length -/
def RestrOK (n : Nat) (r : Restriction) : Prop :=
  r.start < r.stop ∧ r.stop ≤ n ∧ ∀ v ∈ r.variants, v.length = r.stop - r.start

def Allowed (rs : List Restriction) (t : Seq) : Prop :=
  ∀ r ∈ rs, sl t r.start (r.stop - r.start) ∈ r.variants

theorem foldRestrictions_spec (rs : List Restriction) (idx idx' : Idx)
    (hB : Blocks idx) (hF : Full idx) (hN : VarsNodup idx) (hrs : ∀ r ∈ rs, RestrOK idx.length r)
    (h : foldRestrictions rs idx = .ok idx') :
    Blocks idx' ∧ Full idx' ∧ VarsNodup idx' ∧ idx'.length = idx.length ∧
    ∀ t : Seq, t.length = idx.length → (∀ ch ∈ t, ch ∈ DNA) → (Accepts idx' t ↔ Accepts idx t ∧ Allowed rs t) := by
  induction rs generalizing idx with
  | nil =>
    simp only [foldRestrictions, Except.ok.injEq] at h
    subst h
    exact ⟨hB, hF, hN, rfl, fun t _ _ => by simp [Allowed]⟩
  | cons r rs ih =>
    simp only [foldRestrictions] at h
    split at h
    · cases h
    · rename_i idx1 h1
      obtain ⟨r1, r2, r3⟩ := hrs r (by simp)
      obtain ⟨b1, f1, n1, l1, a1⟩ := applyRestriction_spec idx r idx1 hB hF hN r1 r2 r3 h1
      obtain ⟨b2, f2, n2, l2, a2⟩ := ih idx1 b1 f1 n1 (fun q hq => by rw [l1]; exact hrs q (by simp [hq])) h
      refine ⟨b2, f2, n2, by rw [l2, l1], ?_⟩
      intro t ht hdna
      rw [a2 t (by rw [l1]; exact ht) hdna, a1 t ht hdna]
      simp only [Allowed, List.mem_cons, forall_eq_or_imp]
      tauto

theorem optAll_eq_some {α : Type} (l : List (Option α)) (r : List α) (h : optAll l = some r) : l = r.map some := by
  induction l generalizing r with
  | nil => simp only [optAll, Option.some.injEq] at h; subst h; rfl
  | cons o l ih =>
    cases o with
    | none => simp [optAll] at h
    | some a =>
      simp only [optAll, Option.map_eq_some_iff] at h
      obtain ⟨r', hr', rfl⟩ := h
      rw [ih r' hr']; rfl

theorem lookup_anyNuc (c : Char) (vs : List Char) (h : lookup c Gen.anyNucleotideVariants = some vs) :
    vs.Nodup ∧ ∀ ch ∈ DNA, ch ∈ vs := by
  simp only [Gen.anyNucleotideVariants, lookup] at h
  repeat' split at h
  all_goals (cases h <;> (refine ⟨by decide, ?_⟩; intro ch hch; simp [DNA] at hch ⊢; tauto))

theorem initialIndex_entry (s : Seq) (idx : Idx) (h : initialIndex s = some idx) (i : Nat) (hi : i < s.length) :
    ∃ vs, lookup s[i] Gen.anyNucleotideVariants = some vs ∧
      idx[i]? = some (some { start := i, stop := i + 1, variants := vs.map (fun x => [x]), anyNuc := true }) := by
  have hmap := optAll_eq_some _ _ h
  have h1 := congrArg (fun l => l[i]?) hmap
  simp only [List.getElem?_map, List.getElem?_range hi, Option.map_some] at h1
  rw [List.getElem?_eq_getElem hi] at h1
  simp only [] at h1
  cases hl : lookup s[i] Gen.anyNucleotideVariants with
  | none =>
    rw [hl] at h1
    cases hx : idx[i]? with
    | none => rw [hx] at h1; simp at h1
    | some x => rw [hx] at h1; simp at h1
  | some vs =>
    rw [hl] at h1
    refine ⟨vs, rfl, ?_⟩
    cases hx : idx[i]? with
    | none => rw [hx] at h1; simp at h1
    | some x =>
      rw [hx] at h1
      simp only [Option.map_some, Option.some.injEq] at h1
      rw [← h1]

theorem initialIndex_spec (s : Seq) (idx : Idx) (h : initialIndex s = some idx) :
    Blocks idx ∧ Full idx ∧ VarsNodup idx ∧ idx.length = s.length ∧ ∀ t : Seq, t.length = s.length → (∀ ch ∈ t, ch ∈ DNA) → Accepts idx t := by
  have hmap := optAll_eq_some _ _ h
  have hlen : idx.length = s.length := by
    have := congrArg List.length hmap
    simpa using this.symm
  have hget : ∀ (i : Nat) (c : Choice), idx[i]? = some (some c) →
      i < s.length ∧ c.start = i ∧ c.stop = i + 1 ∧ c.anyNuc = true ∧ ∃ vs : List Char, c.variants = vs.map (fun x => [x]) ∧ vs.Nodup ∧ ∀ ch ∈ DNA, ch ∈ vs := by
    intro i c hc
    have hi : i < s.length := by
      rw [← hlen]
      by_contra hcon
      rw [List.getElem?_eq_none (by omega)] at hc; cases hc
    obtain ⟨vs, hvs1, hvs2⟩ := initialIndex_entry s idx h i hi
    rw [hc] at hvs2
    have : c = { start := i, stop := i + 1, variants := vs.map (fun x => [x]), anyNuc := true } := by
      simpa using hvs2
    subst this
    exact ⟨hi, rfl, rfl, rfl, vs, rfl, (lookup_anyNuc _ _ hvs1).1, (lookup_anyNuc _ _ hvs1).2⟩
  refine ⟨?_, ?_, ?_, hlen, ?_⟩
  · intro i c hc
    obtain ⟨hi, e1, e2, e3, vs, e4, _, e5⟩ := hget i c hc
    refine ⟨by omega, by omega, by omega, ?_, ?_, ?_⟩
    · intro j hj1 hj2
      have : j = i := by omega
      rw [this]; exact hc
    · intro v hv
      rw [e4] at hv
      simp only [List.mem_map] at hv
      obtain ⟨x, _, rfl⟩ := hv
      simp; omega
    · intro _
      refine ⟨by omega, ?_⟩
      intro ch hch
      rw [e4]; simp only [List.mem_map]
      exact ⟨ch, e5 ch hch, rfl⟩
  · intro i hi
    obtain ⟨vs, _, hvs2⟩ := initialIndex_entry s idx h i (by omega)
    exact ⟨_, hvs2⟩
  · intro i c hc
    obtain ⟨hi, e1, e2, e3, vs, e4, e4', e5⟩ := hget i c hc
    rw [e4]
    exact e4'.map (fun x y hxy => by simpa using hxy)
  · intro t ht hdna i c hc
    obtain ⟨hi, e1, e2, e3, vs, e4, _, e5⟩ := hget i c hc
    obtain ⟨ch, hch, hseg⟩ := seg_single t c (by omega) (by omega)
    rw [hseg, e4]
    simp only [List.mem_map]
    exact ⟨ch, e5 ch (hdna ch hch), rfl⟩

/-- **`MutationSpace.from_optimization_problem` is exact**: for restrictions that lie inside the sequence, a DNA word
    of the sequence's length holds one variant of every choice of the constructed space if and only if it satisfies
    every restriction — whatever the order and the overlaps of the restrictions -/
theorem fromRestrictions_exact (s : Seq) (rs : List Restriction) (sp : Space)
    (hrs : ∀ r ∈ rs, RestrOK s.length r) (h : fromRestrictions s rs = .ok sp) :
    sp.index.length = s.length ∧ Blocks sp.index ∧ Full sp.index ∧ VarsNodup sp.index ∧
    ∀ t : Seq, t.length = s.length → (∀ ch ∈ t, ch ∈ DNA) → (Accepts sp.index t ↔ Allowed rs t) := by
  simp only [fromRestrictions] at h
  split at h
  · cases h
  rename_i idx0 h0
  obtain ⟨b0, f0, n0, l0, a0⟩ := initialIndex_spec s idx0 h0
  split at h
  · cases h
  rename_i idx1 h1
  have hsp : sp = ofIndex idx1 := by injection h with h; exact h.symm
  have hperm : ∀ r, r ∈ rs.mergeSort restrictionLe ↔ r ∈ rs := fun r => List.mem_mergeSort
  obtain ⟨b1, f1, n1, l1, a1⟩ := foldRestrictions_spec _ idx0 idx1 b0 f0 n0
    (fun r hr => by rw [l0]; exact hrs r ((hperm r).1 hr)) h1
  have hidx : sp.index = idx1 := by rw [hsp]; simp [ofIndex]
  rw [hidx]
  refine ⟨by rw [l1, l0], b1, f1, n1, ?_⟩
  intro t ht hdna
  rw [a1 t (by rw [l0]; exact ht) hdna]
  constructor
  · rintro ⟨_, hall⟩ r hr
    exact hall r ((hperm r).2 hr)
  · intro hall
    exact ⟨a0 t ht hdna, fun r hr => hall r ((hperm r).1 hr)⟩

end Dna.Fold

namespace Dna.Fold
open Dna Choice Merge Space

theorem dc_replicate_same (c : Choice) (k : Nat) (L : Idx) :
    dedupConsecutive (List.replicate k (some c) ++ L) (some c) = dedupConsecutive L (some c) := by
  induction k with
  | zero => rfl
  | succ k ih =>
    rw [List.replicate_succ, List.cons_append, dedupConsecutive]
    simp [ih]

theorem dc_block (c : Choice) (k : Nat) (L : Idx) (last : Option Choice) (h : last ≠ some c) :
    dedupConsecutive (List.replicate (k + 1) (some c) ++ L) last = c :: dedupConsecutive L (some c) := by
  rw [List.replicate_succ, List.cons_append, dedupConsecutive]
  have : (last == some c) = false := by simpa using h
  simp only [this, Bool.false_eq_true, if_false]
  rw [dc_replicate_same]

theorem drop_split (idx : Idx) (a e : Nat) (h : a ≤ e) : idx.drop a = under idx a e ++ idx.drop e := by
  simp only [under]
  have : idx.drop e = (idx.drop a).drop (e - a) := by rw [List.drop_drop]; congr 1; omega
  rw [this, List.take_append_drop]

/-- the choices list of an index tiled by whole blocks, read from a block boundary on -/
theorem dc_tiles (idx : Idx) (hB : Blocks idx) (hF : Full idx) :
    ∀ (k a : Nat) (last : Option Choice), idx.length - a ≤ k → a ≤ idx.length →
      (∀ c : Choice, idx[a]? = some (some c) → c.start = a ∧ last ≠ some c) →
      Contig a (dedupConsecutive (idx.drop a) last) ∧ stopOf a (dedupConsecutive (idx.drop a) last) = idx.length ∧
      ∀ c ∈ dedupConsecutive (idx.drop a) last, ∃ i : Nat, idx[i]? = some (some c) := by
  intro k
  induction k with
  | zero =>
    intro a last hk ha _
    have : a = idx.length := by omega
    subst this
    simp [dedupConsecutive, Contig, stopOf]
  | succ k ih =>
    intro a last hk ha hbd
    by_cases hend : a = idx.length
    · subst hend
      simp [dedupConsecutive, Contig, stopOf]
    · have halt : a < idx.length := by omega
      obtain ⟨c, hc⟩ := hF a halt
      obtain ⟨hcs, hlast⟩ := hbd c hc
      have ok := hB a c hc
      obtain ⟨m, hm⟩ : ∃ m, c.stop - a = m + 1 := ⟨c.stop - a - 1, by have := ok.hi; omega⟩
      have hsplit : idx.drop a = List.replicate (m + 1) (some c) ++ idx.drop c.stop := by
        rw [drop_split idx a c.stop (by have := ok.hi; omega), under_const idx c a c.stop ok.all ok.lo (Nat.le_refl _), hm]
      rw [hsplit, dc_block c m _ last hlast]
      have hnext : ∀ c' : Choice, idx[c.stop]? = some (some c') → c'.start = c.stop ∧ (some c : Option Choice) ≠ some c' := by
        intro c' hc'
        have ok' := hB c.stop c' hc'
        have hne : c' ≠ c := by intro h; have := ok'.hi; rw [h] at this; omega
        refine ⟨?_, fun h => hne (by injection h with h; exact h.symm)⟩
        by_contra hneq
        have hlt : c'.start < c.stop := by have := ok'.lo; omega
        have hpos : c.start < c.stop := by have := ok.lo; have := ok.hi; omega
        have e1 := ok'.all (c.stop - 1) (by omega) (by have := ok'.hi; omega)
        have e0 := ok.all (c.stop - 1) (by omega) (by omega)
        rw [e0] at e1
        exact hne (by simpa using e1.symm)
      obtain ⟨i1, i2, i3⟩ := ih c.stop (some c) (by have := ok.hi; omega) ok.inb hnext
      refine ⟨⟨hcs, by have := ok.lo; have := ok.hi; omega, i1⟩, by simpa [stopOf] using i2, ?_⟩
      intro x hx
      rcases List.mem_cons.1 hx with rfl | hx
      · exact ⟨a, hc⟩
      · exact i3 x hx

/-- **the choices of a tiled index tile the sequence**: contiguous from 0 to the length, each a non-empty segment with
    variants of the segment's length -/
theorem choicesList_tiles (sp : Space) (hB : Blocks sp.index) (hF : Full sp.index) :
    Contig 0 sp.choicesList ∧ stopOf 0 sp.choicesList = sp.index.length ∧
    ∀ c ∈ sp.choicesList, c.start < c.stop ∧ c.stop ≤ sp.index.length ∧ ∀ v ∈ c.variants, v.length = c.stop - c.start := by
  obtain ⟨h1, h2, h3⟩ := dc_tiles sp.index hB hF sp.index.length 0 none (by omega) (by omega)
    (fun c hc => ⟨by have := (hB 0 c hc).lo; omega, by simp⟩)
  simp only [List.drop_zero] at h1 h2 h3
  refine ⟨h1, h2, ?_⟩
  intro c hc
  obtain ⟨i, hi⟩ := h3 c hc
  have ok := hB i c hi
  exact ⟨by have := ok.lo; have := ok.hi; omega, ok.inb, ok.len⟩

end Dna.Fold
