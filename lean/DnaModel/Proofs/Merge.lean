import DnaModel.Model.Space
import DnaModel.Proofs.Cart
import Mathlib.Data.List.Forall2
set_option linter.unusedVariables false
set_option linter.unusedSimpArgs false
namespace Dna.Merge
open Dna Choice

/-- `s[a : a + n]` -/
def sl (s : Seq) (a n : Nat) : Seq := (s.drop a).take n

theorem sl_sl (s : Seq) (a n b m : Nat) (h : b + m ≤ n) : sl (sl s a n) b m = sl s (a + b) m := by
  simp only [sl, List.drop_take, List.drop_drop, List.take_take]
  congr 1
  omega

/-- `others` are contiguous from position `a`: each starts where the previous one stops -/
def Contig : Nat → List Choice → Prop
  | _, [] => True
  | a, o :: os => o.start = a ∧ o.start ≤ o.stop ∧ Contig o.stop os

def stopOf : Nat → List Choice → Nat
  | a, [] => a
  | _, o :: os => stopOf o.stop os

theorem contig_ge (a : Nat) (os : List Choice) (h : Contig a os) : a ≤ stopOf a os ∧ ∀ o ∈ os, a ≤ o.start ∧ o.stop ≤ stopOf a os := by
  induction os generalizing a with
  | nil => simp [stopOf]
  | cons o os ih =>
    obtain ⟨h1, h2, h3⟩ := h
    obtain ⟨i1, i2⟩ := ih o.stop h3
    refine ⟨by simp only [stopOf]; omega, ?_⟩
    intro x hx
    rcases List.mem_cons.1 hx with rfl | hx
    · exact ⟨by omega, by simpa [stopOf] using i1⟩
    · have := i2 x hx
      simp only [stopOf]; omega

/-- pieces of the right lengths, concatenated after a prefix, are found back at their offsets -/
theorem pieces_slices (a0 a : Nat) (os : List Choice) (pieces : List Seq) (pre : Seq)
    (hc : Contig a os) (hpre : pre.length = a - a0) (ha : a0 ≤ a)
    (hl : List.Forall₂ (fun p o => p.length = o.stop - o.start) pieces os) :
    List.Forall₂ (fun p o => sl (pre ++ pieces.flatten) (o.start - a0) (o.stop - o.start) = p) pieces os := by
  induction hl generalizing a pre with
  | nil => exact List.Forall₂.nil
  | @cons p o ps os' hp _ ih =>
    obtain ⟨h1, h2, h3⟩ := hc
    refine List.Forall₂.cons ?_ ?_
    · simp only [sl, List.flatten_cons]
      rw [List.drop_append_of_le_length (by omega)]
      have : o.start - a0 = pre.length := by omega
      rw [this, List.drop_length, List.nil_append, List.take_append_of_le_length (by omega), ← hp, List.take_length]
    · have := ih o.stop (pre ++ p) h3 (by simp; omega) (by omega)
      simpa [List.flatten_cons, List.append_assoc] using this

theorem flatten_length_contig (a : Nat) (os : List Choice) (pieces : List Seq) (hc : Contig a os)
    (hl : List.Forall₂ (fun p o => p.length = o.stop - o.start) pieces os) : pieces.flatten.length = stopOf a os - a := by
  induction hl generalizing a with
  | nil => simp [stopOf]
  | @cons p o ps os' hp _ ih =>
    obtain ⟨h1, h2, h3⟩ := hc
    have := ih o.stop h3
    have hge := (contig_ge o.stop os' h3).1
    simp only [List.flatten_cons, List.length_append, stopOf, this, hp]
    omega

/-- conversely, cutting a word of the total length at the offsets gives pieces whose concatenation is the word -/
theorem cut_flatten (a0 a : Nat) (os : List Choice) (w : Seq) (hc : Contig a os) (ha : a0 ≤ a)
    (hw : w.length = stopOf a os - a0) :
    (w.take (a - a0)) ++ (os.map (fun o => sl w (o.start - a0) (o.stop - o.start))).flatten = w := by
  induction os generalizing a with
  | nil =>
    simp only [List.map_nil, List.flatten_nil, List.append_nil, stopOf] at hw ⊢
    rw [List.take_of_length_le (by omega)]
  | cons o os ih =>
    obtain ⟨h1, h2, h3⟩ := hc
    have := ih o.stop h3 (by omega) (by simpa [stopOf] using hw)
    simp only [List.map_cons, List.flatten_cons]
    rw [← List.append_assoc]
    have hcat : w.take (a - a0) ++ sl w (o.start - a0) (o.stop - o.start) = w.take (o.stop - a0) := by
      simp only [sl]
      have e1 : o.start - a0 = a - a0 := by omega
      rw [e1]
      have e2 : o.stop - a0 = (a - a0) + (o.stop - o.start) := by omega
      rw [e2, List.take_add]
    rw [hcat]
    exact this

theorem mem_mergeCore (self : Choice) (ostart : Nat) (others : List Choice) (sq : Seq) :
    sq ∈ mergeCore self ostart others ↔
      ∃ cand ∈ self.variants, ∃ subseqs : List Seq,
        List.Forall₂ (fun p o => p ∈ compatSlot self cand o) subseqs others ∧ subseqs.flatten = sq ∧
        sl sq (self.start - ostart) (self.stop - self.start) = cand := by
  simp only [mergeCore, List.mem_flatMap, List.mem_filterMap, Cart.mem_cartesian, List.forall₂_map_right_iff]
  constructor
  · rintro ⟨cand, hc, subseqs, hf, hs⟩
    split at hs
    · rename_i heq
      simp only [Option.some.injEq] at hs
      exact ⟨cand, hc, subseqs, hf, hs, by rw [← hs]; simpa [sl] using heq⟩
    · simp at hs
  · rintro ⟨cand, hc, subseqs, hf, hs, hw⟩
    refine ⟨cand, hc, subseqs, hf, ?_⟩
    have : ((subseqs.flatten.drop (self.start - ostart)).take (self.stop - self.start) == cand) = true := by
      rw [hs]; simpa [sl] using hw
    rw [if_pos this, hs]

theorem forall₂_mem_of_eq {α β : Type} (R : α → β → Prop) (P : β → α → Prop) (xs : List α) (ys : List β)
    (h1 : List.Forall₂ R xs ys) (h2 : ∀ x y, R x y → P y x) : ∀ y ∈ ys, ∃ x, R x y ∧ P y x := by
  induction h1 with
  | nil => simp
  | cons hxy _ ih =>
    intro y hy
    rcases List.mem_cons.1 hy with rfl | hy
    · exact ⟨_, hxy, h2 _ _ hxy⟩
    · exact ih y hy

theorem lengths_of_mem (others : List Choice) (subseqs : List Seq)
    (hov : ∀ o ∈ others, ∀ v ∈ o.variants, v.length = o.stop - o.start)
    (hmem : List.Forall₂ (fun p o => p ∈ o.variants) subseqs others) :
    List.Forall₂ (fun p o => p.length = o.stop - o.start) subseqs others := by
  induction hmem with
  | nil => exact List.Forall₂.nil
  | @cons p o ps os hp _ ih =>
    exact List.Forall₂.cons (hov o (by simp) p hp) (ih (fun o' ho' => hov o' (by simp [ho'])))

theorem forall₂_combine {α β : Type} (R S : α → β → Prop) (xs : List α) (ys : List β)
    (h1 : List.Forall₂ R xs ys) (h2 : List.Forall₂ S xs ys) : List.Forall₂ (fun x y => R x y ∧ S x y) xs ys := by
  induction h1 with
  | nil => cases h2; exact List.Forall₂.nil
  | cons hr _ ih => cases h2 with | cons hs hrest => exact List.Forall₂.cons ⟨hr, hs⟩ (ih hrest)

theorem forall₂_right {α β : Type} (R : α → β → Prop) (P : β → Prop) (xs : List α) (ys : List β)
    (h : List.Forall₂ R xs ys) (hp : ∀ x y, R x y → P y) : ∀ y ∈ ys, P y := by
  induction h with
  | nil => simp
  | cons hxy _ ih =>
    intro y hy
    rcases List.mem_cons.1 hy with rfl | hy
    · exact hp _ _ hxy
    · exact ih y hy

theorem forall₂_map_left_of {β : Type} (f : β → Seq) (R : Seq → β → Prop) (ys : List β) (h : ∀ y ∈ ys, R (f y) y) :
    List.Forall₂ R (ys.map f) ys := by
  induction ys with
  | nil => exact List.Forall₂.nil
  | cons y ys ih => exact List.Forall₂.cons (h y (by simp)) (ih (fun z hz => h z (by simp [hz])))

/-- **`merge_with` is exact**: when the other choices tile a span contiguously and `self` lies inside that span, the
    merged choice's variants are exactly the words of the span whose `self` window is a variant of `self` and whose
    window on every other choice is a variant of that choice -/
theorem mergeCore_exact (self : Choice) (ostart : Nat) (others : List Choice) (sq : Seq)
    (hc : Contig ostart others) (h1 : ostart ≤ self.start) (h2 : self.start ≤ self.stop) (h3 : self.stop ≤ stopOf ostart others)
    (hov : ∀ o ∈ others, ∀ v ∈ o.variants, v.length = o.stop - o.start) :
    sq ∈ mergeCore self ostart others ↔
      sq.length = stopOf ostart others - ostart ∧
      sl sq (self.start - ostart) (self.stop - self.start) ∈ self.variants ∧
      ∀ o ∈ others, sl sq (o.start - ostart) (o.stop - o.start) ∈ o.variants := by
  rw [mem_mergeCore]
  constructor
  · rintro ⟨cand, hcand, subseqs, hf, hs, hw⟩
    have hmem : List.Forall₂ (fun p o => p ∈ o.variants) subseqs others :=
      hf.imp (fun p o hp => (List.mem_filter.1 hp).1)
    have hlen := lengths_of_mem others subseqs hov hmem
    have hsl := pieces_slices ostart ostart others subseqs [] hc (by simp) (Nat.le_refl _) hlen
    simp only [List.nil_append, hs] at hsl
    refine ⟨?_, by rw [hw]; exact hcand, ?_⟩
    · rw [← hs]; exact flatten_length_contig ostart others subseqs hc hlen
    · exact forall₂_right _ (fun o => sl sq (o.start - ostart) (o.stop - o.start) ∈ o.variants) subseqs others
        (forall₂_combine _ _ _ _ hsl hmem) (fun p o h => by rw [h.1]; exact h.2)
  · rintro ⟨hlen, hself, hoth⟩
    refine ⟨_, hself, others.map (fun o => sl sq (o.start - ostart) (o.stop - o.start)), ?_, ?_, rfl⟩
    · apply forall₂_map_left_of
      intro o ho
      simp only [compatSlot, List.mem_filter, beq_iff_eq]
      refine ⟨hoth o ho, ?_⟩
      obtain ⟨hge, hall⟩ := contig_ge ostart others hc
      obtain ⟨ho1, ho2⟩ := hall o ho
      simp only [overlapSlice]
      by_cases hcase : max o.start self.start ≤ min o.stop self.stop
      · have e1 := sl_sl sq (o.start - ostart) (o.stop - o.start) (max o.start self.start - o.start)
          (min o.stop self.stop - max o.start self.start) (by omega)
        have e2 := sl_sl sq (self.start - ostart) (self.stop - self.start) (max o.start self.start - self.start)
          (min o.stop self.stop - max o.start self.start) (by omega)
        simp only [sl] at e1 e2 ⊢
        rw [e1, e2]
        congr 2
        omega
      · have : min o.stop self.stop - max o.start self.start = 0 := by omega
        simp [this]
    · have := cut_flatten ostart ostart others sq hc (Nat.le_refl _) hlen
      simpa using this

end Dna.Merge
