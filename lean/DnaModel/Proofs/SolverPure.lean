/-
Lemmas about the solver model for *pure, total* specifications: `evaluate` is a function `ev` of
(object, sequence), independent of the call index, and never raises.
-/
import DnaModel.Model.Solver
set_option linter.unusedVariables false
set_option linter.unusedSimpArgs false
set_option linter.unusedSectionVars false
namespace Dna.Pure
open Dna Solver
variable {σ K : Type} [BEq σ] [Score K]

/-- `evaluate` is the pure total function `ev` -/
def PureEval (ops : SpecOps σ K) (ev : σ → Seq → Eval K) : Prop :=
  ∀ c s k, ops.evaluate c s k = .ok (ev c s)

/-- the parts of the state an observer can see -/
def SameObs (st st' : St σ K) : Prop := st'.tape = st.tape ∧ st'.trace = st.trace ∧ st'.shared = st.shared

theorem SameObs.rfl' (st : St σ K) : SameObs st st := ⟨rfl, rfl, rfl⟩
theorem SameObs.trans' {a b c : St σ K} (h1 : SameObs a b) (h2 : SameObs b c) : SameObs a c :=
  ⟨h2.1.trans h1.1, h2.2.1.trans h1.2.1, h2.2.2.trans h1.2.2⟩

theorem evalAt_pure (ops : SpecOps σ K) (ev) (hp : PureEval ops ev) (c : σ) (s : Seq) (st : St σ K) :
    evalAt ops c s st = (.ok (ev c s), { st with nEval := st.nEval + 1 }) := by
  simp [evalAt, hp c s st.nEval, liftFault]

theorem allPass_pure (ops : SpecOps σ K) (ev) (hp : PureEval ops ev) (s : Seq) (cs : List σ) (st : St σ K) :
    ∃ st', allPass ops s cs st = (.ok (cs.all (fun c => (ev c s).passes)), st') ∧ SameObs st st' := by
  induction cs generalizing st with
  | nil => exact ⟨st, rfl, SameObs.rfl' st⟩
  | cons c cs ih =>
    simp only [allPass, evalAt_pure ops ev hp, List.all_cons]
    cases hc : (ev c s).passes with
    | false => exact ⟨{ st with nEval := st.nEval + 1 }, by simp, rfl, rfl, rfl⟩
    | true =>
      obtain ⟨st', h1, h2⟩ := ih { st with nEval := st.nEval + 1 }
      exact ⟨st', by simp [h1], h2.1, h2.2.1, h2.2.2⟩

/-- `all_constraints_pass()` (autopass) as a predicate on sequences -/
def feasible (ops : SpecOps σ K) (ev : σ → Seq → Eval K) (F : Frame σ) (s : Seq) : Bool :=
  (F.constraints.filter (fun c => !ops.enforced c)).all (fun c => (ev c s).passes)

theorem allConstraintsPass_pure (ops : SpecOps σ K) (ev) (hp : PureEval ops ev) (F : Frame σ) (s : Seq) (st : St σ K) :
    ∃ st', allConstraintsPass ops F s st = (.ok (feasible ops ev F s), st') ∧ SameObs st st' := by
  simp only [allConstraintsPass, feasible, Bool.not_true, Bool.false_or]
  exact allPass_pure ops ev hp s _ st

/-- boost-weighted total, as `scores_sum` computes it (left fold from `acc`) -/
def totalFrom (ops : SpecOps σ K) (ev : σ → Seq → Eval K) (s : Seq) (os : List σ) (acc : K) : K :=
  os.foldl (fun a o => Score.add a (Score.mul (ops.boost o) (ev o s).score)) acc

def total (ops : SpecOps σ K) (ev : σ → Seq → Eval K) (F : Frame σ) (s : Seq) : K :=
  totalFrom ops ev s F.objectives Score.zero

theorem scoresSum_pure (ops : SpecOps σ K) (ev) (hp : PureEval ops ev) (s : Seq) (os : List σ) (acc : K) (st : St σ K) :
    ∃ st', scoresSum ops s os acc st = (.ok (totalFrom ops ev s os acc), st') ∧ SameObs st st' := by
  induction os generalizing acc st with
  | nil => exact ⟨st, rfl, SameObs.rfl' st⟩
  | cons o os ih =>
    simp only [scoresSum, evalAt_pure ops ev hp, totalFrom, List.foldl_cons]
    obtain ⟨st', h1, h2⟩ := ih (Score.add acc (Score.mul (ops.boost o) (ev o s).score)) { st with nEval := st.nEval + 1 }
    exact ⟨st', h1, h2.1, h2.2.1, h2.2.2⟩

theorem objectiveScoresSum_pure (ops : SpecOps σ K) (ev) (hp : PureEval ops ev) (F : Frame σ) (s : Seq) (st : St σ K) :
    ∃ st', objectiveScoresSum ops F s st = (.ok (total ops ev F s), st') ∧ SameObs st st' :=
  scoresSum_pure ops ev hp s F.objectives Score.zero st

theorem constraintsEvaluations_pure (ops : SpecOps σ K) (ev) (hp : PureEval ops ev) (s : Seq) (cs : List σ) (st : St σ K) :
    ∃ r st', constraintsEvaluations ops s cs st = (.ok r, st') ∧ SameObs st st' := by
  induction cs generalizing st with
  | nil => exact ⟨[], st, rfl, SameObs.rfl' st⟩
  | cons c cs ih =>
    simp only [constraintsEvaluations]
    split
    · obtain ⟨r, st', h1, h2⟩ := ih st
      exact ⟨none :: r, st', by simp [h1], h2⟩
    · simp only [evalAt_pure ops ev hp]
      obtain ⟨r, st', h1, h2⟩ := ih { st with nEval := st.nEval + 1 }
      exact ⟨some (ev c s) :: r, st', by simp [h1], h2.1, h2.2.1, h2.2.2⟩

/-- the order laws the solver relies on -/
class LawfulScore (K : Type) [Score K] : Prop where
  lt_irrefl : ∀ a : K, Score.lt a a = false
  lt_trans : ∀ a b c : K, Score.lt a b = true → Score.lt b c = true → Score.lt a c = true
  le_iff_not_lt : ∀ a b : K, Score.le a b = true ↔ Score.lt b a = false
  /-- `a < b ≤ c → a < c` -/
  lt_of_lt_of_not_lt : ∀ a b c : K, Score.lt a b = true → Score.lt c b = false → Score.lt a c = true

instance : LawfulScore Int where
  lt_irrefl a := by simp [Score.lt]
  lt_trans a b c h1 h2 := by simp only [Score.lt, decide_eq_true_eq] at *; omega
  le_iff_not_lt a b := by simp only [Score.le, Score.lt, decide_eq_true_eq, decide_eq_false_iff_not]; omega
  lt_of_lt_of_not_lt a b c h1 h2 := by
    simp only [Score.lt, decide_eq_true_eq, decide_eq_false_iff_not] at *; omega

end Dna.Pure
