/-
Lemmas on `splice` (bytearray slice assignment) and folds of disjoint splices.
-/
import DnaModel.Model.Space

namespace Dna.Splice
open Dna

theorem splice_length (s : Seq) (st : Nat) (v : Seq) (h : st + v.length ≤ s.length) :
    (splice s st v).length = s.length := by
  simp only [splice, List.length_append, List.length_take, List.length_drop]; omega

theorem splice_getElem? (s : Seq) (st : Nat) (v : Seq) (h : st + v.length ≤ s.length) (i : Nat) :
    (splice s st v)[i]? = if st ≤ i ∧ i < st + v.length then v[i - st]? else s[i]? := by
  simp only [splice]
  by_cases h1 : i < st
  · have : ¬ (st ≤ i ∧ i < st + v.length) := by omega
    rw [if_neg this, List.append_assoc, List.getElem?_append_left (by simp; omega)]
    simp [List.getElem?_take, h1]
  · by_cases h2 : i < st + v.length
    · have : st ≤ i ∧ i < st + v.length := by omega
      rw [if_pos this, List.append_assoc, List.getElem?_append_right (by simp; omega)]
      have hl : (List.take st s).length = st := by simp; omega
      rw [hl, List.getElem?_append_left (by omega)]
    · have : ¬ (st ≤ i ∧ i < st + v.length) := by omega
      rw [if_neg this, List.getElem?_append_right (by simp; omega)]
      have hl : (List.take st s ++ v).length = st + v.length := by simp; omega
      rw [hl, List.getElem?_drop]
      congr 1; omega

/-- applying a list of (start, value) splices in order -/
def applyMuts (s : Seq) (muts : List (Nat × Seq)) : Seq :=
  muts.foldl (fun acc m => splice acc m.1 m.2) s

/-- the splices fit in the sequence and are pairwise disjoint, in increasing order -/
def Fits (n : Nat) : List (Nat × Seq) → Prop
  | [] => True
  | m :: rest => m.1 + m.2.length ≤ n ∧ (∀ r ∈ rest, m.1 + m.2.length ≤ r.1) ∧ Fits n rest

theorem applyMuts_length (s : Seq) (muts : List (Nat × Seq)) (h : Fits s.length muts) :
    (applyMuts s muts).length = s.length := by
  induction muts generalizing s with
  | nil => rfl
  | cons m rest ih =>
    simp only [applyMuts, List.foldl_cons]
    have hl := splice_length s m.1 m.2 h.1
    have := ih (splice s m.1 m.2) (by rw [hl]; exact h.2.2)
    simp only [applyMuts] at this
    rw [this, hl]

/-- reading back: inside the j-th range we see the j-th value, elsewhere the original -/
theorem applyMuts_getElem? (s : Seq) (muts : List (Nat × Seq)) (h : Fits s.length muts) (i : Nat) :
    (applyMuts s muts)[i]? =
      match muts.find? (fun m => decide (m.1 ≤ i ∧ i < m.1 + m.2.length)) with
      | some m => m.2[i - m.1]?
      | none => s[i]? := by
  induction muts generalizing s with
  | nil => simp [applyMuts]
  | cons m rest ih =>
    simp only [applyMuts, List.foldl_cons]
    have hl := splice_length s m.1 m.2 h.1
    have := ih (splice s m.1 m.2) (by rw [hl]; exact h.2.2)
    simp only [applyMuts] at this
    rw [this]
    simp only [List.find?_cons]
    by_cases hin : m.1 ≤ i ∧ i < m.1 + m.2.length
    · simp only [hin, and_self, decide_true]
      -- no later mutation covers i
      have hnone : rest.find? (fun m => decide (m.1 ≤ i ∧ i < m.1 + m.2.length)) = none := by
        rw [List.find?_eq_none]
        intro r hr
        have := h.2.1 r hr
        simp only [decide_eq_true_eq]; omega
      rw [hnone, splice_getElem? s m.1 m.2 h.1, if_pos hin]
    · simp only [hin, decide_false, Bool.false_eq_true, if_false]
      cases hf : rest.find? (fun m => decide (m.1 ≤ i ∧ i < m.1 + m.2.length)) with
      | some r => rfl
      | none => simp only; rw [splice_getElem? s m.1 m.2 h.1, if_neg hin]

end Dna.Splice
