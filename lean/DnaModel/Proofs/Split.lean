import DnaModel.Model.Space
import DnaModel.Proofs.Merge
import Mathlib.Data.List.Forall2
set_option linter.unusedVariables false
set_option linter.unusedSimpArgs false
namespace Dna.Split
open Dna Choice

/-- the columns that vary, as a predicate -/
def varies (reference : Seq) (others : List Seq) (i : Nat) : Bool := others.any (fun v => v[i]? != reference[i]?)

theorem filter_range_head_min (p : Nat → Bool) (n a : Nat)
    (h : ((List.range n).filter p).head? = some a) : p a = true ∧ a < n ∧ ∀ i, i < a → p i = false := by
  induction n with
  | zero => simp at h
  | succ n ih =>
    rw [List.range_succ, List.filter_append] at h
    cases hf : (List.range n).filter p with
    | nil =>
      rw [hf, List.nil_append] at h
      simp only [List.filter_cons, List.filter_nil] at h
      split at h
      · rename_i hp
        simp at h; subst h
        refine ⟨hp, by omega, ?_⟩
        intro i hi
        have : i ∉ (List.range n).filter p := by rw [hf]; simp
        simp only [List.mem_filter, List.mem_range, not_and, Bool.not_eq_true] at this
        exact this hi
      · simp at h
    | cons x xs =>
      rw [hf] at h
      simp only [List.cons_append, List.head?_cons, Option.some.injEq] at h
      subst h
      have := ih (by rw [hf]; rfl)
      exact ⟨this.1, by omega, this.2.2⟩

theorem filter_range_last_max (p : Nat → Bool) (n b : Nat)
    (h : ((List.range n).filter p).getLast? = some b) : p b = true ∧ b < n ∧ ∀ i, b < i → i < n → p i = false := by
  induction n with
  | zero => simp at h
  | succ n ih =>
    rw [List.range_succ, List.filter_append] at h
    by_cases hp : p n = true
    · simp only [List.filter_cons, hp, if_true, List.filter_nil, List.getLast?_append, List.getLast?_singleton,
        Option.some_or, Option.some.injEq] at h
      subst h
      exact ⟨hp, by omega, fun i h1 h2 => by omega⟩
    · simp only [List.filter_cons, hp, Bool.false_eq_true, if_false, List.filter_nil, List.append_nil] at h
      have := ih h
      refine ⟨this.1, by omega, ?_⟩
      intro i h1 h2
      by_cases hin : i = n
      · subst hin; simpa using hp
      · exact this.2.2 i h1 (by omega)

/-- outside `[a, b)` every variant agrees with the reference -/
theorem varyingColumns_spec (reference : Seq) (others : List Seq) (a b : Nat)
    (h : varyingColumns reference others = some (a, b)) :
    a < b ∧ b ≤ reference.length ∧ varies reference others a = true ∧ varies reference others (b - 1) = true ∧
    ∀ i, i < reference.length → (i < a ∨ b ≤ i) → ∀ v ∈ others, v[i]? = reference[i]? := by
  simp only [varyingColumns] at h
  split at h
  · rename_i x y hx hy
    simp only [Option.some.injEq, Prod.mk.injEq] at h
    obtain ⟨rfl, rfl⟩ := h
    have h1 := filter_range_head_min _ _ _ hx
    have h2 := filter_range_last_max _ _ _ hy
    have hle : x ≤ y := by
      by_contra hc
      have := h1.2.2 y (by omega)
      rw [h2.1] at this; simp at this
    refine ⟨by omega, by omega, h1.1, by simp only [Nat.add_sub_cancel]; exact h2.1, ?_⟩
    intro i hi hout v hv
    have hf : (others.any fun v => v[i]? != reference[i]?) = false := by
      rcases hout with h | h
      · exact h1.2.2 i h
      · exact h2.2.2 i (by omega) hi
    rw [List.any_eq_false] at hf
    simpa using hf v hv
  · simp at h

theorem varyingColumns_none (reference : Seq) (others : List Seq) (h : varyingColumns reference others = none) :
    ∀ i, i < reference.length → ∀ v ∈ others, v[i]? = reference[i]? := by
  simp only [varyingColumns] at h
  intro i hi v hv
  cases hc : (List.range reference.length).filter (fun i => others.any fun v => v[i]? != reference[i]?) with
  | nil =>
    have : i ∉ (List.range reference.length).filter (fun i => others.any fun v => v[i]? != reference[i]?) := by rw [hc]; simp
    simp only [List.mem_filter, List.mem_range, hi, true_and, Bool.not_eq_true, List.any_eq_false] at this
    simpa using this v hv
  | cons x xs =>
    rw [hc] at h
    have : ∃ y, (x :: xs).getLast? = some y := ⟨(x :: xs).getLast (by simp), List.getLast?_eq_some_getLast (by simp)⟩
    obtain ⟨y, hy⟩ := this
    simp [hy] at h

theorem take_eq_of_cols (v r : Seq) (k : Nat) (hl : v.length = r.length) (h : ∀ i, i < r.length → i < k → v[i]? = r[i]?) :
    v.take k = r.take k := by
  apply List.ext_getElem?
  intro i
  simp only [List.getElem?_take]
  split
  · rename_i hik
    by_cases hir : i < r.length
    · exact h i hir hik
    · rw [List.getElem?_eq_none (by omega), List.getElem?_eq_none (by omega)]
  · rfl

theorem drop_eq_of_cols (v r : Seq) (k : Nat) (hl : v.length = r.length) (h : ∀ i, i < r.length → k ≤ i → v[i]? = r[i]?) :
    v.drop k = r.drop k := by
  apply List.ext_getElem?
  intro i
  simp only [List.getElem?_drop]
  by_cases hir : k + i < r.length
  · exact h (k + i) hir (by omega)
  · rw [List.getElem?_eq_none (by omega), List.getElem?_eq_none (by omega)]

theorem three_parts (v : Seq) (a b : Nat) (h : a ≤ b) : v.take a ++ ((v.drop a).take (b - a) ++ v.drop b) = v := by
  have : v.drop b = (v.drop a).drop (b - a) := by rw [List.drop_drop]; congr 1; omega
  rw [this, List.take_append_drop, List.take_append_drop]

theorem extract_core (c : Choice) (t : Seq) (reference second : Seq) (more : List Seq)
    (hv : c.variants = reference :: second :: more)
    (hlen : ∀ v ∈ c.variants, v.length = c.stop - c.start) (hle : c.start ≤ c.stop) :
    c.seg t ∈ c.variants ↔ ∀ p ∈ c.extractVaryingRegion, p.seg t ∈ p.variants := by
  have hrl : reference.length = c.stop - c.start := hlen reference (by simp [hv])
  have hex : c.extractVaryingRegion =
      match varyingColumns reference (second :: more) with
      | none => [c]
      | some (st, en) =>
        (if st > 0 then [{ start := c.start, stop := c.start + st, variants := [reference.take st] }] else []) ++
        [{ start := c.start + st, stop := c.start + en,
           variants := c.variants.map (fun v => (v.drop st).take (en - st)) }] ++
        (if en < reference.length then
          [{ start := c.start + en, stop := c.stop, variants := [reference.drop en] }] else []) := by
    unfold extractVaryingRegion
    rw [hv]
    simp only []
    rw [← hv]
    rcases varyingColumns reference (second :: more) with _ | ⟨a, b⟩ <;> rfl
  rw [hex]
  cases hcol : varyingColumns reference (second :: more) with
  | none => simp
  | some ab =>
    obtain ⟨a, b⟩ := ab
    obtain ⟨hab, hbl, _, _, hconst⟩ := varyingColumns_spec reference (second :: more) a b hcol
    simp only []
    have hagree : ∀ v ∈ c.variants, v.take a = reference.take a ∧ v.drop b = reference.drop b := by
      intro v hvm
      rw [hv] at hvm
      rcases List.mem_cons.1 hvm with rfl | hvm
      · exact ⟨rfl, rfl⟩
      · have hvl : v.length = reference.length := by rw [hrl]; exact hlen v (by rw [hv]; simp [hvm])
        exact ⟨take_eq_of_cols v reference a hvl (fun i hi hia => hconst i hi (Or.inl hia) v hvm),
               drop_eq_of_cols v reference b hvl (fun i hi hib => hconst i hi (Or.inr hib) v hvm)⟩
    have hseg : ∀ (x y : Nat), x ≤ y → y ≤ c.stop - c.start →
        (t.drop (c.start + x)).take (c.start + y - (c.start + x)) = ((c.seg t).drop x).take (y - x) := by
      intro x y hxy hy
      simp only [seg, List.drop_take, List.drop_drop, List.take_take]
      congr 1
      omega
    have hhead : (t.drop c.start).take (c.start + a - c.start) = (c.seg t).take a := by
      have := hseg 0 a (by omega) (by omega)
      simpa using this
    have hmid := hseg a b (by omega) (by omega)
    have htail : (t.drop (c.start + b)).take (c.stop - (c.start + b)) = (c.seg t).drop b := by
      have := hseg b (c.stop - c.start) (by omega) (Nat.le_refl _)
      rw [show c.start + (c.stop - c.start) - (c.start + b) = c.stop - (c.start + b) by omega] at this
      rw [this]
      simp only [seg, List.drop_take, List.take_take]
      congr 1
      omega
    constructor
    · intro hmem p hp
      obtain ⟨e1, e2⟩ := hagree _ hmem
      simp only [List.mem_append, List.mem_singleton] at hp
      rcases hp with (hp | hp) | hp
      · split at hp
        · simp only [List.mem_singleton] at hp; subst hp
          simp only [seg, List.mem_singleton]
          rw [hhead, e1]
        · simp at hp
      · subst hp
        simp only [seg, List.mem_map]
        exact ⟨c.seg t, hmem, by rw [hmid]⟩
      · split at hp
        · simp only [List.mem_singleton] at hp; subst hp
          simp only [seg, List.mem_singleton]
          rw [htail, e2]
        · simp at hp
    · intro hall
      have hm := hall ⟨c.start + a, c.start + b, c.variants.map (fun v => (v.drop a).take (b - a)), false⟩ (by simp)
      simp only [seg, List.mem_map] at hm
      obtain ⟨v, hvv, hveq⟩ := hm
      rw [hmid] at hveq
      obtain ⟨e1, e2⟩ := hagree v hvv
      have hh : (c.seg t).take a = reference.take a := by
        by_cases ha0 : a > 0
        · have := hall ⟨c.start, c.start + a, [reference.take a], false⟩ (by simp [ha0])
          simp only [seg, List.mem_singleton] at this
          rw [hhead] at this; exact this
        · have : a = 0 := by omega
          subst this; simp
      have ht : (c.seg t).drop b = reference.drop b := by
        by_cases hb : b < reference.length
        · have := hall ⟨c.start + b, c.stop, [reference.drop b], false⟩ (by simp [hb])
          simp only [seg, List.mem_singleton] at this
          rw [htail] at this; exact this
        · have hsl : (c.seg t).length ≤ c.stop - c.start := by simp [seg]; omega
          rw [List.drop_eq_nil_of_le (by omega), List.drop_eq_nil_of_le (by omega)]
      have : c.seg t = v := by
        rw [← three_parts (c.seg t) a b (by omega), ← three_parts v a b (by omega), hh, ht, ← hveq, e1, e2]
      rw [this]; exact hvv

/-- **splitting a choice at its varying region keeps its language**: a word's segment is a variant of the choice iff
    every piece (constant head, varying core, constant tail) accepts the word's corresponding sub-segment -/
theorem extractVaryingRegion_language (c : Choice) (t : Seq)
    (hlen : ∀ v ∈ c.variants, v.length = c.stop - c.start) (hle : c.start ≤ c.stop) :
    c.seg t ∈ c.variants ↔ ∀ p ∈ c.extractVaryingRegion, p.seg t ∈ p.variants := by
  rcases hv : c.variants with _ | ⟨reference, _ | ⟨second, more⟩⟩
  · simp [extractVaryingRegion, hv]
  · have : c.extractVaryingRegion = [c] := by unfold extractVaryingRegion; rw [hv]
    rw [this, ← hv]; simp
  · rw [← hv]; exact extract_core c t reference second more hv hlen hle

/-- the pieces tile the choice's segment contiguously and their variants have the pieces' lengths -/
theorem extractVaryingRegion_tiles (c : Choice)
    (hlen : ∀ v ∈ c.variants, v.length = c.stop - c.start) (hle : c.start ≤ c.stop) :
    Merge.Contig c.start c.extractVaryingRegion ∧ Merge.stopOf c.start c.extractVaryingRegion = c.stop ∧
    ∀ p ∈ c.extractVaryingRegion, ∀ v ∈ p.variants, v.length = p.stop - p.start := by
  rcases hv : c.variants with _ | ⟨reference, _ | ⟨second, more⟩⟩
  · have : c.extractVaryingRegion = [c] := by unfold extractVaryingRegion; rw [hv]
    rw [this]; simp [Merge.Contig, Merge.stopOf, hle, hv]
  · have : c.extractVaryingRegion = [c] := by unfold extractVaryingRegion; rw [hv]
    rw [this]
    refine ⟨by simp [Merge.Contig, hle], by simp [Merge.stopOf], ?_⟩
    intro p hp v hvm
    simp only [List.mem_singleton] at hp; subst hp
    exact hlen v hvm
  · have hrl : reference.length = c.stop - c.start := hlen reference (by simp [hv])
    have hex : c.extractVaryingRegion =
        match varyingColumns reference (second :: more) with
        | none => [c]
        | some (st, en) =>
          (if st > 0 then [{ start := c.start, stop := c.start + st, variants := [reference.take st] }] else []) ++
          [{ start := c.start + st, stop := c.start + en,
             variants := c.variants.map (fun v => (v.drop st).take (en - st)) }] ++
          (if en < reference.length then
            [{ start := c.start + en, stop := c.stop, variants := [reference.drop en] }] else []) := by
      unfold extractVaryingRegion
      rw [hv]
      simp only []
      rw [← hv]
      rcases varyingColumns reference (second :: more) with _ | ⟨a, b⟩ <;> rfl
    rw [hex]
    cases hcol : varyingColumns reference (second :: more) with
    | none =>
      refine ⟨by simp [Merge.Contig, hle], by simp [Merge.stopOf], ?_⟩
      intro p hp v hvm
      simp only [List.mem_singleton] at hp; subst hp
      exact hlen v hvm
    | some ab =>
      obtain ⟨a, b⟩ := ab
      obtain ⟨hab, hbl, _, _, _⟩ := varyingColumns_spec reference (second :: more) a b hcol
      simp only []
      have hmidlen : ∀ v ∈ c.variants.map (fun v => (v.drop a).take (b - a)), v.length = c.start + b - (c.start + a) := by
        intro v hvm
        simp only [List.mem_map] at hvm
        obtain ⟨w, hw, rfl⟩ := hvm
        have := hlen w hw
        simp only [List.length_take, List.length_drop]
        omega
      by_cases ha : a > 0 <;> by_cases hb : b < reference.length <;>
        simp only [ha, hb, if_true, if_false, List.nil_append, List.append_nil, List.cons_append, List.singleton_append] <;>
        refine ⟨by simp [Merge.Contig] <;> omega, by simp [Merge.stopOf] <;> omega, ?_⟩ <;>
        intro p hp v hvm <;>
        simp only [List.mem_cons, List.mem_singleton, List.not_mem_nil, or_false] at hp
      · rcases hp with rfl | rfl | rfl
        · simp only [List.mem_singleton] at hvm; subst hvm; simp; omega
        · exact hmidlen v hvm
        · simp only [List.mem_singleton] at hvm; subst hvm; simp; omega
      · rcases hp with rfl | rfl
        · simp only [List.mem_singleton] at hvm; subst hvm; simp; omega
        · exact hmidlen v hvm
      · rcases hp with rfl | rfl
        · exact hmidlen v hvm
        · simp only [List.mem_singleton] at hvm; subst hvm; simp; omega
      · subst hp
        exact hmidlen v hvm

end Dna.Split
