/-
C01 — resolve_constraints returns only with every constraint satisfied.
Theorems about Model/Solver.lean for arbitrary specification objects (SpecOps), settings, tapes.
-/
import DnaModel.Model.Solver
set_option linter.unusedVariables false
set_option linter.unusedSimpArgs false
set_option linter.unusedSectionVars false
namespace Dna.C01
open Dna Solver
variable {σ K : Type} [BEq σ] [Score K]

/-- some evaluation of `c` on `s` (at some call index) succeeds and passes -/
def PassesAt (ops : SpecOps σ K) (c : σ) (s : Seq) : Prop :=
  ∃ k e, ops.evaluate c s k = .ok e ∧ e.passes = true

theorem evalAt_ok (ops : SpecOps σ K) (c : σ) (s : Seq) (st st' : St σ K) (e : Eval K)
    (h : evalAt ops c s st = (.ok e, st')) : ops.evaluate c s st.nEval = .ok e := by
  simp only [evalAt, Prod.mk.injEq] at h
  cases hev : ops.evaluate c s st.nEval with
  | error n => rw [hev] at h; simp [liftFault] at h
  | ok e' => rw [hev] at h; simp only [liftFault, Except.ok.injEq] at h; rw [h.1]

/-- the final check succeeds only if every constraint (enforced or not) evaluated as passing -/
theorem finalCheck_ok (ops : SpecOps σ K) (s : Seq) (all cs : List σ) (st st' : St σ K)
    (h : finalCheck ops s all cs st = (.ok (), st')) : ∀ c ∈ cs, PassesAt ops c s := by
  induction cs generalizing st with
  | nil => simp
  | cons c cs ih =>
    simp only [finalCheck] at h
    split at h
    · simp at h
    · rename_i e st1 hev
      split at h
      · rename_i hp
        intro d hd
        rcases List.mem_cons.1 hd with rfl | hd
        · exact ⟨_, e, evalAt_ok ops _ s st st1 e hev, hp⟩
        · exact ih st1 h d hd
      · split at h <;> simp at h

theorem evalAt_err (ops : SpecOps σ K) (c : σ) (s : Seq) (st st' : St σ K) (e : Err)
    (h : evalAt ops c s st = (.error e, st')) : ∃ n, e = .fault n := by
  simp only [evalAt, Prod.mk.injEq] at h
  cases hx : ops.evaluate c s st.nEval with
  | error n => rw [hx] at h; simp only [liftFault, Except.error.injEq] at h; exact ⟨n, h.1.symm⟩
  | ok v => rw [hx] at h; simp [liftFault] at h

theorem evaluateAll_err (ops : SpecOps σ K) (s : Seq) (cs : List σ) (st st' : St σ K) (e : Err)
    (h : evaluateAll ops s cs st = (.error e, st')) : ∃ n, e = .fault n := by
  induction cs generalizing st with
  | nil => simp [evaluateAll] at h
  | cons c cs ih =>
    simp only [evaluateAll] at h
    split at h
    · rename_i e' st1 hev
      simp only [Prod.mk.injEq, Except.error.injEq] at h
      obtain ⟨n, hn⟩ := evalAt_err ops c s st st1 e' hev
      exact ⟨n, by rw [← h.1, hn]⟩
    · exact ih _ h

/-- the final check fails only with `NoSolutionError` or an exception thrown by a specification -/
theorem finalCheck_err (ops : SpecOps σ K) (s : Seq) (all cs : List σ) (st st' : St σ K) (e : Err)
    (h : finalCheck ops s all cs st = (.error e, st')) : (∃ w, e = .noSolution w) ∨ (∃ n, e = .fault n) := by
  induction cs generalizing st with
  | nil => simp [finalCheck] at h
  | cons c cs ih =>
    simp only [finalCheck] at h
    split at h
    · rename_i e' st1 hev
      simp only [Prod.mk.injEq, Except.error.injEq] at h
      obtain ⟨n, hn⟩ := evalAt_err ops c s st st1 e' hev
      right; exact ⟨n, by rw [← h.1, hn]⟩
    · split at h
      · exact ih _ h
      · split at h
        · rename_i e' st2 hall
          simp only [Prod.mk.injEq, Except.error.injEq] at h
          obtain ⟨n, hn⟩ := evaluateAll_err ops s all _ st2 e' hall
          right; exact ⟨n, by rw [← h.1, hn]⟩
        · simp only [Prod.mk.injEq, Except.error.injEq] at h; left; exact ⟨_, h.1.symm⟩

/-- **C01, main clause.**  If `resolve_constraints()` returns normally on a problem with at least
    one constraint that is not enforced by the mutation space, then every constraint of the problem —
    including those presumed enforced — was evaluated on the final sequence and passed.  This holds
    for arbitrary specifications (wrong `localized`, lying heuristics, impure code), all settings
    and all random tapes: it rests on the final check only. -/
theorem resolve_ok_all_pass (ops : SpecOps σ K) (sett : Settings) (F : Frame σ) (s s' : Seq) (st st' : St σ K)
    (hne : (F.constraints.filter (fun c => !ops.enforced c)).isEmpty = false)
    (h : resolveConstraints ops sett F s st = (.ok (), s', st')) :
    ∀ c ∈ F.constraints, PassesAt ops c s' := by
  simp only [resolveConstraints, hne, Bool.false_eq_true, if_false, if_true] at h
  cases hre : resolveEach ops sett id F (byPriority ops (F.constraints.filter (fun c => !ops.enforced c))) s st with
  | mk r rest =>
    obtain ⟨s1, st1⟩ := rest
    rw [hre] at h
    cases r with
    | error e => simp at h
    | ok u =>
      simp only at h
      cases hfc : finalCheck ops s1 F.constraints F.constraints st1 with
      | mk r2 st2 =>
        rw [hfc] at h
        simp only [Prod.mk.injEq] at h
        obtain ⟨rfl, rfl, rfl⟩ := h
        exact finalCheck_ok ops s1 F.constraints F.constraints st1 st2 hfc

/-- when every constraint is enforced by the mutation space the sequence is returned untouched
    (no evaluation, no random draw): the conclusion then rests on the soundness of the
    nucleotide restrictions (`EnforcedSound`, proved for the built-ins in C04) -/
theorem resolve_all_enforced (ops : SpecOps σ K) (sett : Settings) (F : Frame σ) (s : Seq) (st : St σ K)
    (hall : (F.constraints.filter (fun c => !ops.enforced c)).isEmpty = true) :
    resolveConstraints ops sett F s st = (.ok (), s, st) := by
  simp [resolveConstraints, hall]

theorem resolve_ok_all_pass_enforced (ops : SpecOps σ K) (sett : Settings) (F : Frame σ) (s s' : Seq) (st st' : St σ K)
    (hsound : ∀ c ∈ F.constraints, ops.enforced c = true → PassesAt ops c s)
    (h : resolveConstraints ops sett F s st = (.ok (), s', st')) :
    ∀ c ∈ F.constraints, PassesAt ops c s' := by
  cases hall : (F.constraints.filter (fun c => !ops.enforced c)).isEmpty with
  | false => exact resolve_ok_all_pass ops sett F s s' st st' hall h
  | true =>
    rw [resolve_all_enforced ops sett F s st hall] at h
    simp only [Prod.mk.injEq, true_and] at h
    obtain ⟨rfl, rfl⟩ := h
    intro c hc
    apply hsound c hc
    have : c ∉ F.constraints.filter (fun c => !ops.enforced c) := by
      rw [List.isEmpty_iff.1 hall]; simp
    simp only [List.mem_filter, hc, true_and, Bool.not_eq_true', Bool.not_eq_false] at this
    simpa using this

end Dna.C01
