/-
C02 — optimize() never trades a satisfied constraint for objective score.
Proved here (pure total specifications, any lawful score order, every tape and setting): the two
local optimisers keep the local problem feasible and never lower its total.  The lift from the
local problem to the whole problem is the localization soundness of each constraint (C08) and
score faithfulness of each objective (C09); it is stated, not yet proved, as a composition (see
DESIGN.md, C02/C03: partial).
-/
import DnaModel.Proofs.SolverPure
import DnaModel.Props.C06
set_option linter.unusedVariables false
set_option linter.unusedSimpArgs false
set_option linter.unusedSectionVars false
namespace Dna.C02
open Dna Solver Pure
variable {σ K : Type} [BEq σ] [Score K]

theorem mutate_tape (sett : Settings) (F : Frame σ) (s s' : Seq) (st st' : St σ K)
    (h : mutate sett F s st = (.ok s', st')) : st'.trace = st.trace ∧ st'.shared = st.shared := by
  simp only [mutate] at h
  split at h
  · simp at h
  · simp only [Prod.mk.injEq, Except.ok.injEq] at h
    obtain ⟨_, rfl⟩ := h
    exact ⟨rfl, rfl⟩

/-- the random optimisation loop only ever keeps candidates on which all (non-enforced) constraints
    of the problem pass, and never lowers the total: whatever the tape, it ends on the start
    sequence or on a feasible sequence with a total at least as high -/
theorem optRandomLoop_spec [LawfulScore K] (ops : SpecOps σ K) (ev) (hp : PureEval ops ev) (sett : Settings) (F : Frame σ)
    (bp : Option K) (fuel : Nat) (score : K) (stag : Nat) (s : Seq) (st : St σ K)
    (hs : feasible ops ev F s = true) (hsc : score = total ops ev F s) :
    ∃ r t st', optRandomLoop ops sett F bp fuel score stag s st = (r, t, st') ∧
      (∀ u, r = .ok u → feasible ops ev F t = true ∧ Score.lt (total ops ev F t) (total ops ev F s) = false) := by
  induction fuel generalizing score stag s st with
  | zero => exact ⟨_, _, _, rfl, fun _ _ => ⟨hs, LawfulScore.lt_irrefl _⟩⟩
  | succ fuel ih =>
    simp only [optRandomLoop]
    cases hrb : reachedBest bp score with
    | true => exact ⟨.ok (), s, st, by simp, fun _ _ => ⟨hs, LawfulScore.lt_irrefl _⟩⟩
    | false =>
    cases hsg : stagnated sett stag with
    | true => exact ⟨.ok (), s, st, by simp, fun _ _ => ⟨hs, LawfulScore.lt_irrefl _⟩⟩
    | false =>
    simp only [Bool.false_eq_true, if_false]
    cases hm : mutate sett F s st with
    | mk rm st1 =>
      cases rm with
      | error e => exact ⟨_, _, _, rfl, fun u hu => by simp at hu⟩
      | ok s' =>
        simp only
        obtain ⟨st2, h2, _⟩ := allConstraintsPass_pure ops ev hp F s' (logSeq s' st1)
        rw [h2]
        cases hf : feasible ops ev F s' with
        | false =>
          simp only
          exact ih score (stag + 1) s _ hs hsc
        | true =>
          simp only
          obtain ⟨st3, h3, _⟩ := objectiveScoresSum_pure ops ev hp F s' st2
          rw [h3]
          simp only
          cases hlt : Score.lt score (total ops ev F s') with
          | false =>
            simp only [Bool.false_eq_true, if_false]
            exact ih score (stag + 1) s _ hs hsc
          | true =>
            simp only [if_true]
            obtain ⟨r, t, st', h, hres⟩ := ih (total ops ev F s') 1 s' st3 hf rfl
            refine ⟨r, t, st', h, ?_⟩
            intro u hu
            obtain ⟨h1, h2'⟩ := hres u hu
            refine ⟨h1, ?_⟩
            -- T s < T s' and ¬ (T t < T s')  ⇒  ¬ (T t < T s)
            cases hx : Score.lt (total ops ev F t) (total ops ev F s) with
            | false => rfl
            | true =>
              rw [hsc] at hlt
              have := LawfulScore.lt_trans _ _ _ hx hlt
              rw [h2'] at this; simp at this

/-- `optimize_by_random_mutations()` from a feasible start ends on a feasible sequence (all
    constraints that the problem evaluates still pass) whose total is not lower — for every tape -/
theorem optimizeRandom_spec [LawfulScore K] (ops : SpecOps σ K) (ev) (hp : PureEval ops ev) (sett : Settings) (F : Frame σ)
    (s : Seq) (st : St σ K) (hs : feasible ops ev F s = true) :
    ∃ r t st', optimizeRandom ops sett F s st = (r, t, st') ∧
      (∀ u, r = .ok u → feasible ops ev F t = true ∧ Score.lt (total ops ev F t) (total ops ev F s) = false) := by
  obtain ⟨st1, h1, _⟩ := allConstraintsPass_pure ops ev hp F s st
  obtain ⟨st2, h2, _⟩ := objectiveScoresSum_pure ops ev hp F s st1
  simp only [optimizeRandom, h1, hs, h2]
  exact optRandomLoop_spec ops ev hp sett F _ _ _ 0 s st2 hs rfl

/-- from an infeasible start `optimize_by_random_mutations()` refuses (ValueError), sequence unchanged -/
theorem optimizeRandom_infeasible (ops : SpecOps σ K) (ev) (hp : PureEval ops ev) (sett : Settings) (F : Frame σ)
    (s : Seq) (st : St σ K) (hs : feasible ops ev F s = false) :
    ∃ st', optimizeRandom ops sett F s st = (.error .valueError, s, st') := by
  obtain ⟨st1, h1, _⟩ := allConstraintsPass_pure ops ev hp F s st
  obtain ⟨r, st2, h2, _⟩ := constraintsEvaluations_pure ops ev hp s F.constraints st1
  exact ⟨st2, by simp only [optimizeRandom, h1, hs, h2]⟩

/-- both local optimisers: feasible in, feasible out, total not lower -/
theorem local_optimizers_preserve [LawfulScore K] (ops : SpecOps σ K) (ev) (hp : PureEval ops ev) (sett : Settings)
    (F : Frame σ) (s : Seq) (st : St σ K) (vs : List Seq) (hvs : F.space.allVariants s = .ok vs)
    (hs : feasible ops ev F s = true)
    (hbp : ∀ b, bestSum ops F.objectives = some b → ∀ v ∈ vs, feasible ops ev F v = true →
      Score.le (total ops ev F v) b = true) :
    (∃ t st', optimizeExhaustive ops F s st = (.ok (), t, st') ∧ feasible ops ev F t = true ∧
        Score.lt (total ops ev F t) (total ops ev F s) = false) ∧
    (∃ r t st', optimizeRandom ops sett F s st = (r, t, st') ∧
        (∀ u, r = .ok u → feasible ops ev F t = true ∧ Score.lt (total ops ev F t) (total ops ev F s) = false)) := by
  constructor
  · obtain ⟨t, st', h, _, _, hf, hm, _⟩ := C06.optimizeExhaustive_max ops ev hp F s st vs hvs hs hbp
    exact ⟨t, st', h, hf, hm⟩
  · exact optimizeRandom_spec ops ev hp sett F s st hs

end Dna.C02
