/-
C02 — optimize() never trades a satisfied constraint for objective score.
Proved here (pure total specifications, any lawful score order, every tape and setting): the two
local optimisers keep the local problem feasible and never lower its total; and the lift from the
local problems to the whole problem (`optimize_preserves_feasible`, second half of this file): given
the localization soundness of each evaluated constraint (`LocalSound`, the first clause of C08 —
proved per class in Props/C08), `optimize()` keeps every evaluated constraint satisfied.
-/
import DnaModel.Proofs.SolverPure
import DnaModel.Props.C06
import DnaModel.Props.C12
set_option linter.unusedVariables false
set_option linter.unusedSimpArgs false
set_option linter.unusedSectionVars false
namespace Dna.C02
open Dna Solver Pure
variable {σ K : Type} [BEq σ] [Score K]

theorem mutate_tape (sett : Settings) (F : Frame σ) (s s' : Seq) (st st' : St σ K)
    (h : mutate sett F s st = (.ok s', st')) : st'.trace = st.trace ∧ st'.shared = st.shared := by
  simp only [mutate] at h
  split at h
  · simp at h
  · simp only [Prod.mk.injEq, Except.ok.injEq] at h
    obtain ⟨_, rfl⟩ := h
    exact ⟨rfl, rfl⟩

/-- the random optimisation loop only ever keeps candidates on which all (non-enforced) constraints
    of the problem pass, and never lowers the total: whatever the tape, it ends on the start
    sequence or on a feasible sequence with a total at least as high -/
theorem optRandomLoop_spec [LawfulScore K] (ops : SpecOps σ K) (ev) (hp : PureEval ops ev) (sett : Settings) (F : Frame σ)
    (bp : Option K) (fuel : Nat) (score : K) (stag : Nat) (s : Seq) (st : St σ K)
    (hs : feasible ops ev F s = true) (hsc : score = total ops ev F s) :
    ∃ r t st', optRandomLoop ops sett F bp fuel score stag s st = (r, t, st') ∧
      (∀ u, r = .ok u → feasible ops ev F t = true ∧ Score.lt (total ops ev F t) (total ops ev F s) = false) := by
  induction fuel generalizing score stag s st with
  | zero => exact ⟨_, _, _, rfl, fun _ _ => ⟨hs, LawfulScore.lt_irrefl _⟩⟩
  | succ fuel ih =>
    simp only [optRandomLoop]
    cases hrb : reachedBest bp score with
    | true => exact ⟨.ok (), s, st, by simp, fun _ _ => ⟨hs, LawfulScore.lt_irrefl _⟩⟩
    | false =>
    cases hsg : stagnated sett stag with
    | true => exact ⟨.ok (), s, st, by simp, fun _ _ => ⟨hs, LawfulScore.lt_irrefl _⟩⟩
    | false =>
    simp only [Bool.false_eq_true, if_false]
    cases hm : mutate sett F s st with
    | mk rm st1 =>
      cases rm with
      | error e => exact ⟨_, _, _, rfl, fun u hu => by simp at hu⟩
      | ok s' =>
        simp only
        obtain ⟨st2, h2, _⟩ := allConstraintsPass_pure ops ev hp F s' (logSeq s' st1)
        rw [h2]
        cases hf : feasible ops ev F s' with
        | false =>
          simp only
          exact ih score (stag + 1) s _ hs hsc
        | true =>
          simp only
          obtain ⟨st3, h3, _⟩ := objectiveScoresSum_pure ops ev hp F s' st2
          rw [h3]
          simp only
          cases hlt : Score.lt score (total ops ev F s') with
          | false =>
            simp only [Bool.false_eq_true, if_false]
            exact ih score (stag + 1) s _ hs hsc
          | true =>
            simp only [if_true]
            obtain ⟨r, t, st', h, hres⟩ := ih (total ops ev F s') 1 s' st3 hf rfl
            refine ⟨r, t, st', h, ?_⟩
            intro u hu
            obtain ⟨h1, h2'⟩ := hres u hu
            refine ⟨h1, ?_⟩
            -- T s < T s' and ¬ (T t < T s')  ⇒  ¬ (T t < T s)
            cases hx : Score.lt (total ops ev F t) (total ops ev F s) with
            | false => rfl
            | true =>
              rw [hsc] at hlt
              have := LawfulScore.lt_trans _ _ _ hx hlt
              rw [h2'] at this; simp at this

/-- `optimize_by_random_mutations()` from a feasible start ends on a feasible sequence (all
    constraints that the problem evaluates still pass) whose total is not lower — for every tape -/
theorem optimizeRandom_spec [LawfulScore K] (ops : SpecOps σ K) (ev) (hp : PureEval ops ev) (sett : Settings) (F : Frame σ)
    (s : Seq) (st : St σ K) (hs : feasible ops ev F s = true) :
    ∃ r t st', optimizeRandom ops sett F s st = (r, t, st') ∧
      (∀ u, r = .ok u → feasible ops ev F t = true ∧ Score.lt (total ops ev F t) (total ops ev F s) = false) := by
  obtain ⟨st1, h1, _⟩ := allConstraintsPass_pure ops ev hp F s st
  obtain ⟨st2, h2, _⟩ := objectiveScoresSum_pure ops ev hp F s st1
  simp only [optimizeRandom, h1, hs, h2]
  exact optRandomLoop_spec ops ev hp sett F _ _ _ 0 s st2 hs rfl

/-- from an infeasible start `optimize_by_random_mutations()` refuses (ValueError), sequence unchanged -/
theorem optimizeRandom_infeasible (ops : SpecOps σ K) (ev) (hp : PureEval ops ev) (sett : Settings) (F : Frame σ)
    (s : Seq) (st : St σ K) (hs : feasible ops ev F s = false) :
    ∃ st', optimizeRandom ops sett F s st = (.error .valueError, s, st') := by
  obtain ⟨st1, h1, _⟩ := allConstraintsPass_pure ops ev hp F s st
  obtain ⟨r, st2, h2, _⟩ := constraintsEvaluations_pure ops ev hp s F.constraints st1
  exact ⟨st2, by simp only [optimizeRandom, h1, hs, h2]⟩

/-- both local optimisers: feasible in, feasible out, total not lower -/
theorem local_optimizers_preserve [LawfulScore K] (ops : SpecOps σ K) (ev) (hp : PureEval ops ev) (sett : Settings)
    (F : Frame σ) (s : Seq) (st : St σ K) (vs : List Seq) (hvs : F.space.allVariants s = .ok vs)
    (hs : feasible ops ev F s = true)
    (hbp : ∀ b, bestSum ops F.objectives = some b → ∀ v ∈ vs, feasible ops ev F v = true →
      Score.le (total ops ev F v) b = true) :
    (∃ t st', optimizeExhaustive ops F s st = (.ok (), t, st') ∧ feasible ops ev F t = true ∧
        Score.lt (total ops ev F t) (total ops ev F s) = false) ∧
    (∃ r t st', optimizeRandom ops sett F s st = (r, t, st') ∧
        (∀ u, r = .ok u → feasible ops ev F t = true ∧ Score.lt (total ops ev F t) (total ops ev F s) = false)) := by
  constructor
  · obtain ⟨t, st', h, _, _, hf, hm, _⟩ := C06.optimizeExhaustive_max ops ev hp F s st vs hvs hs hbp
    exact ⟨t, st', h, hf, hm⟩
  · exact optimizeRandom_spec ops ev hp sett F s st hs

/-! ### the lift from the local problems to the whole problem

`optimize()` works on local problems: for every location flagged by an objective it localizes the
mutation space, localizes **every** constraint to the span of the multi-variant choices, re-initialises
the localized constraints on the local problem and lets one of the two local optimisers run.  The
theorems below compose the local guarantee (`optimizeRandom_spec`, `optExhaustiveLoop_feasible`) with

* the fact that every candidate differs from the current sequence only inside that span
  (mutation-space theorems of C15, through the closedness invariant of C12), and
* `LocalSound` — the first clause of C08 — for every constraint the solver evaluates,

into the statement of C02 for the whole problem: **if every (non-enforced) constraint passes before
`optimize()`, every one passes after it, whatever the outcome, the settings and the tape.** -/

/-- `localized` (without `with_righthand`) and `initialized_on_problem` are pure total functions
    `lz` / `ini` of their arguments -/
structure PureObj (ops : SpecOps σ K) (lz : σ → Loc → Seq → Option σ) (ini : σ → Seq → Role → σ) : Prop where
  loc : ∀ c l s k, ∃ r, ops.localize c l none s k = .ok r ∧ r.map Prod.fst = lz c l s
  init : ∀ c s r k, ∃ d, ops.initOn c s r k = .ok (ini c s r, d)

/-- `t` has the length of `s` and agrees with it outside `[a, b)` -/
def AgreeOut (a b : Nat) (s t : Seq) : Prop :=
  t.length = s.length ∧ ∀ i : Nat, (i < a ∨ b ≤ i) → t[i]? = s[i]?

/-- **first clause of C08** for one constraint `c`, as the solver uses it: `c` passes on `s`; `t`
    differs from `s` only inside the window `[a, b)`; the constraint localized to the window (on `s`)
    and re-initialised on the local problem (whose sequence is `s`) passes on `t`, or there is no
    localized constraint at all.  Then `c` passes on `t`.  (`n` is the length of the problem's sequence.) -/
def LocalSound (n : Nat) (ev : σ → Seq → Eval K) (lz : σ → Loc → Seq → Option σ) (ini : σ → Seq → Role → σ) (c : σ) : Prop :=
  ∀ (a b : Nat) (s t : Seq), s.length = n → (ev c s).passes = true → AgreeOut a b s t →
    (∀ c1, lz c ⟨a, b, 0⟩ s = some c1 → (ev (ini c1 s .constraint) t).passes = true) →
    (ev c t).passes = true

theorem localizeAt_pure (ops : SpecOps σ K) (lz) (ini) (hq : PureObj ops lz ini) (c : σ) (l : Loc) (s : Seq) (st : St σ K) :
    ∃ st', localizeAt ops c l none s st = (.ok (lz c l s), st') := by
  obtain ⟨r, h1, h2⟩ := hq.loc c l s st.nAlloc
  simp only [localizeAt, h1]
  cases r with
  | none => exact ⟨_, by rw [← h2]; rfl⟩
  | some p => exact ⟨_, by rw [← h2]; rfl⟩

theorem localizeAll_pure (ops : SpecOps σ K) (lz) (ini) (hq : PureObj ops lz ini) (l : Loc) (s : Seq) (cs : List σ) (st : St σ K) :
    ∃ st', localizeAll ops s l cs st = (.ok (cs.filterMap (fun c => lz c l s)), st') := by
  induction cs generalizing st with
  | nil => exact ⟨st, rfl⟩
  | cons c cs ih =>
    obtain ⟨st1, h1⟩ := localizeAt_pure ops lz ini hq c l s st
    obtain ⟨st2, h2⟩ := ih st1
    simp only [localizeAll, h1, h2, List.filterMap_cons]
    cases lz c l s with
    | none => exact ⟨st2, rfl⟩
    | some x => exact ⟨st2, rfl⟩

theorem initAll_pure (ops : SpecOps σ K) (lz) (ini) (hq : PureObj ops lz ini) (s : Seq) (role : Role) (cs : List σ) (st : St σ K) :
    ∃ st', initAll ops s role cs st = (.ok (cs.map (fun c => ini c s role)), st') := by
  induction cs generalizing st with
  | nil => exact ⟨st, rfl⟩
  | cons c cs ih =>
    obtain ⟨d, hd⟩ := hq.init c s role st.nAlloc
    obtain ⟨st2, h2⟩ := ih (inherit { st with nAlloc := st.nAlloc + 1 } c (ini c s role) d)
    exact ⟨st2, by simp only [initAll, initAt, hd, h2, List.map_cons]⟩

theorem newLocal_pure (ops : SpecOps σ K) (lz) (ini) (hq : PureObj ops lz ini) (s : Seq) (cs os : List σ) (sp : Space) (st : St σ K) :
    ∃ LF st', newLocal ops s cs os sp st = (.ok LF, st') ∧
      LF.constraints = cs.map (fun c => ini c s .constraint) ∧
      LF.objectives = os.map (fun c => ini c s .objective) ∧ LF.space = sp := by
  obtain ⟨st1, h1⟩ := initAll_pure ops lz ini hq s .constraint cs (logSeq s st)
  obtain ⟨st2, h2⟩ := initAll_pure ops lz ini hq s .objective os st1
  exact ⟨{ constraints := cs.map (fun c => ini c s .constraint), objectives := os.map (fun c => ini c s .objective),
            space := sp, seqBefore := s }, st2, by simp only [newLocal, h1, h2], rfl, rfl, rfl⟩

/-- the exhaustive optimisation loop only ever keeps feasible candidates as its running best -/
theorem optExhaustiveLoop_feasible (ops : SpecOps σ K) (ev) (hp : PureEval ops ev) (F : Frame σ) (bp : Option K)
    (vs : List Seq) (bestScore : K) (bestSeq cur : Seq) (st : St σ K) (hb : feasible ops ev F bestSeq = true)
    (b cur' : Seq) (st' : St σ K) (h : optExhaustiveLoop ops F bp vs bestScore bestSeq cur st = (.ok b, cur', st')) :
    feasible ops ev F b = true := by
  induction vs generalizing bestScore bestSeq cur st with
  | nil =>
    simp only [optExhaustiveLoop, Prod.mk.injEq, Except.ok.injEq] at h
    rw [← h.1]; exact hb
  | cons v vs ih =>
    simp only [optExhaustiveLoop] at h
    obtain ⟨st1, h1, _⟩ := allConstraintsPass_pure ops ev hp F v (logSeq v st)
    rw [h1] at h
    cases hf : feasible ops ev F v with
    | false =>
      rw [hf] at h
      exact ih _ _ _ _ hb h
    | true =>
      rw [hf] at h
      obtain ⟨st2, h2, _⟩ := objectiveScoresSum_pure ops ev hp F v st1
      simp only [h2] at h
      split at h
      · split at h
        · simp only [Prod.mk.injEq, Except.ok.injEq] at h
          rw [← h.1]; exact hf
        · exact ih _ _ _ _ hf h
      · exact ih _ _ _ _ hb h

/-- `optimize_by_exhaustive_search()`: a successful return is on a feasible sequence; any other
    outcome from an infeasible start leaves the sequence alone -/
theorem optimizeExhaustive_feasible (ops : SpecOps σ K) (ev) (hp : PureEval ops ev) (F : Frame σ) (s : Seq) (st : St σ K)
    (u : Unit) (t : Seq) (st' : St σ K) (h : optimizeExhaustive ops F s st = (.ok u, t, st')) :
    feasible ops ev F t = true := by
  simp only [optimizeExhaustive] at h
  obtain ⟨st1, h1, _⟩ := allConstraintsPass_pure ops ev hp F s st
  rw [h1] at h
  cases hf : feasible ops ev F s with
  | false =>
    rw [hf] at h
    obtain ⟨r, st2, h2, _⟩ := constraintsEvaluations_pure ops ev hp s F.constraints st1
    simp [h2] at h
  | true =>
    rw [hf] at h
    obtain ⟨st2, h2, _⟩ := objectiveScoresSum_pure ops ev hp F s st1
    simp only [h2] at h
    split at h
    · simp at h
    · split at h
      · simp at h
      · rename_i bestSeq cur st3 hloop
        simp only [Prod.mk.injEq, Except.ok.injEq] at h
        rw [← h.2.1]
        exact optExhaustiveLoop_feasible ops ev hp F _ _ _ _ _ _ hf _ _ _ hloop

/-- `optimize_by_random_mutations()`: a successful return is on a feasible sequence -/
theorem optimizeRandom_feasible [LawfulScore K] (ops : SpecOps σ K) (ev) (hp : PureEval ops ev) (sett : Settings) (F : Frame σ)
    (s : Seq) (st : St σ K) (u : Unit) (t : Seq) (st' : St σ K) (h : optimizeRandom ops sett F s st = (.ok u, t, st')) :
    feasible ops ev F t = true := by
  cases hf : feasible ops ev F s with
  | false =>
    obtain ⟨st2, h2⟩ := optimizeRandom_infeasible ops ev hp sett F s st hf
    rw [h2] at h; simp at h
  | true =>
    obtain ⟨r, t2, st2, h2, hres⟩ := optimizeRandom_spec ops ev hp sett F s st hf
    rw [h2] at h
    simp only [Prod.mk.injEq] at h
    obtain ⟨rfl, rfl, rfl⟩ := h
    exact (hres u rfl).1

/-- every multi-variant choice of a well-formed space lies inside its `choices_span` -/
theorem span_bounds (n : Nat) (mc : List Choice) (h : C15.ChoicesFit n mc) (x y : Choice)
    (hx : mc.head? = some x) (hy : mc.getLast? = some y) : ∀ c ∈ mc, x.start ≤ c.start ∧ c.stop ≤ y.stop := by
  induction mc generalizing x with
  | nil => simp at hx
  | cons d rest ih =>
    obtain ⟨h1, h2, h3, h4, h5, h6⟩ := h
    simp only [List.head?_cons, Option.some.injEq] at hx
    subst hx
    intro c hc
    cases rest with
    | nil =>
      simp only [List.getLast?_singleton, Option.some.injEq] at hy
      subst hy
      simp only [List.mem_singleton] at hc
      subst hc
      exact ⟨Nat.le_refl _, Nat.le_refl _⟩
    | cons e rest' =>
      rw [List.getLast?_cons_cons] at hy
      have hyin : y ∈ e :: rest' := List.mem_of_getLast? hy
      rcases List.mem_cons.1 hc with rfl | hc'
      · have := h5 y hyin
        have hy2 := (C15.fits_mem n _ h6 y hyin).2.1
        exact ⟨Nat.le_refl _, by omega⟩
      · have := ih h6 e rfl hy c hc'
        have he := h5 c hc'
        exact ⟨by omega, this.2⟩

/-- candidates of a space differ from the current sequence only inside its `choices_span` -/
theorem closed_agreeOut (n : Nat) (sp : Space) (a b : Nat) (s0 : Seq) (hn : s0.length = n)
    (hmc : C15.ChoicesFit n sp.multichoices) (hspan : sp.choicesSpan = some (a, b)) :
    C12.Closed (AgreeOut a b s0) sp := by
  have hb : ∀ c ∈ sp.multichoices, a ≤ c.start ∧ c.stop ≤ b := by
    simp only [Space.choicesSpan] at hspan
    split at hspan
    · rename_i x y hx hy
      simp only [Option.some.injEq, Prod.mk.injEq] at hspan
      obtain ⟨rfl, rfl⟩ := hspan
      exact span_bounds n _ hmc x y hx hy
    · simp at hspan
  constructor
  · intro s vs hs hvs v hv
    have hen := C15.allVariants_enumerates sp s vs (by rw [hs.1, hn]; exact C12.mcfits_of_fit n _ hmc) hvs
    obtain ⟨hl, _, hout⟩ := (hen.2.2.2 v).1 hv
    refine ⟨hl.trans hs.1, ?_⟩
    intro i hi
    rw [← hs.2 i hi]
    apply hout
    intro c hc
    have := hb c hc
    omega
  · intro k s t r t' hs hm
    obtain ⟨hl, chosen, _, hsubc, _, _, hout⟩ :=
      C15.applyRandomMutations_spec sp k s t t' r (by rw [hs.1, hn]; exact hmc) hm
    refine ⟨hl.trans hs.1, ?_⟩
    intro i hi
    rw [← hs.2 i hi]
    apply hout
    intro c hc
    have := hb c (hsubc c hc)
    omega

/-- what the lift needs from the problem -/
structure LiftHyp (ops : SpecOps σ K) (ev : σ → Seq → Eval K) (lz : σ → Loc → Seq → Option σ)
    (ini : σ → Seq → Role → σ) (F : Frame σ) (n : Nat) : Prop where
  pureEval : PureEval ops ev
  pureObj : PureObj ops lz ini
  /-- the multi-variant choices of every localization of the space tile (C04: a theorem for constructed spaces) -/
  localFit : ∀ a b : Int, C15.ChoicesFit n (F.space.localized a b).multichoices
  /-- first clause of C08 for every constraint the solver evaluates -/
  sound : ∀ c ∈ F.constraints, ops.enforced c = false → LocalSound n ev lz ini c
  /-- a localized, re-initialised copy of a non-enforced constraint is not presumed enforced either -/
  enforcedKept : ∀ c ∈ F.constraints, ops.enforced c = false → ∀ l s c1, lz c l s = some c1 →
    ops.enforced (ini c1 s .constraint) = false

/-- the objectives a local problem of `optimize_objective` is given -/
def localObjectives (ops : SpecOps σ K) (lz : σ → Loc → Seq → Option σ) (ini : σ → Seq → Role → σ) (F : Frame σ)
    (a b : Nat) (s : Seq) : List σ :=
  ((F.objectives.filter (fun o => !Score.eq (ops.boost o) (Score.zero : K))).filterMap (fun o => lz o ⟨a, b, 0⟩ s)).map
    (fun o => ini o s .objective)

/-- the constraints a local problem of `optimize_objective` is given: every constraint, localized -/
def localConstraints (lz : σ → Loc → Seq → Option σ) (ini : σ → Seq → Role → σ) (F : Frame σ)
    (a b : Nat) (s : Seq) : List σ :=
  (F.constraints.filterMap (fun c => lz c ⟨a, b, 0⟩ s)).map (fun c => ini c s .constraint)

/-- one location of `optimize_objective`, decomposed: either the sequence is left alone, or it is
    the result of a successful local optimisation of the local problem described here -/
theorem optimizeLocation_cases (ops : SpecOps σ K) (lz ini) (hq : PureObj ops lz ini) (sett : Settings) (F : Frame σ)
    (location : Loc) (s : Seq) (st : St σ K) :
    (optimizeLocation ops sett F location s st).2.1 = s ∨
    ∃ (a b : Nat) (LF : Frame σ) (u : Unit) (ls : Seq) (st3 st5 : St σ K),
      (F.space.localized location.start location.stop).choicesSpan = some (a, b) ∧
      LF.constraints = localConstraints lz ini F a b s ∧
      LF.objectives = localObjectives ops lz ini F a b s ∧
      LF.space = F.space.localized location.start location.stop ∧
      localOptimize ops sett LF s st3 = (.ok u, ls, st5) ∧
      (optimizeLocation ops sett F location s st).2.1 = ls := by
  simp only [optimizeLocation]
  split
  · exact Or.inl rfl
  · split
    · exact Or.inl rfl
    · rename_i a b hspan
      obtain ⟨st1, h1⟩ := localizeAll_pure ops lz ini hq ⟨a, b, 0⟩ s F.constraints st
      simp only [h1]
      obtain ⟨st2, h2⟩ := localizeAll_pure ops lz ini hq ⟨a, b, 0⟩ s
        (F.objectives.filter (fun o => !Score.eq (ops.boost o) (Score.zero : K))) st1
      simp only [h2]
      obtain ⟨LF, st3, h3, hLFc, hLFo, hLFs⟩ := newLocal_pure ops lz ini hq s
        (F.constraints.filterMap (fun c => lz c ⟨a, b, 0⟩ s))
        ((F.objectives.filter (fun o => !Score.eq (ops.boost o) (Score.zero : K))).filterMap (fun c => lz c ⟨a, b, 0⟩ s))
        (F.space.localized location.start location.stop) st2
      simp only [h3]
      cases hres : localOptimize ops sett LF s st3 with
      | mk r rest =>
        obtain ⟨ls, st5⟩ := rest
        cases r with
        | error e => exact Or.inl rfl
        | ok u => exact Or.inr ⟨a, b, LF, u, ls, st3, st5, hspan, hLFc, hLFo, hLFs, hres, rfl⟩

/-- the result of a local optimisation differs from its start only inside the `choices_span` -/
theorem localOptimize_agree (ops : SpecOps σ K) (sett : Settings) (LF : Frame σ) (n a b : Nat) (s : Seq) (st : St σ K)
    (hn : s.length = n) (hfit : C15.ChoicesFit n LF.space.multichoices) (hspan : LF.space.choicesSpan = some (a, b)) :
    AgreeOut a b s (localOptimize ops sett LF s st).2.1 := by
  have hcl := closed_agreeOut n _ a b s hn hfit hspan
  have hag0 : AgreeOut a b s s := ⟨rfl, fun _ _ => rfl⟩
  simp only [localOptimize]
  split
  · exact C12.optimizeExhaustive_inv _ ops LF s st hcl hag0
  · exact C12.optimizeRandom_inv _ ops sett LF s st hcl hag0

/-- one location of `optimize_objective`: global feasibility survives -/
theorem optimizeLocation_feasible [LawfulScore K] (ops : SpecOps σ K) (ev lz ini) (sett : Settings) (F : Frame σ) (n : Nat)
    (H : LiftHyp ops ev lz ini F n) (location : Loc) (s : Seq) (st : St σ K) (hn : s.length = n)
    (hs : feasible ops ev F s = true) :
    feasible ops ev F (optimizeLocation ops sett F location s st).2.1 = true ∧
    (optimizeLocation ops sett F location s st).2.1.length = n := by
  rcases optimizeLocation_cases ops lz ini H.pureObj sett F location s st with h | ⟨a, b, LF, u, ls, st3, st5, hspan, hLFc, hLFo, hLFs, hres, hout⟩
  · rw [h]; exact ⟨hs, hn⟩
  · rw [hout]
    have key : AgreeOut a b s ls := by
      have := localOptimize_agree ops sett LF n a b s st3 hn (by rw [hLFs]; exact H.localFit _ _) (by rw [hLFs]; exact hspan)
      rw [hres] at this; exact this
    have hlf : feasible ops ev LF ls = true := by
      simp only [localOptimize] at hres
      split at hres
      · exact optimizeExhaustive_feasible ops ev H.pureEval LF s st3 u ls st5 hres
      · exact optimizeRandom_feasible ops ev H.pureEval sett LF s st3 u ls st5 hres
    refine ⟨?_, key.1.trans hn⟩
    -- every non-enforced constraint of the whole problem passes on `ls`
    simp only [feasible, List.all_eq_true, List.mem_filter, Bool.not_eq_true', and_imp] at hs hlf ⊢
    intro c hc henf
    apply H.sound c hc henf a b s ls hn (hs c hc henf) key
    intro c1 hc1
    apply hlf
    · rw [hLFc, localConstraints, List.mem_map]
      exact ⟨c1, List.mem_filterMap.2 ⟨c, hc, hc1⟩, rfl⟩
    · exact H.enforcedKept c hc henf _ _ _ hc1

theorem optimizeLocations_feasible [LawfulScore K] (ops : SpecOps σ K) (ev lz ini) (sett : Settings) (F : Frame σ) (n : Nat)
    (H : LiftHyp ops ev lz ini F n) (locs : List Loc) (s : Seq) (st : St σ K) (hn : s.length = n)
    (hs : feasible ops ev F s = true) :
    feasible ops ev F (optimizeLocations ops sett F locs s st).2.1 = true ∧
    (optimizeLocations ops sett F locs s st).2.1.length = n := by
  induction locs generalizing s st with
  | nil => exact ⟨hs, hn⟩
  | cons l ls ih =>
    simp only [optimizeLocations]
    have key := optimizeLocation_feasible ops ev lz ini sett F n H l s st hn hs
    cases h : optimizeLocation ops sett F l s st with
    | mk r rest =>
      obtain ⟨s1, st1⟩ := rest
      rw [h] at key
      cases r with
      | error e => exact key
      | ok u => exact ih s1 st1 key.2 key.1

theorem optimizeObjective_feasible [LawfulScore K] (ops : SpecOps σ K) (ev lz ini) (sett : Settings) (F : Frame σ) (n : Nat)
    (H : LiftHyp ops ev lz ini F n) (o : σ) (s : Seq) (st : St σ K) (hn : s.length = n)
    (hs : feasible ops ev F s = true) :
    feasible ops ev F (optimizeObjective ops sett F o s st).2.1 = true ∧
    (optimizeObjective ops sett F o s st).2.1.length = n := by
  simp only [optimizeObjective]
  split
  · exact ⟨hs, hn⟩
  · split
    · exact ⟨hs, hn⟩
    · split
      · exact ⟨hs, hn⟩
      · exact optimizeLocations_feasible ops ev lz ini sett F n H _ s _ hn hs

/-- **C02 for the whole problem.**  For pure total specifications whose constraints have a sound
    localization (first clause of C08), on a well-formed mutation space: if every constraint that the
    problem evaluates passes before `optimize()`, every one of them passes on `problem.sequence`
    after it — whether it returns or raises, for every objective mix, setting and random tape. -/
theorem optimize_preserves_feasible [LawfulScore K] (ops : SpecOps σ K) (ev lz ini) (sett : Settings) (F : Frame σ) (n : Nat)
    (H : LiftHyp ops ev lz ini F n) (s : Seq) (st : St σ K) (hn : s.length = n)
    (hs : feasible ops ev F s = true) :
    feasible ops ev F (optimize ops sett F s st).2.1 = true := by
  simp only [optimize]
  generalize F.objectives.filter (fun o => !ops.passive o && !Score.eq (ops.boost o) (Score.zero : K)) = os
  suffices h : feasible ops ev F (optimizeEach ops sett F os s st).2.1 = true ∧
      (optimizeEach ops sett F os s st).2.1.length = n from h.1
  induction os generalizing s st with
  | nil => exact ⟨hs, hn⟩
  | cons o os ih =>
    simp only [optimizeEach]
    have key := optimizeObjective_feasible ops ev lz ini sett F n H o s st hn hs
    cases h : optimizeObjective ops sett F o s st with
    | mk r rest =>
      obtain ⟨s1, st1⟩ := rest
      rw [h] at key
      cases r with
      | error e => exact key
      | ok u => exact ih s1 st1 key.2 key.1

/-! ### non-vacuity: the hypotheses are satisfiable -/
/-- a specification whose `localized` returns itself (EnforceChoice, non-windowed GC, budgets …) is
    trivially sound: the local verdict *is* the global one -/
example (n : Nat) (ev : σ → Seq → Eval K) (c : σ) : LocalSound n ev (fun c _ _ => some c) (fun c _ _ => c) c :=
  fun _ _ _ _ _ _ _ h => h c rfl

example : AgreeOut 1 3 "ATGCA".toList "ACCCA".toList := by
  refine ⟨rfl, ?_⟩
  intro i hi
  match i, hi with
  | 0, _ => rfl
  | 1, h => omega
  | 2, h => omega
  | 3, _ => rfl
  | 4, _ => rfl
  | n + 5, _ => simp

end Dna.C02
