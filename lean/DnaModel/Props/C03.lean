/-
C03 — optimize() never lowers the weighted objective total.
The acceptance rule of both local optimisers is strict improvement, otherwise revert
(`C02.optRandomLoop_spec`, `C06.optimizeExhaustive_max`); "not lower" composes under repetition.
The lift from local totals to the global total is the score faithfulness of localized objectives
(C09): partial, see DESIGN.md.
-/
import DnaModel.Props.C02
set_option linter.unusedVariables false
set_option linter.unusedSimpArgs false
set_option linter.unusedSectionVars false
namespace Dna.C03
open Dna Solver Pure
variable {σ K : Type} [BEq σ] [Score K] [LawfulScore K]

/-- "not lower than" is transitive: repeating optimisation steps never loses score -/
theorem notLower_trans (a b c : K) (h1 : Score.lt b a = false) (h2 : Score.lt c b = false) :
    Score.lt c a = false := by
  cases hx : Score.lt c a with
  | false => rfl
  | true =>
    have := LawfulScore.lt_of_lt_of_not_lt c a b hx h1
    rw [h2] at this; simp at this

/-- exhaustive local optimisation: total not lower, for every problem and start (infeasible starts
    are refused and leave the sequence unchanged) -/
theorem optimizeExhaustive_mono (ops : SpecOps σ K) (ev) (hp : PureEval ops ev) (F : Frame σ) (s : Seq)
    (st : St σ K) (vs : List Seq) (hvs : F.space.allVariants s = .ok vs)
    (hbp : ∀ b, bestSum ops F.objectives = some b → ∀ v ∈ vs, feasible ops ev F v = true →
      Score.le (total ops ev F v) b = true) :
    ∃ r t st', optimizeExhaustive ops F s st = (r, t, st') ∧
      Score.lt (total ops ev F t) (total ops ev F s) = false := by
  cases hf : feasible ops ev F s with
  | true =>
    obtain ⟨t, st', h, _, _, _, hm, _⟩ := C06.optimizeExhaustive_max ops ev hp F s st vs hvs hf hbp
    exact ⟨_, t, st', h, hm⟩
  | false =>
    obtain ⟨w, st', h, _⟩ := C06.optimizeExhaustive_infeasible ops ev hp F s st hf
    exact ⟨_, s, st', h, LawfulScore.lt_irrefl _⟩

/-- random local optimisation: whenever it returns normally the total is not lower — every tape -/
theorem optimizeRandom_mono (ops : SpecOps σ K) (ev) (hp : PureEval ops ev) (sett : Settings) (F : Frame σ)
    (s : Seq) (st : St σ K) (hs : feasible ops ev F s = true) :
    ∃ r t st', optimizeRandom ops sett F s st = (r, t, st') ∧
      (∀ u, r = .ok u → Score.lt (total ops ev F t) (total ops ev F s) = false) := by
  obtain ⟨r, t, st', h, hres⟩ := C02.optimizeRandom_spec ops ev hp sett F s st hs
  exact ⟨r, t, st', h, fun u hu => (hres u hu).2⟩

/-- two successive local optimisations (in any combination) still do not lower the total -/
theorem two_steps_mono (ops : SpecOps σ K) (ev : σ → Seq → Eval K) (F : Frame σ) (s t u : Seq)
    (h1 : Score.lt (total ops ev F t) (total ops ev F s) = false)
    (h2 : Score.lt (total ops ev F u) (total ops ev F t) = false) :
    Score.lt (total ops ev F u) (total ops ev F s) = false :=
  notLower_trans _ _ _ h1 h2

end Dna.C03
