/-
C03 — optimize() never lowers the weighted objective total.
The acceptance rule of both local optimisers is strict improvement, otherwise revert
(`C02.optRandomLoop_spec`, `C06.optimizeExhaustive_max`); "not lower" composes under repetition.
The lift from local totals to the global total (`optimize_never_lowers`, second half of this file)
takes the score faithfulness of localized objectives as the hypothesis `TotalFaithful`; Props/C09
derives it in exact arithmetic from the per-objective C09 identity.
-/
import DnaModel.Props.C02
set_option linter.unusedVariables false
set_option linter.unusedSimpArgs false
set_option linter.unusedSectionVars false
namespace Dna.C03
open Dna Solver Pure
variable {σ K : Type} [BEq σ] [Score K] [LawfulScore K]

/-- "not lower than" is transitive: repeating optimisation steps never loses score -/
theorem notLower_trans (a b c : K) (h1 : Score.lt b a = false) (h2 : Score.lt c b = false) :
    Score.lt c a = false := by
  cases hx : Score.lt c a with
  | false => rfl
  | true =>
    have := LawfulScore.lt_of_lt_of_not_lt c a b hx h1
    rw [h2] at this; simp at this

/-- exhaustive local optimisation: total not lower, for every problem and start (infeasible starts
    are refused and leave the sequence unchanged) -/
theorem optimizeExhaustive_mono (ops : SpecOps σ K) (ev) (hp : PureEval ops ev) (F : Frame σ) (s : Seq)
    (st : St σ K) (vs : List Seq) (hvs : F.space.allVariants s = .ok vs)
    (hbp : ∀ b, bestSum ops F.objectives = some b → ∀ v ∈ vs, feasible ops ev F v = true →
      Score.le (total ops ev F v) b = true) :
    ∃ r t st', optimizeExhaustive ops F s st = (r, t, st') ∧
      Score.lt (total ops ev F t) (total ops ev F s) = false := by
  cases hf : feasible ops ev F s with
  | true =>
    obtain ⟨t, st', h, _, _, _, hm, _⟩ := C06.optimizeExhaustive_max ops ev hp F s st vs hvs hf hbp
    exact ⟨_, t, st', h, hm⟩
  | false =>
    obtain ⟨w, st', h, _⟩ := C06.optimizeExhaustive_infeasible ops ev hp F s st hf
    exact ⟨_, s, st', h, LawfulScore.lt_irrefl _⟩

/-- random local optimisation: whenever it returns normally the total is not lower — every tape -/
theorem optimizeRandom_mono (ops : SpecOps σ K) (ev) (hp : PureEval ops ev) (sett : Settings) (F : Frame σ)
    (s : Seq) (st : St σ K) (hs : feasible ops ev F s = true) :
    ∃ r t st', optimizeRandom ops sett F s st = (r, t, st') ∧
      (∀ u, r = .ok u → Score.lt (total ops ev F t) (total ops ev F s) = false) := by
  obtain ⟨r, t, st', h, hres⟩ := C02.optimizeRandom_spec ops ev hp sett F s st hs
  exact ⟨r, t, st', h, fun u hu => (hres u hu).2⟩

/-- two successive local optimisations (in any combination) still do not lower the total -/
theorem two_steps_mono (ops : SpecOps σ K) (ev : σ → Seq → Eval K) (F : Frame σ) (s t u : Seq)
    (h1 : Score.lt (total ops ev F t) (total ops ev F s) = false)
    (h2 : Score.lt (total ops ev F u) (total ops ev F t) = false) :
    Score.lt (total ops ev F u) (total ops ev F s) = false :=
  notLower_trans _ _ _ h1 h2

/-! ### the lift from the local problems to the whole problem -/

/-- the exhaustive optimisation loop never ends below the total it started from (no hypothesis on
    declared best scores: those only matter for optimality, C06) -/
theorem optExhaustiveLoop_mono (ops : SpecOps σ K) (ev) (hp : PureEval ops ev) (F : Frame σ) (bp : Option K)
    (s0 : Seq) (vs : List Seq) (bestScore : K) (bestSeq cur : Seq) (st : St σ K)
    (hsc : bestScore = total ops ev F bestSeq)
    (hb : Score.lt (total ops ev F bestSeq) (total ops ev F s0) = false)
    (b cur' : Seq) (st' : St σ K) (h : optExhaustiveLoop ops F bp vs bestScore bestSeq cur st = (.ok b, cur', st')) :
    Score.lt (total ops ev F b) (total ops ev F s0) = false := by
  induction vs generalizing bestScore bestSeq cur st with
  | nil =>
    simp only [optExhaustiveLoop, Prod.mk.injEq, Except.ok.injEq] at h
    rw [← h.1]; exact hb
  | cons v vs ih =>
    simp only [optExhaustiveLoop] at h
    obtain ⟨st1, h1, _⟩ := allConstraintsPass_pure ops ev hp F v (logSeq v st)
    rw [h1] at h
    cases hf : feasible ops ev F v with
    | false =>
      rw [hf] at h
      exact ih _ _ _ _ hsc hb h
    | true =>
      rw [hf] at h
      obtain ⟨st2, h2, _⟩ := objectiveScoresSum_pure ops ev hp F v st1
      simp only [h2] at h
      split at h
      · rename_i hlt
        have hv : Score.lt (total ops ev F v) (total ops ev F s0) = false := by
          cases hx : Score.lt (total ops ev F v) (total ops ev F s0) with
          | false => rfl
          | true =>
            rw [hsc] at hlt
            have := LawfulScore.lt_trans _ _ _ hlt hx
            rw [hb] at this; simp at this
        split at h
        · simp only [Prod.mk.injEq, Except.ok.injEq] at h
          rw [← h.1]; exact hv
        · exact ih _ _ _ _ rfl hv h
      · exact ih _ _ _ _ hsc hb h

/-- `optimize_by_exhaustive_search()`: a successful return is never below the starting total -/
theorem optimizeExhaustive_notLower (ops : SpecOps σ K) (ev) (hp : PureEval ops ev) (F : Frame σ) (s : Seq) (st : St σ K)
    (u : Unit) (t : Seq) (st' : St σ K) (h : optimizeExhaustive ops F s st = (.ok u, t, st')) :
    Score.lt (total ops ev F t) (total ops ev F s) = false := by
  simp only [optimizeExhaustive] at h
  obtain ⟨st1, h1, _⟩ := allConstraintsPass_pure ops ev hp F s st
  rw [h1] at h
  cases hf : feasible ops ev F s with
  | false =>
    rw [hf] at h
    obtain ⟨r, st2, h2, _⟩ := constraintsEvaluations_pure ops ev hp s F.constraints st1
    simp [h2] at h
  | true =>
    rw [hf] at h
    obtain ⟨st2, h2, _⟩ := objectiveScoresSum_pure ops ev hp F s st1
    simp only [h2] at h
    split at h
    · simp at h
    · split at h
      · simp at h
      · rename_i bestSeq cur st3 hloop
        simp only [Prod.mk.injEq, Except.ok.injEq] at h
        rw [← h.2.1]
        exact optExhaustiveLoop_mono ops ev hp F _ s _ _ _ _ _ rfl (LawfulScore.lt_irrefl _) _ _ _ hloop

/-- `optimize_by_random_mutations()`: a successful return is never below the starting total -/
theorem optimizeRandom_notLower (ops : SpecOps σ K) (ev) (hp : PureEval ops ev) (sett : Settings) (F : Frame σ)
    (s : Seq) (st : St σ K) (u : Unit) (t : Seq) (st' : St σ K) (h : optimizeRandom ops sett F s st = (.ok u, t, st')) :
    Score.lt (total ops ev F t) (total ops ev F s) = false := by
  cases hf : feasible ops ev F s with
  | false =>
    obtain ⟨st2, h2⟩ := C02.optimizeRandom_infeasible ops ev hp sett F s st hf
    rw [h2] at h; simp at h
  | true =>
    obtain ⟨r, t2, st2, h2, hres⟩ := C02.optimizeRandom_spec ops ev hp sett F s st hf
    rw [h2] at h
    simp only [Prod.mk.injEq] at h
    obtain ⟨rfl, rfl, rfl⟩ := h
    exact (hres u rfl).2

/-- **what C09 gives the solver**: on the local problem built for the window `[a, b)` around `s`
    (objectives with a non-zero boost, localized and re-initialised; `n` is the problem's length), a candidate `t` that differs
    from `s` only inside the window and whose *local* total is not lower has a *global* total that is
    not lower.  Proved from the per-objective score identity over ℚ below (`totalFaithful_of_scoreFaithful`). -/
def TotalFaithful (n : Nat) (ops : SpecOps σ K) (ev : σ → Seq → Eval K) (lz : σ → Loc → Seq → Option σ)
    (ini : σ → Seq → Role → σ) (F : Frame σ) : Prop :=
  ∀ (a b : Nat) (s t : Seq) (LF : Frame σ), s.length = n → C02.AgreeOut a b s t →
    LF.objectives = C02.localObjectives ops lz ini F a b s →
    Score.lt (total ops ev LF t) (total ops ev LF s) = false →
    Score.lt (total ops ev F t) (total ops ev F s) = false

/-- one location of `optimize_objective` never lowers the global total -/
theorem optimizeLocation_notLower (ops : SpecOps σ K) (ev lz ini) (sett : Settings) (F : Frame σ) (n : Nat)
    (hp : PureEval ops ev) (hq : C02.PureObj ops lz ini)
    (hfit : ∀ a b : Int, C15.ChoicesFit n (F.space.localized a b).multichoices)
    (hT : TotalFaithful n ops ev lz ini F) (location : Loc) (s : Seq) (st : St σ K) (hn : s.length = n) :
    Score.lt (total ops ev F (optimizeLocation ops sett F location s st).2.1) (total ops ev F s) = false ∧
    (optimizeLocation ops sett F location s st).2.1.length = n := by
  rcases C02.optimizeLocation_cases ops lz ini hq sett F location s st with h | ⟨a, b, LF, u, ls, st3, st5, hspan, hLFc, hLFo, hLFs, hres, hout⟩
  · rw [h]; exact ⟨LawfulScore.lt_irrefl _, hn⟩
  · rw [hout]
    have key : C02.AgreeOut a b s ls := by
      have := C02.localOptimize_agree ops sett LF n a b s st3 hn (by rw [hLFs]; exact hfit _ _) (by rw [hLFs]; exact hspan)
      rw [hres] at this; exact this
    have hloc : Score.lt (total ops ev LF ls) (total ops ev LF s) = false := by
      simp only [localOptimize] at hres
      split at hres
      · exact optimizeExhaustive_notLower ops ev hp LF s st3 u ls st5 hres
      · exact optimizeRandom_notLower ops ev hp sett LF s st3 u ls st5 hres
    exact ⟨hT a b s ls LF hn key hLFo hloc, key.1.trans hn⟩

/-- **C03 for the whole problem.**  For pure total specifications whose localized objectives are
    faithful (C09) on a well-formed mutation space: `optimize()` never ends on a sequence whose
    boost-weighted total is lower than the one it started from — whether it returns or raises, for
    every objective mix, setting and tape.  Repeating it composes by `notLower_trans`. -/
theorem optimize_never_lowers (ops : SpecOps σ K) (ev lz ini) (sett : Settings) (F : Frame σ) (n : Nat)
    (hp : PureEval ops ev) (hq : C02.PureObj ops lz ini)
    (hfit : ∀ a b : Int, C15.ChoicesFit n (F.space.localized a b).multichoices)
    (hT : TotalFaithful n ops ev lz ini F) (s : Seq) (st : St σ K) (hn : s.length = n) :
    Score.lt (total ops ev F (optimize ops sett F s st).2.1) (total ops ev F s) = false := by
  -- every level of the solver keeps "not lower than `s0`" and the length
  have hlocs : ∀ (locs : List Loc) (s0 s : Seq) (st : St σ K), s.length = n →
      Score.lt (total ops ev F s) (total ops ev F s0) = false →
      Score.lt (total ops ev F (optimizeLocations ops sett F locs s st).2.1) (total ops ev F s0) = false ∧
      (optimizeLocations ops sett F locs s st).2.1.length = n := by
    intro locs
    induction locs with
    | nil => intro s0 s st hn h; exact ⟨h, hn⟩
    | cons l ls ih =>
      intro s0 s st hn h
      simp only [optimizeLocations]
      have key := optimizeLocation_notLower ops ev lz ini sett F n hp hq hfit hT l s st hn
      cases hx : optimizeLocation ops sett F l s st with
      | mk r rest =>
        obtain ⟨s1, st1⟩ := rest
        rw [hx] at key
        have h1 := notLower_trans _ _ _ h key.1
        cases r with
        | error e => exact ⟨h1, key.2⟩
        | ok u => exact ih s0 s1 st1 key.2 h1
  have hobj : ∀ (o : σ) (s0 s : Seq) (st : St σ K), s.length = n →
      Score.lt (total ops ev F s) (total ops ev F s0) = false →
      Score.lt (total ops ev F (optimizeObjective ops sett F o s st).2.1) (total ops ev F s0) = false ∧
      (optimizeObjective ops sett F o s st).2.1.length = n := by
    intro o s0 s st hn h
    simp only [optimizeObjective]
    split
    · exact ⟨h, hn⟩
    · split
      · exact ⟨h, hn⟩
      · split
        · exact ⟨h, hn⟩
        · exact hlocs _ s0 s _ hn h
  simp only [optimize]
  generalize F.objectives.filter (fun o => !ops.passive o && !Score.eq (ops.boost o) (Score.zero : K)) = os
  suffices hh : ∀ (s1 : Seq) (st : St σ K), s1.length = n → Score.lt (total ops ev F s1) (total ops ev F s) = false →
      Score.lt (total ops ev F (optimizeEach ops sett F os s1 st).2.1) (total ops ev F s) = false ∧
      (optimizeEach ops sett F os s1 st).2.1.length = n from (hh s st hn (LawfulScore.lt_irrefl _)).1
  induction os with
  | nil => intro s1 st hn1 h; exact ⟨h, hn1⟩
  | cons o os ih =>
    intro s1 st hn1 h
    simp only [optimizeEach]
    have key := hobj o s s1 st hn1 h
    cases hx : optimizeObjective ops sett F o s1 st with
    | mk r rest =>
      obtain ⟨s2, st2⟩ := rest
      rw [hx] at key
      cases r with
      | error e => exact key
      | ok u => exact ih s2 st2 key.2 key.1

end Dna.C03
