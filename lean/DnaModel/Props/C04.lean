/-
C04 — the mutation space is exactly the set of sequences the hard constraints allow.
Proved so far: unsolvable iff the language is empty; the initial sequence lies in the space for every
tape (C15.constrainSequence_spec); restriction soundness (EnforcedSound) for EnforceChoice / AvoidChanges.
`mergeWith_exact`: the merge step (new restriction × contiguous underlying choices) yields exactly the
compatible words; `extractVaryingRegion_exact`: the split into head / core / tail keeps the language and tiles the
segment.  The remaining piece of `from_optimization_problem` (the write-back invariant over the whole fold of
restrictions) is decided by the correspondence + the 4^L brute-force oracle: PARTIAL.
-/
import DnaModel.Model.Builtin
import DnaModel.Proofs.Merge
import DnaModel.Proofs.Split
import DnaModel.Proofs.Fold
import DnaModel.Props.C15
import DnaModel.Props.C10
import DnaModel.Props.C08
set_option linter.unusedVariables false
set_option linter.unusedSimpArgs false
namespace Dna.C04
open Dna BSpec C15

/-- the language of a tiling list of choices: the assignments of one variant to every choice -/
def assignments (cl : List Choice) : List (List (Nat × Seq)) :=
  Choice.cartesian (cl.map (fun c => c.variants.map (fun v => (c.start, v))))

/-- **unsolvable iff empty**: the construction reports an unsolvable segment (a choice without
    variants) exactly when no assignment exists -/
theorem unsolvable_iff_empty (cl : List Choice) :
    (∃ c ∈ cl, c.variants = []) ↔ assignments cl = [] := by
  simp only [assignments]
  induction cl with
  | nil => simp [Choice.cartesian]
  | cons c cl ih =>
    simp only [List.map_cons, Choice.cartesian, List.mem_cons, exists_eq_or_imp]
    constructor
    · rintro (h | h)
      · simp [h]
      · rw [ih.1 h]; simp
    · intro h
      by_cases hc : c.variants = []
      · exact Or.inl hc
      · right
        apply ih.2
        cases hv : c.variants with
        | nil => exact absurd hv hc
        | cons v vs =>
          rw [hv] at h
          simp only [List.map_cons, List.flatMap_cons, List.append_eq_nil_iff, List.map_eq_nil_iff] at h
          exact h.1

theorem unsolvable_space_iff (sp : Space) :
    sp.unsolvable ≠ [] ↔ assignments sp.choicesList = [] := by
  rw [← unsolvable_iff_empty]
  simp only [Space.unsolvable, ne_eq, List.map_eq_nil_iff, List.filter_eq_nil_iff, not_forall]
  constructor
  · rintro ⟨c, hc, hv⟩
    exact ⟨c, hc, by simpa using hv⟩
  · rintro ⟨c, hc, hv⟩
    exact ⟨c, hc, by simp [hv]⟩

/-- **the problem's initial sequence always lies in the space** (when the space is solvable): what
    `constrain_sequence` returns holds an allowed variant in every choice, for every random tape -/
theorem initial_sequence_in_space (sp : Space) (s : Seq) (t t' : Tape) (r : Seq)
    (hfit : ChoicesFit s.length sp.choicesList) (h : sp.constrainSequence s t = .ok (r, t')) :
    r.length = s.length ∧ ∀ c ∈ sp.choicesList, c.seg r ∈ c.variants := by
  obtain ⟨h1, h2, _⟩ := constrainSequence_spec sp s t t' r hfit h
  exact ⟨h1, fun c hc => (h2 c hc).1⟩

/-! ### restrictions are sound for the constraints that declare themselves enforced -/

/-- EnforceChoice (forward strand): the restriction is the choice list on the location's segment -/
theorem enforceChoice_restrict (choices : List Seq) (a b : Nat) (s : Seq) :
    restrict (K := Rat) (.enforceChoice choices ⟨a, b, 1⟩) s = some [⟨a, b, dedup choices⟩] := by
  simp [restrict]

theorem mem_dedup {α : Type} [BEq α] [LawfulBEq α] (l : List α) (x : α) : x ∈ dedup l ↔ x ∈ l := by
  induction l with
  | nil => simp [dedup]
  | cons a as ih =>
    simp only [dedup]
    split
    · rename_i hc
      rw [ih]
      constructor
      · intro h; exact List.mem_cons_of_mem _ h
      · intro h
        rcases List.mem_cons.1 h with rfl | h
        · simpa using hc
        · exact h
    · simp [ih]

/-- a sequence whose segment is one of the restriction's variants passes EnforceChoice.evaluate:
    the autopass of this enforced constraint is justified -/
theorem enforceChoice_sound (choices : List Seq) (a b : Nat) (s sub : Seq)
    (hsub : (⟨a, b, 1⟩ : Loc).extract s = some sub) (hin : sub ∈ dedup choices) :
    ∃ e, evaluate (K := Rat) (.enforceChoice choices ⟨a, b, 1⟩) s = some e ∧ C10.passesQ e := by
  have hm : sub ∈ choices := (mem_dedup choices sub).1 hin
  refine ⟨_, rfl, ?_⟩
  have := C10.enforceChoice_passes_iff choices ⟨a, b, 1⟩ s _ sub hsub rfl
  exact this.2 hm

/-- AvoidChanges (location form, no allowance): the restriction keeps exactly the original segment -/
theorem avoidChanges_restrict (target : Seq) (a b : Nat) (s : Seq) :
    restrict (K := Rat) (.avoidChanges 0 target (.loc ⟨a, b, 1⟩)) s = some [⟨a, b, [pySlice s a b]⟩] := by
  simp [restrict, Score.eq, Score.zero]

section MergeExact
open Choice Merge
theorem contig_sorted (a : Nat) (os : List Choice) (h : Contig a os) :
    os.Pairwise (fun x y => (decide (x.start ≤ y.start)) = true) := by
  induction os generalizing a with
  | nil => exact List.Pairwise.nil
  | cons o os ih =>
    obtain ⟨h1, h2, h3⟩ := h
    refine List.Pairwise.cons ?_ (ih o.stop h3)
    intro y hy
    have := (contig_ge o.stop os h3).2 y hy
    simp; omega

/-- **`MutationChoice.merge_with` is exact** (the step that combines a new restriction with the choices already in
    place): if the underlying choices tile a span contiguously, the new choice lies inside that span and every
    variant has its segment's length, then the merged choice spans the whole tile and its variants are exactly the
    words that satisfy the new choice and every underlying one -/
theorem mergeWith_exact (self : Choice) (first : Choice) (rest : List Choice)
    (hc : Contig first.start (first :: rest)) (h1 : first.start ≤ self.start) (h2 : self.start ≤ self.stop)
    (h3 : self.stop ≤ stopOf first.start (first :: rest))
    (hov : ∀ o ∈ first :: rest, ∀ v ∈ o.variants, v.length = o.stop - o.start) :
    ∃ m, self.mergeWith (first :: rest) = some m ∧ m.start = first.start ∧ m.stop = stopOf first.start (first :: rest) ∧
      ∀ sq, sq ∈ m.variants ↔
        sq.length = m.stop - m.start ∧ sl sq (self.start - m.start) (self.stop - self.start) ∈ self.variants ∧
        ∀ o ∈ first :: rest, sl sq (o.start - m.start) (o.stop - o.start) ∈ o.variants := by
  have hsorted : (first :: rest).mergeSort (fun a b => decide (a.start ≤ b.start)) = first :: rest :=
    List.mergeSort_of_pairwise (contig_sorted first.start _ hc)
  have hlast : ∃ l, (first :: rest).getLast? = some l ∧ l.stop = stopOf first.start (first :: rest) := by
    clear hsorted h3 hov h1
    induction rest generalizing first with
    | nil => exact ⟨first, rfl, rfl⟩
    | cons r rs ih =>
      obtain ⟨c1, c2, c3⟩ := hc
      obtain ⟨d1, d2, d3⟩ := c3
      obtain ⟨l, hl1, hl2⟩ := ih r ⟨rfl, d2, d3⟩
      refine ⟨l, by simpa [List.getLast?_cons_cons] using hl1, ?_⟩
      simp only [stopOf] at hl2 ⊢
      rw [hl2]
  obtain ⟨l, hl1, hl2⟩ := hlast
  refine ⟨{ start := first.start, stop := l.stop, variants := mergeCore self first.start (first :: rest) }, ?_, rfl, hl2, ?_⟩
  · simp only [mergeWith, hsorted, List.head?_cons, hl1]
  · intro sq
    simp only
    rw [mergeCore_exact self first.start (first :: rest) sq hc h1 h2 h3 hov, hl2]


end MergeExact

/-- **`extract_varying_region` keeps the language** (the step that splits a merged choice into a constant head, a
    varying core and a constant tail before it is written back into the index): a word is accepted by the choice iff it
    is accepted by every piece, and the pieces tile the choice's segment -/
theorem extractVaryingRegion_exact (c : Choice) (t : Seq)
    (hlen : ∀ v ∈ c.variants, v.length = c.stop - c.start) (hle : c.start ≤ c.stop) :
    (c.seg t ∈ c.variants ↔ ∀ p ∈ c.extractVaryingRegion, p.seg t ∈ p.variants) ∧
    Merge.Contig c.start c.extractVaryingRegion ∧ Merge.stopOf c.start c.extractVaryingRegion = c.stop ∧
    ∀ p ∈ c.extractVaryingRegion, ∀ v ∈ p.variants, v.length = p.stop - p.start :=
  ⟨Split.extractVaryingRegion_language c t hlen hle, Split.extractVaryingRegion_tiles c hlen hle⟩

end Dna.C04

namespace Dna.C04
open Dna Fold C15

/-- the hard restrictions collected from the constraints allow the word `t` -/
abbrev Allowed := Fold.Allowed

/-- **C04, the whole construction**: `MutationSpace.from_optimization_problem` (any-nucleotide index, restrictions
    sorted by length, merge with the choices already in place, split at the varying region, write-back) builds a space
    whose choices accept a DNA word of the sequence's length *iff* the word satisfies every restriction — for every
    number, order and overlap pattern of restrictions that lie inside the sequence.  The index is left tiled by whole
    choices (`Blocks`, `Full`), which is what the localisation theorems of C15 assume. -/
theorem from_optimization_problem_exact (s : Seq) (rs : List Space.Restriction) (sp : Space)
    (hrs : ∀ r ∈ rs, RestrOK s.length r) (h : Space.fromRestrictions s rs = .ok sp) :
    ∀ t : Seq, t.length = s.length → (∀ ch ∈ t, ch ∈ Fold.DNA) →
      ((∀ c ∈ sp.choicesList, c.seg t ∈ c.variants) ↔ Allowed rs t) := by
  obtain ⟨_, _, _, _, hacc⟩ := fromRestrictions_exact s rs sp hrs h
  intro t ht hdna
  refine Iff.trans ?_ (hacc t ht hdna)
  constructor
  · intro hall i c hc
    exact hall c ((C15.mem_choicesList sp c).2 (List.mem_of_getElem? hc))
  · intro hall c hc
    obtain ⟨i, hi⟩ := List.getElem?_of_mem ((C15.mem_choicesList sp c).1 hc)
    exact hall i c hi

/-- the index of a constructed space is tiled by whole choices whose variants have their segment's length -/
theorem from_optimization_problem_tiles (s : Seq) (rs : List Space.Restriction) (sp : Space)
    (hrs : ∀ r ∈ rs, RestrOK s.length r) (h : Space.fromRestrictions s rs = .ok sp) :
    sp.index.length = s.length ∧ Blocks sp.index ∧ Full sp.index ∧ VarsNodup sp.index := by
  obtain ⟨h1, h2, h3, h4, _⟩ := fromRestrictions_exact s rs sp hrs h
  exact ⟨h1, h2, h3, h4⟩

/-- contiguous non-empty choices with well-sized, duplicate-free variants are `ChoicesFit` (the well-formedness that
    the C15 / C12 theorems about `constrain_sequence`, `all_variants`, random mutations and the solver assume) -/
theorem choicesFit_of_tiles (n a : Nat) (cl : List Choice) (hc : Merge.Contig a cl) (hs : Merge.stopOf a cl ≤ n)
    (hp : ∀ c ∈ cl, c.start < c.stop ∧ (∀ v ∈ c.variants, v.length = c.stop - c.start) ∧ c.variants.Nodup) :
    ChoicesFit n cl := by
  induction cl generalizing a with
  | nil => trivial
  | cons c rest ih =>
    obtain ⟨e1, e2, e3⟩ := hc
    obtain ⟨p1, p2, p3⟩ := hp c (by simp)
    have hge := Merge.contig_ge c.stop rest e3
    simp only [Merge.stopOf] at hs
    exact ⟨by omega, p1, p2, p3, fun r hr => (hge.2 r hr).1, ih c.stop e3 hs (fun x hx => hp x (by simp [hx]))⟩

/-- **the space built by `from_optimization_problem` is well-formed**: its choices tile the sequence in order, each a
    non-empty segment whose variants are pairwise distinct words of the segment's length.  This discharges the
    hypothesis `ChoicesFit` (and `SpaceWF.fit` of C12) for every space the library constructs from restrictions inside
    the sequence. -/
theorem from_optimization_problem_fits (s : Seq) (rs : List Space.Restriction) (sp : Space)
    (hrs : ∀ r ∈ rs, RestrOK s.length r) (h : Space.fromRestrictions s rs = .ok sp) :
    ChoicesFit s.length sp.choicesList ∧ Merge.Contig 0 sp.choicesList ∧ Merge.stopOf 0 sp.choicesList = s.length := by
  obtain ⟨hl, hB, hF, hN, _⟩ := fromRestrictions_exact s rs sp hrs h
  obtain ⟨t1, t2, t3⟩ := choicesList_tiles sp hB hF
  refine ⟨choicesFit_of_tiles s.length 0 _ t1 (by omega) ?_, t1, by omega⟩
  intro c hc
  obtain ⟨i, hi⟩ := List.getElem?_of_mem ((C15.mem_choicesList sp c).1 hc)
  exact ⟨(t3 c hc).1, (t3 c hc).2.2, hN i c hi⟩

/-- consequently the problem's constrained initial sequence lies in the constructed space for every random tape, with
    no well-formedness hypothesis left -/
theorem initial_sequence_in_constructed_space (s : Seq) (rs : List Space.Restriction) (sp : Space) (t t' : Tape) (r : Seq)
    (hrs : ∀ r ∈ rs, RestrOK s.length r) (h : Space.fromRestrictions s rs = .ok sp)
    (hc : sp.constrainSequence s t = .ok (r, t')) :
    r.length = s.length ∧ ∀ c ∈ sp.choicesList, c.seg r ∈ c.variants :=
  initial_sequence_in_space sp s t t' r (from_optimization_problem_fits s rs sp hrs h).1 hc

/-! ### EnforceSequence: the restriction is exactly the documented predicate, and exactly `evaluate` passing -/

theorem optAll_map_range {α : Type} (f : Nat → Option α) (n : Nat) (rs : List α) :
    Space.optAll ((List.range n).map f) = some rs ↔ (rs.length = n ∧ ∀ k, k < n → f k = rs[k]?) := by
  induction n generalizing f rs with
  | zero =>
    simp only [List.range_zero, List.map_nil, Space.optAll, Option.some.injEq, Nat.not_lt_zero, false_imp_iff, implies_true, and_true]
    constructor
    · intro h; rw [← h]; rfl
    · intro h; exact (List.length_eq_zero_iff.1 h).symm
  | succ n ih =>
    rw [List.range_succ_eq_map, List.map_cons, List.map_map]
    cases h0 : f 0 with
    | none =>
      simp only [Space.optAll, reduceCtorEq, false_iff, not_and]
      intro hl hall
      have := hall 0 (by omega)
      rw [h0] at this
      cases rs with
      | nil => simp at hl
      | cons x r => simp at this
    | some x =>
      simp only [Space.optAll, Option.map_eq_some_iff]
      constructor
      · rintro ⟨r, hr, rfl⟩
        obtain ⟨h1, h2⟩ := (ih (f ∘ Nat.succ) r).1 hr
        refine ⟨by simp [h1], ?_⟩
        intro k hk
        cases k with
        | zero => simp [h0]
        | succ k => simpa using h2 k (by omega)
      · rintro ⟨hl, hall⟩
        cases rs with
        | nil => simp at hl
        | cons y r =>
          have hy := hall 0 (by omega)
          rw [h0] at hy
          simp only [List.getElem?_cons_zero, Option.some.injEq] at hy
          subst hy
          refine ⟨r, (ih (f ∘ Nat.succ) r).2 ⟨by simpa using hl, ?_⟩, rfl⟩
          intro k hk
          simpa using hall (k + 1) (by omega)

/-- **EnforceSequence (forward / unstranded)**: a sequence satisfies every nucleotide restriction the
    constraint hands to the mutation space **iff** the constraint's own `evaluate` passes on it, i.e.
    iff every position holds a nucleotide of its IUPAC letter — the restriction is exact and the
    constraint is soundly "enforced by nucleotide restrictions" -/
theorem enforceSequence_restrict_iff (sq : Seq) (a b : Nat) (st : Int) (hst : st ≠ -1) (s0 t : Seq) (hab : a ≤ b)
    (hb : b ≤ t.length) (hlen : b - a ≤ sq.length) (rs : List Space.Restriction)
    (hr : BSpec.restrict (K := Rat) (.enforceSequence sq ⟨a, b, st⟩) s0 = some rs) :
    (∀ r ∈ rs, win t r.start (r.stop - r.start) ∈ r.variants) ↔ C08.PassesB (.enforceSequence sq ⟨a, b, st⟩) t := by
  rw [C08.enforceSequence_passes_iff sq a b st hst t hab hb]
  have hst' : (st == -1) = false := by simp [hst]
  simp only [BSpec.restrict, hst', Bool.false_eq_true, if_false] at hr
  have hn : ((b : Int) - (a : Int)).toNat = b - a := by omega
  rw [hn, optAll_map_range] at hr
  obtain ⟨hl, hall⟩ := hr
  -- the k-th restriction is position a+k with the singletons of the k-th letter's nucleotides
  have hkth : ∀ k, k < b - a → ∃ letter set, sq[k]? = some letter ∧ lookup letter Gen.iupac = some set ∧
      rs[k]? = some ⟨a + k, a + k + 1, set.map (fun n => [n])⟩ := by
    intro k hk
    have h1 := hall k hk
    have e1 : ((a : Int) + (k : Int) - (a : Int)).toNat = k := by omega
    have e2 : ((a : Int) + (k : Int)).toNat = a + k := by omega
    simp only [e1, e2] at h1
    have hlt : k < rs.length := by omega
    rw [List.getElem?_eq_getElem hlt] at h1
    cases hq : sq[k]? with
    | none => simp [hq] at h1
    | some letter =>
      cases hlk : lookup letter Gen.iupac with
      | none => simp [hq, hlk] at h1
      | some set =>
        simp only [hq, hlk, Option.map_some, Option.some.injEq] at h1
        exact ⟨letter, set, rfl, hlk, by rw [List.getElem?_eq_getElem hlt, h1]⟩
  have hsingle : ∀ (i : Nat) (n : Char), win t i 1 = [n] ↔ t[i]? = some n := by
    intro i n
    constructor
    · intro h
      have : (win t i 1)[0]? = some n := by rw [h]; rfl
      rw [C08.win_getElem? t i 1 0 (by omega)] at this
      simpa using this
    · intro h
      apply List.ext_getElem?
      intro j
      cases j with
      | zero => rw [C08.win_getElem? t i 1 0 (by omega)]; simpa using h
      | succ j => simp [win]
  constructor
  · intro h
    refine ⟨hlen, ?_⟩
    intro i hi
    obtain ⟨letter, set, hq, hlk, hri⟩ := hkth i hi
    have := h _ (List.mem_of_getElem? hri)
    simp only [Nat.add_sub_cancel_left, List.mem_map] at this
    obtain ⟨n, hn1, hn2⟩ := this
    have hti : t[a + i]? = some n := (hsingle (a + i) n).1 hn2.symm
    refine ⟨n, letter, set, ?_, hq, hlk, by simpa using hn1⟩
    rw [C08.win_getElem? t a (b - a) i hi]; exact hti
  · rintro ⟨_, hok⟩ r hr
    obtain ⟨k, hk, hget⟩ := List.getElem_of_mem hr
    have hk' : k < b - a := by omega
    obtain ⟨letter, set, hq, hlk, hri⟩ := hkth k hk'
    rw [List.getElem?_eq_getElem hk, hget, Option.some.injEq] at hri
    obtain ⟨n, letter', set', h1, h2, h3, h4⟩ := hok k hk'
    rw [hq, Option.some.injEq] at h2
    subst h2
    rw [hlk, Option.some.injEq] at h3
    subst h3
    rw [hri]
    simp only [Nat.add_sub_cancel_left, List.mem_map]
    rw [C08.win_getElem? t a (b - a) k hk'] at h1
    exact ⟨n, by simpa using h4, ((hsingle (a + k) n).2 h1).symm⟩

/-- **AvoidChanges (no budget, forward / unstranded region)**: a sequence satisfies the restriction the
    constraint hands to the mutation space (built on the construction-time sequence `s0`) **iff** the
    constraint initialised on `s0` passes on it — "enforced by nucleotide restrictions" is sound and exact -/
theorem avoidChanges_restrict_iff (a b : Nat) (st : Int) (hst : st ≠ -1) (s0 t : Seq) (hab : a ≤ b)
    (hb0 : b ≤ s0.length) (hb : b ≤ t.length) (tg : Seq) (rs : List Space.Restriction)
    (hr : BSpec.restrict (K := Rat) (.avoidChanges 0 tg (.loc ⟨a, b, st⟩)) s0 = some rs) :
    (∀ r ∈ rs, win t r.start (r.stop - r.start) ∈ r.variants) ↔
      C08.PassesB (.avoidChanges 0 (win s0 a (b - a)) (.loc ⟨a, b, st⟩)) t := by
  have hlen : (win s0 a (b - a)).length = b - a := by simp only [win, List.length_take, List.length_drop]; omega
  rw [C08.avoidChanges_passes_iff (win s0 a (b - a)) a b st hst t hab hb hlen]
  have e0 : Score.eq (0 : Rat) (Score.zero : Rat) = true := by decide
  simp only [BSpec.restrict, e0, Bool.not_true, Bool.false_eq_true, if_false, Option.some.injEq] at hr
  rw [← hr]
  simp only [List.mem_singleton, forall_eq, Int.toNat_natCast, C15.pySlice_nat' s0 a b hab hb0]
  constructor
  · intro h; simpa [win] using h
  · intro h; simpa [win] using h

/-- the construction cannot fail on restrictions inside the sequence … the two `crash` branches of the model
    (a `None` under a restriction, `merge_with` on an empty set) are unreachable: stated as what a successful step
    needs, the fold never meets them because `Full` is an invariant (see `Fold.applyRestriction_spec`) -/
example : RestrOK 6 ⟨1, 4, [['A', 'T', 'G'], ['A', 'C', 'G']]⟩ := by
  refine ⟨by decide, by decide, ?_⟩
  intro v hv
  simp at hv
  rcases hv with rfl | rfl <;> rfl

/- non-vacuity of `h : fromRestrictions s rs = .ok sp`: the model's `mergeSort` is defined by well-founded recursion and
   does not reduce in the kernel, so a closed example cannot be checked by `decide`; the correspondence check runs this
   very function (`space.build` requests) on thousands of generated restriction sets per run, overlapping ones
   included, and compares the resulting choices with the implementation's. -/

end Dna.C04
