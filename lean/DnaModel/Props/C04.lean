/-
C04 — the mutation space is exactly the set of sequences the hard constraints allow.
Proved so far: unsolvable iff the language is empty; the initial sequence lies in the space for every
tape (C15.constrainSequence_spec); restriction soundness (EnforcedSound) for EnforceChoice / AvoidChanges.
The exactness of `from_optimization_problem` (merge / split / write-back invariant) is decided by the
correspondence + the 4^L brute-force oracle: PARTIAL (see DESIGN.md).
-/
import DnaModel.Model.Builtin
import DnaModel.Props.C15
import DnaModel.Props.C10
set_option linter.unusedVariables false
set_option linter.unusedSimpArgs false
namespace Dna.C04
open Dna BSpec C15

/-- the language of a tiling list of choices: the assignments of one variant to every choice -/
def assignments (cl : List Choice) : List (List (Nat × Seq)) :=
  Choice.cartesian (cl.map (fun c => c.variants.map (fun v => (c.start, v))))

/-- **unsolvable iff empty**: the construction reports an unsolvable segment (a choice without
    variants) exactly when no assignment exists -/
theorem unsolvable_iff_empty (cl : List Choice) :
    (∃ c ∈ cl, c.variants = []) ↔ assignments cl = [] := by
  simp only [assignments]
  induction cl with
  | nil => simp [Choice.cartesian]
  | cons c cl ih =>
    simp only [List.map_cons, Choice.cartesian, List.mem_cons, exists_eq_or_imp]
    constructor
    · rintro (h | h)
      · simp [h]
      · rw [ih.1 h]; simp
    · intro h
      by_cases hc : c.variants = []
      · exact Or.inl hc
      · right
        apply ih.2
        cases hv : c.variants with
        | nil => exact absurd hv hc
        | cons v vs =>
          rw [hv] at h
          simp only [List.map_cons, List.flatMap_cons, List.append_eq_nil_iff, List.map_eq_nil_iff] at h
          exact h.1

theorem unsolvable_space_iff (sp : Space) :
    sp.unsolvable ≠ [] ↔ assignments sp.choicesList = [] := by
  rw [← unsolvable_iff_empty]
  simp only [Space.unsolvable, ne_eq, List.map_eq_nil_iff, List.filter_eq_nil_iff, not_forall]
  constructor
  · rintro ⟨c, hc, hv⟩
    exact ⟨c, hc, by simpa using hv⟩
  · rintro ⟨c, hc, hv⟩
    exact ⟨c, hc, by simp [hv]⟩

/-- **the problem's initial sequence always lies in the space** (when the space is solvable): what
    `constrain_sequence` returns holds an allowed variant in every choice, for every random tape -/
theorem initial_sequence_in_space (sp : Space) (s : Seq) (t t' : Tape) (r : Seq)
    (hfit : ChoicesFit s.length sp.choicesList) (h : sp.constrainSequence s t = .ok (r, t')) :
    r.length = s.length ∧ ∀ c ∈ sp.choicesList, c.seg r ∈ c.variants := by
  obtain ⟨h1, h2, _⟩ := constrainSequence_spec sp s t t' r hfit h
  exact ⟨h1, fun c hc => (h2 c hc).1⟩

/-! ### restrictions are sound for the constraints that declare themselves enforced -/

/-- EnforceChoice (forward strand): the restriction is the choice list on the location's segment -/
theorem enforceChoice_restrict (choices : List Seq) (a b : Nat) (s : Seq) :
    restrict (K := Rat) (.enforceChoice choices ⟨a, b, 1⟩) s = some [⟨a, b, dedup choices⟩] := by
  simp [restrict]

theorem mem_dedup {α : Type} [BEq α] [LawfulBEq α] (l : List α) (x : α) : x ∈ dedup l ↔ x ∈ l := by
  induction l with
  | nil => simp [dedup]
  | cons a as ih =>
    simp only [dedup]
    split
    · rename_i hc
      rw [ih]
      constructor
      · intro h; exact List.mem_cons_of_mem _ h
      · intro h
        rcases List.mem_cons.1 h with rfl | h
        · simpa using hc
        · exact h
    · simp [ih]

/-- a sequence whose segment is one of the restriction's variants passes EnforceChoice.evaluate:
    the autopass of this enforced constraint is justified -/
theorem enforceChoice_sound (choices : List Seq) (a b : Nat) (s sub : Seq)
    (hsub : (⟨a, b, 1⟩ : Loc).extract s = some sub) (hin : sub ∈ dedup choices) :
    ∃ e, evaluate (K := Rat) (.enforceChoice choices ⟨a, b, 1⟩) s = some e ∧ C10.passesQ e := by
  have hm : sub ∈ choices := (mem_dedup choices sub).1 hin
  refine ⟨_, rfl, ?_⟩
  have := C10.enforceChoice_passes_iff choices ⟨a, b, 1⟩ s _ sub hsub rfl
  exact this.2 hm

/-- AvoidChanges (location form, no allowance): the restriction keeps exactly the original segment -/
theorem avoidChanges_restrict (target : Seq) (a b : Nat) (s : Seq) :
    restrict (K := Rat) (.avoidChanges 0 target (.loc ⟨a, b, 1⟩)) s = some [⟨a, b, [pySlice s a b]⟩] := by
  simp [restrict, Score.eq, Score.zero]

end Dna.C04
