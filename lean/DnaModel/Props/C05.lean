/-
C05 — results are a function of the inputs and the numpy seed only.
In the code the variants of a mutation choice are a Python `set`: its iteration order depends on the
interpreter's string-hash seed.  In the model a set is a list in *some* order; the theorems below show that every
consumer that draws a random number or fixes a visiting order gives the same result for every order
(permutation) of the variants — because it sorts first.
-/
import DnaModel.Model.Space
import DnaModel.Props.C15
import Mathlib.Data.List.Forall2
set_option linter.unusedVariables false
set_option linter.unusedSimpArgs false
namespace Dna.C05
open Dna

theorem seqLt_irrefl (a : Seq) : seqLt a a = false := by
  induction a with
  | nil => rfl
  | cons x xs ih => simp [seqLt, ih]

theorem seqLe_antisymm (a b : Seq) (h1 : seqLe a b = true) (h2 : seqLe b a = true) : a = b := by
  simp only [seqLe, Bool.not_eq_true'] at h1 h2
  induction a generalizing b with
  | nil => cases b with
    | nil => rfl
    | cons y ys => simp [seqLt] at h2
  | cons x xs ih =>
    cases b with
    | nil => simp [seqLt] at h1
    | cons y ys =>
      simp only [seqLt, Bool.or_eq_false_iff, decide_eq_false_iff_not, Nat.not_lt, Bool.and_eq_false_iff, beq_eq_false_iff_ne] at h1 h2
      have hxy : x.toNat = y.toNat := Nat.le_antisymm h1.1 h2.1
      have hx : x = y := Char.ext (by
        have := hxy
        simp only [Char.toNat] at this
        exact UInt32.toNat_inj.1 this)
      subst hx
      have t1 : seqLt ys xs = false := by rcases h1.2 with h | h; exact absurd rfl h; exact h
      have t2 : seqLt xs ys = false := by rcases h2.2 with h | h; exact absurd rfl h; exact h
      rw [ih ys t1 t2]

/-- **`sorted(variants)` does not depend on the set's iteration order** -/
theorem sortSeqs_canonical (l l' : List Seq) (h : l.Perm l') : sortSeqs l = sortSeqs l' := by
  apply List.Perm.eq_of_pairwise (le := fun a b => seqLe a b = true)
  · intro a b _ _ h1 h2; exact seqLe_antisymm a b h1 h2
  · exact C15.sortSeqs_sorted l
  · exact C15.sortSeqs_sorted l'
  · exact (C15.sortSeqs_perm l).trans (h.trans (C15.sortSeqs_perm l').symm)

/-- two representations of the same choice: same segment, the same *set* of variants -/
def SameChoice (c c' : Choice) : Prop := c.start = c'.start ∧ c.stop = c'.stop ∧ c.variants.Perm c'.variants

theorem seg_same (c c' : Choice) (h : SameChoice c c') (s : Seq) : c.seg s = c'.seg s := by
  simp only [Choice.seg, h.1, h.2.1]

/-- **`MutationChoice.random_variant`**: the draw is made in `sorted(variants)` -/
theorem randomVariant_order_free (c c' : Choice) (h : SameChoice c c') (s : Seq) (t : Tape) :
    c.randomVariant s t = c'.randomVariant s t := by
  simp only [Choice.randomVariant, seg_same c c' h s]
  rw [sortSeqs_canonical _ _ (h.2.2.filter _)]

/-- **the visiting order of `all_variants`** is a function of the set of variants -/
theorem variantsByDistance_order_free (c c' : Choice) (h : SameChoice c c') (s : Seq) :
    Space.variantsByDistance c s = Space.variantsByDistance c' s := by
  simp only [Space.variantsByDistance, seg_same c c' h s, sortSeqs_canonical _ _ h.2.2]

theorem contains_perm (l l' : List Seq) (h : l.Perm l') (x : Seq) : l.contains x = l'.contains x := by
  simp only [List.contains_eq_mem]
  exact decide_eq_decide.2 h.mem_iff

/-- **`constrain_sequence`**: for choices given as sets in any order, the constrained sequence and the random numbers
    consumed are the same.  (A single-variant choice is spliced, a choice already satisfied is skipped, otherwise the
    draw is made in `sorted(variants)`.) -/
theorem constrainLoop_order_free (cs cs' : List Choice) (h : List.Forall₂ SameChoice cs cs') (orig acc : Seq) (t : Tape) :
    Space.constrainLoop cs orig acc t = Space.constrainLoop cs' orig acc t := by
  induction h generalizing acc t with
  | nil => rfl
  | @cons c c' r r' hc hrest ih =>
    obtain ⟨h1, h2, hp⟩ := hc
    have hlen := hp.length_eq
    unfold Space.constrainLoop
    cases hv : c.variants with
    | nil =>
      have : c'.variants = [] := by rw [hv] at hp; exact (List.Perm.nil_eq hp).symm
      simp [this]
    | cons v vs =>
      cases vs with
      | nil =>
        have : c'.variants = [v] := by rw [hv] at hp; exact List.perm_singleton.1 hp.symm
        simp only [this, h1]
        exact ih _ _
      | cons w ws =>
        cases hv' : c'.variants with
        | nil => rw [hv, hv'] at hlen; simp at hlen
        | cons v' vs' =>
          cases vs' with
          | nil => rw [hv, hv'] at hlen; simp at hlen
          | cons w' ws' =>
            rw [hv, hv'] at hp
            simp only [h1, h2, contains_perm _ _ hp, hp.length_eq, sortSeqs_canonical _ _ hp]
            split
            · exact ih _ _
            · split
              · rfl
              · split
                · exact ih _ _
                · rfl

/-- the size of the space (what decides between exhaustive and random search) only counts variants -/
theorem lengths_order_free (cs cs' : List Choice) (h : List.Forall₂ SameChoice cs cs') :
    cs.map (·.variants.length) = cs'.map (·.variants.length) := by
  induction h with
  | nil => rfl
  | cons hc _ ih => simp [hc.2.2.length_eq, ih]

theorem randomVariants_order_free (cs cs' : List Choice) (h : List.Forall₂ SameChoice cs cs') (s : Seq) (t : Tape) :
    Space.randomVariants cs s t = Space.randomVariants cs' s t := by
  induction h generalizing t with
  | nil => rfl
  | cons hc _ ih =>
    simp only [Space.randomVariants, randomVariant_order_free _ _ hc, hc.1]
    split
    · rfl
    · rw [ih]

/-- **the enumeration of `all_variants`**: same slots, hence the same list of candidate sequences in the same order -/
theorem slots_order_free (cs cs' : List Choice) (h : List.Forall₂ SameChoice cs cs') (s : Seq) :
    cs.map (fun c => (Space.variantsByDistance c s).map (fun v => (c.start, v))) =
    cs'.map (fun c => (Space.variantsByDistance c s).map (fun v => (c.start, v))) := by
  induction h with
  | nil => rfl
  | cons hc _ ih => simp [variantsByDistance_order_free _ _ hc, hc.1, ih]

/-! non-vacuity -/
example : sortSeqs ["TA".toList, "AC".toList, "GG".toList] = sortSeqs ["GG".toList, "TA".toList, "AC".toList] :=
  sortSeqs_canonical _ _ (by decide)

end Dna.C05
