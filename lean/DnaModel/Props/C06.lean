/-
C06 — exhaustive searches are complete and exactly optimal over the mutation space.
The enumeration itself (`all_variants` = every member of the localized space exactly once, current
sequence first) is `C15.allVariants_enumerates`; here: what the two exhaustive searches do with it.
Specifications are pure total functions of (object, sequence) in this file (`PureEval`).
-/
import DnaModel.Proofs.SolverPure
import DnaModel.Props.C15
set_option linter.unusedVariables false
set_option linter.unusedSimpArgs false
set_option linter.unusedSectionVars false
namespace Dna.C06
open Dna Solver Pure
variable {σ K : Type} [BEq σ] [Score K]

/-- the acceptance test of the exhaustive constraint search on a candidate -/
def accepts (ops : SpecOps σ K) (ev : σ → Seq → Eval K) (F : Frame σ) (focus : Option (σ × List σ)) (v : Seq) : Bool :=
  match focus with
  | some (f, others) => (ev f v).passes && others.all (fun c => (ev c v).passes)
  | none => feasible ops ev F v

theorem exhaustiveLoop_pure (ops : SpecOps σ K) (ev) (hp : PureEval ops ev) (F : Frame σ) (focus) (vs : List Seq)
    (cur : Seq) (st : St σ K) :
    ∃ st', st'.tape = st.tape ∧
      exhaustiveLoop ops F focus vs cur st =
        (match vs.find? (accepts ops ev F focus) with
         | some v => (.ok true, v, st')
         | none => (.ok false, vs.getLast?.getD cur, st')) := by
  induction vs generalizing cur st with
  | nil => exact ⟨st, rfl, rfl⟩
  | cons v vs ih =>
    simp only [exhaustiveLoop, List.find?_cons]
    have htest : ∃ st1, st1.tape = st.tape ∧
        exhaustiveTest ops F focus v (logSeq v st) = (.ok (accepts ops ev F focus v), st1) := by
      cases focus with
      | none =>
        obtain ⟨st1, h1, h2⟩ := allConstraintsPass_pure ops ev hp F v (logSeq v st)
        exact ⟨st1, h2.1, by simpa [accepts, exhaustiveTest] using h1⟩
      | some fo =>
        obtain ⟨f, others⟩ := fo
        simp only [exhaustiveTest, evalAt_pure ops ev hp, accepts]
        cases hf : (ev f v).passes with
        | false => exact ⟨{ (logSeq v st) with nEval := (logSeq v st).nEval + 1 }, rfl, by simp⟩
        | true =>
          obtain ⟨st1, h1, h2⟩ := allPass_pure ops ev hp v others { (logSeq v st) with nEval := (logSeq v st).nEval + 1 }
          exact ⟨st1, h2.1, by simp [h1]⟩
    obtain ⟨st1, ht1, htest⟩ := htest
    rw [htest]
    cases ha : accepts ops ev F focus v with
    | true => exact ⟨st1, ht1, by simp⟩
    | false =>
      simp only [Bool.false_eq_true, if_false]
      obtain ⟨st2, ht2, h2⟩ := ih v st1
      refine ⟨st2, ht2.trans ht1, ?_⟩
      rw [h2]
      cases vs with
      | nil => simp
      | cons w ws =>
        cases hl : (w :: ws).getLast? with
        | none => simp at hl
        | some x => simp [List.getLast?_cons_cons, hl]

/-- **`resolve_constraints_by_exhaustive_search()` is complete**: over the enumeration `vs` of the
    mutation space it returns with an accepted candidate whenever one exists, and otherwise raises
    `NoSolutionError` after restoring exactly the sequence it started from; it draws no random number -/
theorem resolveExhaustive_complete (ops : SpecOps σ K) (ev) (hp : PureEval ops ev) (F : Frame σ) (s : Seq)
    (st : St σ K) (vs : List Seq) (hvs : F.space.allVariants s = .ok vs) :
    let acc := accepts ops ev F (getFocus st F)
    ((∃ v ∈ vs, acc v = true) →
      ∃ t st', resolveExhaustive ops F s st = (.ok (), t, st') ∧ t ∈ vs ∧ acc t = true ∧ st'.tape = st.tape) ∧
    ((∀ v ∈ vs, acc v = false) →
      ∃ w st', resolveExhaustive ops F s st = (.error (.noSolution w), s, st') ∧ st'.tape = st.tape) := by
  intro acc
  obtain ⟨st', ht, hloop⟩ := exhaustiveLoop_pure ops ev hp F (getFocus st F) vs s st
  constructor
  · rintro ⟨v, hv, hav⟩
    cases hf : vs.find? acc with
    | none =>
      have := List.find?_eq_none.1 hf v hv
      rw [hav] at this; simp at this
    | some t =>
      have ht1 := List.find?_some hf
      have ht2 := List.mem_of_find?_eq_some hf
      refine ⟨t, st', ?_, ht2, ht1, ht⟩
      simp only [resolveExhaustive, hvs]
      rw [hloop]; simp only [acc] at hf; rw [hf]
  · intro hnone
    have hf : vs.find? acc = none := List.find?_eq_none.2 (fun v hv => by simp [hnone v hv])
    refine ⟨"Exhaustive search failed to satisfy all constraints.", logSeq s st', ?_, by simp [logSeq, ht]⟩
    simp only [resolveExhaustive, hvs]
    rw [hloop]; simp only [acc] at hf; rw [hf]


section optimal
variable [LawfulScore K]

theorem optExhaustiveLoop_pure (ops : SpecOps σ K) (ev) (hp : PureEval ops ev) (F : Frame σ) (bp : Option K)
    (vs : List Seq) (bestScore : K) (bestSeq cur : Seq) (st : St σ K)
    (hbp : ∀ b, bp = some b → ∀ v ∈ vs, feasible ops ev F v = true → Score.le (total ops ev F v) b = true) :
    ∃ best cur' st', optExhaustiveLoop ops F bp vs bestScore bestSeq cur st = (.ok best, cur', st') ∧
      st'.tape = st.tape ∧
      ((best = bestSeq ∧ ∀ v ∈ vs, feasible ops ev F v = true → Score.lt bestScore (total ops ev F v) = false) ∨
       (best ∈ vs ∧ feasible ops ev F best = true ∧ Score.lt bestScore (total ops ev F best) = true ∧
        ∀ v ∈ vs, feasible ops ev F v = true → Score.lt (total ops ev F best) (total ops ev F v) = false)) := by
  induction vs generalizing bestScore bestSeq cur st with
  | nil => exact ⟨bestSeq, cur, st, rfl, rfl, Or.inl ⟨rfl, by simp⟩⟩
  | cons v vs ih =>
    have hbp' : ∀ b, bp = some b → ∀ w ∈ vs, feasible ops ev F w = true → Score.le (total ops ev F w) b = true :=
      fun b hb w hw => hbp b hb w (by simp [hw])
    simp only [optExhaustiveLoop]
    obtain ⟨st1, h1, o1⟩ := allConstraintsPass_pure ops ev hp F v (logSeq v st)
    rw [h1]
    have t1 : st1.tape = st.tape := o1.1
    cases hf : feasible ops ev F v with
    | false =>
      simp only
      obtain ⟨best, cur', st', h, ht, hres⟩ := ih bestScore bestSeq v st1 hbp'
      refine ⟨best, cur', st', h, ht.trans t1, ?_⟩
      rcases hres with ⟨hb, hall⟩ | ⟨hb1, hb2, hb3, hall⟩
      · left; refine ⟨hb, ?_⟩
        intro w hw hfw
        rcases List.mem_cons.1 hw with rfl | hw
        · rw [hf] at hfw; simp at hfw
        · exact hall w hw hfw
      · right; refine ⟨by simp [hb1], hb2, hb3, ?_⟩
        intro w hw hfw
        rcases List.mem_cons.1 hw with rfl | hw
        · rw [hf] at hfw; simp at hfw
        · exact hall w hw hfw
    | true =>
      simp only
      obtain ⟨st2, h2, o2⟩ := objectiveScoresSum_pure ops ev hp F v st1
      rw [h2]
      have t2 : st2.tape = st.tape := o2.1.trans t1
      simp only
      cases hlt : Score.lt bestScore (total ops ev F v) with
      | false =>
        simp only [Bool.false_eq_true, if_false]
        obtain ⟨best, cur', st', h, ht, hres⟩ := ih bestScore bestSeq v st2 hbp'
        refine ⟨best, cur', st', h, ht.trans t2, ?_⟩
        rcases hres with ⟨hb, hall⟩ | ⟨hb1, hb2, hb3, hall⟩
        · left; refine ⟨hb, ?_⟩
          intro w hw hfw
          rcases List.mem_cons.1 hw with rfl | hw
          · exact hlt
          · exact hall w hw hfw
        · right; refine ⟨by simp [hb1], hb2, hb3, ?_⟩
          intro w hw hfw
          rcases List.mem_cons.1 hw with rfl | hw
          · -- T best > bestScore ≥ T w
            cases hx : Score.lt (total ops ev F best) (total ops ev F w) with
            | false => rfl
            | true =>
              have := LawfulScore.lt_of_lt_of_not_lt _ _ _ hb3 (by
                cases hy : Score.lt (total ops ev F w) (total ops ev F best) with
                | false => rfl
                | true =>
                  have := LawfulScore.lt_trans _ _ _ hx hy
                  rw [LawfulScore.lt_irrefl] at this; simp at this)
              -- bestScore < T w contradicts hlt
              rw [hlt] at this; simp at this
          · exact hall w hw hfw
      | true =>
        simp only [if_true]
        -- v is the new best
        have stop_case : ∀ b, bp = some b → Score.le b (total ops ev F v) = true →
            ∀ w ∈ v :: vs, feasible ops ev F w = true → Score.lt (total ops ev F v) (total ops ev F w) = false := by
          intro b hb hle w hw hfw
          have hwb := hbp b hb w hw hfw
          rw [LawfulScore.le_iff_not_lt] at hwb hle
          cases hx : Score.lt (total ops ev F v) (total ops ev F w) with
          | false => rfl
          | true =>
            have := LawfulScore.lt_of_lt_of_not_lt _ _ _ hx hwb
            rw [hle] at this; simp at this
        have cont_case : ∃ best cur' st', optExhaustiveLoop ops F bp vs (total ops ev F v) v v st2 = (.ok best, cur', st') ∧
            st'.tape = st.tape ∧
            (best ∈ v :: vs ∧ feasible ops ev F best = true ∧ Score.lt bestScore (total ops ev F best) = true ∧
              ∀ w ∈ v :: vs, feasible ops ev F w = true → Score.lt (total ops ev F best) (total ops ev F w) = false) := by
          obtain ⟨best, cur', st', h, ht, hres⟩ := ih (total ops ev F v) v v st2 hbp'
          refine ⟨best, cur', st', h, ht.trans t2, ?_⟩
          rcases hres with ⟨hb, hall⟩ | ⟨hb1, hb2, hb3, hall⟩
          · subst hb
            refine ⟨by simp, hf, hlt, ?_⟩
            intro w hw hfw
            rcases List.mem_cons.1 hw with rfl | hw
            · exact LawfulScore.lt_irrefl _
            · exact hall w hw hfw
          · refine ⟨by simp [hb1], hb2, LawfulScore.lt_trans _ _ _ hlt hb3, ?_⟩
            intro w hw hfw
            rcases List.mem_cons.1 hw with rfl | hw
            · cases hx : Score.lt (total ops ev F best) (total ops ev F w) with
              | false => rfl
              | true =>
                have := LawfulScore.lt_trans _ _ _ hb3 hx
                rw [LawfulScore.lt_irrefl] at this; simp at this
            · exact hall w hw hfw
        cases hrb : reachedBest bp (total ops ev F v) with
        | true =>
          simp only [if_true]
          have : ∃ b, bp = some b ∧ Score.le b (total ops ev F v) = true := by
            cases hbpo : bp with
            | none => rw [hbpo] at hrb; simp [reachedBest] at hrb
            | some b => rw [hbpo] at hrb; exact ⟨b, rfl, by simpa [reachedBest] using hrb⟩
          obtain ⟨b, hb, hle⟩ := this
          exact ⟨v, v, st2, rfl, t2, Or.inr ⟨by simp, hf, hlt, stop_case b hb hle⟩⟩
        | false =>
          simp only [Bool.false_eq_true, if_false]
          obtain ⟨best, cur', st', h, ht, hres⟩ := cont_case
          exact ⟨best, cur', st', h, ht, Or.inr hres⟩

/-- **`optimize_by_exhaustive_search()` is exactly optimal**: starting from a feasible sequence it
    leaves a feasible sequence of the enumeration whose boost-weighted total is not exceeded by any
    feasible member of the enumeration — provided no feasible member exceeds the declared best
    possible total (the hypothesis that justifies the early exit).  No random number is drawn. -/
theorem optimizeExhaustive_max (ops : SpecOps σ K) (ev) (hp : PureEval ops ev) (F : Frame σ) (s : Seq)
    (st : St σ K) (vs : List Seq) (hvs : F.space.allVariants s = .ok vs)
    (hfeas : feasible ops ev F s = true)
    (hbp : ∀ b, bestSum ops F.objectives = some b → ∀ v ∈ vs, feasible ops ev F v = true →
      Score.le (total ops ev F v) b = true) :
    ∃ t st', optimizeExhaustive ops F s st = (.ok (), t, st') ∧ st'.tape = st.tape ∧
      (t = s ∨ t ∈ vs) ∧ feasible ops ev F t = true ∧
      Score.lt (total ops ev F t) (total ops ev F s) = false ∧
      ∀ v ∈ vs, feasible ops ev F v = true → Score.lt (total ops ev F t) (total ops ev F v) = false := by
  obtain ⟨st1, h1, o1⟩ := allConstraintsPass_pure ops ev hp F s st
  obtain ⟨st2, h2, o2⟩ := objectiveScoresSum_pure ops ev hp F s st1
  obtain ⟨best, cur', st3, h3, t3, hres⟩ :=
    optExhaustiveLoop_pure ops ev hp F (bestSum ops F.objectives) vs (total ops ev F s) s s st2 hbp
  refine ⟨best, logSeq best st3, ?_, ?_, ?_⟩
  · simp only [optimizeExhaustive, h1, hfeas, h2, hvs, h3]
  · simp only [logSeq]; rw [t3, o2.1, o1.1]
  · rcases hres with ⟨hb, hall⟩ | ⟨hb1, hb2, hb3, hall⟩
    · subst hb
      exact ⟨Or.inl rfl, hfeas, LawfulScore.lt_irrefl _, hall⟩
    · refine ⟨Or.inr hb1, hb2, ?_, hall⟩
      cases hx : Score.lt (total ops ev F best) (total ops ev F s) with
      | false => rfl
      | true =>
        have := LawfulScore.lt_trans _ _ _ hb3 hx
        rw [LawfulScore.lt_irrefl] at this; simp at this

/-- from an infeasible start the exhaustive optimisation refuses to run and leaves the sequence alone -/
theorem optimizeExhaustive_infeasible (ops : SpecOps σ K) (ev) (hp : PureEval ops ev) (F : Frame σ) (s : Seq)
    (st : St σ K) (hfeas : feasible ops ev F s = false) :
    ∃ w st', optimizeExhaustive ops F s st = (.error (.noSolution w), s, st') ∧ st'.tape = st.tape ∧ st'.trace = st.trace := by
  obtain ⟨st1, h1, o1⟩ := allConstraintsPass_pure ops ev hp F s st
  obtain ⟨r, st2, h2, o2⟩ := constraintsEvaluations_pure ops ev hp s F.constraints st1
  exact ⟨"Optimization can only be done when all constraints are verified.", st2,
    by simp only [optimizeExhaustive, h1, hfeas, h2], o2.1.trans o1.1, o2.2.1.trans o1.2.1⟩

end optimal

/-- the enumeration searched is the whole (localized) space: together with the two theorems above
    this is completeness / optimality *over the mutation space* -/
theorem searched_set_is_space (sp : Space) (s : Seq) (vs : List Seq)
    (hwf : C15.MCFits s.length sp.multichoices) (h : sp.allVariants s = .ok vs) (t : Seq) :
    t ∈ vs ↔ (t.length = s.length ∧ (∀ c ∈ sp.multichoices, c.seg t ∈ c.variants) ∧
      ∀ i, (∀ c ∈ sp.multichoices, ¬ (c.start ≤ i ∧ i < c.stop)) → t[i]? = s[i]?) :=
  (C15.allVariants_enumerates sp s vs hwf h).2.2.2 t

end Dna.C06
