/-
C07 — codon optimization reaches the true per-codon optimum and keeps the protein.
Codon-wise objectives are *separable*: the score is a sum of one term per codon position, and the hard
constraint (EnforceTranslation) lets each position range over the synonyms of its codon independently.
The theorems below are about that structure (exact arithmetic) and about which codons the evaluation flags.
-/
import DnaModel.Model.Builtin
import Mathlib.Data.List.Forall2
import Mathlib.Algebra.Order.Ring.Rat
import Mathlib.Tactic.Linarith
set_option linter.unusedVariables false
set_option linter.unusedSimpArgs false
namespace Dna.C07
open Dna

variable {C : Type}

/-- one codon position: the codons the mutation space allows there (the synonyms of the original codon) and the
    objective's term as a function of the codon placed there -/
structure Pos (C : Type) where
  syn : List C
  w : C → Rat

/-- a codon-wise objective: the sum of the positions' terms -/
def total (ps : List (Pos C)) (cs : List C) : Rat := (List.zipWith (fun p c => p.w c) ps cs).sum

/-- same protein: every position holds one of its synonyms -/
def Synonymous (ps : List (Pos C)) (cs : List C) : Prop := List.Forall₂ (fun p c => c ∈ p.syn) ps cs

/-- every position holds a synonym whose term no other synonym exceeds (what an exhaustive search over one
    codon leaves behind, cf. `C06.optimizeExhaustive_max`) -/
def CoordOpt (ps : List (Pos C)) (cs : List C) : Prop :=
  List.Forall₂ (fun p c => c ∈ p.syn ∧ ∀ c' ∈ p.syn, p.w c' ≤ p.w c) ps cs

/-- **codon by codon is enough**: a sequence that is optimal at every codon position is optimal among all
    sequences encoding the same protein -/
theorem coordinatewise_optimal_is_global (ps : List (Pos C)) (cs cs' : List C)
    (h : CoordOpt ps cs) (h' : Synonymous ps cs') : total ps cs' ≤ total ps cs := by
  induction h generalizing cs' with
  | nil => cases h'; simp [total]
  | cons hpc _ ih =>
    cases h' with
    | cons hc' hrest =>
      have := ih _ hrest
      have h1 := hpc.2 _ hc'
      simp only [total, List.zipWith_cons_cons, List.sum_cons] at this ⊢
      linarith

/-- and conversely: an optimal synonymous sequence is optimal at every position -/
theorem global_optimal_is_coordinatewise (ps : List (Pos C)) (cs : List C) (hs : Synonymous ps cs)
    (h : ∀ cs', Synonymous ps cs' → total ps cs' ≤ total ps cs) : CoordOpt ps cs := by
  induction hs with
  | nil => exact List.Forall₂.nil
  | cons hc hrest ih =>
    rename_i p c ps' cs'
    refine List.Forall₂.cons ⟨hc, ?_⟩ (ih ?_)
    · intro c' hc'
      have := h (c' :: cs') (List.Forall₂.cons hc' hrest)
      simp only [total, List.zipWith_cons_cons, List.sum_cons] at this
      linarith
    · intro t ht
      have := h (c :: t) (List.Forall₂.cons hc ht)
      simp only [total, List.zipWith_cons_cons, List.sum_cons] at this ⊢
      linarith

/-- the optimum exists and the optimal value is the sum of the per-position maxima: two coordinate-wise optimal
    sequences have the same total ("the best achievable codon by codon" is well defined) -/
theorem coordopt_total_unique (ps : List (Pos C)) (cs cs' : List C) (h : CoordOpt ps cs) (h' : CoordOpt ps cs') :
    total ps cs = total ps cs' := by
  have syn_of : ∀ {xs}, CoordOpt ps xs → Synonymous ps xs := fun hx => hx.imp (fun _ _ hh => hh.1)
  exact le_antisymm (coordinatewise_optimal_is_global ps cs' cs h' (syn_of h))
    (coordinatewise_optimal_is_global ps cs cs' h (syn_of h'))

/-! ### MaximizeCAI: term = log f(codon) − log f(best synonym) -/

/-- a CAI position: `lf` the log-frequency of each synonym, `lbest` the largest of them -/
structure CaiPos (C : Type) where
  syn : List C
  lf : C → Rat
  lbest : Rat
  le_best : ∀ c ∈ syn, lf c ≤ lbest
  attained : ∃ c ∈ syn, lf c = lbest

def CaiPos.toPos (p : CaiPos C) : Pos C := ⟨p.syn, fun c => p.lf c - p.lbest⟩

/-- the CAI score never exceeds its declared best possible score 0 -/
theorem cai_total_nonpos (ps : List (CaiPos C)) (cs : List C) (hs : Synonymous (ps.map CaiPos.toPos) cs) :
    total (ps.map CaiPos.toPos) cs ≤ 0 := by
  induction ps generalizing cs with
  | nil => cases hs; simp [total]
  | cons p ps ih =>
    cases hs with
    | cons hc hrest =>
      have := ih _ hrest
      have h1 := p.le_best _ hc
      simp only [total, List.map_cons, List.zipWith_cons_cons, List.sum_cons, CaiPos.toPos] at this ⊢
      linarith

/-- **score = best possible ⇔ every codon is a most-frequent synonym** -/
theorem cai_total_zero_iff (ps : List (CaiPos C)) (cs : List C) (hs : Synonymous (ps.map CaiPos.toPos) cs) :
    total (ps.map CaiPos.toPos) cs = 0 ↔ List.Forall₂ (fun p c => p.lf c = p.lbest) ps cs := by
  induction ps generalizing cs with
  | nil => cases hs; simp [total]
  | cons p ps ih =>
    cases hs with
    | cons hc hrest =>
      rename_i c cs'
      have hnp := cai_total_nonpos ps cs' hrest
      have h1 := p.le_best _ hc
      have := ih _ hrest
      simp only [total, List.map_cons, List.zipWith_cons_cons, List.sum_cons, CaiPos.toPos] at this hnp ⊢
      constructor
      · intro h0
        have e1 : p.lf c = p.lbest := by linarith
        exact List.Forall₂.cons e1 (this.1 (by linarith))
      · intro hf
        cases hf with
        | cons e1 erest =>
          have := this.2 erest
          linarith

/-- a sequence of most-frequent synonyms is coordinate-wise optimal, hence (by `coordinatewise_optimal_is_global`)
    no synonymous sequence scores higher -/
theorem cai_best_codons_optimal (ps : List (CaiPos C)) (cs : List C) (hs : Synonymous (ps.map CaiPos.toPos) cs)
    (hb : List.Forall₂ (fun p c => p.lf c = p.lbest) ps cs) : CoordOpt (ps.map CaiPos.toPos) cs := by
  induction ps generalizing cs with
  | nil => cases hs; exact List.Forall₂.nil
  | cons p ps ih =>
    cases hs with
    | cons hc hrest =>
      cases hb with
      | cons e1 erest =>
        refine List.Forall₂.cons ⟨hc, ?_⟩ (ih _ hrest erest)
        intro c' hc'
        have := p.le_best c' hc'
        simp only [CaiPos.toPos]
        linarith

/-! ### HarmonizeRCA: term = −|rca_target(codon) − rca_original(original codon)| -/

/-- a harmonization position: `rt` the target-organism adaptiveness of each synonym, `ro` that of the original
    codon in its source organism, `smallest` the smallest discrepancy any synonym achieves (what the repaired
    `initialized_on_problem` computes) -/
structure RcaPos (C : Type) where
  syn : List C
  rt : C → Rat
  ro : Rat
  smallest : Rat
  le_all : ∀ c ∈ syn, smallest ≤ |rt c - ro|
  attained : ∃ c ∈ syn, |rt c - ro| = smallest

def RcaPos.toPos (p : RcaPos C) : Pos C := ⟨p.syn, fun c => - |p.rt c - p.ro|⟩

/-- **the evaluation flags exactly the improvable codons**: `smallest − discrepancy ≠ 0` (the test in `evaluate`)
    holds iff some synonym is strictly closer to the original codon's adaptiveness -/
theorem rca_flagged_iff (p : RcaPos C) (c : C) (hc : c ∈ p.syn) :
    p.smallest - |p.rt c - p.ro| ≠ 0 ↔ ∃ c' ∈ p.syn, |p.rt c' - p.ro| < |p.rt c - p.ro| := by
  constructor
  · intro hne
    obtain ⟨c', hc', he⟩ := p.attained
    refine ⟨c', hc', ?_⟩
    have := p.le_all c hc
    rw [he]
    rcases lt_or_eq_of_le this with h | h
    · exact h
    · exact absurd (by rw [h]; simp) hne
  · rintro ⟨c', hc', hlt⟩ h0
    have := p.le_all c' hc'
    linarith

/-- an unflagged codon is coordinate-wise optimal -/
theorem rca_unflagged_optimal (p : RcaPos C) (c : C) (hc : c ∈ p.syn) (h : p.smallest - |p.rt c - p.ro| = 0) :
    ∀ c' ∈ p.syn, p.toPos.w c' ≤ p.toPos.w c := by
  intro c' hc'
  have := p.le_all c' hc'
  simp only [RcaPos.toPos]
  linarith

/-- the same for CAI: `log best − log f ≠ 0` flags exactly the codons that are not most frequent -/
theorem cai_flagged_iff (p : CaiPos C) (c : C) (hc : c ∈ p.syn) :
    p.lbest - p.lf c ≠ 0 ↔ ∃ c' ∈ p.syn, p.lf c < p.lf c' := by
  constructor
  · intro hne
    obtain ⟨c', hc', he⟩ := p.attained
    refine ⟨c', hc', ?_⟩
    have := p.le_best c hc
    rw [he]
    rcases lt_or_eq_of_le this with h | h
    · exact h
    · exact absurd (by rw [h]; simp) hne
  · rintro ⟨c', hc', hlt⟩ h0
    have := p.le_best c' hc'
    linarith

/-! ### the protein is kept: synonymous replacement codon by codon -/

/-- replacing codons by codons with the same translation keeps the translation of the whole region -/
theorem translation_kept (tr : C → Char) (cs cs' : List C) (h : List.Forall₂ (fun a b => tr a = tr b) cs cs') :
    cs.map tr = cs'.map tr := by
  induction h with
  | nil => rfl
  | cons hab _ ih => simp [hab, ih]

/-! non-vacuity: a two-codon region -/
def exPos : CaiPos Nat := ⟨[0, 1, 2], fun c => if c = 1 then 0 else -1, 0, by decide, ⟨1, by decide, by decide⟩⟩
example : total ([exPos, exPos].map CaiPos.toPos) [1, 1] = 0 := by decide +kernel
example : total ([exPos, exPos].map CaiPos.toPos) [0, 1] = -1 := by decide +kernel

/-! ### the model of `MaximizeCAI.evaluate` (Model/Builtin.lean) flags exactly the non-optimal codons -/

/-- on a region of several codons the evaluation is `−Σ (log best − log f)` and its locations are the codon
    positions whose term is not zero — no sub-optimal codon is left unflagged, whatever its position -/
theorem cai_evaluate_flags (lf : List (Seq × Rat)) (lb : List (Char × Rat)) (ca : List (Seq × Char)) (loc : Loc) (s sub : Seq)
    (ts : List (Rat × Rat)) (hext : loc.extract s = some sub) (h3 : sub.length % 3 = 0)
    (hts : (chunk3 sub).map (BSpec.caiTerm lf lb ca) = ts.map some)
    (hne : ts.length ≠ 1) :
    BSpec.evaluate (.cai lf lb ca loc : BSpec Rat) s =
      some ⟨NumK.neg (NumK.sum (ts.map (fun p => NumK.sub p.2 p.1))),
        some (BSpec.codonIndicesToLocs loc ((List.range ts.length).filter (fun i =>
          match ts[i]? with | some p => decide (p.2 - p.1 ≠ 0) | none => false)))⟩ := by
  have h3' : (sub.length % 3 != 0) = false := by simp [h3]
  simp only [BSpec.evaluate, hext, h3', Bool.false_eq_true, if_false, hts]
  have hany : (ts.map some).any (·.isNone) = false := by simp
  have hfm : (ts.map some).filterMap id = ts := by simp [List.filterMap_map]
  rw [hany]
  simp only [Bool.false_eq_true, if_false, hfm]
  split
  · simp_all
  · congr 4
    simp only [List.length_map]
    apply List.filter_congr
    intro i hi
    simp only [List.getElem?_map]
    cases hti : ts[i]? with
    | none => simp
    | some p =>
      simp only [NumK.sub, Score.eq, Score.zero, Option.map_some, ne_eq, decide_not]
      by_cases h0 : p.2 - p.1 = 0 <;> simp [h0]

end Dna.C07
