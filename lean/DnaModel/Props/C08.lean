/-
C08 — a constraint that passes locally after a local edit passes globally.

Proved for the model of the built-ins (Model/Builtin.lean):
* locality — every region specification only reads its own location (`evaluate_local`);
* second clause — if localizing to a window yields nothing, no edit inside the window changes the
  evaluation at all (`localized_none_unchanged`, all region classes);
* first clause — soundness of the localization of AvoidPattern on the forward strand for IUPAC
  patterns (`avoidPattern_forward_sound` + `avoidPattern_localized_eq`), by the windowed argument:
  an occurrence after the edit either misses the window (then it existed before) or lies inside the
  extended window (then the localized specification sees it).
The other classes' first clause rests on the correspondence + the law oracle: PARTIAL.
-/
import DnaModel.Model.Builtin
import DnaModel.Props.C18
import DnaModel.Props.C11
set_option linter.unusedVariables false
set_option linter.unusedSimpArgs false
namespace Dna.C08
open Dna BSpec

/-- `s` and `t` have the same length and agree at every position outside the window `[wa, wb)` -/
def AgreeOutside (wa wb : Int) (s t : Seq) : Prop :=
  s.length = t.length ∧ ∀ i : Nat, ((i : Int) < wa ∨ wb ≤ (i : Int)) → s[i]? = t[i]?

theorem pySlice_congr (s t : Seq) (a b : Int) (hlen : s.length = t.length)
    (h : ∀ i : Nat, a ≤ (i : Int) → (i : Int) < b → s[i]? = t[i]?) (ha : 0 ≤ a) (hb : 0 ≤ b) :
    pySlice s a b = pySlice t a b := by
  simp only [pySlice, pyIndex, hlen]
  have h1 : ¬ a < 0 := by omega
  have h2 : ¬ b < 0 := by omega
  simp only [h1, h2, if_false]
  generalize hlo : (if a > (t.length : Int) then t.length else a.toNat) = lo
  generalize hhi : (if b > (t.length : Int) then t.length else b.toNat) = hi
  have A : ∀ k : Nat, k < hi - lo → a ≤ ((lo + k : Nat) : Int) ∧ ((lo + k : Nat) : Int) < b := by
    intro k hk
    split at hlo <;> split at hhi <;> omega
  apply List.ext_getElem?
  intro k
  simp only [List.getElem?_take, List.getElem?_drop]
  split
  · rename_i hk
    exact h _ (A k hk).1 (A k hk).2
  · rfl

/-- a window disjoint from a location leaves the location's sub-sequence unchanged -/
theorem extract_unchanged (l : Loc) (wa wb : Int) (s t : Seq) (hag : AgreeOutside wa wb s t)
    (hl0 : 0 ≤ l.start) (hl1 : 0 ≤ l.stop) (hdis : l.stop ≤ wa ∨ wb ≤ l.start) : l.extract s = l.extract t := by
  have : pySlice s l.start l.stop = pySlice t l.start l.stop := by
    apply pySlice_congr s t _ _ hag.1 _ hl0 hl1
    intro i h1 h2
    apply hag.2
    omega
  simp only [Loc.extract, this]

/-- the location a region specification reads (`none` for the ones that read several / the whole sequence) -/
def regionOf {K : Type} : BSpec K → Option Loc
  | .avoidPattern _ l => some l
  | .patternOccurence _ _ l => some l
  | .gc _ _ _ l => some l
  | .translation _ _ _ l => some l
  | .stopCodons _ l => some l
  | .avoidChanges _ _ (.loc l) => some l
  | .enforceChanges _ _ _ _ _ (.loc l) => some l
  | .enforceSequence _ l => some l
  | .enforceChoice _ l => some l
  | .rareCodons _ _ l => some l
  | .cai _ _ _ l => some l
  | .hairpins _ _ l => some l
  | .rca _ _ _ _ l => some l
  | _ => none

theorem findMatches_unchanged (p : Pattern) (l : Loc) (s t : Seq)
    (hst : l.strand = 1 ∨ l.strand = -1 ∨ l.strand = 0)
    (h : pySlice s l.start l.stop = pySlice t l.start l.stop) : p.findMatches s l = p.findMatches t l := by
  simp only [Pattern.findMatches, Pattern.findForward, Pattern.findReverse, h]
  rcases hst with h1 | h1 | h1 <;> simp [h1]

/-- **locality**: a region specification only reads its own location, so sequences that agree there
    (and have the same length) get the same evaluation -/
theorem evaluate_local {K : Type} [NumK K] (b : BSpec K) (l : Loc) (hb : regionOf b = some l) (s t : Seq)
    (hst : l.strand = 1 ∨ l.strand = -1 ∨ l.strand = 0)
    (h : pySlice s l.start l.stop = pySlice t l.start l.stop) : b.evaluate s = b.evaluate t := by
  have hext : l.extract s = l.extract t := by simp only [Loc.extract, h]
  cases b <;> simp only [regionOf, Option.some.injEq, reduceCtorEq] at hb
  case avoidPattern p l' => subst hb; simp only [evaluate, findMatches_unchanged p l' s t hst h]
  case patternOccurence p o l' => subst hb; simp only [evaluate, findMatches_unchanged p l' s t hst h]
  case gc mi ma w l' => subst hb; simp only [evaluate, hext]
  case translation tb st tr l' => subst hb; simp only [evaluate, hext]
  case stopCodons tb l' => subst hb; simp only [evaluate, hext]
  case avoidChanges me tg sc =>
    cases sc with
    | loc l' => simp only [regionOf, Option.some.injEq] at hb; subst hb; simp only [evaluate, scopeExtract, hext]
    | indices l' idx => simp [regionOf] at hb
  case enforceChanges mi am ap mp rf sc =>
    cases sc with
    | loc l' => simp only [regionOf, Option.some.injEq] at hb; subst hb; simp only [evaluate, scopeExtract, hext]
    | indices l' idx => simp [regionOf] at hb
  case enforceSequence sq l' => subst hb; simp only [evaluate, hext]
  case enforceChoice cs l' => subst hb; simp only [evaluate, hext]
  case rareCodons mf fr l' => subst hb; simp only [evaluate, hext]
  case cai lf lb ca l' => subst hb; simp only [evaluate, hext]
  case hairpins st w l' => subst hb; simp only [evaluate, evaluateHairpins, hext]
  case rca rt ro og sm l' => subst hb; simp only [evaluate, hext]

theorem overlap_ext_of_overlap (l w : Loc) (n : Int) (right : Bool) (hn : 0 ≤ n) (hl : l.Nonempty) (hw : w.Nonempty)
    (hw0 : 0 ≤ w.start) (h : l.overlap w ≠ none) : l.overlap (w.extended n 0 Option.none true right) ≠ none := by
  have hne : (w.extended n 0 Option.none true right).Nonempty := by
    simp only [Loc.Nonempty, Loc.extended] at *
    cases right <;> simp <;> omega
  rw [Ne, C18.overlap_none_iff l _ hl hne, Classical.not_not]
  rw [Ne, C18.overlap_none_iff l w hl hw, Classical.not_not] at h
  obtain ⟨i, hi1, hi2⟩ := h
  refine ⟨i, hi1, ?_⟩
  simp only [C18.mem_def, Loc.extended] at *
  cases right <;> simp <;> omega

/-- if localization yields nothing, the specification's location does not overlap the window -/
theorem localized_none_disjoint {K : Type} [NumK K] (b : BSpec K) (l w : Loc) (rh : Option Bool)
    (hb : regionOf b = some l) (hl : l.Nonempty) (hw : w.Nonempty) (hw0 : 0 ≤ w.start)
    (hsize : ∀ p l', b = .avoidPattern p l' → 1 ≤ p.size)
    (hwin : ∀ mi ma k l', b = .gc mi ma (some k) l' → 1 ≤ k)
    (h : b.localized w rh = .none) : l.overlap w = none := by
  cases b <;> simp only [regionOf, Option.some.injEq, reduceCtorEq] at hb
  case avoidPattern p l' =>
    subst hb
    simp only [localized] at h
    split at h
    · assumption
    · split at h <;> simp at h
  case patternOccurence p o l' =>
    subst hb
    simp only [localized] at h
    split at h
    · simp at h
    · split at h
      · assumption
      · simp at h
  case gc mi ma wd l' =>
    subst hb
    simp only [localized] at h
    split at h
    · simp at h
    · rename_i k
      split at h
      · assumption
      · rename_i ov hov
        split at h
        · simp at h
        · rename_i hnone
          have := overlap_ext_of_overlap l' w ((k : Int) - 1) (rh.getD true) (by have := hwin mi ma k l' rfl; omega) hl hw hw0
            (by rw [hov]; simp)
          exact absurd hnone this
  case translation tb st tr l' =>
    subst hb; simp only [localized] at h
    split at h
    · assumption
    · simp at h
  case stopCodons tb l' =>
    subst hb; simp only [localized] at h
    split at h
    · assumption
    · simp at h
  case avoidChanges me tg sc =>
    cases sc with
    | indices l' idx => simp [regionOf] at hb
    | loc l' =>
      simp only [regionOf, Option.some.injEq] at hb; subst hb
      simp only [localized] at h
      split at h
      · simp at h
      · split at h
        · assumption
        · simp at h
  case enforceChanges mi am ap mp rf sc =>
    cases sc with
    | indices l' idx => simp [regionOf] at hb
    | loc l' =>
      simp only [regionOf, Option.some.injEq] at hb; subst hb
      simp only [localized] at h
      split at h
      · simp at h
      · split at h
        · assumption
        · simp at h
  case enforceSequence sq l' =>
    subst hb; simp only [localized] at h
    split at h
    · simp at h
    · split at h
      · assumption
      · simp at h
  case enforceChoice cs l' => simp [localized] at h
  case rareCodons mf fr l' =>
    subst hb; simp only [localized] at h
    split at h
    · assumption
    · simp at h
  case cai lf lb ca l' =>
    subst hb; simp only [localized] at h
    split at h
    · assumption
    · simp at h
  case hairpins st wd l' =>
    subst hb; simp only [localized] at h
    split at h
    · assumption
    · simp at h
  case rca rt ro og sm l' =>
    subst hb; simp only [localized] at h
    split at h
    · assumption
    · simp at h

/-- **C08, second clause**: if localizing `S` to `W` yields nothing, an edit confined to `W` does not
    change `S`'s evaluation at all (score, pass flag and breach locations) — for every modelled
    region specification, every sequence and every edit -/
theorem localized_none_unchanged {K : Type} [NumK K] (b : BSpec K) (l w : Loc) (rh : Option Bool) (s t : Seq)
    (hb : regionOf b = some l) (hl : l.Nonempty) (hl0 : 0 ≤ l.start) (hw : w.Nonempty) (hw0 : 0 ≤ w.start)
    (hst : l.strand = 1 ∨ l.strand = -1 ∨ l.strand = 0)
    (hsize : ∀ p l', b = .avoidPattern p l' → 1 ≤ p.size)
    (hwin : ∀ mi ma k l', b = .gc mi ma (some k) l' → 1 ≤ k)
    (hnone : b.localized w rh = .none)
    (hag : AgreeOutside w.start w.stop s t) : b.evaluate s = b.evaluate t := by
  have hov := localized_none_disjoint b l w rh hb hl hw hw0 hsize hwin hnone
  rw [C18.overlap_none_iff l w hl hw] at hov
  have hdis : l.stop ≤ w.start ∨ w.stop ≤ l.start := by
    simp only [Loc.Nonempty] at hl hw
    by_cases h1 : l.stop ≤ w.start
    · exact Or.inl h1
    · by_cases h2 : w.stop ≤ l.start
      · exact Or.inr h2
      · exact absurd ⟨max l.start w.start, by simp only [C18.mem_def]; omega, by simp only [C18.mem_def]; omega⟩ hov
  apply evaluate_local b l hb s t hst
  apply pySlice_congr s t _ _ hag.1 _ hl0 (by simp only [Loc.Nonempty] at hl; omega)
  intro i h1 h2
  apply hag.2
  omega

theorem win_eq_of_agree (s t : Seq) (wa wb : Int) (hag : AgreeOutside wa wb s t) (j k : Nat)
    (h : ((j + k : Nat) : Int) ≤ wa ∨ wb ≤ (j : Int)) : win s j k = win t j k := by
  apply List.ext_getElem?
  intro i
  simp only [win, List.getElem?_take, List.getElem?_drop]
  split
  · apply hag.2; omega
  · rfl

/-- **C08, first clause, for AvoidPattern on the forward strand** (IUPAC pattern `q`, location
    `[a,b)`, window `[wa,wb)`, default localization): if no occurrence lay in the location before an
    edit confined to the window, and the specification localized to the window (location
    `[a,b) ∩ [wa-(k-1), wb+(k-1))`) finds none after the edit, then there is none in the whole
    location after the edit -/
theorem avoidPattern_forward_sound (q : Seq) (hq : q ≠ []) (s t : Seq) (a b wa wb : Nat)
    (hab : a ≤ b) (hb : b ≤ s.length) (hw : wa < wb) (hag : AgreeOutside wa wb s t)
    (hglobal : (Pattern.dna q).findForward s ⟨a, b, 1⟩ = [])
    (hlocal : (Pattern.dna q).findForward t ⟨(max a (wa - (q.length - 1)) : Nat), (min b (wb + (q.length - 1)) : Nat), 1⟩ = [])
    (hne : max a (wa - (q.length - 1)) ≤ min b (wb + (q.length - 1))) :
    (Pattern.dna q).findForward t ⟨a, b, 1⟩ = [] := by
  have hbt : b ≤ t.length := by rw [← hag.1]; exact hb
  rw [List.eq_nil_iff_forall_not_mem]
  intro l hl
  rw [C11.findForward_spec q hq t a b 1 hab hbt] at hl
  obtain ⟨j, h1, h2, hm, rfl⟩ := hl
  by_cases hmiss : ((j + q.length : Nat) : Int) ≤ wa ∨ (wb : Int) ≤ (j : Int)
  · -- the window does not meet the edit: the same occurrence existed before
    have hwin := win_eq_of_agree s t wa wb hag j q.length hmiss
    have : (⟨(j : Int), (j : Int) + q.length, 1⟩ : Loc) ∈ (Pattern.dna q).findForward s ⟨a, b, 1⟩ := by
      rw [C11.findForward_spec q hq s a b 1 hab hb]
      exact ⟨j, h1, h2, by rw [hwin]; exact hm, rfl⟩
    rw [hglobal] at this; simp at this
  · -- it meets the edit: it lies inside the localized location
    have hk : 1 ≤ q.length := by cases q with | nil => exact absurd rfl hq | cons _ _ => simp
    have : (⟨(j : Int), (j : Int) + q.length, 1⟩ : Loc) ∈
        (Pattern.dna q).findForward t ⟨(max a (wa - (q.length - 1)) : Nat), (min b (wb + (q.length - 1)) : Nat), 1⟩ := by
      rw [C11.findForward_spec q hq t _ _ 1 hne (by omega)]
      exact ⟨j, by omega, by omega, hm, rfl⟩
    rw [hlocal] at this; simp at this

/-- the localized specification the code builds is the one of the theorem above -/
theorem avoidPattern_localized_eq (q : Seq) (a b wa wb : Nat) (hq : 1 ≤ q.length)
    (hov : max a wa < min b wb) :
    (BSpec.avoidPattern (K := Rat) (.dna q) ⟨a, b, 1⟩).localized ⟨wa, wb, 0⟩ none =
      .new (.avoidPattern (.dna q) ⟨(max a (wa - (q.length - 1)) : Nat), (min b (wb + (q.length - 1)) : Nat), 1⟩) := by
  have hov1 : (⟨(a : Int), (b : Int), 1⟩ : Loc).overlap ⟨wa, wb, 0⟩ ≠ none := by
    rw [Ne, C18.overlap_none_iff _ _ (by simp only [Loc.Nonempty]; omega) (by simp only [Loc.Nonempty]; omega), Classical.not_not]
    exact ⟨(max a wa : Nat), by simp only [C18.mem_def]; omega, by simp only [C18.mem_def]; omega⟩
  simp only [localized, Pattern.size, Option.getD_none]
  cases h1 : (⟨(a : Int), (b : Int), 1⟩ : Loc).overlap ⟨wa, wb, 0⟩ with
  | none => exact absurd h1 hov1
  | some o =>
    simp only
    -- the overlap with the extended window, computed
    have key : (⟨(a : Int), (b : Int), 1⟩ : Loc).overlap
        ((⟨(wa : Int), (wb : Int), 0⟩ : Loc).extended ((q.length : Int) - 1) 0 Option.none true true) =
        some ⟨((max a (wa - (q.length - 1)) : Nat) : Int), ((min b (wb + (q.length - 1)) : Nat) : Int), 1⟩ := by
      simp only [Loc.overlap, Loc.extended, if_true]
      by_cases c1 : max 0 ((wa : Int) - ((q.length : Int) - 1)) < (a : Int)
      · simp only [c1, if_true]
        have c2 : ¬ ((a : Int) ≥ (wb : Int) + ((q.length : Int) - 1)) := by omega
        simp only [c2, if_false, Option.some.injEq, Loc.mk.injEq, and_true]
        constructor <;> omega
      · simp only [c1, if_false]
        have c2 : ¬ (max 0 ((wa : Int) - ((q.length : Int) - 1)) ≥ (b : Int)) := by omega
        simp only [c2, if_false, Option.some.injEq, Loc.mk.injEq, and_true]
        constructor <;> omega
    rw [key]


/-! ### non-vacuity -/
example : AgreeOutside 2 4 "ATGCA".toList "ATTTA".toList := by
  refine ⟨rfl, ?_⟩
  intro i hi
  match i, hi with
  | 0, _ => rfl
  | 1, _ => rfl
  | 2, h => omega
  | 3, h => omega
  | 4, _ => rfl
  | n + 5, _ => simp

end Dna.C08
