/-
C08 — a constraint that passes locally after a local edit passes globally.

Proved for the model of the built-ins (Model/Builtin.lean):
* locality — every region specification only reads its own location (`evaluate_local`);
* second clause — if localizing to a window yields nothing, no edit inside the window changes the
  evaluation at all (`localized_none_unchanged`, all region classes);
* first clause — soundness of the localization of AvoidPattern on the forward strand for IUPAC
  patterns (`avoidPattern_forward_sound` + `avoidPattern_localized_eq`), by the windowed argument:
  an occurrence after the edit either misses the window (then it existed before) or lies inside the
  extended window (then the localized specification sees it).
The other classes' first clause rests on the correspondence + the law oracle: PARTIAL.
-/
import DnaModel.Model.Builtin
import DnaModel.Props.C18
import DnaModel.Props.C11
import DnaModel.Props.C10
import DnaModel.Props.C15
import DnaModel.Props.C02
import Mathlib.Tactic.Linarith
import Mathlib.Algebra.Order.Field.Basic
set_option linter.unusedVariables false
set_option linter.unusedSimpArgs false
namespace Dna.C08
open Dna BSpec

/-- `s` and `t` have the same length and agree at every position outside the window `[wa, wb)` -/
def AgreeOutside (wa wb : Int) (s t : Seq) : Prop :=
  s.length = t.length ∧ ∀ i : Nat, ((i : Int) < wa ∨ wb ≤ (i : Int)) → s[i]? = t[i]?

theorem pySlice_congr (s t : Seq) (a b : Int) (hlen : s.length = t.length)
    (h : ∀ i : Nat, a ≤ (i : Int) → (i : Int) < b → s[i]? = t[i]?) (ha : 0 ≤ a) (hb : 0 ≤ b) :
    pySlice s a b = pySlice t a b := by
  simp only [pySlice, pyIndex, hlen]
  have h1 : ¬ a < 0 := by omega
  have h2 : ¬ b < 0 := by omega
  simp only [h1, h2, if_false]
  generalize hlo : (if a > (t.length : Int) then t.length else a.toNat) = lo
  generalize hhi : (if b > (t.length : Int) then t.length else b.toNat) = hi
  have A : ∀ k : Nat, k < hi - lo → a ≤ ((lo + k : Nat) : Int) ∧ ((lo + k : Nat) : Int) < b := by
    intro k hk
    split at hlo <;> split at hhi <;> omega
  apply List.ext_getElem?
  intro k
  simp only [List.getElem?_take, List.getElem?_drop]
  split
  · rename_i hk
    exact h _ (A k hk).1 (A k hk).2
  · rfl

/-- a window disjoint from a location leaves the location's sub-sequence unchanged -/
theorem extract_unchanged (l : Loc) (wa wb : Int) (s t : Seq) (hag : AgreeOutside wa wb s t)
    (hl0 : 0 ≤ l.start) (hl1 : 0 ≤ l.stop) (hdis : l.stop ≤ wa ∨ wb ≤ l.start) : l.extract s = l.extract t := by
  have : pySlice s l.start l.stop = pySlice t l.start l.stop := by
    apply pySlice_congr s t _ _ hag.1 _ hl0 hl1
    intro i h1 h2
    apply hag.2
    omega
  simp only [Loc.extract, this]

/-- the location a region specification reads (`none` for the ones that read several / the whole sequence) -/
def regionOf {K : Type} : BSpec K → Option Loc
  | .avoidPattern _ l => some l
  | .patternOccurence _ _ l => some l
  | .gc _ _ _ l => some l
  | .translation _ _ _ l => some l
  | .stopCodons _ l => some l
  | .avoidChanges _ _ (.loc l) => some l
  | .enforceChanges _ _ _ _ _ (.loc l) => some l
  | .enforceSequence _ l => some l
  | .enforceChoice _ l => some l
  | .rareCodons _ _ l => some l
  | .cai _ _ _ l => some l
  | .hairpins _ _ l => some l
  | .rca _ _ _ _ l => some l
  | _ => none

theorem findMatches_unchanged (p : Pattern) (l : Loc) (s t : Seq)
    (hst : l.strand = 1 ∨ l.strand = -1 ∨ l.strand = 0)
    (h : pySlice s l.start l.stop = pySlice t l.start l.stop) : p.findMatches s l = p.findMatches t l := by
  simp only [Pattern.findMatches, Pattern.findForward, Pattern.findReverse, h]
  rcases hst with h1 | h1 | h1 <;> simp [h1]

/-- **locality**: a region specification only reads its own location, so sequences that agree there
    (and have the same length) get the same evaluation -/
theorem evaluate_local {K : Type} [NumK K] (b : BSpec K) (l : Loc) (hb : regionOf b = some l) (s t : Seq)
    (hst : l.strand = 1 ∨ l.strand = -1 ∨ l.strand = 0)
    (h : pySlice s l.start l.stop = pySlice t l.start l.stop) : b.evaluate s = b.evaluate t := by
  have hext : l.extract s = l.extract t := by simp only [Loc.extract, h]
  cases b <;> simp only [regionOf, Option.some.injEq, reduceCtorEq] at hb
  case avoidPattern p l' => subst hb; simp only [evaluate, findMatches_unchanged p l' s t hst h]
  case patternOccurence p o l' => subst hb; simp only [evaluate, findMatches_unchanged p l' s t hst h]
  case gc mi ma w l' => subst hb; simp only [evaluate, hext]
  case translation tb st tr l' => subst hb; simp only [evaluate, hext]
  case stopCodons tb l' => subst hb; simp only [evaluate, hext]
  case avoidChanges me tg sc =>
    cases sc with
    | loc l' => simp only [regionOf, Option.some.injEq] at hb; subst hb; simp only [evaluate, scopeExtract, hext]
    | indices l' idx => simp [regionOf] at hb
  case enforceChanges mi am ap mp rf sc =>
    cases sc with
    | loc l' => simp only [regionOf, Option.some.injEq] at hb; subst hb; simp only [evaluate, scopeExtract, hext]
    | indices l' idx => simp [regionOf] at hb
  case enforceSequence sq l' => subst hb; simp only [evaluate, hext]
  case enforceChoice cs l' => subst hb; simp only [evaluate, hext]
  case rareCodons mf fr l' => subst hb; simp only [evaluate, hext]
  case cai lf lb ca l' => subst hb; simp only [evaluate, hext]
  case hairpins st w l' => subst hb; simp only [evaluate, evaluateHairpins, hext]
  case rca rt ro og sm l' => subst hb; simp only [evaluate, hext]

theorem overlap_ext_of_overlap (l w : Loc) (n : Int) (right : Bool) (hn : 0 ≤ n) (hl : l.Nonempty) (hw : w.Nonempty)
    (hw0 : 0 ≤ w.start) (h : l.overlap w ≠ none) : l.overlap (w.extended n 0 Option.none true right) ≠ none := by
  have hne : (w.extended n 0 Option.none true right).Nonempty := by
    simp only [Loc.Nonempty, Loc.extended] at *
    cases right <;> simp <;> omega
  rw [Ne, C18.overlap_none_iff l _ hl hne, Classical.not_not]
  rw [Ne, C18.overlap_none_iff l w hl hw, Classical.not_not] at h
  obtain ⟨i, hi1, hi2⟩ := h
  refine ⟨i, hi1, ?_⟩
  simp only [C18.mem_def, Loc.extended] at *
  cases right <;> simp <;> omega

/-- if localization yields nothing, the specification's location does not overlap the window -/
theorem localized_none_disjoint {K : Type} [NumK K] (b : BSpec K) (l w : Loc) (rh : Option Bool)
    (hb : regionOf b = some l) (hl : l.Nonempty) (hw : w.Nonempty) (hw0 : 0 ≤ w.start)
    (hsize : ∀ p l', b = .avoidPattern p l' → 1 ≤ p.size)
    (hwin : ∀ mi ma k l', b = .gc mi ma (some k) l' → 1 ≤ k)
    (h : b.localized w rh = .none) : l.overlap w = none := by
  cases b <;> simp only [regionOf, Option.some.injEq, reduceCtorEq] at hb
  case avoidPattern p l' =>
    subst hb
    simp only [localized] at h
    split at h
    · assumption
    · split at h <;> simp at h
  case patternOccurence p o l' =>
    subst hb
    simp only [localized] at h
    split at h
    · simp at h
    · split at h
      · assumption
      · simp at h
  case gc mi ma wd l' =>
    subst hb
    simp only [localized] at h
    split at h
    · simp at h
    · rename_i k
      split at h
      · assumption
      · rename_i ov hov
        split at h
        · simp at h
        · rename_i hnone
          have := overlap_ext_of_overlap l' w ((k : Int) - 1) (rh.getD true) (by have := hwin mi ma k l' rfl; omega) hl hw hw0
            (by rw [hov]; simp)
          exact absurd hnone this
  case translation tb st tr l' =>
    subst hb; simp only [localized] at h
    split at h
    · assumption
    · simp at h
  case stopCodons tb l' =>
    subst hb; simp only [localized] at h
    split at h
    · assumption
    · simp at h
  case avoidChanges me tg sc =>
    cases sc with
    | indices l' idx => simp [regionOf] at hb
    | loc l' =>
      simp only [regionOf, Option.some.injEq] at hb; subst hb
      simp only [localized] at h
      split at h
      · simp at h
      · split at h
        · assumption
        · simp at h
  case enforceChanges mi am ap mp rf sc =>
    cases sc with
    | indices l' idx => simp [regionOf] at hb
    | loc l' =>
      simp only [regionOf, Option.some.injEq] at hb; subst hb
      simp only [localized] at h
      split at h
      · simp at h
      · split at h
        · assumption
        · simp at h
  case enforceSequence sq l' =>
    subst hb; simp only [localized] at h
    split at h
    · simp at h
    · split at h
      · assumption
      · simp at h
  case enforceChoice cs l' => simp [localized] at h
  case rareCodons mf fr l' =>
    subst hb; simp only [localized] at h
    split at h
    · assumption
    · simp at h
  case cai lf lb ca l' =>
    subst hb; simp only [localized] at h
    split at h
    · assumption
    · simp at h
  case hairpins st wd l' =>
    subst hb; simp only [localized] at h
    split at h
    · assumption
    · simp at h
  case rca rt ro og sm l' =>
    subst hb; simp only [localized] at h
    split at h
    · assumption
    · simp at h

/-- **C08, second clause**: if localizing `S` to `W` yields nothing, an edit confined to `W` does not
    change `S`'s evaluation at all (score, pass flag and breach locations) — for every modelled
    region specification, every sequence and every edit -/
theorem localized_none_unchanged {K : Type} [NumK K] (b : BSpec K) (l w : Loc) (rh : Option Bool) (s t : Seq)
    (hb : regionOf b = some l) (hl : l.Nonempty) (hl0 : 0 ≤ l.start) (hw : w.Nonempty) (hw0 : 0 ≤ w.start)
    (hst : l.strand = 1 ∨ l.strand = -1 ∨ l.strand = 0)
    (hsize : ∀ p l', b = .avoidPattern p l' → 1 ≤ p.size)
    (hwin : ∀ mi ma k l', b = .gc mi ma (some k) l' → 1 ≤ k)
    (hnone : b.localized w rh = .none)
    (hag : AgreeOutside w.start w.stop s t) : b.evaluate s = b.evaluate t := by
  have hov := localized_none_disjoint b l w rh hb hl hw hw0 hsize hwin hnone
  rw [C18.overlap_none_iff l w hl hw] at hov
  have hdis : l.stop ≤ w.start ∨ w.stop ≤ l.start := by
    simp only [Loc.Nonempty] at hl hw
    by_cases h1 : l.stop ≤ w.start
    · exact Or.inl h1
    · by_cases h2 : w.stop ≤ l.start
      · exact Or.inr h2
      · exact absurd ⟨max l.start w.start, by simp only [C18.mem_def]; omega, by simp only [C18.mem_def]; omega⟩ hov
  apply evaluate_local b l hb s t hst
  apply pySlice_congr s t _ _ hag.1 _ hl0 (by simp only [Loc.Nonempty] at hl; omega)
  intro i h1 h2
  apply hag.2
  omega

theorem win_eq_of_agree (s t : Seq) (wa wb : Int) (hag : AgreeOutside wa wb s t) (j k : Nat)
    (h : ((j + k : Nat) : Int) ≤ wa ∨ wb ≤ (j : Int)) : win s j k = win t j k := by
  apply List.ext_getElem?
  intro i
  simp only [win, List.getElem?_take, List.getElem?_drop]
  split
  · apply hag.2; omega
  · rfl

/-- **C08, first clause, for AvoidPattern on the forward strand** (IUPAC pattern `q`, location
    `[a,b)`, window `[wa,wb)`, default localization): if no occurrence lay in the location before an
    edit confined to the window, and the specification localized to the window (location
    `[a,b) ∩ [wa-(k-1), wb+(k-1))`) finds none after the edit, then there is none in the whole
    location after the edit -/
theorem avoidPattern_forward_sound (q : Seq) (hq : q ≠ []) (s t : Seq) (a b wa wb : Nat)
    (hab : a ≤ b) (hb : b ≤ s.length) (hw : wa < wb) (hag : AgreeOutside wa wb s t)
    (hglobal : (Pattern.dna q).findForward s ⟨a, b, 1⟩ = [])
    (hlocal : (Pattern.dna q).findForward t ⟨(max a (wa - (q.length - 1)) : Nat), (min b (wb + (q.length - 1)) : Nat), 1⟩ = [])
    (hne : max a (wa - (q.length - 1)) ≤ min b (wb + (q.length - 1))) :
    (Pattern.dna q).findForward t ⟨a, b, 1⟩ = [] := by
  have hbt : b ≤ t.length := by rw [← hag.1]; exact hb
  rw [List.eq_nil_iff_forall_not_mem]
  intro l hl
  rw [C11.findForward_spec q hq t a b 1 hab hbt] at hl
  obtain ⟨j, h1, h2, hm, rfl⟩ := hl
  by_cases hmiss : ((j + q.length : Nat) : Int) ≤ wa ∨ (wb : Int) ≤ (j : Int)
  · -- the window does not meet the edit: the same occurrence existed before
    have hwin := win_eq_of_agree s t wa wb hag j q.length hmiss
    have : (⟨(j : Int), (j : Int) + q.length, 1⟩ : Loc) ∈ (Pattern.dna q).findForward s ⟨a, b, 1⟩ := by
      rw [C11.findForward_spec q hq s a b 1 hab hb]
      exact ⟨j, h1, h2, by rw [hwin]; exact hm, rfl⟩
    rw [hglobal] at this; simp at this
  · -- it meets the edit: it lies inside the localized location
    have hk : 1 ≤ q.length := by cases q with | nil => exact absurd rfl hq | cons _ _ => simp
    have : (⟨(j : Int), (j : Int) + q.length, 1⟩ : Loc) ∈
        (Pattern.dna q).findForward t ⟨(max a (wa - (q.length - 1)) : Nat), (min b (wb + (q.length - 1)) : Nat), 1⟩ := by
      rw [C11.findForward_spec q hq t _ _ 1 hne (by omega)]
      exact ⟨j, by omega, by omega, hm, rfl⟩
    rw [hlocal] at this; simp at this

/-- the localized specification the code builds is the one of the theorem above -/
theorem avoidPattern_localized_eq (q : Seq) (a b wa wb : Nat) (hq : 1 ≤ q.length)
    (hov : max a wa < min b wb) :
    (BSpec.avoidPattern (K := Rat) (.dna q) ⟨a, b, 1⟩).localized ⟨wa, wb, 0⟩ none =
      .new (.avoidPattern (.dna q) ⟨(max a (wa - (q.length - 1)) : Nat), (min b (wb + (q.length - 1)) : Nat), 1⟩) := by
  have hov1 : (⟨(a : Int), (b : Int), 1⟩ : Loc).overlap ⟨wa, wb, 0⟩ ≠ none := by
    rw [Ne, C18.overlap_none_iff _ _ (by simp only [Loc.Nonempty]; omega) (by simp only [Loc.Nonempty]; omega), Classical.not_not]
    exact ⟨(max a wa : Nat), by simp only [C18.mem_def]; omega, by simp only [C18.mem_def]; omega⟩
  simp only [localized, Pattern.size, Option.getD_none]
  cases h1 : (⟨(a : Int), (b : Int), 1⟩ : Loc).overlap ⟨wa, wb, 0⟩ with
  | none => exact absurd h1 hov1
  | some o =>
    simp only
    -- the overlap with the extended window, computed
    have key : (⟨(a : Int), (b : Int), 1⟩ : Loc).overlap
        ((⟨(wa : Int), (wb : Int), 0⟩ : Loc).extended ((q.length : Int) - 1) 0 Option.none true true) =
        some ⟨((max a (wa - (q.length - 1)) : Nat) : Int), ((min b (wb + (q.length - 1)) : Nat) : Int), 1⟩ := by
      simp only [Loc.overlap, Loc.extended, if_true]
      by_cases c1 : max 0 ((wa : Int) - ((q.length : Int) - 1)) < (a : Int)
      · simp only [c1, if_true]
        have c2 : ¬ ((a : Int) ≥ (wb : Int) + ((q.length : Int) - 1)) := by omega
        simp only [c2, if_false, Option.some.injEq, Loc.mk.injEq, and_true]
        constructor <;> omega
      · simp only [c1, if_false]
        have c2 : ¬ (max 0 ((wa : Int) - ((q.length : Int) - 1)) ≥ (b : Int)) := by omega
        simp only [c2, if_false, Option.some.injEq, Loc.mk.injEq, and_true]
        constructor <;> omega
    rw [key]


/-! ### the first clause as one statement about the model of the built-ins -/

/-- the specification evaluates (does not raise) and passes -/
def PassesB (b : BSpec Rat) (s : Seq) : Prop := ∃ e, b.evaluate s = some e ∧ 0 ≤ e.score

/-- **C08, first clause, at one window**: `b` passes on `s`; `t` differs from `s` only inside `w`;
    what `b.localized w` returns passes on `t` (nothing to check when it returns `None`).  Then `b`
    passes on `t`. -/
def SoundAt (b : BSpec Rat) (w : Loc) (rh : Option Bool) (s t : Seq) : Prop :=
  PassesB b s → AgreeOutside w.start w.stop s t →
    (match b.localized w rh with
     | .none => True
     | .same => PassesB b t
     | .new b' => PassesB b' t
     | .typeError => False) →
    PassesB b t

/-- classes whose `localized` returns the specification itself (EnforceChoice, non-windowed GC,
    EnforcePatternOccurence, budgeted AvoidChanges, partial EnforceChanges, terminal GC with both
    ends, length bounds): the local verdict is the global one -/
theorem soundAt_of_same (b : BSpec Rat) (w : Loc) (rh : Option Bool) (s t : Seq)
    (h : b.localized w rh = .same) : SoundAt b w rh s t := by
  intro _ _ hl
  rw [h] at hl
  exact hl

/-- when `localized` returns `None` the evaluation is unchanged by the edit (second clause), so a
    specification that passed still passes — every region class -/
theorem soundAt_of_none (b : BSpec Rat) (l w : Loc) (rh : Option Bool) (s t : Seq)
    (hb : regionOf b = some l) (hl : l.Nonempty) (hl0 : 0 ≤ l.start) (hw : w.Nonempty) (hw0 : 0 ≤ w.start)
    (hst : l.strand = 1 ∨ l.strand = -1 ∨ l.strand = 0)
    (hsize : ∀ p l', b = .avoidPattern p l' → 1 ≤ p.size)
    (hwin : ∀ mi ma k l', b = .gc mi ma (some k) l' → 1 ≤ k)
    (hnone : b.localized w rh = .none) : SoundAt b w rh s t := by
  intro hp hag _
  obtain ⟨e, he, hsc⟩ := hp
  exact ⟨e, by rw [← localized_none_unchanged b l w rh s t hb hl hl0 hw hw0 hst hsize hwin hnone hag]; exact he, hsc⟩

/-! ### position-wise classes (AvoidChanges, EnforceSequence): the argument

A position-wise specification passes iff every position of its location satisfies a predicate that
depends on the position only.  Positions outside the window are unchanged, positions inside it are
exactly those of the localized specification. -/

theorem pointwise_sound (P : Nat → Char → Prop) (a b wa wb : Nat) (s t : Seq) (hag : AgreeOutside wa wb s t)
    (hglobal : ∀ i, a ≤ i → i < b → ∀ c, s[i]? = some c → P i c)
    (hlocal : ∀ i, max a wa ≤ i → i < min b wb → ∀ c, t[i]? = some c → P i c) :
    ∀ i, a ≤ i → i < b → ∀ c, t[i]? = some c → P i c := by
  intro i h1 h2 c hc
  by_cases hin : wa ≤ i ∧ i < wb
  · exact hlocal i (by omega) (by omega) c hc
  · have : s[i]? = t[i]? := hag.2 i (by omega)
    exact hglobal i h1 h2 c (by rw [this]; exact hc)

/-- number of differing positions is zero iff the (equally long) sequences are equal -/
theorem diffCount_zero_iff (u v : Seq) (hlen : u.length = v.length) : diffCount u v = 0 ↔ u = v := by
  induction u generalizing v with
  | nil => cases v with
    | nil => simp [diffCount, diffArray]
    | cons _ _ => simp at hlen
  | cons x xs ih =>
    cases v with
    | nil => simp at hlen
    | cons y ys =>
      simp only [List.length_cons, Nat.add_right_cancel_iff] at hlen
      have ih' := ih ys hlen
      simp only [diffCount, diffArray, List.filter_cons] at ih' ⊢
      by_cases hxy : x = y
      · subst hxy
        simp only [bne_self_eq_false, id_eq, Bool.false_eq_true, if_false, List.cons.injEq, true_and]
        exact ih'
      · have : (x != y) = true := by simp [hxy]
        simp [this, hxy]

/-- `AvoidChanges` without an edit budget on a forward / unstranded location passes exactly when the
    location holds the target -/
theorem avoidChanges_passes_iff (target : Seq) (a b : Nat) (st : Int) (hst : st ≠ -1) (s : Seq)
    (hab : a ≤ b) (hb : b ≤ s.length) (hlen : target.length = b - a) :
    PassesB (.avoidChanges 0 target (.loc ⟨a, b, st⟩)) s ↔ win s a (b - a) = target := by
  have hsub : (⟨(a : Int), (b : Int), st⟩ : Loc).extract s = some (win s a (b - a)) := by
    have : (st == -1) = false := by simp [hst]
    simp only [Loc.extract, this, Bool.false_eq_true, if_false, C15.pySlice_nat' s a b hab hb, win]
  have hl2 : (win s a (b - a)).length = target.length := by
    simp only [win, List.length_take, List.length_drop, hlen]; omega
  constructor
  · rintro ⟨e, he, hsc⟩
    have := C10.avoidChanges_score 0 target _ s _ e hsub hl2 he
    rw [this] at hsc
    have h0 : diffCount (win s a (b - a)) target = 0 := by
      have : (((diffCount (win s a (b - a)) target : Nat) : Int) : Rat) ≤ 0 := by linarith
      have h2 : ((diffCount (win s a (b - a)) target : Nat) : Int) ≤ 0 := by exact_mod_cast this
      omega
    exact (diffCount_zero_iff _ _ hl2).1 h0
  · intro heq
    have hne : ((win s a (b - a)).length != target.length) = false := by simp [hl2]
    have hev : ∃ e : BEval Rat, evaluate (.avoidChanges 0 target (.loc ⟨a, b, st⟩)) s = some e ∧
        e.score = NumK.sub (0 : Rat) (NumK.ofInt ((((List.range (diffArray (win s a (b - a)) target).length).filter
          (fun i => (diffArray (win s a (b - a)) target)[i]? == some true)).length : Nat) : Int)) := by
      simp only [evaluate, scopeExtract, hsub, hne, Bool.false_eq_true, if_false]
      exact ⟨_, rfl, rfl⟩
    obtain ⟨e, he, hsc⟩ := hev
    refine ⟨e, he, ?_⟩
    have h0 := (diffCount_zero_iff _ _ hl2).2 heq
    rw [hsc, C10.countTrue]
    have : ((List.filter id (diffArray (win s a (b - a)) target)).length) = 0 := h0
    rw [this]; simp [NumK.sub, NumK.ofInt]

/-- `overlap_region` of two locations given by natural coordinates that do overlap -/
theorem overlap_nat (a b wa wb : Nat) (st ws : Int) (h : max a wa < min b wb) :
    (⟨(a : Int), (b : Int), st⟩ : Loc).overlap ⟨wa, wb, ws⟩ = some ⟨((max a wa : Nat) : Int), ((min b wb : Nat) : Int), st⟩ := by
  simp only [Loc.overlap]
  by_cases c1 : (wa : Int) < (a : Int)
  · simp only [c1, if_true]
    have c2 : ¬ ((a : Int) ≥ (wb : Int)) := by omega
    simp only [c2, if_false, Option.some.injEq, Loc.mk.injEq, and_true]
    constructor <;> omega
  · simp only [c1, if_false]
    have c2 : ¬ ((wa : Int) ≥ (b : Int)) := by omega
    simp only [c2, if_false, Option.some.injEq, Loc.mk.injEq, and_true]
    constructor <;> omega

theorem overlap_nat_none (a b wa wb : Nat) (st ws : Int) (hab : a < b) (hw : wa < wb) (h : ¬ max a wa < min b wb) :
    (⟨(a : Int), (b : Int), st⟩ : Loc).overlap ⟨wa, wb, ws⟩ = none := by
  simp only [Loc.overlap]
  by_cases c1 : (wa : Int) < (a : Int)
  · simp only [c1, if_true]
    have c2 : ((a : Int) ≥ (wb : Int)) := by omega
    simp only [c2, if_true]
  · simp only [c1, if_false]
    have c2 : ((wa : Int) ≥ (b : Int)) := by omega
    simp only [c2, if_true]

theorem win_getElem? {α : Type} (s : List α) (i k j : Nat) (hj : j < k) : (win s i k)[j]? = s[i + j]? := by
  simp only [win, List.getElem?_take, hj, if_true, List.getElem?_drop]

/-- **C08, first clause, for AvoidChanges** (no edit budget; forward or unstranded location `[a,b)`,
    any window `[wa,wb)`, any sequence and any edit confined to the window): the localization the
    code builds (location `[a,b) ∩ [wa,wb)`, target sliced accordingly) is sound -/
theorem avoidChanges_soundAt (target : Seq) (a b wa wb : Nat) (st ws : Int) (hst : st ≠ -1) (s t : Seq)
    (hab : a ≤ b) (hb : b ≤ s.length) (hlen : target.length = b - a) (rh : Option Bool) :
    SoundAt (.avoidChanges 0 target (.loc ⟨a, b, st⟩)) ⟨wa, wb, ws⟩ rh s t := by
  intro hp hag0 hl
  have hag : AgreeOutside wa wb s t := hag0
  have hbt : b ≤ t.length := by rw [← hag.1]; exact hb
  rw [avoidChanges_passes_iff target a b st hst s hab hb hlen] at hp
  rw [avoidChanges_passes_iff target a b st hst t hab hbt hlen]
  -- what the localized specification says about the window
  have hloc : ∀ i, max a wa ≤ i → i < min b wb → t[i]? = target[i - a]? := by
    intro i h1 h2
    have hov : max a wa < min b wb := by omega
    have e0 : Score.eq (0 : Rat) (Score.zero : Rat) = true := by decide
    simp only [localized, e0, Bool.not_true, Bool.false_eq_true, if_false, overlap_nat a b wa wb st ws hov] at hl
    have hm1 : a ≤ max a wa := by omega
    have hm2 : max a wa ≤ min b wb := by omega
    have hsl : pySlice target (((max a wa : Nat) : Int) + -(a : Int)) (((min b wb : Nat) : Int) + -(a : Int)) =
        win target (max a wa - a) (min b wb - max a wa) := by
      have e1 : ((max a wa : Nat) : Int) + -(a : Int) = ((max a wa - a : Nat) : Int) := by omega
      have e2 : ((min b wb : Nat) : Int) + -(a : Int) = ((min b wb - a : Nat) : Int) := by omega
      rw [e1, e2, C15.pySlice_nat' target _ _ (by omega) (by omega)]
      simp only [win]
      congr 1
      omega
    simp only [Loc.shift, hsl] at hl
    have hl' := (avoidChanges_passes_iff (win target (max a wa - a) (min b wb - max a wa)) (max a wa) (min b wb) st hst t
      hm2 (by omega) (by simp only [win, List.length_take, List.length_drop]; omega)).1 hl
    have h3 : (win t (max a wa) (min b wb - max a wa))[i - max a wa]? = t[i]? := by
      rw [win_getElem? t _ _ _ (by omega)]; congr 1; omega
    have h4 : (win target (max a wa - a) (min b wb - max a wa))[i - max a wa]? = target[i - a]? := by
      rw [win_getElem? target _ _ _ (by omega)]; congr 1; omega
    rw [← h3, hl', h4]
  apply List.ext_getElem?
  intro k
  by_cases hk : k < b - a
  · rw [win_getElem? t a (b - a) k hk]
    by_cases hin : wa ≤ a + k ∧ a + k < wb
    · rw [hloc (a + k) (by omega) (by omega)]; congr 1; omega
    · rw [← hag.2 (a + k) (by omega), ← win_getElem? s a (b - a) k hk, hp]
  · have h1 : (win t a (b - a)).length ≤ k := by simp only [win, List.length_take, List.length_drop]; omega
    rw [List.getElem?_eq_none h1, List.getElem?_eq_none (by omega)]

/-! ### EnforceSequence (IUPAC letters, forward / unstranded location) -/

/-- position `i` of the location holds a nucleotide allowed by the `i`-th IUPAC letter -/
def SeqOk (sq sub : Seq) (i : Nat) : Prop :=
  ∃ n letter set, sub[i]? = some n ∧ sq[i]? = some letter ∧ lookup letter Gen.iupac = some set ∧ set.contains n = true

theorem filter_range_length_zero (n : Nat) (p : Nat → Bool) :
    ((List.range n).filter p).length = 0 ↔ ∀ i, i < n → p i = false := by
  rw [List.length_eq_zero_iff, List.filter_eq_nil_iff]
  constructor
  · intro h i hi
    have := h i (List.mem_range.2 hi)
    simpa using this
  · intro h i hi
    simp [h i (List.mem_range.1 hi)]

/-- `EnforceSequence` passes exactly when every position of the location holds a nucleotide of its
    IUPAC letter -/
theorem enforceSequence_passes_iff (sq : Seq) (a b : Nat) (st : Int) (hst : st ≠ -1) (s : Seq)
    (hab : a ≤ b) (hb : b ≤ s.length) :
    PassesB (.enforceSequence sq ⟨a, b, st⟩) s ↔ (b - a ≤ sq.length ∧ ∀ i, i < b - a → SeqOk sq (win s a (b - a)) i) := by
  have hsub : (⟨(a : Int), (b : Int), st⟩ : Loc).extract s = some (win s a (b - a)) := by
    have : (st == -1) = false := by simp [hst]
    simp only [Loc.extract, this, Bool.false_eq_true, if_false, C15.pySlice_nat' s a b hab hb, win]
  have hlen : (win s a (b - a)).length = b - a := by
    simp only [win, List.length_take, List.length_drop]; omega
  generalize hsubv : win s a (b - a) = sub at hsub hlen
  simp only [PassesB, evaluate, hsub]
  constructor
  · rintro ⟨e, he, hsc⟩
    split at he
    · simp at he
    · rename_i hle
      split at he
      · simp at he
      · rename_i hany
        simp only [Option.some.injEq] at he
        rw [← he] at hsc
        simp only [NumK.ofInt] at hsc
        have hz : ((List.range sub.length).filter (fun i =>
            ((List.range sub.length).map (fun i => match sub[i]?, sq[i]? with
              | some n, some letter => (lookup letter Gen.iupac).map (fun set => !set.contains n)
              | _, _ => none))[i]? == some (some true))).length = 0 := by
          have h1 := (C10.ofInt_neg_nonneg_iff _).1 hsc
          exact h1
        rw [filter_range_length_zero] at hz
        refine ⟨by rw [hlen] at hle; omega, ?_⟩
        intro i hi
        have hi' : i < sub.length := by omega
        have hzi := hz i hi'
        simp only [List.any_eq_true, not_exists, not_and, List.mem_map, List.mem_range] at hany
        have hdef := hany _ ⟨i, hi', rfl⟩
        simp only [List.getElem?_map, List.getElem?_range hi', Option.map_some] at hzi
        cases hn : sub[i]? with
        | none => simp [hn] at hdef
        | some n =>
          cases hq : sq[i]? with
          | none => simp [hn, hq] at hdef
          | some letter =>
            cases hlk : lookup letter Gen.iupac with
            | none => simp [hn, hq, hlk] at hdef
            | some set =>
              simp only [hn, hq, hlk, Option.map_some] at hzi
              refine ⟨n, letter, set, hn, hq, hlk, ?_⟩
              cases hc : set.contains n with
              | true => rfl
              | false => rw [hc] at hzi; simp at hzi
  · rintro ⟨hle, hall⟩
    have hle' : ¬ (sub.length > sq.length) := by omega
    simp only [hle', if_false]
    split
    · rename_i hany
      exfalso
      simp only [List.any_eq_true, List.mem_map, List.mem_range] at hany
      obtain ⟨x, ⟨i, hi, rfl⟩, hx⟩ := hany
      obtain ⟨n, letter, set, h1, h2, h3, _⟩ := hall i (by omega)
      simp [h1, h2, h3] at hx
    · refine ⟨_, rfl, ?_⟩
      simp only [NumK.ofInt]
      rw [C10.ofInt_neg_nonneg_iff, filter_range_length_zero]
      intro i hi
      obtain ⟨n, letter, set, h1, h2, h3, h4⟩ := hall i (by omega)
      have h4' : n ∈ set := by simpa using h4
      simp [List.getElem?_map, List.getElem?_range hi, h1, h2, h3, h4']

/-- **C08, first clause, for EnforceSequence** (forward or unstranded location `[a,b)`, any window,
    any sequence and any edit confined to the window): the localization the code builds (location
    `[a,b) ∩ [wa,wb)`, IUPAC string sliced accordingly) is sound -/
theorem enforceSequence_soundAt (sq : Seq) (a b wa wb : Nat) (st ws : Int) (hst : st ≠ -1) (s t : Seq)
    (hab : a ≤ b) (hb : b ≤ s.length) :
    SoundAt (.enforceSequence sq ⟨a, b, st⟩) ⟨wa, wb, ws⟩ none s t := by
  intro hp hag0 hl
  have hag : AgreeOutside wa wb s t := hag0
  have hbt : b ≤ t.length := by rw [← hag.1]; exact hb
  rw [enforceSequence_passes_iff sq a b st hst s hab hb] at hp
  rw [enforceSequence_passes_iff sq a b st hst t hab hbt]
  refine ⟨hp.1, ?_⟩
  intro i hi
  by_cases hin : wa ≤ a + i ∧ a + i < wb
  · -- inside the window: the localized specification speaks
    have hov : max a wa < min b wb := by omega
    have hm2 : max a wa ≤ min b wb := by omega
    have hst' : (st == -1) = false := by simp [hst]
    simp only [localized, Option.isSome_none, Bool.false_eq_true, if_false, overlap_nat a b wa wb st ws hov, hst'] at hl
    have hsl : pySlice sq (((max a wa : Nat) : Int) - (a : Int)) (((min b wb : Nat) : Int) - (a : Int)) =
        win sq (max a wa - a) (min b wb - max a wa) := by
      have e1 : ((max a wa : Nat) : Int) - (a : Int) = ((max a wa - a : Nat) : Int) := by omega
      have e2 : ((min b wb : Nat) : Int) - (a : Int) = ((min b wb - a : Nat) : Int) := by omega
      rw [e1, e2, C15.pySlice_nat' sq _ _ (by omega) (by omega)]
      simp only [win]
      congr 1
      omega
    rw [hsl] at hl
    have hl' := (enforceSequence_passes_iff _ (max a wa) (min b wb) st hst t hm2 (by omega)).1 hl
    obtain ⟨n, letter, set, h1, h2, h3, h4⟩ := hl'.2 (a + i - max a wa) (by omega)
    rw [win_getElem? t _ _ _ (by omega)] at h1
    rw [win_getElem? sq _ _ _ (by omega)] at h2
    refine ⟨n, letter, set, ?_, ?_, h3, h4⟩
    · rw [win_getElem? t a (b - a) i hi, ← h1]; congr 1; omega
    · rw [← h2]; congr 1; omega
  · -- outside the window: unchanged
    obtain ⟨n, letter, set, h1, h2, h3, h4⟩ := hp.2 i hi
    refine ⟨n, letter, set, ?_, h2, h3, h4⟩
    rw [win_getElem? t a (b - a) i hi, ← hag.2 (a + i) (by omega), ← win_getElem? s a (b - a) i hi]
    exact h1

/-! ### from the built-in model to the solver's hypothesis

The whole-problem theorem `C02.optimize_preserves_feasible` asks, for every constraint the solver
evaluates, for `C02.LocalSound`.  Built-in specifications seen as solver objects: `evaluate` that
raises counts as failing, `localized` as the model computes it, `initialized_on_problem` of an
already initialised specification is the identity. -/

/-- a built-in specification's evaluation as the solver sees it (a raising evaluation never passes) -/
def evB (b : BSpec Rat) (s : Seq) : Eval Rat :=
  match b.evaluate s with
  | some e => ⟨e.score, e.locs⟩
  | none => ⟨-1, none⟩

/-- `localized(location)` without `with_righthand`, as an optional new object -/
def lzB (b : BSpec Rat) (w : Loc) (_ : Seq) : Option (BSpec Rat) :=
  match b.localized w none with
  | .none => none
  | .same => some b
  | .new b' => some b'
  | .typeError => none

def iniB (b : BSpec Rat) (_ : Seq) (_ : Role) : BSpec Rat := b

theorem evB_passes_iff (b : BSpec Rat) (s : Seq) : (evB b s).passes = true ↔ PassesB b s := by
  simp only [evB, PassesB]
  cases h : b.evaluate s with
  | none => simp [Eval.passes, Score.le, Score.zero]
  | some e =>
    simp only [Eval.passes, Score.le, Score.zero, decide_eq_true_eq, Option.some.injEq, exists_eq_left']

theorem agreeOutside_of_agreeOut (a b : Nat) (s t : Seq) (h : C02.AgreeOut a b s t) : AgreeOutside a b s t := by
  refine ⟨h.1.symm, ?_⟩
  intro i hi
  exact (h.2 i (by omega)).symm

/-- **the bridge**: soundness of the model's localization at every window of a sequence of length
    `n` is the hypothesis `C02.LocalSound` of the whole-problem theorem -/
theorem localSound_of_soundAt (n : Nat) (b : BSpec Rat)
    (hty : ∀ w, b.localized w none ≠ .typeError)
    (h : ∀ (a c : Nat) (s t : Seq), s.length = n → SoundAt b ⟨a, c, 0⟩ none s t) :
    C02.LocalSound n evB lzB iniB b := by
  intro a c s t hn hp hag hl
  rw [evB_passes_iff] at hp ⊢
  apply h a c s t hn hp (agreeOutside_of_agreeOut a c s t hag)
  cases hloc : b.localized ⟨a, c, 0⟩ none with
  | none => trivial
  | same =>
    have := hl b (by simp only [lzB, hloc])
    simp only
    rw [← evB_passes_iff]; exact this
  | new b' =>
    have := hl b' (by simp only [lzB, hloc])
    simp only
    rw [← evB_passes_iff]; exact this
  | typeError => exact absurd hloc (hty _)

/-- `AvoidChanges` (no budget, forward / unstranded location inside the sequence) satisfies the
    hypothesis of `C02.optimize_preserves_feasible` -/
theorem avoidChanges_localSound (n : Nat) (target : Seq) (a b : Nat) (st : Int) (hst : st ≠ -1)
    (hab : a ≤ b) (hb : b ≤ n) (hlen : target.length = b - a) :
    C02.LocalSound n evB lzB iniB (.avoidChanges 0 target (.loc ⟨a, b, st⟩)) := by
  apply localSound_of_soundAt
  · intro w
    simp only [localized]
    split
    · simp
    · split <;> simp
  · intro wa wb s t hn
    exact avoidChanges_soundAt target a b wa wb st 0 hst s t hab (by omega) hlen none

/-- `EnforceSequence` (forward / unstranded location inside the sequence) satisfies the hypothesis of
    `C02.optimize_preserves_feasible` -/
theorem enforceSequence_localSound (n : Nat) (sq : Seq) (a b : Nat) (st : Int) (hst : st ≠ -1)
    (hab : a ≤ b) (hb : b ≤ n) :
    C02.LocalSound n evB lzB iniB (.enforceSequence sq ⟨a, b, st⟩) := by
  apply localSound_of_soundAt
  · intro w
    simp only [localized, Option.isSome_none, Bool.false_eq_true, if_false]
    split <;> simp
  · intro wa wb s t hn
    exact enforceSequence_soundAt sq a b wa wb st 0 hst s t hab (by omega)

/-- every specification whose `localized` always returns itself (EnforceChoice, non-windowed GC,
    SequenceLengthBounds without `with_righthand`, budgeted AvoidChanges …) satisfies it -/
theorem same_localSound (n : Nat) (b : BSpec Rat) (h : ∀ w, b.localized w none = .same) :
    C02.LocalSound n evB lzB iniB b := by
  apply localSound_of_soundAt
  · intro w; rw [h w]; simp
  · intro wa wb s t _
    exact soundAt_of_same b _ none s t (h _)

/-- region specifications whose `localized` returns either the specification itself or `None`
    (EnforcePatternOccurence: itself when the window meets its location, `None` otherwise) -/
theorem sameOrNone_localSound (n : Nat) (b : BSpec Rat) (l : Loc) (hb : regionOf b = some l) (hl : l.Nonempty)
    (hl0 : 0 ≤ l.start) (hst : l.strand = 1 ∨ l.strand = -1 ∨ l.strand = 0)
    (hsize : ∀ p l', b = .avoidPattern p l' → 1 ≤ p.size) (hwin : ∀ mi ma k l', b = .gc mi ma (some k) l' → 1 ≤ k)
    (h : ∀ w, b.localized w none = .same ∨ b.localized w none = .none) :
    C02.LocalSound n evB lzB iniB b := by
  apply localSound_of_soundAt
  · intro w; rcases h w with h1 | h1 <;> rw [h1] <;> simp
  · intro wa wb s t _
    rcases h ⟨wa, wb, 0⟩ with h1 | h1
    · exact soundAt_of_same b _ none s t h1
    · by_cases hw : wa < wb
      · exact soundAt_of_none b l ⟨wa, wb, 0⟩ none s t hb hl hl0 (by simp only [Loc.Nonempty]; omega) (by simp) hst hsize hwin h1
      · intro hp hag _
        have hag' : AgreeOutside wa wb s t := hag
        have : s = t := List.ext_getElem? (fun i => hag'.2 i (by omega))
        rw [← this]; exact hp

/-- EnforcePatternOccurence satisfies the hypothesis of `C02.optimize_preserves_feasible` -/
theorem patternOccurence_localSound (n : Nat) (pat : Pattern) (occ : Int) (l : Loc) (hl : l.Nonempty) (hl0 : 0 ≤ l.start)
    (hst : l.strand = 1 ∨ l.strand = -1 ∨ l.strand = 0) :
    C02.LocalSound n evB lzB iniB (.patternOccurence pat occ l) := by
  apply sameOrNone_localSound n _ l rfl hl hl0 hst (by intro p l' h; cases h) (by intro mi ma k l' h; cases h)
  intro w
  simp only [localized, Option.isSome_none, Bool.false_eq_true, if_false]
  cases l.overlap w <;> simp

example (n : Nat) (choices : List Seq) (l : Loc) : C02.LocalSound n evB lzB iniB (.enforceChoice choices l) :=
  same_localSound n _ (fun _ => rfl)

/-! ### AvoidStopCodons (forward / unstranded location of whole codons): codon-snapped localization -/

/-- the codon translates and is not a stop -/
def CodonOk (t : Gen.CodonTable) (c : Seq) : Prop := ∃ x, translateCodon t c = some x ∧ x ≠ '*'

theorem translateCodons_ok_iff (t : Gen.CodonTable) (cs : List Seq) :
    (∃ got, translateCodons t cs = some got ∧ '*' ∉ got) ↔ ∀ c ∈ cs, CodonOk t c := by
  induction cs with
  | nil => simp [translateCodons]
  | cons c cs ih =>
    simp only [translateCodons, List.mem_cons, forall_eq_or_imp]
    constructor
    · rintro ⟨got, hg, hn⟩
      cases hc : translateCodon t c with
      | none => simp [hc] at hg
      | some x =>
        cases hr : translateCodons t cs with
        | none => simp [hc, hr] at hg
        | some r =>
          simp only [hc, hr, Option.some.injEq] at hg
          subst hg
          simp only [List.mem_cons, not_or] at hn
          exact ⟨⟨x, hc, fun h => hn.1 h.symm⟩, ih.1 ⟨r, hr, hn.2⟩⟩
    · rintro ⟨⟨x, hx, hne⟩, hall⟩
      obtain ⟨r, hr, hnr⟩ := ih.2 hall
      refine ⟨x :: r, by simp [hx, hr], ?_⟩
      simp only [List.mem_cons, not_or]
      exact ⟨fun h => hne h.symm, hnr⟩

theorem win_split {α : Type} (s : List α) (a k l : Nat) : win s a (k + l) = win s a k ++ win s (a + k) l := by
  simp only [win]
  rw [List.take_add, List.drop_drop]

theorem chunk3_win (s : Seq) (a m : Nat) (h : a + 3 * m ≤ s.length) :
    chunk3 (win s a (3 * m)) = (List.range m).map (fun j => win s (a + 3 * j) 3) := by
  induction m generalizing a with
  | zero => simp [win, chunk3]
  | succ m ih =>
    have e : 3 * (m + 1) = 3 + 3 * m := by omega
    rw [e, win_split, C19.chunk3_append3 _ _ (by simp only [win, List.length_take, List.length_drop]; omega),
      ih (a + 3) (by omega), List.range_succ_eq_map, List.map_cons, List.map_map]
    congr 1
    apply List.map_congr_left
    intro j _
    simp only [Function.comp]
    congr 1
    omega

theorem star_filter_zero (got : Seq) :
    ((List.range got.length).filter (fun i => got[i]? == some '*')).length = 0 ↔ '*' ∉ got := by
  rw [filter_range_length_zero]
  constructor
  · intro h hm
    obtain ⟨i, hi, hget⟩ := List.getElem_of_mem hm
    have := h i hi
    simp [List.getElem?_eq_getElem hi, hget] at this
  · intro h i hi
    cases hg : got[i]? with
    | none => simp
    | some x =>
      have hx : x ∈ got := List.mem_of_getElem? hg
      have : x ≠ '*' := fun e => h (e ▸ hx)
      simp [this]

/-- `AvoidStopCodons` on whole codons `[a, a+3m)` (forward / unstranded) passes exactly when every
    codon of the frame translates to something that is not a stop -/
theorem stopCodons_passes_iff (tbl : Nat) (t : Gen.CodonTable) (ht : tableOf tbl = some t) (a m : Nat) (st : Int)
    (hst : st ≠ -1) (s : Seq) (hb : a + 3 * m ≤ s.length) :
    PassesB (.stopCodons tbl ⟨a, (a + 3 * m : Nat), st⟩) s ↔ ∀ j, j < m → CodonOk t (win s (a + 3 * j) 3) := by
  have hsub : (⟨(a : Int), ((a + 3 * m : Nat) : Int), st⟩ : Loc).extract s = some (win s a (3 * m)) := by
    have : (st == -1) = false := by simp [hst]
    simp only [Loc.extract, this, Bool.false_eq_true, if_false, C15.pySlice_nat' s a (a + 3 * m) (by omega) hb, win]
    congr 2
    omega
  have hall : (∀ c ∈ chunk3 (win s a (3 * m)), CodonOk t c) ↔ ∀ j, j < m → CodonOk t (win s (a + 3 * j) 3) := by
    rw [chunk3_win s a m hb]
    simp only [List.mem_map, List.mem_range, forall_exists_index, and_imp]
    constructor
    · intro h j hj; exact h _ j hj rfl
    · rintro h c j hj rfl; exact h j hj
  rw [← hall, ← translateCodons_ok_iff]
  simp only [PassesB, evaluate, ht, hsub, translate, Bool.false_and, Bool.false_eq_true, if_false]
  constructor
  · rintro ⟨e, he, hsc⟩
    cases hg : translateCodons t (chunk3 (win s a (3 * m))) with
    | none => simp [hg] at he
    | some got =>
      simp only [hg, Option.some.injEq] at he
      rw [← he] at hsc
      refine ⟨got, rfl, ?_⟩
      rw [← star_filter_zero]
      exact (C10.ofInt_neg_nonneg_iff _).1 hsc
  · rintro ⟨got, hg, hn⟩
    simp only [hg]
    refine ⟨_, rfl, ?_⟩
    simp only [NumK.ofInt]
    rw [C10.ofInt_neg_nonneg_iff, star_filter_zero]
    exact hn

/-- **C08, first clause, for AvoidStopCodons** (whole codons `[a, a+3m)` on the forward strand or
    unstranded, any genetic table, any window, any edit confined to the window): the localization the
    code builds — the window snapped outwards to codon boundaries with the `int(x/3)` arithmetic of
    `CodonSpecification.localized` — is sound -/
theorem stopCodons_soundAt (tbl : Nat) (tb : Gen.CodonTable) (ht : tableOf tbl = some tb) (a m wa wb : Nat) (st ws : Int)
    (hst : st ≠ -1) (s t : Seq) (hb : a + 3 * m ≤ s.length) (rh : Option Bool) :
    SoundAt (.stopCodons tbl ⟨a, (a + 3 * m : Nat), st⟩) ⟨wa, wb, ws⟩ rh s t := by
  intro hp hag0 hl
  have hag : AgreeOutside wa wb s t := hag0
  have hbt : a + 3 * m ≤ t.length := by rw [← hag.1]; exact hb
  by_cases hw : wa < wb
  case neg =>
    -- an empty window: nothing was edited
    have : s = t := List.ext_getElem? (fun i => hag.2 i (by omega))
    rw [← this]; exact hp
  rw [stopCodons_passes_iff tbl tb ht a m st hst s hb] at hp
  rw [stopCodons_passes_iff tbl tb ht a m st hst t hbt]
  intro j hj
  by_cases hin : wa < a + 3 * j + 3 ∧ a + 3 * j < wb
  · -- the codon meets the window: it belongs to the localized specification
    have hov : max a wa < min (a + 3 * m) wb := by omega
    have hst' : (st != -1) = true := by simp [hst]
    simp only [localized, overlap_nat a (a + 3 * m) wa wb st ws hov] at hl
    -- the codon window, in natural numbers
    have hnl : (codonWindow (⟨(a : Int), ((a + 3 * m : Nat) : Int), st⟩ : Loc)
          ⟨((max a wa : Nat) : Int), ((min (a + 3 * m) wb : Nat) : Int), st⟩).1 =
        ⟨((a + 3 * ((max a wa - a) / 3) : Nat) : Int),
         ((a + 3 * ((max a wa - a) / 3) + 3 * (min m ((min (a + 3 * m) wb - a - 1) / 3 + 1) - (max a wa - a) / 3) : Nat) : Int), st⟩ := by
      simp only [codonWindow, hst', if_true, Loc.mk.injEq, and_true]
      constructor <;> omega
    rw [hnl] at hl
    have hl' := (stopCodons_passes_iff tbl tb ht _ _ st hst t (by omega)).1 hl
    have := hl' (j - (max a wa - a) / 3) (by omega)
    have e : a + 3 * ((max a wa - a) / 3) + 3 * (j - (max a wa - a) / 3) = a + 3 * j := by omega
    rw [e] at this
    exact this
  · -- the codon misses the window: unchanged
    have hwin : win s (a + 3 * j) 3 = win t (a + 3 * j) 3 := by
      apply win_eq_of_agree s t wa wb hag
      omega
    rw [← hwin]
    exact hp j hj

/-- `AvoidStopCodons` (whole codons, forward / unstranded, inside the sequence) satisfies the hypothesis
    of `C02.optimize_preserves_feasible` -/
theorem stopCodons_localSound (n tbl : Nat) (tb : Gen.CodonTable) (ht : tableOf tbl = some tb) (a m : Nat) (st : Int)
    (hst : st ≠ -1) (hb : a + 3 * m ≤ n) :
    C02.LocalSound n evB lzB iniB (.stopCodons tbl ⟨a, (a + 3 * m : Nat), st⟩) := by
  apply localSound_of_soundAt
  · intro w
    simp only [localized]
    split <;> simp
  · intro wa wb s t hn
    exact stopCodons_soundAt tbl tb ht a m wa wb st 0 hst s t (by omega) none

/-! ### EnforceTranslation without a start-codon policy (forward / unstranded, whole codons) -/

theorem translateCodons_some_iff (t : Gen.CodonTable) (cs : List Seq) (got : Seq) :
    translateCodons t cs = some got ↔ (got.length = cs.length ∧ ∀ j, j < cs.length → (cs[j]?).bind (translateCodon t) = got[j]?) := by
  induction cs generalizing got with
  | nil =>
    simp only [translateCodons, Option.some.injEq, List.length_nil, Nat.not_lt_zero, false_imp_iff, implies_true, and_true]
    constructor
    · intro h; rw [← h]; rfl
    · intro h; exact (List.length_eq_zero_iff.1 h).symm
  | cons c cs ih =>
    simp only [translateCodons]
    constructor
    · intro h
      cases hc : translateCodon t c with
      | none => simp [hc] at h
      | some x =>
        cases hr : translateCodons t cs with
        | none => simp [hc, hr] at h
        | some r =>
          simp only [hc, hr, Option.some.injEq] at h
          subst h
          obtain ⟨h1, h2⟩ := (ih r).1 hr
          refine ⟨by simp [h1], ?_⟩
          intro j hj
          cases j with
          | zero => simp [hc]
          | succ j => simpa using h2 j (by simpa using hj)
    · rintro ⟨h1, h2⟩
      cases got with
      | nil => simp at h1
      | cons x r =>
        have h0 := h2 0 (by simp)
        simp only [List.getElem?_cons_zero, Option.bind_some] at h0
        have hr : translateCodons t cs = some r := by
          apply (ih r).2
          refine ⟨by simpa using h1, ?_⟩
          intro j hj
          simpa using h2 (j + 1) (by simpa using hj)
        simp [h0, hr]

/-- `EnforceTranslation` (no start-codon policy) on whole codons `[a, a+3m)` passes exactly when codon
    `j` translates to the `j`-th residue of the wanted protein, for every `j` -/
theorem translation_passes_iff (tbl : Nat) (t : Gen.CodonTable) (ht : tableOf tbl = some t) (tr : Seq) (a m : Nat) (st : Int)
    (hst : st ≠ -1) (s : Seq) (hb : a + 3 * m ≤ s.length) :
    PassesB (.translation tbl .none tr ⟨a, (a + 3 * m : Nat), st⟩) s ↔
      (m ≤ tr.length ∧ ∀ j, j < m → ∃ x, translateCodon t (win s (a + 3 * j) 3) = some x ∧ tr[j]? = some x) := by
  have hsub : (⟨(a : Int), ((a + 3 * m : Nat) : Int), st⟩ : Loc).extract s = some (win s a (3 * m)) := by
    have : (st == -1) = false := by simp [hst]
    simp only [Loc.extract, this, Bool.false_eq_true, if_false, C15.pySlice_nat' s a (a + 3 * m) (by omega) hb, win]
    congr 2
    omega
  have hcs := chunk3_win s a m hb
  simp only [PassesB, evaluate, ht, hsub, translate, bne_self_eq_false, Bool.false_and, Bool.false_eq_true, if_false]
  constructor
  · rintro ⟨e, he, hsc⟩
    cases hg : translateCodons t (chunk3 (win s a (3 * m))) with
    | none => simp [hg] at he
    | some got =>
      simp only [hg] at he
      split at he
      · simp at he
      · rename_i hlen
        simp only [Option.some.injEq] at he
        rw [← he] at hsc
        have hz := (C10.ofInt_neg_nonneg_iff _).1 hsc
        rw [filter_range_length_zero] at hz
        obtain ⟨h1, h2⟩ := (translateCodons_some_iff t _ got).1 hg
        rw [hcs, List.length_map, List.length_range] at h1 h2
        refine ⟨by omega, ?_⟩
        intro j hj
        have hzj := hz j (by omega)
        have h2j := h2 j hj
        rw [List.getElem?_map, List.getElem?_range hj] at h2j
        simp only [Option.map_some, Option.bind_some] at h2j
        have hgj : ∃ x, got[j]? = some x := ⟨got[j]'(by omega), List.getElem?_eq_getElem (by omega)⟩
        obtain ⟨x, hx⟩ := hgj
        refine ⟨x, by rw [h2j, hx], ?_⟩
        simp only [bne_eq_false_iff_eq, hx] at hzj
        exact hzj.symm
  · rintro ⟨hm, hall⟩
    have hgot : ∃ got, translateCodons t (chunk3 (win s a (3 * m))) = some got ∧ got.length = m ∧ ∀ j, j < m → got[j]? = tr[j]? := by
      refine ⟨(List.range m).map (fun j => (tr[j]?).getD 'X'), ?_, by simp, ?_⟩
      · rw [translateCodons_some_iff, hcs]
        refine ⟨by simp, ?_⟩
        intro j hj
        rw [List.length_map, List.length_range] at hj
        obtain ⟨x, hx1, hx2⟩ := hall j hj
        simp [List.getElem?_map, List.getElem?_range hj, hx1, hx2]
      · intro j hj
        obtain ⟨x, _, hx2⟩ := hall j hj
        simp [List.getElem?_map, List.getElem?_range hj, hx2]
    obtain ⟨got, hg, hl, hj⟩ := hgot
    simp only [hg]
    have : ¬ (got.length > tr.length) := by omega
    simp only [this, if_false]
    refine ⟨_, rfl, ?_⟩
    simp only [NumK.ofInt]
    rw [C10.ofInt_neg_nonneg_iff, filter_range_length_zero]
    intro i hi
    simp [hj i (by omega)]

/-- **C08, first clause, for EnforceTranslation** (no start-codon policy; whole codons `[a, a+3m)` on
    the forward strand or unstranded; any genetic table, window and edit): the localized
    specification — codon-snapped window, protein sliced to the codons `[sc, ec)` — is sound -/
theorem translation_soundAt (tbl : Nat) (tb : Gen.CodonTable) (ht : tableOf tbl = some tb) (tr : Seq) (a m wa wb : Nat)
    (st ws : Int) (hst : st ≠ -1) (s t : Seq) (hb : a + 3 * m ≤ s.length) (rh : Option Bool) :
    SoundAt (.translation tbl .none tr ⟨a, (a + 3 * m : Nat), st⟩) ⟨wa, wb, ws⟩ rh s t := by
  intro hp hag0 hl
  have hag : AgreeOutside wa wb s t := hag0
  have hbt : a + 3 * m ≤ t.length := by rw [← hag.1]; exact hb
  by_cases hw : wa < wb
  case neg =>
    have : s = t := List.ext_getElem? (fun i => hag.2 i (by omega))
    rw [← this]; exact hp
  rw [translation_passes_iff tbl tb ht tr a m st hst s hb] at hp
  rw [translation_passes_iff tbl tb ht tr a m st hst t hbt]
  refine ⟨hp.1, ?_⟩
  intro j hj
  by_cases hin : wa < a + 3 * j + 3 ∧ a + 3 * j < wb
  · have hov : max a wa < min (a + 3 * m) wb := by omega
    have hst' : (st != -1) = true := by simp [hst]
    simp only [localized, overlap_nat a (a + 3 * m) wa wb st ws hov] at hl
    have hcw : codonWindow (⟨(a : Int), ((a + 3 * m : Nat) : Int), st⟩ : Loc)
          ⟨((max a wa : Nat) : Int), ((min (a + 3 * m) wb : Nat) : Int), st⟩ =
        (⟨((a + 3 * ((max a wa - a) / 3) : Nat) : Int),
          ((a + 3 * ((max a wa - a) / 3) + 3 * (min m ((min (a + 3 * m) wb - a - 1) / 3 + 1) - (max a wa - a) / 3) : Nat) : Int), st⟩,
         (max a wa - a) / 3, (min (a + 3 * m) wb - a - 1) / 3 + 1) := by
      simp only [codonWindow, hst', if_true, Prod.mk.injEq, Loc.mk.injEq, and_true]
      refine ⟨⟨?_, ?_⟩, ?_, ?_⟩ <;> omega
    rw [hcw] at hl
    simp only [ite_self] at hl
    have hl' := (translation_passes_iff tbl tb ht _ _ _ st hst t (by omega)).1 hl
    obtain ⟨x, hx1, hx2⟩ := hl'.2 (j - (max a wa - a) / 3) (by omega)
    have e : a + 3 * ((max a wa - a) / 3) + 3 * (j - (max a wa - a) / 3) = a + 3 * j := by omega
    rw [e] at hx1
    refine ⟨x, hx1, ?_⟩
    rw [List.getElem?_take, List.getElem?_drop] at hx2
    split at hx2
    · rw [← hx2]; congr 1; omega
    · simp at hx2
  · have hwin : win s (a + 3 * j) 3 = win t (a + 3 * j) 3 := by
      apply win_eq_of_agree s t wa wb hag
      omega
    rw [← hwin]
    exact hp.2 j hj

/-- `EnforceTranslation` (no start-codon policy, whole codons, forward / unstranded, inside the
    sequence) satisfies the hypothesis of `C02.optimize_preserves_feasible` -/
theorem translation_localSound (n tbl : Nat) (tb : Gen.CodonTable) (ht : tableOf tbl = some tb) (tr : Seq) (a m : Nat)
    (st : Int) (hst : st ≠ -1) (hb : a + 3 * m ≤ n) :
    C02.LocalSound n evB lzB iniB (.translation tbl .none tr ⟨a, (a + 3 * m : Nat), st⟩) := by
  apply localSound_of_soundAt
  · intro w
    simp only [localized]
    split <;> simp
  · intro wa wb s t hn
    exact translation_soundAt tbl tb ht tr a m wa wb st 0 hst s t (by omega) none

/-! ### windowed EnforceGCContent (forward / unstranded location) -/

theorem pos_nonneg' (a : Rat) : 0 ≤ NumK.pos a := by
  simp only [NumK.pos, Score.lt, Score.zero]
  split
  · rename_i h; exact le_of_lt (of_decide_eq_true h)
  · exact le_refl 0

theorem gcBreach_nonneg' (mini maxi g : Rat) : 0 ≤ gcBreach mini maxi g := by
  simp only [gcBreach, Score.add]
  have := pos_nonneg' (NumK.sub mini g)
  have := pos_nonneg' (NumK.sub g maxi)
  linarith

theorem gcBreach_eq_zero_iff (mini maxi g : Rat) : gcBreach mini maxi g = 0 ↔ (mini ≤ g ∧ g ≤ maxi) := by
  have h1 := pos_nonneg' (NumK.sub mini g)
  have h2 := pos_nonneg' (NumK.sub g maxi)
  simp only [gcBreach, Score.add]
  constructor
  · intro h
    have e1 : NumK.pos (NumK.sub mini g) = 0 := by linarith
    have e2 : NumK.pos (NumK.sub g maxi) = 0 := by linarith
    simp only [NumK.pos, NumK.sub, Score.lt, Score.zero] at e1 e2
    constructor
    · by_contra hc
      have : (0 : Rat) < mini - g := by linarith [not_le.1 hc]
      simp only [this, decide_true, if_true] at e1
      linarith
    · by_contra hc
      have : (0 : Rat) < g - maxi := by linarith [not_le.1 hc]
      simp only [this, decide_true, if_true] at e2
      linarith
  · rintro ⟨ha, hb⟩
    have e1 : NumK.pos (NumK.sub mini g) = 0 := by
      simp only [NumK.pos, NumK.sub, Score.lt, Score.zero]
      have : ¬ ((0 : Rat) < mini - g) := by linarith
      simp [this]
    have e2 : NumK.pos (NumK.sub g maxi) = 0 := by
      simp only [NumK.pos, NumK.sub, Score.lt, Score.zero]
      have : ¬ ((0 : Rat) < g - maxi) := by linarith
      simp [this]
    rw [e1, e2]; simp

theorem foldl_add_ge (l : List Rat) (acc : Rat) (h : ∀ x ∈ l, 0 ≤ x) : acc ≤ l.foldl Score.add acc := by
  induction l generalizing acc with
  | nil => exact le_refl _
  | cons x xs ih =>
    simp only [List.foldl_cons]
    have hx := h x List.mem_cons_self
    have := ih (Score.add acc x) (fun y hy => h y (List.mem_cons_of_mem _ hy))
    simp only [Score.add] at this ⊢
    linarith

/-- a sum of non-negative terms is zero exactly when every term is -/
theorem sum_eq_zero_iff (l : List Rat) (h : ∀ x ∈ l, 0 ≤ x) : NumK.sum l = 0 ↔ ∀ x ∈ l, x = 0 := by
  induction l with
  | nil => simp [NumK.sum]; rfl
  | cons x xs ih =>
    have hx := h x List.mem_cons_self
    have hxs : ∀ y ∈ xs, 0 ≤ y := fun y hy => h y (List.mem_cons_of_mem _ hy)
    simp only [NumK.sum, List.foldl_cons, List.mem_cons, forall_eq_or_imp] at ih ⊢
    have hge := foldl_add_ge xs (Score.add (Score.zero : Rat) x) hxs
    have h0 : Score.add (Score.zero : Rat) x = x := by simp [Score.add, Score.zero]
    rw [h0] at hge ⊢
    constructor
    · intro hs
      have hx0 : x = 0 := by linarith
      subst hx0
      exact ⟨rfl, (ih hxs).1 hs⟩
    · rintro ⟨rfl, hall⟩
      exact (ih hxs).2 hall

/-- the GC fraction of the window of `w` nucleotides starting at `i` lies within the bounds -/
def GcOk (mini maxi : Rat) (w : Nat) (s : Seq) (i : Nat) : Prop :=
  mini ≤ frac (K := Rat) (gcCount (win s i w), w) ∧ frac (K := Rat) (gcCount (win s i w), w) ≤ maxi

theorem win_win (s : Seq) (a L i w : Nat) (h : i + w ≤ L) : win (win s a L) i w = win s (a + i) w := by
  apply List.ext_getElem?
  intro j
  by_cases hj : j < w
  · rw [win_getElem? _ i w j hj, win_getElem? s (a + i) w j hj, win_getElem? s a L (i + j) (by omega)]
    congr 1; omega
  · have h1 : (win (win s a L) i w).length ≤ j := by simp only [win, List.length_take]; omega
    have h2 : (win s (a + i) w).length ≤ j := by simp only [win, List.length_take]; omega
    rw [List.getElem?_eq_none h1, List.getElem?_eq_none h2]

/-- windowed `EnforceGCContent` on `[a,b)` (forward / unstranded) passes exactly when every full window of the
    region has its GC fraction within the bounds -/
theorem gc_passes_iff (mini maxi : Rat) (w : Nat) (hw : 1 ≤ w) (a b : Nat) (st : Int) (hst : st ≠ -1) (s : Seq)
    (hab : a ≤ b) (hb : b ≤ s.length) :
    PassesB (.gc mini maxi (some w) ⟨a, b, st⟩) s ↔ ∀ i, i + w ≤ b - a → GcOk mini maxi w s (a + i) := by
  obtain ⟨w', rfl⟩ : ∃ w', w = w' + 1 := ⟨w - 1, by omega⟩
  have hsub : (⟨(a : Int), (b : Int), st⟩ : Loc).extract s = some (win s a (b - a)) := by
    have : (st == -1) = false := by simp [hst]
    simp only [Loc.extract, this, Bool.false_eq_true, if_false, C15.pySlice_nat' s a b hab hb, win]
  have hL : (win s a (b - a)).length = b - a := by simp only [win, List.length_take, List.length_drop]; omega
  have hfr : gcFractions (win s a (b - a)) (some (w' + 1)) =
      (List.range (b - a + 1 - (w' + 1))).map (fun i => (gcCount (win s (a + i) (w' + 1)), w' + 1)) := by
    simp only [gcFractions, C19.gc_windows_eq_count _ _ hw, gcWindowsDirect, hL, List.map_map]
    apply List.map_congr_left
    intro i hi
    simp only [Function.comp, List.mem_range] at hi ⊢
    rw [win_win s a (b - a) i (w' + 1) (by omega)]
  simp only [PassesB, evaluate, hsub, Option.isNone_some, Bool.false_and, Bool.false_eq_true, if_false, hfr, List.map_map]
  have hnn : ∀ x ∈ (List.range (b - a + 1 - (w' + 1))).map
      ((fun p => gcBreach mini maxi (frac p)) ∘ fun i => (gcCount (win s (a + i) (w' + 1)), w' + 1)), (0 : Rat) ≤ x := by
    intro x hx
    simp only [List.mem_map] at hx
    obtain ⟨i, _, rfl⟩ := hx
    exact gcBreach_nonneg' _ _ _
  have hsum0 : (0 : Rat) ≤ NumK.sum ((List.range (b - a + 1 - (w' + 1))).map
      ((fun p => gcBreach mini maxi (frac p)) ∘ fun i => (gcCount (win s (a + i) (w' + 1)), w' + 1))) :=
    foldl_add_ge _ (Score.zero : Rat) hnn
  have hmem : ∀ x, x ∈ (List.range (b - a + 1 - (w' + 1))).map
      ((fun p => gcBreach mini maxi (frac p)) ∘ fun i => (gcCount (win s (a + i) (w' + 1)), w' + 1)) ↔
      ∃ i, i + (w' + 1) ≤ b - a ∧ x = gcBreach mini maxi (frac (gcCount (win s (a + i) (w' + 1)), w' + 1)) := by
    intro x
    simp only [List.mem_map, List.mem_range, Function.comp]
    constructor
    · rintro ⟨i, hi, rfl⟩; exact ⟨i, by omega, rfl⟩
    · rintro ⟨i, hi, rfl⟩; exact ⟨i, by omega, rfl⟩
  generalize (List.range (b - a + 1 - (w' + 1))).map
      ((fun p => gcBreach mini maxi (frac p)) ∘ fun i => (gcCount (win s (a + i) (w' + 1)), w' + 1)) = l at hnn hsum0 hmem ⊢
  constructor
  · rintro ⟨e, he, hsc⟩
    simp only [Option.some.injEq] at he
    rw [← he] at hsc
    have hsc' : (0 : Rat) ≤ 0 - NumK.sum l := hsc
    have hz : NumK.sum l = 0 := le_antisymm (by linarith) hsum0
    rw [sum_eq_zero_iff _ hnn] at hz
    intro i hi
    have := hz _ ((hmem _).2 ⟨i, hi, rfl⟩)
    exact (gcBreach_eq_zero_iff _ _ _).1 this
  · intro hall
    refine ⟨_, rfl, ?_⟩
    have hz : NumK.sum l = 0 := by
      rw [sum_eq_zero_iff _ hnn]
      intro x hx
      obtain ⟨i, hi, rfl⟩ := (hmem x).1 hx
      exact (gcBreach_eq_zero_iff _ _ _).2 (hall i hi)
    show (0 : Rat) ≤ 0 - NumK.sum l
    rw [hz]; norm_num

/-- the specification's location cut to the window extended by `k - 1` on both sides, as `localized` computes it -/
theorem overlap_extended_nat (a b wa wb k : Nat) (st ws : Int) (hk : 1 ≤ k) (hov : max a wa < min b wb) :
    (⟨(a : Int), (b : Int), st⟩ : Loc).overlap ((⟨(wa : Int), (wb : Int), ws⟩ : Loc).extended ((k : Int) - 1) 0 Option.none true true) =
      some ⟨((max a (wa - (k - 1)) : Nat) : Int), ((min b (wb + (k - 1)) : Nat) : Int), st⟩ := by
  simp only [Loc.overlap, Loc.extended, if_true]
  by_cases c1 : max 0 ((wa : Int) - ((k : Int) - 1)) < (a : Int)
  · simp only [c1, if_true]
    have c2 : ¬ ((a : Int) ≥ (wb : Int) + ((k : Int) - 1)) := by omega
    simp only [c2, if_false, Option.some.injEq, Loc.mk.injEq, and_true]
    constructor <;> omega
  · simp only [c1, if_false]
    have c2 : ¬ (max 0 ((wa : Int) - ((k : Int) - 1)) ≥ (b : Int)) := by omega
    simp only [c2, if_false, Option.some.injEq, Loc.mk.injEq, and_true]
    constructor <;> omega

/-- **C08, first clause, for windowed EnforceGCContent** (any bounds, window `w ≥ 1`, forward or
    unstranded location `[a,b)`, any window `[wa,wb)` and edit): the localization the code builds
    (location cut to the window extended by `w - 1` on both sides) is sound -/
theorem gc_soundAt (mini maxi : Rat) (w : Nat) (hw1 : 1 ≤ w) (a b wa wb : Nat) (st ws : Int) (hst : st ≠ -1) (s t : Seq)
    (hab : a ≤ b) (hb : b ≤ s.length) :
    SoundAt (.gc mini maxi (some w) ⟨a, b, st⟩) ⟨wa, wb, ws⟩ none s t := by
  intro hp hag0 hl
  have hag : AgreeOutside wa wb s t := hag0
  have hbt : b ≤ t.length := by rw [← hag.1]; exact hb
  by_cases hw : wa < wb
  case neg =>
    have : s = t := List.ext_getElem? (fun i => hag.2 i (by omega))
    rw [← this]; exact hp
  rw [gc_passes_iff mini maxi w hw1 a b st hst s hab hb] at hp
  rw [gc_passes_iff mini maxi w hw1 a b st hst t hab hbt]
  intro i hi
  by_cases hin : wa < a + i + w ∧ a + i < wb
  · have hov : max a wa < min b wb := by omega
    simp only [localized, Option.getD_none, overlap_nat a b wa wb st ws hov,
      overlap_extended_nat a b wa wb w st ws hw1 hov] at hl
    have hl' := (gc_passes_iff mini maxi w hw1 _ _ st hst t (by omega) (by omega)).1 hl
    have := hl' (a + i - max a (wa - (w - 1))) (by omega)
    have e : max a (wa - (w - 1)) + (a + i - max a (wa - (w - 1))) = a + i := by omega
    rw [e] at this
    exact this
  · have hwin : win s (a + i) w = win t (a + i) w := by
      apply win_eq_of_agree s t wa wb hag
      omega
    have := hp i hi
    simp only [GcOk] at this ⊢
    rw [← hwin]
    exact this

/-- windowed `EnforceGCContent` (forward / unstranded location inside the sequence) satisfies the hypothesis
    of `C02.optimize_preserves_feasible` -/
theorem gc_localSound (n : Nat) (mini maxi : Rat) (w : Nat) (hw1 : 1 ≤ w) (a b : Nat) (st : Int) (hst : st ≠ -1)
    (hab : a ≤ b) (hb : b ≤ n) :
    C02.LocalSound n evB lzB iniB (.gc mini maxi (some w) ⟨a, b, st⟩) := by
  apply localSound_of_soundAt
  · intro x
    simp only [localized]
    split
    · simp
    · split <;> simp
  · intro wa wb s t hn
    exact gc_soundAt mini maxi w hw1 a b wa wb st 0 hst s t hab (by omega)

/-! ### AvoidPattern on the forward strand, as `SoundAt` -/

theorem avoidPattern_passes_iff_forward (q : Seq) (a b : Nat) (s : Seq) :
    PassesB (.avoidPattern (.dna q) ⟨a, b, 1⟩) s ↔ (Pattern.dna q).findForward s ⟨a, b, 1⟩ = [] := by
  have hm : (Pattern.dna q).findMatches s ⟨a, b, 1⟩ = some ((Pattern.dna q).findForward s ⟨a, b, 1⟩) := by
    simp [Pattern.findMatches]
  simp only [PassesB, C10.avoidPattern_eval, hm, Option.map_some, Option.some.injEq]
  constructor
  · rintro ⟨e, he, hsc⟩
    rw [← he] at hsc
    exact List.length_eq_zero_iff.1 ((C10.ofInt_neg_nonneg_iff _).1 hsc)
  · intro h
    exact ⟨_, rfl, by rw [h]; simp⟩

/-- **C08, first clause, for AvoidPattern** (IUPAC pattern of any size on the forward strand of `[a,b)`) -/
theorem avoidPattern_soundAt (q : Seq) (hq : q ≠ []) (a b wa wb : Nat) (s t : Seq) (hab : a ≤ b) (hb : b ≤ s.length) :
    SoundAt (.avoidPattern (.dna q) ⟨a, b, 1⟩) ⟨wa, wb, 0⟩ none s t := by
  intro hp hag0 hl
  have hag : AgreeOutside wa wb s t := hag0
  have hk : 1 ≤ q.length := by cases q with | nil => exact absurd rfl hq | cons _ _ => simp
  by_cases hw : wa < wb
  case neg =>
    have : s = t := List.ext_getElem? (fun i => hag.2 i (by omega))
    rw [← this]; exact hp
  rw [avoidPattern_passes_iff_forward] at hp ⊢
  by_cases hov : max a wa < min b wb
  · rw [avoidPattern_localized_eq q a b wa wb hk hov] at hl
    simp only at hl
    rw [avoidPattern_passes_iff_forward] at hl
    exact avoidPattern_forward_sound q hq s t a b wa wb hab hb hw hag hp hl (by omega)
  · -- the window misses the location: nothing the specification reads has changed
    have hsl : pySlice s (a : Int) (b : Int) = pySlice t (a : Int) (b : Int) := by
      apply pySlice_congr s t _ _ hag.1 _ (by omega) (by omega)
      intro i h1 h2
      apply hag.2
      omega
    have := findMatches_unchanged (Pattern.dna q) ⟨a, b, 1⟩ s t (Or.inl rfl) hsl
    simp only [Pattern.findMatches, beq_self_eq_true, if_true, Option.some.injEq] at this
    rw [← this]; exact hp

theorem avoidPattern_localSound (n : Nat) (q : Seq) (hq : q ≠ []) (a b : Nat) (hab : a ≤ b) (hb : b ≤ n) :
    C02.LocalSound n evB lzB iniB (.avoidPattern (.dna q) ⟨a, b, 1⟩) := by
  apply localSound_of_soundAt
  · intro x
    simp only [localized]
    split
    · simp
    · split <;> simp
  · intro wa wb s t hn
    exact avoidPattern_soundAt q hq a b wa wb s t hab (by omega)

/-! ### the closed statement for problems made of built-in constraints

The hypotheses of `C02.optimize_preserves_feasible` are met by the built-in model itself: the
specifications of the model seen as solver objects (`bOps`) are pure and total, and the classes
treated above are `LocalSound`.  (Object identity plays no role in `optimize()`; the `BEq` instance
below only exists because the solver record asks for one.) -/

instance instBEqBSpecRat : BEq (BSpec Rat) := ⟨fun _ _ => false⟩
attribute [-instance] instBEqBSpecRat
attribute [local instance] instBEqBSpecRat

/-- the built-in model as the solver's specification objects -/
def bOps : SpecOps (BSpec Rat) Rat where
  evaluate b s _ := .ok (evB b s)
  localize b l rh s _ := .ok (match b.localized l rh with
    | .none => none
    | .same => some (b, .same)
    | .new b' => some (b', .fresh)
    | .typeError => none)
  initOn b s r _ := .ok (iniB b s r, .same)
  enforced _ := false
  priority _ := 0
  best _ := none
  boost _ := 1
  passive _ := false
  acceptsRighthand _ := true
  heuristic _ := none

theorem bOps_pureEval : Pure.PureEval bOps evB := fun _ _ _ => rfl

theorem bOps_pureObj : C02.PureObj bOps lzB iniB where
  loc c l s k := by
    refine ⟨_, rfl, ?_⟩
    simp only [lzB]
    cases c.localized l none <;> rfl
  init c s r k := ⟨.same, rfl⟩

/-- the constraint classes whose localization soundness is a theorem of this file -/
inductive Proven (n : Nat) : BSpec Rat → Prop where
  | avoidChanges (target : Seq) (a b : Nat) (st : Int) (hst : st ≠ -1) (hab : a ≤ b) (hb : b ≤ n)
      (hlen : target.length = b - a) : Proven n (.avoidChanges 0 target (.loc ⟨a, b, st⟩))
  | enforceSequence (sq : Seq) (a b : Nat) (st : Int) (hst : st ≠ -1) (hab : a ≤ b) (hb : b ≤ n) :
      Proven n (.enforceSequence sq ⟨a, b, st⟩)
  | stopCodons (tbl : Nat) (tb : Gen.CodonTable) (ht : tableOf tbl = some tb) (a m : Nat) (st : Int) (hst : st ≠ -1)
      (hb : a + 3 * m ≤ n) : Proven n (.stopCodons tbl ⟨a, (a + 3 * m : Nat), st⟩)
  | translation (tbl : Nat) (tb : Gen.CodonTable) (ht : tableOf tbl = some tb) (tr : Seq) (a m : Nat) (st : Int)
      (hst : st ≠ -1) (hb : a + 3 * m ≤ n) : Proven n (.translation tbl .none tr ⟨a, (a + 3 * m : Nat), st⟩)
  | gcWindowed (mini maxi : Rat) (w : Nat) (hw1 : 1 ≤ w) (a b : Nat) (st : Int) (hst : st ≠ -1) (hab : a ≤ b) (hb : b ≤ n) :
      Proven n (.gc mini maxi (some w) ⟨a, b, st⟩)
  | avoidPattern (q : Seq) (hq : q ≠ []) (a b : Nat) (hab : a ≤ b) (hb : b ≤ n) : Proven n (.avoidPattern (.dna q) ⟨a, b, 1⟩)
  | patternOccurence (pat : Pattern) (occ : Int) (l : Loc) (hl : l.Nonempty) (hl0 : 0 ≤ l.start)
      (hst : l.strand = 1 ∨ l.strand = -1 ∨ l.strand = 0) : Proven n (.patternOccurence pat occ l)
  | returnsSelf (b : BSpec Rat) (h : ∀ w, b.localized w none = .same) : Proven n b

theorem proven_localSound (n : Nat) (b : BSpec Rat) (h : Proven n b) : C02.LocalSound n evB lzB iniB b := by
  cases h with
  | avoidChanges target a b st hst hab hb hlen => exact avoidChanges_localSound n target a b st hst hab hb hlen
  | enforceSequence sq a b st hst hab hb => exact enforceSequence_localSound n sq a b st hst hab hb
  | stopCodons tbl tb ht a m st hst hb => exact stopCodons_localSound n tbl tb ht a m st hst hb
  | translation tbl tb ht tr a m st hst hb => exact translation_localSound n tbl tb ht tr a m st hst hb
  | gcWindowed mini maxi w hw1 a b st hst hab hb => exact gc_localSound n mini maxi w hw1 a b st hst hab hb
  | avoidPattern q hq a b hab hb => exact avoidPattern_localSound n q hq a b hab hb
  | patternOccurence pat occ l hl hl0 hst => exact patternOccurence_localSound n pat occ l hl hl0 hst
  | returnsSelf b h => exact same_localSound n b h

/-- **C02, closed for the built-in model**: a problem whose (evaluated) constraints are AvoidChanges /
    EnforceSequence / AvoidStopCodons / EnforceTranslation / windowed EnforceGCContent / AvoidPattern (IUPAC) regions on the forward strand and any specifications that localize to themselves
    (EnforceChoice, global GC bounds, edit budgets, …), with *any* objectives, on a well-formed
    mutation space: if all of them pass before `optimize()`, all of them pass after it — for every
    setting and every random tape, whether `optimize()` returns or raises. -/
theorem builtin_optimize_preserves_feasible (sett : Settings) (F : Frame (BSpec Rat)) (n : Nat)
    (hfit : ∀ a b : Int, C15.ChoicesFit n (F.space.localized a b).multichoices)
    (hcls : ∀ c ∈ F.constraints, Proven n c) (s : Seq) (st : St (BSpec Rat) Rat) (hn : s.length = n)
    (hs : Pure.feasible bOps evB F s = true) :
    Pure.feasible bOps evB F (Solver.optimize bOps sett F s st).2.1 = true := by
  have instLS : Pure.LawfulScore Rat := {
    lt_irrefl := fun a => by simp [Score.lt]
    lt_trans := fun a b c h1 h2 => by
      simp only [Score.lt, decide_eq_true_eq] at *; exact lt_trans h1 h2
    le_iff_not_lt := fun a b => by
      simp only [Score.le, Score.lt, decide_eq_true_eq, decide_eq_false_iff_not, not_lt]
    lt_of_lt_of_not_lt := fun a b c h1 h2 => by
      simp only [Score.lt, decide_eq_true_eq, decide_eq_false_iff_not, not_lt] at *; exact lt_of_lt_of_le h1 h2 }
  exact C02.optimize_preserves_feasible bOps evB lzB iniB sett F n
    { pureEval := bOps_pureEval
      pureObj := bOps_pureObj
      localFit := hfit
      sound := fun c hc _ => proven_localSound n c (hcls c hc)
      enforcedKept := fun _ _ _ _ _ _ _ => rfl } s st hn hs

/-! ### non-vacuity -/
example : Proven 10 (.avoidChanges 0 "TG".toList (.loc ⟨1, 3, 1⟩)) :=
  .avoidChanges _ 1 3 1 (by decide) (by decide) (by decide) (by decide)

example : PassesB (.avoidChanges 0 "TG".toList (.loc ⟨1, 3, 1⟩)) "ATGC".toList :=
  (avoidChanges_passes_iff "TG".toList 1 3 1 (by decide) "ATGC".toList (by decide) (by decide) (by decide)).2 (by decide)

example : AgreeOutside 2 4 "ATGCA".toList "ATTTA".toList := by
  refine ⟨rfl, ?_⟩
  intro i hi
  match i, hi with
  | 0, _ => rfl
  | 1, _ => rfl
  | 2, h => omega
  | 3, h => omega
  | 4, _ => rfl
  | n + 5, _ => simp

end Dna.C08
