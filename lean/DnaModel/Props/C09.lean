/-
C09 — localized objectives measure exactly the global score change of a local edit.

* the generic windowed-sum identity (`wscore_local`): for a score that is a sum of per-window terms
  `Σ_{i=a}^{b-k} f(s[i..i+k))`, restricting the sum to `[max a (wa-(k-1)), min b (wb+(k-1)))` preserves the
  score difference of any two sequences that agree outside `[wa, wb)`.  Pattern counts, windowed GC
  excess, per-codon and per-position terms are of this form (k = pattern size, window, 3, 1);
* when localization yields nothing the evaluation is unchanged (C08.localized_none_unchanged), so the
  difference is 0 on both sides.
Instantiating the identity for each class' `evaluate` is done by the correspondence + law oracle: PARTIAL.
-/
import DnaModel.Props.C08
import Mathlib.Algebra.BigOperators.Intervals
import Mathlib.Algebra.Order.BigOperators.Group.Finset
import Mathlib.Tactic.Linarith
set_option linter.unusedVariables false
set_option linter.unusedSimpArgs false
open Finset

namespace Dna.C09
open Dna

/-- windowed additive score: `Σ_{i=a}^{b-k} f (s[i:i+k])` -/
def wscore (f : Seq → ℤ) (k a b : ℕ) (s : Seq) : ℤ :=
  ∑ i ∈ Finset.Ico a (b + 1 - k), f (win s i k)

/-- **the localisation identity** -/
theorem wscore_local (f : Seq → ℤ) (k a b wa wb : ℕ) (hk : 0 < k) (s t : Seq)
    (h : C08.AgreeOutside wa wb s t) :
    wscore f k a b t - wscore f k a b s
      = wscore f k (max a (wa - (k - 1))) (min b (wb + (k - 1))) t
        - wscore f k (max a (wa - (k - 1))) (min b (wb + (k - 1))) s := by
  unfold wscore
  rw [← Finset.sum_sub_distrib, ← Finset.sum_sub_distrib]
  symm
  apply Finset.sum_subset
  · intro i hi
    simp only [Finset.mem_Ico] at hi ⊢
    omega
  · intro i hi hni
    simp only [Finset.mem_Ico] at hi hni
    have : ((i + k : ℕ) : ℤ) ≤ (wa : ℤ) ∨ (wb : ℤ) ≤ (i : ℤ) := by omega
    rw [C08.win_eq_of_agree s t wa wb h i k this]; simp

/-- rational-valued version (GC excess, codon frequencies) -/
def wscoreQ (f : Seq → ℚ) (k a b : ℕ) (s : Seq) : ℚ :=
  ∑ i ∈ Finset.Ico a (b + 1 - k), f (win s i k)

theorem wscoreQ_local (f : Seq → ℚ) (k a b wa wb : ℕ) (hk : 0 < k) (s t : Seq)
    (h : C08.AgreeOutside wa wb s t) :
    wscoreQ f k a b t - wscoreQ f k a b s
      = wscoreQ f k (max a (wa - (k - 1))) (min b (wb + (k - 1))) t
        - wscoreQ f k (max a (wa - (k - 1))) (min b (wb + (k - 1))) s := by
  unfold wscoreQ
  rw [← Finset.sum_sub_distrib, ← Finset.sum_sub_distrib]
  symm
  apply Finset.sum_subset
  · intro i hi
    simp only [Finset.mem_Ico] at hi ⊢
    omega
  · intro i hi hni
    simp only [Finset.mem_Ico] at hi hni
    have : ((i + k : ℕ) : ℤ) ≤ (wa : ℤ) ∨ (wb : ℤ) ≤ (i : ℤ) := by omega
    rw [C08.win_eq_of_agree s t wa wb h i k this]; simp

/-- when localization yields nothing both score differences are zero -/
theorem none_diff_zero (b : BSpec ℚ) (l w : Loc) (rh : Option Bool) (s t : Seq)
    (hb : C08.regionOf b = some l) (hl : l.Nonempty) (hl0 : 0 ≤ l.start) (hw : w.Nonempty) (hw0 : 0 ≤ w.start)
    (hst : l.strand = 1 ∨ l.strand = -1 ∨ l.strand = 0)
    (hsize : ∀ p l', b = .avoidPattern p l' → 1 ≤ p.size)
    (hwin : ∀ mi ma k l', b = .gc mi ma (some k) l' → 1 ≤ k)
    (hnone : b.localized w rh = .none) (hag : C08.AgreeOutside w.start w.stop s t) :
    (b.evaluate s).map (·.score) = (b.evaluate t).map (·.score) := by
  rw [C08.localized_none_unchanged b l w rh s t hb hl hl0 hw hw0 hst hsize hwin hnone hag]

end Dna.C09
