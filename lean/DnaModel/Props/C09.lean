/-
C09 — localized objectives measure exactly the global score change of a local edit.

* the generic windowed-sum identity (`wscore_local`): for a score that is a sum of per-window terms
  `Σ_{i=a}^{b-k} f(s[i..i+k))`, restricting the sum to `[max a (wa-(k-1)), min b (wb+(k-1)))` preserves the
  score difference of any two sequences that agree outside `[wa, wb)`.  Pattern counts, windowed GC
  excess, per-codon and per-position terms are of this form (k = pattern size, window, 3, 1);
* when localization yields nothing the evaluation is unchanged (C08.localized_none_unchanged), so the
  difference is 0 on both sides.
Instantiating the identity for each class' `evaluate` is done by the correspondence + law oracle: PARTIAL.
* `totalFaithful_of_scoreFaithful`: the per-objective identity (C09 as stated) implies the hypothesis
  `C03.TotalFaithful` of the whole-problem theorem `C03.optimize_never_lowers`, in exact arithmetic (ℚ).
-/
import DnaModel.Props.C08
import DnaModel.Props.C03
import Mathlib.Algebra.BigOperators.Intervals
import Mathlib.Algebra.Order.BigOperators.Group.Finset
import Mathlib.Tactic.Linarith
import Mathlib.Tactic.Ring
set_option linter.unusedVariables false
set_option linter.unusedSimpArgs false
open Finset

namespace Dna.C09
open Dna

/-- windowed additive score: `Σ_{i=a}^{b-k} f (s[i:i+k])` -/
def wscore (f : Seq → ℤ) (k a b : ℕ) (s : Seq) : ℤ :=
  ∑ i ∈ Finset.Ico a (b + 1 - k), f (win s i k)

/-- **the localisation identity** -/
theorem wscore_local (f : Seq → ℤ) (k a b wa wb : ℕ) (hk : 0 < k) (s t : Seq)
    (h : C08.AgreeOutside wa wb s t) :
    wscore f k a b t - wscore f k a b s
      = wscore f k (max a (wa - (k - 1))) (min b (wb + (k - 1))) t
        - wscore f k (max a (wa - (k - 1))) (min b (wb + (k - 1))) s := by
  unfold wscore
  rw [← Finset.sum_sub_distrib, ← Finset.sum_sub_distrib]
  symm
  apply Finset.sum_subset
  · intro i hi
    simp only [Finset.mem_Ico] at hi ⊢
    omega
  · intro i hi hni
    simp only [Finset.mem_Ico] at hi hni
    have : ((i + k : ℕ) : ℤ) ≤ (wa : ℤ) ∨ (wb : ℤ) ≤ (i : ℤ) := by omega
    rw [C08.win_eq_of_agree s t wa wb h i k this]; simp

/-- rational-valued version (GC excess, codon frequencies) -/
def wscoreQ (f : Seq → ℚ) (k a b : ℕ) (s : Seq) : ℚ :=
  ∑ i ∈ Finset.Ico a (b + 1 - k), f (win s i k)

theorem wscoreQ_local (f : Seq → ℚ) (k a b wa wb : ℕ) (hk : 0 < k) (s t : Seq)
    (h : C08.AgreeOutside wa wb s t) :
    wscoreQ f k a b t - wscoreQ f k a b s
      = wscoreQ f k (max a (wa - (k - 1))) (min b (wb + (k - 1))) t
        - wscoreQ f k (max a (wa - (k - 1))) (min b (wb + (k - 1))) s := by
  unfold wscoreQ
  rw [← Finset.sum_sub_distrib, ← Finset.sum_sub_distrib]
  symm
  apply Finset.sum_subset
  · intro i hi
    simp only [Finset.mem_Ico] at hi ⊢
    omega
  · intro i hi hni
    simp only [Finset.mem_Ico] at hi hni
    have : ((i + k : ℕ) : ℤ) ≤ (wa : ℤ) ∨ (wb : ℤ) ≤ (i : ℤ) := by omega
    rw [C08.win_eq_of_agree s t wa wb h i k this]; simp

/-- when localization yields nothing both score differences are zero -/
theorem none_diff_zero (b : BSpec ℚ) (l w : Loc) (rh : Option Bool) (s t : Seq)
    (hb : C08.regionOf b = some l) (hl : l.Nonempty) (hl0 : 0 ≤ l.start) (hw : w.Nonempty) (hw0 : 0 ≤ w.start)
    (hst : l.strand = 1 ∨ l.strand = -1 ∨ l.strand = 0)
    (hsize : ∀ p l', b = .avoidPattern p l' → 1 ≤ p.size)
    (hwin : ∀ mi ma k l', b = .gc mi ma (some k) l' → 1 ≤ k)
    (hnone : b.localized w rh = .none) (hag : C08.AgreeOutside w.start w.stop s t) :
    (b.evaluate s).map (·.score) = (b.evaluate t).map (·.score) := by
  rw [C08.localized_none_unchanged b l w rh s t hb hl hl0 hw hw0 hst hsize hwin hnone hag]

/-! ### from the per-objective identity to the solver's totals (exact arithmetic) -/
section totals
open Dna.Pure Dna.Solver
variable {σ : Type} [BEq σ]

instance : LawfulScore ℚ where
  lt_irrefl a := by simp [Score.lt]
  lt_trans a b c h1 h2 := by
    simp only [Score.lt, decide_eq_true_eq] at *; exact lt_trans h1 h2
  le_iff_not_lt a b := by
    simp only [Score.le, Score.lt, decide_eq_true_eq, decide_eq_false_iff_not, not_lt]
  lt_of_lt_of_not_lt a b c h1 h2 := by
    simp only [Score.lt, decide_eq_true_eq, decide_eq_false_iff_not, not_lt] at *; exact lt_of_lt_of_le h1 h2

/-- **C09 for one objective, as the solver uses it**: for an edit confined to the window, the
    localized and re-initialised objective's score changes by exactly the global score change (and
    keeps its boost); when localization yields nothing the global score does not change -/
def ScoreFaithful (n : ℕ) (ops : SpecOps σ ℚ) (ev : σ → Seq → Eval ℚ) (lz : σ → Loc → Seq → Option σ)
    (ini : σ → Seq → Role → σ) (o : σ) : Prop :=
  ∀ (a b : ℕ) (s t : Seq), s.length = n → C02.AgreeOut a b s t →
    match lz o ⟨a, b, 0⟩ s with
    | none => (ev o t).score = (ev o s).score
    | some o1 =>
      (ev (ini o1 s .objective) t).score - (ev (ini o1 s .objective) s).score = (ev o t).score - (ev o s).score ∧
      ops.boost (ini o1 s .objective) = ops.boost o

theorem totalFrom_eq (ops : SpecOps σ ℚ) (ev : σ → Seq → Eval ℚ) (s : Seq) (os : List σ) (acc : ℚ) :
    totalFrom ops ev s os acc = acc + (os.map (fun o => ops.boost o * (ev o s).score)).sum := by
  induction os generalizing acc with
  | nil => simp [totalFrom]
  | cons o os ih =>
    simp only [totalFrom, List.foldl_cons, List.map_cons, List.sum_cons] at ih ⊢
    rw [ih]
    simp only [Score.add, Score.mul]
    rw [add_assoc]

theorem total_diff (ops : SpecOps σ ℚ) (ev : σ → Seq → Eval ℚ) (s t : Seq) (os : List σ) :
    totalFrom ops ev t os Score.zero - totalFrom ops ev s os Score.zero =
      (os.map (fun o => ops.boost o * ((ev o t).score - (ev o s).score))).sum := by
  rw [totalFrom_eq, totalFrom_eq]
  induction os with
  | nil => simp
  | cons o os ih =>
    simp only [List.map_cons, List.sum_cons]
    have : (Score.zero : ℚ) = 0 := rfl
    rw [this] at ih ⊢
    linarith

/-- the weighted score change summed over the local objectives equals the one summed over the
    problem's objectives -/
theorem local_sum_eq (n : ℕ) (ops : SpecOps σ ℚ) (ev : σ → Seq → Eval ℚ) (lz ini) (a b : ℕ) (s t : Seq) (hn : s.length = n)
    (hag : C02.AgreeOut a b s t) (os : List σ) (h : ∀ o ∈ os, ScoreFaithful n ops ev lz ini o) :
    (((((os.filter (fun o => !Score.eq (ops.boost o) (Score.zero : ℚ))).filterMap (fun o => lz o ⟨a, b, 0⟩ s)).map
        (fun o => ini o s .objective))).map (fun o => ops.boost o * ((ev o t).score - (ev o s).score))).sum =
    (os.map (fun o => ops.boost o * ((ev o t).score - (ev o s).score))).sum := by
  induction os with
  | nil => simp
  | cons o os ih =>
    have ih' := ih (fun o' ho' => h o' (List.mem_cons_of_mem _ ho'))
    have hf := h o List.mem_cons_self a b s t hn hag
    simp only [List.filter_cons, List.map_cons, List.sum_cons]
    cases hz : Score.eq (ops.boost o) (Score.zero : ℚ) with
    | true =>
      have hb0 : ops.boost o = 0 := by
        simp only [Score.eq, beq_iff_eq] at hz; exact hz
      simp only [Bool.not_true, Bool.false_eq_true, if_false, hb0, zero_mul, zero_add]
      exact ih'
    | false =>
      simp only [Bool.not_false, if_true, List.filterMap_cons]
      cases hl : lz o ⟨a, b, 0⟩ s with
      | none =>
        rw [hl] at hf
        simp only at hf
        simp only [hf, sub_self, mul_zero, zero_add]
        exact ih'
      | some o1 =>
        rw [hl] at hf
        simp only at hf
        simp only [List.map_cons, List.sum_cons, hf.1, hf.2]
        rw [ih']

/-- **C09 ⇒ the hypothesis of `C03.optimize_never_lowers`**, in exact arithmetic -/
theorem totalFaithful_of_scoreFaithful (n : ℕ) (ops : SpecOps σ ℚ) (ev : σ → Seq → Eval ℚ) (lz ini) (F : Frame σ)
    (h : ∀ o ∈ F.objectives, ScoreFaithful n ops ev lz ini o) : C03.TotalFaithful n ops ev lz ini F := by
  intro a b s t LF hn hag hobj hloc
  have h1 := total_diff ops ev s t LF.objectives
  have h2 := total_diff ops ev s t F.objectives
  rw [hobj, C02.localObjectives, local_sum_eq n ops ev lz ini a b s t hn hag F.objectives h, ← h2] at h1
  have hloc' : ¬ (totalFrom ops ev t LF.objectives Score.zero < totalFrom ops ev s LF.objectives Score.zero) :=
    of_decide_eq_false hloc
  rw [hobj, C02.localObjectives] at hloc'
  show decide (totalFrom ops ev t F.objectives Score.zero < totalFrom ops ev s F.objectives Score.zero) = false
  apply decide_eq_false
  intro hlt
  apply hloc'
  linarith

/-- **C03, whole problem, exact arithmetic**: objectives satisfying the C09 identity are never traded down by `optimize()` -/
theorem optimize_never_lowers_rat (ops : SpecOps σ ℚ) (ev lz ini) (sett : Settings) (F : Frame σ) (n : ℕ)
    (hp : PureEval ops ev) (hq : C02.PureObj ops lz ini)
    (hfit : ∀ a b : ℤ, C15.ChoicesFit n (F.space.localized a b).multichoices)
    (h : ∀ o ∈ F.objectives, ScoreFaithful n ops ev lz ini o) (s : Seq) (st : St σ ℚ) (hn : s.length = n) :
    total ops ev F s ≤ total ops ev F (optimize ops sett F s st).2.1 := by
  have := C03.optimize_never_lowers ops ev lz ini sett F n hp hq hfit (totalFaithful_of_scoreFaithful n ops ev lz ini F h) s st hn
  exact not_lt.1 (of_decide_eq_false this)

/-! ### closed statements for the built-in model (objects of `C08.bOps`) -/

attribute [local instance] C08.instBEqBSpecRat in
/-- an objective whose `localized` returns the specification itself (global GC bounds or target,
    partial EnforceChanges, EnforceChoice, budgeted AvoidChanges, …) is score-faithful: the local
    score *is* the global score -/
theorem same_scoreFaithful (n : ℕ) (b : BSpec ℚ) (h : ∀ w, b.localized w none = .same) :
    ScoreFaithful n C08.bOps C08.evB C08.lzB C08.iniB b := by
  intro a c s t _ _
  have : C08.lzB b ⟨a, c, 0⟩ s = some b := by simp only [C08.lzB, h]
  rw [this]
  exact ⟨rfl, rfl⟩

attribute [local instance] C08.instBEqBSpecRat in
/-- a region objective whose localization to the window is `None` does not see the edit at all -/
theorem none_scoreFaithful_at (b : BSpec ℚ) (l : Loc) (a c : ℕ) (s t : Seq)
    (hb : C08.regionOf b = some l) (hl : l.Nonempty) (hl0 : 0 ≤ l.start) (hw : a < c)
    (hst : l.strand = 1 ∨ l.strand = -1 ∨ l.strand = 0)
    (hsize : ∀ p l', b = .avoidPattern p l' → 1 ≤ p.size)
    (hwin : ∀ mi ma k l', b = .gc mi ma (some k) l' → 1 ≤ k)
    (hnone : b.localized ⟨a, c, 0⟩ none = .none) (hag : C02.AgreeOut a c s t) :
    (C08.evB b t).score = (C08.evB b s).score := by
  have := C08.localized_none_unchanged b l ⟨a, c, 0⟩ none s t hb hl hl0 (by simp only [Loc.Nonempty]; omega)
    (by simp) hst hsize hwin hnone (C08.agreeOutside_of_agreeOut a c s t hag)
  simp only [C08.evB, this]

/-! ### AvoidChanges as an objective (no budget, forward / unstranded location): the C09 identity -/

theorem diffArray_append (u1 u2 v1 v2 : Seq) (h : u1.length = v1.length) :
    diffArray (u1 ++ u2) (v1 ++ v2) = diffArray u1 v1 ++ diffArray u2 v2 := by
  induction u1 generalizing v1 with
  | nil => cases v1 with
    | nil => simp [diffArray]
    | cons _ _ => simp at h
  | cons x xs ih =>
    cases v1 with
    | nil => simp at h
    | cons y ys =>
      simp only [List.length_cons, Nat.add_right_cancel_iff] at h
      simp only [List.cons_append, diffArray, ih ys h]

theorem diffCount_append (u1 u2 v1 v2 : Seq) (h : u1.length = v1.length) :
    diffCount (u1 ++ u2) (v1 ++ v2) = diffCount u1 v1 + diffCount u2 v2 := by
  simp only [diffCount, diffArray_append u1 u2 v1 v2 h, List.filter_append, List.length_append]

/-- the score of `AvoidChanges` (no budget) on `[a,b)`, forward / unstranded: minus the number of edited positions -/
theorem avoidChanges_evB (target : Seq) (a b : ℕ) (st : ℤ) (hst : st ≠ -1) (s : Seq) (hab : a ≤ b) (hb : b ≤ s.length)
    (hlen : target.length = b - a) :
    (C08.evB (.avoidChanges 0 target (.loc ⟨a, b, st⟩)) s).score = -((diffCount (win s a (b - a)) target : ℕ) : ℚ) := by
  have hsub : (⟨(a : ℤ), (b : ℤ), st⟩ : Loc).extract s = some (win s a (b - a)) := by
    have : (st == -1) = false := by simp [hst]
    simp only [Loc.extract, this, Bool.false_eq_true, if_false, C15.pySlice_nat' s a b hab hb, win]
  have hl2 : (win s a (b - a)).length = target.length := by
    simp only [win, List.length_take, List.length_drop, hlen]; omega
  have hne : ((win s a (b - a)).length != target.length) = false := by simp [hl2]
  simp only [C08.evB, BSpec.evaluate, BSpec.scopeExtract, hsub, hne, Bool.false_eq_true, if_false, C10.countTrue]
  simp only [NumK.sub, NumK.ofInt, diffCount]
  push_cast
  ring

theorem win_eq_outside (s t : Seq) (wa wb : ℕ) (hag : C02.AgreeOut wa wb s t) (j k : ℕ)
    (h : ∀ i, i < k → (j + i < wa ∨ wb ≤ j + i)) : win t j k = win s j k := by
  apply List.ext_getElem?
  intro i
  simp only [win, List.getElem?_take, List.getElem?_drop]
  split
  · rename_i hi; exact hag.2 (j + i) (h i hi)
  · rfl

attribute [local instance] C08.instBEqBSpecRat in
/-- **C09 for AvoidChanges as an objective** (no budget; forward / unstranded location `[a,b)` inside
    the sequence): for every window and every edit confined to it, the localized objective's score
    changes by exactly the global score change; when the localization is `None` the score does not
    change at all -/
theorem avoidChanges_scoreFaithful (n : ℕ) (target : Seq) (a b : ℕ) (st : ℤ) (hst : st ≠ -1) (hab : a < b) (hb : b ≤ n)
    (hlen : target.length = b - a) :
    ScoreFaithful n C08.bOps C08.evB C08.lzB C08.iniB (.avoidChanges 0 target (.loc ⟨a, b, st⟩)) := by
  intro wa wb s t hn hag
  have hbs : b ≤ s.length := by omega
  have hbt : b ≤ t.length := by rw [hag.1]; exact hbs
  by_cases hw : wa < wb
  case neg =>
    have hts : t = s := List.ext_getElem? (fun i => hag.2 i (by omega))
    rw [hts]
    split
    · rfl
    · exact ⟨by ring, rfl⟩
  by_cases hov : max a wa < min b wb
  · -- the localized objective
    have e0 : Score.eq (0 : ℚ) (Score.zero : ℚ) = true := by decide
    have hsl : pySlice target (((max a wa : ℕ) : ℤ) + -(a : ℤ)) (((min b wb : ℕ) : ℤ) + -(a : ℤ)) =
        win target (max a wa - a) (min b wb - max a wa) := by
      have e1 : ((max a wa : ℕ) : ℤ) + -(a : ℤ) = ((max a wa - a : ℕ) : ℤ) := by omega
      have e2 : ((min b wb : ℕ) : ℤ) + -(a : ℤ) = ((min b wb - a : ℕ) : ℤ) := by omega
      rw [e1, e2, C15.pySlice_nat' target _ _ (by omega) (by omega)]
      simp only [win]
      congr 1
      omega
    have hlz : C08.lzB (.avoidChanges 0 target (.loc ⟨a, b, st⟩)) ⟨wa, wb, 0⟩ s =
        some (.avoidChanges 0 (win target (max a wa - a) (min b wb - max a wa)) (.loc ⟨(max a wa : ℕ), (min b wb : ℕ), st⟩)) := by
      simp only [C08.lzB, BSpec.localized, e0, Bool.not_true, Bool.false_eq_true, if_false,
        C08.overlap_nat a b wa wb st 0 hov, Loc.shift, hsl]
    rw [hlz]
    simp only [C08.iniB]
    refine ⟨?_, rfl⟩
    have hl' : (win target (max a wa - a) (min b wb - max a wa)).length = min b wb - max a wa := by
      simp only [win, List.length_take, List.length_drop]; omega
    rw [avoidChanges_evB target a b st hst t (by omega) hbt hlen, avoidChanges_evB target a b st hst s (by omega) hbs hlen,
      avoidChanges_evB _ (max a wa) (min b wb) st hst t (by omega) (by omega) hl',
      avoidChanges_evB _ (max a wa) (min b wb) st hst s (by omega) (by omega) hl']
    -- split the region into before / inside / after the window
    have hsplit : ∀ u : Seq, b ≤ u.length → win u a (b - a) =
        win u a (max a wa - a) ++ (win u (max a wa) (min b wb - max a wa) ++ win u (min b wb) (b - min b wb)) := by
      intro u _
      have e1 : b - a = (max a wa - a) + ((min b wb - max a wa) + (b - min b wb)) := by omega
      rw [e1, C08.win_split, C08.win_split]
      have e2 : a + (max a wa - a) = max a wa := by omega
      have e3 : max a wa + (min b wb - max a wa) = min b wb := by omega
      rw [e2, e3]
    have htg : target = win target 0 (max a wa - a) ++ (win target (max a wa - a) (min b wb - max a wa) ++
        win target (min b wb - a) (b - min b wb)) := by
      have e1 : target = win target 0 (b - a) := by simp only [win, List.drop_zero, ← hlen, List.take_length]
      have e2 : b - a = (max a wa - a) + ((min b wb - max a wa) + (b - min b wb)) := by omega
      conv_lhs => rw [e1, e2, C08.win_split, C08.win_split]
      have e3 : 0 + (max a wa - a) = max a wa - a := by omega
      have e4 : max a wa - a + (min b wb - max a wa) = min b wb - a := by omega
      rw [e3, e4]
    have hcount : ∀ u : Seq, b ≤ u.length → diffCount (win u a (b - a)) target =
        diffCount (win u a (max a wa - a)) (win target 0 (max a wa - a)) +
        (diffCount (win u (max a wa) (min b wb - max a wa)) (win target (max a wa - a) (min b wb - max a wa)) +
         diffCount (win u (min b wb) (b - min b wb)) (win target (min b wb - a) (b - min b wb))) := by
      intro u hu
      rw [hsplit u hu]
      conv_lhs => rw [htg]
      rw [diffCount_append _ _ _ _ (by simp only [win, List.length_take, List.length_drop]; omega),
        diffCount_append _ _ _ _ (by simp only [win, List.length_take, List.length_drop]; omega)]
    have h1 : win t a (max a wa - a) = win s a (max a wa - a) := win_eq_outside s t wa wb hag _ _ (by intro i hi; omega)
    have h3 : win t (min b wb) (b - min b wb) = win s (min b wb) (b - min b wb) :=
      win_eq_outside s t wa wb hag _ _ (by intro i hi; omega)
    rw [hcount t hbt, hcount s hbs, h1, h3]
    push_cast
    ring
  · -- no overlap: `localized` returns None and the region is untouched
    have hlz : C08.lzB (.avoidChanges 0 target (.loc ⟨a, b, st⟩)) ⟨wa, wb, 0⟩ s = none := by
      have e0 : Score.eq (0 : ℚ) (Score.zero : ℚ) = true := by decide
      simp only [C08.lzB, BSpec.localized, e0, Bool.not_true, Bool.false_eq_true, if_false,
        C08.overlap_nat_none a b wa wb st 0 hab hw hov]
    rw [hlz]
    simp only
    rw [avoidChanges_evB target a b st hst t (by omega) hbt hlen, avoidChanges_evB target a b st hst s (by omega) hbs hlen,
      win_eq_outside s t wa wb hag a (b - a) (by intro i hi; omega)]

/-! ### windowed EnforceGCContent as an objective: an instance of the windowed-sum identity -/

theorem numSum_eq_sum (l : List ℚ) : NumK.sum l = l.sum := by
  have : ∀ acc : ℚ, l.foldl Score.add acc = acc + l.sum := by
    induction l with
    | nil => intro acc; simp
    | cons x xs ih =>
      intro acc
      rw [List.foldl_cons, List.sum_cons, ih]
      simp only [Score.add]
      ring
  simp only [NumK.sum, this, Score.zero, zero_add]

theorem list_range_sum (f : ℕ → ℚ) (n : ℕ) : ((List.range n).map f).sum = ∑ i ∈ Finset.range n, f i := by
  induction n with
  | zero => simp
  | succ n ih => rw [List.range_succ, List.map_append, List.sum_append, ih, Finset.sum_range_succ]; simp

/-- the per-window term of the GC score -/
def gcTerm (mini maxi : ℚ) (w : ℕ) (u : Seq) : ℚ := BSpec.gcBreach mini maxi (BSpec.frac (K := ℚ) (gcCount u, w))

/-- the score of windowed `EnforceGCContent` on `[a,b)` is minus the windowed sum of the excesses -/
theorem gc_evB (mini maxi : ℚ) (w : ℕ) (hw : 1 ≤ w) (a b : ℕ) (st : ℤ) (hst : st ≠ -1) (s : Seq) (hab : a ≤ b)
    (hb : b ≤ s.length) :
    (C08.evB (.gc mini maxi (some w) ⟨a, b, st⟩) s).score = -wscoreQ (gcTerm mini maxi w) w a b s := by
  obtain ⟨w', rfl⟩ : ∃ w', w = w' + 1 := ⟨w - 1, by omega⟩
  have hsub : (⟨(a : ℤ), (b : ℤ), st⟩ : Loc).extract s = some (win s a (b - a)) := by
    have : (st == -1) = false := by simp [hst]
    simp only [Loc.extract, this, Bool.false_eq_true, if_false, C15.pySlice_nat' s a b hab hb, win]
  have hL : (win s a (b - a)).length = b - a := by simp only [win, List.length_take, List.length_drop]; omega
  have hfr : BSpec.gcFractions (win s a (b - a)) (some (w' + 1)) =
      (List.range (b - a + 1 - (w' + 1))).map (fun i => (gcCount (win s (a + i) (w' + 1)), w' + 1)) := by
    simp only [BSpec.gcFractions, C19.gc_windows_eq_count _ _ hw, gcWindowsDirect, hL, List.map_map]
    apply List.map_congr_left
    intro i hi
    simp only [Function.comp, List.mem_range] at hi ⊢
    rw [C08.win_win s a (b - a) i (w' + 1) (by omega)]
  simp only [C08.evB, BSpec.evaluate, hsub, Option.isNone_some, Bool.false_and, Bool.false_eq_true, if_false, hfr, List.map_map,
    NumK.neg, NumK.sub, Score.zero, numSum_eq_sum, wscoreQ]
  rw [Finset.sum_Ico_eq_sum_range, list_range_sum]
  have e : b + 1 - (w' + 1) - a = b - a + 1 - (w' + 1) := by omega
  rw [e]
  simp only [Function.comp, gcTerm]
  ring

attribute [local instance] C08.instBEqBSpecRat in
/-- **C09 for windowed EnforceGCContent as an objective** (any bounds or target, window `w ≥ 1`, forward or
    unstranded region `[a,b)` inside the sequence): an instance of the windowed-sum identity `wscoreQ_local` -/
theorem gc_scoreFaithful (n : ℕ) (mini maxi : ℚ) (w : ℕ) (hw1 : 1 ≤ w) (a b : ℕ) (st : ℤ) (hst01 : st = 1 ∨ st = 0)
    (hab : a < b) (hb : b ≤ n) :
    ScoreFaithful n C08.bOps C08.evB C08.lzB C08.iniB (.gc mini maxi (some w) ⟨a, b, st⟩) := by
  have hst : st ≠ -1 := by rcases hst01 with h | h <;> omega
  intro wa wb s t hn hag
  have hbs : b ≤ s.length := by omega
  have hbt : b ≤ t.length := by rw [hag.1]; exact hbs
  by_cases hw : wa < wb
  case neg =>
    have hts : t = s := List.ext_getElem? (fun i => hag.2 i (by omega))
    rw [hts]
    split
    · rfl
    · exact ⟨by ring, rfl⟩
  by_cases hov : max a wa < min b wb
  · have hlz : C08.lzB (.gc mini maxi (some w) ⟨a, b, st⟩) ⟨wa, wb, 0⟩ s =
        some (.gc mini maxi (some w) ⟨(max a (wa - (w - 1)) : ℕ), (min b (wb + (w - 1)) : ℕ), st⟩) := by
      simp only [C08.lzB, BSpec.localized, Option.getD_none, C08.overlap_nat a b wa wb st 0 hov,
        C08.overlap_extended_nat a b wa wb w st 0 hw1 hov]
    rw [hlz]
    simp only [C08.iniB]
    refine ⟨?_, rfl⟩
    rw [gc_evB mini maxi w hw1 a b st hst t (by omega) hbt, gc_evB mini maxi w hw1 a b st hst s (by omega) hbs,
      gc_evB mini maxi w hw1 _ _ st hst t (by omega) (by omega), gc_evB mini maxi w hw1 _ _ st hst s (by omega) (by omega)]
    have := wscoreQ_local (gcTerm mini maxi w) w a b wa wb (by omega) s t (C08.agreeOutside_of_agreeOut wa wb s t hag)
    linarith
  · have hnone : (BSpec.gc mini maxi (some w) ⟨a, b, st⟩ : BSpec ℚ).localized ⟨wa, wb, 0⟩ none = .none := by
      simp only [BSpec.localized, C08.overlap_nat_none a b wa wb st 0 hab hw hov]
    have hlz : C08.lzB (.gc mini maxi (some w) ⟨a, b, st⟩) ⟨wa, wb, 0⟩ s = none := by
      simp only [C08.lzB, hnone]
    rw [hlz]
    exact none_scoreFaithful_at _ ⟨a, b, st⟩ wa wb s t rfl (by simp only [Loc.Nonempty]; omega) (by simp) hw
      (by rcases hst01 with h | h <;> simp [h]) (by intro p l' h; cases h) (by intro mi ma k l' h; cases h; exact hw1) hnone hag

attribute [local instance] C08.instBEqBSpecRat in
/-- region objectives whose `localized` returns the specification itself or `None` (EnforcePatternOccurence) -/
theorem sameOrNone_scoreFaithful (n : ℕ) (b : BSpec ℚ) (l : Loc) (hb : C08.regionOf b = some l) (hl : l.Nonempty)
    (hl0 : 0 ≤ l.start) (hst : l.strand = 1 ∨ l.strand = -1 ∨ l.strand = 0)
    (hsize : ∀ p l', b = .avoidPattern p l' → 1 ≤ p.size) (hwin : ∀ mi ma k l', b = .gc mi ma (some k) l' → 1 ≤ k)
    (h : ∀ w, b.localized w none = .same ∨ b.localized w none = .none) :
    ScoreFaithful n C08.bOps C08.evB C08.lzB C08.iniB b := by
  intro a c s t _ hag
  rcases h ⟨a, c, 0⟩ with h1 | h1
  · have : C08.lzB b ⟨a, c, 0⟩ s = some b := by simp only [C08.lzB, h1]
    rw [this]
    exact ⟨rfl, rfl⟩
  · have : C08.lzB b ⟨a, c, 0⟩ s = none := by simp only [C08.lzB, h1]
    rw [this]
    simp only
    by_cases hw : a < c
    · exact none_scoreFaithful_at b l a c s t hb hl hl0 hw hst hsize hwin h1 hag
    · have hts : t = s := List.ext_getElem? (fun i => hag.2 i (by omega))
      rw [hts]

/-- the objective classes whose C09 identity is a theorem of this file -/
inductive ProvenObj (n : ℕ) : BSpec ℚ → Prop where
  | avoidChanges (target : Seq) (a b : ℕ) (st : ℤ) (hst : st ≠ -1) (hab : a < b) (hb : b ≤ n)
      (hlen : target.length = b - a) : ProvenObj n (.avoidChanges 0 target (.loc ⟨a, b, st⟩))
  | gcWindowed (mini maxi : ℚ) (w : ℕ) (hw1 : 1 ≤ w) (a b : ℕ) (st : ℤ) (hst01 : st = 1 ∨ st = 0) (hab : a < b) (hb : b ≤ n) :
      ProvenObj n (.gc mini maxi (some w) ⟨a, b, st⟩)
  | patternOccurence (pat : Pattern) (occ : ℤ) (l : Loc) (hl : l.Nonempty) (hl0 : 0 ≤ l.start)
      (hst : l.strand = 1 ∨ l.strand = -1 ∨ l.strand = 0) : ProvenObj n (.patternOccurence pat occ l)
  | returnsSelf (b : BSpec ℚ) (h : ∀ w, b.localized w none = .same) : ProvenObj n b

attribute [local instance] C08.instBEqBSpecRat in
theorem provenObj_scoreFaithful (n : ℕ) (b : BSpec ℚ) (h : ProvenObj n b) :
    ScoreFaithful n C08.bOps C08.evB C08.lzB C08.iniB b := by
  cases h with
  | avoidChanges target a b st hst hab hb hlen => exact avoidChanges_scoreFaithful n target a b st hst hab hb hlen
  | gcWindowed mini maxi w hw1 a b st hst01 hab hb => exact gc_scoreFaithful n mini maxi w hw1 a b st hst01 hab hb
  | patternOccurence pat occ l hl hl0 hst =>
    apply sameOrNone_scoreFaithful n _ l rfl hl hl0 hst (by intro p l' h; cases h) (by intro mi ma k l' h; cases h)
    intro w
    simp only [BSpec.localized, Option.isSome_none, Bool.false_eq_true, if_false]
    cases l.overlap w <;> simp
  | returnsSelf b h => exact same_scoreFaithful n b h

attribute [local instance] C08.instBEqBSpecRat in
/-- **C03, closed for the built-in model**: with objectives that are windowed EnforceGCContent or AvoidChanges
    regions (forward strand) or localize to themselves (global GC bounds / target, partial EnforceChanges,
    EnforceChoice, budgets …), and *any* constraints, on a well-formed mutation space, `optimize()`
    never ends on a lower exact total — every setting, every tape, returning or raising -/
theorem builtin_optimize_never_lowers (sett : Settings) (F : Frame (BSpec ℚ)) (n : ℕ)
    (hfit : ∀ a b : ℤ, C15.ChoicesFit n (F.space.localized a b).multichoices)
    (hobj : ∀ o ∈ F.objectives, ProvenObj n o) (s : Seq) (st : St (BSpec ℚ) ℚ) (hn : s.length = n) :
    total C08.bOps C08.evB F s ≤ total C08.bOps C08.evB F (Solver.optimize C08.bOps sett F s st).2.1 :=
  optimize_never_lowers_rat C08.bOps C08.evB C08.lzB C08.iniB sett F n C08.bOps_pureEval C08.bOps_pureObj hfit
    (fun o ho => provenObj_scoreFaithful n o (hobj o ho)) s st hn

example : ProvenObj 10 (.avoidChanges 0 "TG".toList (.loc ⟨1, 3, 1⟩)) :=
  .avoidChanges _ 1 3 1 (by decide) (by decide) (by decide) (by decide)

end totals

end Dna.C09
