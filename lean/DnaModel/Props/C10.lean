/-
C10 — built-in specifications evaluate to their documented meaning.
Per-class statements over the rationals; where the implementation's algorithm and the documented
definition nearly coincide the theorem is short and the weight is on the correspondence + the
independent oracle (harness/oracle_doc.py).
-/
import DnaModel.Model.Builtin
import DnaModel.Props.C11
import DnaModel.Props.C19
import Mathlib.Tactic.NormNum.Basic
import Mathlib.Algebra.Order.Ring.Rat
set_option linter.unusedVariables false
set_option linter.unusedSimpArgs false
namespace Dna.C10
open Dna BSpec

/-- `passes` of a built-in evaluation over the rationals: the score is non-negative -/
def passesQ (e : BEval Rat) : Prop := 0 ≤ e.score

theorem ofInt_neg_nonneg_iff (n : Nat) : (0 : Rat) ≤ ((-(n : Int) : Int) : Rat) ↔ n = 0 := by
  constructor
  · intro h
    have : (0 : Int) ≤ -(n : Int) := by exact_mod_cast h
    omega
  · rintro rfl; simp

/-! ### AvoidPattern: score = -(number of occurrences), passes iff there is none -/

theorem avoidPattern_eval (pat : Pattern) (loc : Loc) (s : Seq) :
    evaluate (K := Rat) (.avoidPattern pat loc) s =
      (pat.findMatches s loc).map (fun ms => ⟨((-(ms.length : Int) : Int) : Rat), some ms⟩) := rfl

theorem avoidPattern_passes_iff (pat : Pattern) (loc : Loc) (s : Seq) (e : BEval Rat)
    (h : evaluate (.avoidPattern pat loc) s = some e) :
    passesQ e ↔ pat.findMatches s loc = some [] := by
  rw [avoidPattern_eval] at h
  cases hm : pat.findMatches s loc with
  | none => rw [hm] at h; simp at h
  | some ms =>
    rw [hm] at h
    simp only [Option.map_some, Option.some.injEq] at h
    rw [← h]
    simp only [passesQ, Option.some.injEq]
    rw [ofInt_neg_nonneg_iff]
    exact List.length_eq_zero_iff

/-- breach locations of AvoidPattern are the occurrences themselves -/
theorem avoidPattern_locations (pat : Pattern) (loc : Loc) (s : Seq) (e : BEval Rat)
    (h : evaluate (.avoidPattern pat loc) s = some e) : e.locs = pat.findMatches s loc := by
  rw [avoidPattern_eval] at h
  cases hm : pat.findMatches s loc with
  | none => rw [hm] at h; simp at h
  | some ms => rw [hm] at h; simp at h; rw [← h]

/-! ### EnforcePatternOccurence: distance to the wanted count -/

theorem occurence_eval (pat : Pattern) (occ : Int) (loc : Loc) (s : Seq) :
    evaluate (K := Rat) (.patternOccurence pat occ loc) s =
      (pat.findMatches s loc).map (fun ms =>
        ⟨NumK.neg (NumK.abs (((ms.length : Int) - occ : Int) : Rat)), some [loc]⟩) := rfl

/-! ### EnforceChoice: membership in the list -/

theorem enforceChoice_passes_iff (choices : List Seq) (loc : Loc) (s : Seq) (e : BEval Rat) (sub : Seq)
    (hsub : loc.extract s = some sub)
    (h : evaluate (.enforceChoice choices loc) s = some e) :
    passesQ e ↔ sub ∈ choices := by
  simp only [evaluate, hsub, Option.map_some, Option.some.injEq] at h
  rw [← h]
  by_cases hc : choices.contains sub = true
  · rw [if_pos hc]
    simp only [passesQ, NumK.ofInt]
    constructor
    · intro _; simpa using hc
    · intro _; norm_num
  · rw [if_neg hc]
    simp only [passesQ, NumK.ofInt]
    constructor
    · intro h0; exact absurd h0 (by norm_num)
    · intro hm; exact absurd (by simpa using hm) hc

theorem enforceChoice_fail_location (choices : List Seq) (loc : Loc) (s : Seq) (e : BEval Rat) (sub : Seq)
    (hsub : loc.extract s = some sub) (h : evaluate (.enforceChoice choices loc) s = some e)
    (hf : ¬ passesQ e) : e.locs = some [loc] := by
  simp only [evaluate, hsub, Option.map_some, Option.some.injEq] at h
  rw [← h] at hf ⊢
  by_cases hc : choices.contains sub = true
  · rw [if_pos hc] at hf
    exact absurd (by simp only [passesQ, NumK.ofInt]; norm_num) hf
  · rw [if_neg hc]

/-! ### SequenceLengthBounds -/

theorem lengthBounds_passes_iff (minLen : Int) (maxLen : Option Int) (s : Seq) (e : BEval Rat)
    (h : evaluate (.lengthBounds minLen maxLen) s = some e) :
    passesQ e ↔ (minLen ≤ (s.length : Int) ∧ ∀ m, maxLen = some m → (s.length : Int) ≤ m) := by
  simp only [evaluate, Option.some.injEq] at h
  rw [← h]
  simp only [passesQ]
  cases maxLen with
  | none =>
    by_cases hl : (s.length : Int) ≥ minLen
    · simp [hl, NumK.ofInt]
    · simp only [hl, decide_false, Bool.false_eq_true, if_false, NumK.ofInt]
      constructor
      · intro h0; exact absurd h0 (by norm_num)
      · rintro ⟨h1, _⟩; exact h1.elim
  | some m =>
    by_cases hl : minLen ≤ (s.length : Int) ∧ (s.length : Int) ≤ m
    · simp [hl, NumK.ofInt]
    · simp only [hl, decide_false, Bool.false_eq_true, if_false, NumK.ofInt]
      constructor
      · intro h0; exact absurd h0 (by norm_num)
      · rintro ⟨h1, h2⟩; exact absurd ⟨h1, h2 m rfl⟩ hl

/-! ### AvoidChanges: allowance minus the number of edited positions (location form) -/

theorem countTrue (d : List Bool) :
    ((List.range d.length).filter (fun i => d[i]? == some true)).length = (d.filter id).length := by
  induction d with
  | nil => simp
  | cons b bs ih =>
    have hf : ((fun i => (b :: bs)[i]? == some true) ∘ Nat.succ) = (fun i => bs[i]? == some true) := by
      funext i; simp
    simp only [List.length_cons, List.range_succ_eq_map, List.filter_cons, List.getElem?_cons_zero, List.filter_map,
      List.length_map, hf]
    cases b
    · simpa using ih
    · simpa using ih

theorem avoidChanges_score (maxEdits : Rat) (target : Seq) (l : Loc) (s sub : Seq) (e : BEval Rat)
    (hsub : l.extract s = some sub) (hlen : sub.length = target.length)
    (h : evaluate (.avoidChanges maxEdits target (.loc l)) s = some e) :
    e.score = maxEdits - ((diffCount sub target : Nat) : Int) := by
  simp only [evaluate, scopeExtract, hsub] at h
  have : (sub.length != target.length) = false := by simp [hlen]
  simp only [this, Bool.false_eq_true, if_false, Option.some.injEq] at h
  rw [← h]
  simp only [NumK.sub, NumK.ofInt, diffCount, countTrue]

end Dna.C10
