/-
C11 — pattern search finds exactly the occurrences, on the requested strands.
Theorems about Model/Pattern.lean and the generated IUPAC / regex-class tables.
Trusted: `re.search` returns the least index at which the fixed-length pattern matches
(`Pattern.firstMatch`); exercised by the correspondence check.
-/
import DnaModel.Model.Pattern
import DnaModel.Props.C19
set_option linter.unusedVariables false
set_option linter.unusedSimpArgs false

namespace Dna.C11
open Dna Pattern


def atgc : List Char := ['A','T','G','C']
def patternAlphabet : List Char := Gen.nucToRegexClass.map (·.1)

/-- on ATGC sequences the regular-expression classes are exactly the IUPAC sets -/
theorem regex_class_eq_iupac : ∀ c ∈ patternAlphabet, ∀ x ∈ atgc,
    (classOf c).contains x = ((lookup c Gen.iupac).getD []).contains x := by decide

/-- complementing both the pattern letter and the base preserves membership -/
theorem class_comp : ∀ c ∈ patternAlphabet, ∀ x ∈ atgc,
    (classOf (compChar c)).contains (compChar x) = (classOf c).contains x := by decide

theorem comp_closed_pattern : ∀ c ∈ patternAlphabet, compChar c ∈ patternAlphabet := by decide
theorem comp_closed_atgc : ∀ x ∈ atgc, compChar x ∈ atgc := by decide

/-- a window of exactly the pattern's length matches -/
def windowMatch (q w : Seq) : Prop := q.length = w.length ∧ prefixMatch q w = true

/-- element-wise reading of `prefixMatch` on equal lengths -/
def AllMatch : Seq → Seq → Prop
  | [], [] => True
  | p :: ps, c :: cs => (classOf p).contains c = true ∧ AllMatch ps cs
  | _, _ => False

theorem windowMatch_iff (q w : Seq) : windowMatch q w ↔ AllMatch q w := by
  induction q generalizing w with
  | nil => cases w <;> simp [windowMatch, AllMatch, prefixMatch]
  | cons p ps ih =>
    cases w with
    | nil => simp [windowMatch, AllMatch, prefixMatch]
    | cons c cs =>
      simp only [windowMatch, AllMatch, prefixMatch, List.length_cons, Bool.and_eq_true] at ih ⊢
      rw [← ih cs]
      constructor
      · rintro ⟨h1, h2, h3⟩; exact ⟨h2, by omega, h3⟩
      · rintro ⟨h1, h2, h3⟩; exact ⟨by omega, h1, h3⟩

theorem allMatch_append (q1 q2 w1 w2 : Seq) (h1 : AllMatch q1 w1) (h2 : AllMatch q2 w2) :
    AllMatch (q1 ++ q2) (w1 ++ w2) := by
  induction q1 generalizing w1 with
  | nil => cases w1 <;> simp_all [AllMatch]
  | cons p ps ih =>
    cases w1 with
    | nil => simp [AllMatch] at h1
    | cons c cs => simp only [AllMatch, List.cons_append] at h1 ⊢; exact ⟨h1.1, ih cs h1.2⟩

theorem allMatch_rc (q w : Seq) (hq : ∀ c ∈ q, c ∈ patternAlphabet) (hw : ∀ x ∈ w, x ∈ atgc)
    (h : AllMatch q w) : AllMatch (rc q) (rc w) := by
  induction q generalizing w with
  | nil => cases w <;> simp_all [AllMatch, rc]
  | cons p ps ih =>
    cases w with
    | nil => simp [AllMatch] at h
    | cons c cs =>
      simp only [AllMatch] at h
      have ih' := ih cs (fun c hc => hq c (by simp [hc])) (fun x hx => hw x (by simp [hx])) h.2
      simp only [rc, List.map_cons, List.reverse_cons] at ih' ⊢
      apply allMatch_append _ _ _ _ ih'
      simp only [AllMatch, and_true]
      rw [class_comp p (hq p (by simp)) c (hw c (by simp))]
      exact h.1

/-- matching the pattern on the reverse strand = matching its reverse complement on the forward strand -/
theorem windowMatch_rc (q w : Seq) (hq : ∀ c ∈ q, c ∈ patternAlphabet) (hw : ∀ x ∈ w, x ∈ atgc) :
    windowMatch q (rc w) ↔ windowMatch (rc q) w := by
  have rcrc_w : rc (rc w) = w := by
    simp only [rc, List.map_reverse, List.reverse_reverse, List.map_map]
    conv => rhs; rw [← List.map_id w]
    apply List.map_congr_left
    intro c hc
    have : ∀ x ∈ atgc, compChar (compChar x) = x := by decide
    exact this c (hw c hc)
  have rcrc_q : rc (rc q) = q := by
    simp only [rc, List.map_reverse, List.reverse_reverse, List.map_map]
    conv => rhs; rw [← List.map_id q]
    apply List.map_congr_left
    intro c hc
    have : ∀ x ∈ patternAlphabet, compChar (compChar x) = x := by decide
    exact this c (hq c hc)
  rw [windowMatch_iff, windowMatch_iff]
  constructor
  · intro h
    have := allMatch_rc q (rc w) hq (by
      intro x hx
      simp only [rc, List.mem_reverse, List.mem_map] at hx
      obtain ⟨y, hy, rfl⟩ := hx
      exact comp_closed_atgc y (hw y hy)) h
    rwa [rcrc_w] at this
  · intro h
    have := allMatch_rc (rc q) w (by
      intro x hx
      simp only [rc, List.mem_reverse, List.mem_map] at hx
      obtain ⟨y, hy, rfl⟩ := hx
      exact comp_closed_pattern y (hq y hy)) hw h
    rwa [rcrc_q] at this

/-- a palindromic pattern matches a window iff it matches the window's reverse complement:
    the forward and reverse occurrences coincide, so reporting them once loses nothing -/
theorem palindrome_once (q w : Seq) (hq : ∀ c ∈ q, c ∈ patternAlphabet) (hw : ∀ x ∈ w, x ∈ atgc)
    (hp : rc q = q) : windowMatch q (rc w) ↔ windowMatch q w := by
  rw [windowMatch_rc q w hq hw, hp]



/-- all start positions at which the pattern matches, in increasing order (declarative) -/
def allMatches (p : Pattern) : Seq → List Nat
  | [] => if p.matchesAt [] then [0] else []
  | c :: cs => (if p.matchesAt (c :: cs) then [0] else []) ++ (allMatches p cs).map (· + 1)

theorem mem_allMatches (p : Pattern) (s : Seq) (i : Nat) :
    i ∈ allMatches p s ↔ i ≤ s.length ∧ p.matchesAt (s.drop i) = true := by
  induction s generalizing i with
  | nil =>
    simp only [allMatches]
    split <;> rename_i h
    · simp only [List.mem_singleton, List.length_nil, Nat.le_zero, List.drop_nil]
      constructor
      · rintro rfl; exact ⟨rfl, h⟩
      · rintro ⟨h1, _⟩; exact h1
    · simp only [List.not_mem_nil, List.length_nil, Nat.le_zero, List.drop_nil, false_iff, not_and]
      intro _; exact h
  | cons c cs ih =>
    simp only [allMatches, List.mem_append, List.mem_map]
    cases i with
    | zero =>
      simp only [List.drop_zero, Nat.zero_le, true_and]
      constructor
      · rintro (h | ⟨a, _, ha⟩)
        · split at h <;> simp_all
        · omega
      · intro h; left; simp [h]
    | succ k =>
      simp only [List.drop_succ_cons, List.length_cons]
      constructor
      · rintro (h | ⟨a, ha, hk⟩)
        · split at h <;> simp at h
        · have : a = k := by omega
          subst this
          have := (ih a).1 ha
          exact ⟨by omega, this.2⟩
      · rintro ⟨h1, h2⟩
        right; exact ⟨k, (ih k).2 ⟨by omega, h2⟩, rfl⟩

theorem allMatches_sorted (p : Pattern) (s : Seq) : (allMatches p s).Pairwise (· < ·) := by
  induction s with
  | nil => simp only [allMatches]; split <;> simp
  | cons c cs ih =>
    simp only [allMatches]
    rw [List.pairwise_append]
    refine ⟨by split <;> simp, ?_, ?_⟩
    · rw [List.pairwise_map]; exact ih.imp (by intro a b h; omega)
    · intro a ha b hb
      split at ha <;> simp at ha
      simp only [List.mem_map] at hb
      obtain ⟨x, _, rfl⟩ := hb
      omega

theorem firstMatch_none (p : Pattern) (s : Seq) (h : p.firstMatch s = none) : allMatches p s = [] := by
  induction s with
  | nil => simp only [firstMatch] at h; split at h <;> simp_all [allMatches]
  | cons c cs ih =>
    simp only [firstMatch] at h
    split at h
    · simp at h
    · rename_i hm
      simp only [Option.map_eq_none_iff] at h
      simp [allMatches, hm, ih h]

theorem firstMatch_some (p : Pattern) (hne : p.matchesAt [] = false) (s : Seq) (st : Nat) (h : p.firstMatch s = some st) :
    allMatches p s = st :: (allMatches p (s.drop (st + 1))).map (· + (st + 1)) := by
  induction s generalizing st with
  | nil =>
    simp only [firstMatch, hne] at h
    simp at h
  | cons c cs ih =>
    simp only [firstMatch] at h
    split at h
    · rename_i hm
      simp only [Option.some.injEq] at h; subst h
      simp [allMatches, hm]
    · rename_i hm
      simp only [Option.map_eq_some_iff] at h
      obtain ⟨k, hk, rfl⟩ := h
      have := ih k hk
      simp only [allMatches, hm, if_false, List.nil_append, Bool.false_eq_true]
      rw [this]
      simp only [List.map_cons, List.map_map, List.drop_succ_cons]
      congr 1

theorem scan_eq (p : Pattern) (hne : p.matchesAt [] = false) (fuel : Nat) (s : Seq) (pos : Nat) (hf : s.length < fuel) :
    p.scan fuel s pos = (allMatches p s).map (· + pos) := by
  induction fuel generalizing s pos with
  | zero => omega
  | succ f ih =>
    simp only [scan]
    cases hfm : p.firstMatch s with
    | none => simp [firstMatch_none p s hfm]
    | some st =>
      simp only
      rw [firstMatch_some p hne s st hfm]
      have hst : st < s.length := by
        have : st ∈ allMatches p s := by rw [firstMatch_some p hne s st hfm]; simp
        have h2 := (mem_allMatches p s st).1 this
        rcases Nat.lt_or_ge st s.length with h3 | h3
        · exact h3
        · have : s.drop st = [] := List.drop_eq_nil_of_le h3
          rw [this, hne] at h2; simp at h2
      rw [ih (s.drop (st + 1)) (pos + st + 1) (by simp only [List.length_drop]; omega)]
      simp only [List.map_cons, List.map_map]
      congr 1
      apply List.map_congr_left
      intro a _
      simp only [Function.comp]; omega

/-- the overlap-aware scanning loop returns, in increasing order, exactly the positions at
    which the pattern matches (overlapping occurrences included) -/
theorem scan_eq_all (p : Pattern) (hne : p.matchesAt [] = false) (s : Seq) : p.findInString s = allMatches p s := by
  simp only [findInString]
  rw [scan_eq p hne _ s 0 (by omega)]
  simp

theorem findInString_spec (p : Pattern) (hne : p.matchesAt [] = false) (s : Seq) (i : Nat) :
    i ∈ p.findInString s ↔ i ≤ s.length ∧ p.matchesAt (s.drop i) = true := by
  rw [scan_eq_all p hne, mem_allMatches]

/-- patterns of size >= 1 never match the empty string (the loop then terminates) -/
theorem matchesAt_nil_dna (q : Seq) (hq : q ≠ []) : (Pattern.dna q).matchesAt [] = false := by
  cases q with
  | nil => exact absurd rfl hq
  | cons c cs => rfl

theorem matchesAt_nil_repeated (n k : Nat) (hk : 0 < k) : (Pattern.repeated n k).matchesAt [] = false := by
  simp only [matchesAt, repeatMatch, List.take_nil, List.length_nil]
  have : ((0 : Nat) == k) = false := by simp; omega
  simp [this]



theorem rc_win (t : Seq) (i k : Nat) (h : i + k ≤ t.length) :
    win (rc t) i k = rc (win t (t.length - i - k) k) := by
  simp only [win, rc]
  rw [List.drop_reverse, List.take_reverse]
  congr 1
  simp only [List.length_map, List.length_take, List.map_take, List.map_drop]
  rw [List.drop_take]
  congr 1
  · omega
  · congr 1; omega

theorem prefixMatch_iff (q t : Seq) :
    prefixMatch q t = true ↔ q.length ≤ t.length ∧ prefixMatch q (t.take q.length) = true := by
  induction q generalizing t with
  | nil => simp [prefixMatch]
  | cons p ps ih =>
    cases t with
    | nil => simp [prefixMatch]
    | cons c cs =>
      simp only [prefixMatch, List.length_cons, List.take_succ_cons, Bool.and_eq_true]
      rw [ih cs]
      constructor
      · rintro ⟨h1, h2, h3⟩; exact ⟨by omega, h1, h3⟩
      · rintro ⟨h1, h2, h3⟩; exact ⟨h2, by omega, h3⟩

theorem pySlice_nat {α : Type} (s : List α) (a b : Nat) (hab : a ≤ b) (hb : b ≤ s.length) :
    pySlice s (a : Int) (b : Int) = (s.drop a).take (b - a) := by
  simp only [pySlice, pyIndex]
  have h1 : ¬ ((a : Int) < 0) := by omega
  have h2 : ¬ ((b : Int) < 0) := by omega
  have h3 : ¬ ((a : Int) > (s.length : Int)) := by omega
  have h4 : ¬ ((b : Int) > (s.length : Int)) := by omega
  simp [h1, h2, h3, h4]

/-- position `i` of the location's sub-sequence holds a match iff the window `[a+i, a+i+k)`
    of the full sequence lies inside the location and matches -/
theorem sub_match_iff (q : Seq) (s : Seq) (a b i : Nat) (hab : a ≤ b) (hb : b ≤ s.length) :
    (i ≤ ((s.drop a).take (b - a)).length ∧ prefixMatch q (((s.drop a).take (b - a)).drop i) = true) ↔
    (a + i + q.length ≤ b ∧ windowMatch q (win s (a + i) q.length)) := by
  rw [prefixMatch_iff]
  have hlen : (((s.drop a).take (b - a)).drop i).length = b - a - i := by
    simp only [List.length_drop, List.length_take]; omega
  have htake : a + i + q.length ≤ b →
      (((s.drop a).take (b - a)).drop i).take q.length = win s (a + i) q.length := by
    intro h
    simp only [win]
    rw [List.drop_take, List.take_take, List.drop_drop]
    congr 1
    omega
  simp only [hlen, windowMatch, List.length_take, List.length_drop]
  constructor
  · rintro ⟨h1, h2, h3⟩
    have : a + i + q.length ≤ b := by omega
    rw [htake this] at h3
    refine ⟨this, ?_, h3⟩
    simp only [win, List.length_take, List.length_drop]; omega
  · rintro ⟨h1, h2, h3⟩
    rw [htake h1]
    exact ⟨by omega, by omega, h3⟩

/-- **forward strand**: the matches reported for a location are exactly the windows lying
    entirely inside the location at which the pattern matches, each labelled `+1` -/
theorem findForward_spec (q : Seq) (hq : q ≠ []) (s : Seq) (a b : Nat) (st : Int)
    (hab : a ≤ b) (hb : b ≤ s.length) (l : Loc) :
    l ∈ (Pattern.dna q).findForward s ⟨a, b, st⟩ ↔
      ∃ j : Nat, a ≤ j ∧ j + q.length ≤ b ∧ windowMatch q (win s j q.length) ∧
        l = ⟨(j : Int), (j : Int) + q.length, 1⟩ := by
  simp only [findForward, List.mem_map, pySlice_nat s a b hab hb, Pattern.size]
  constructor
  · rintro ⟨i, hi, rfl⟩
    rw [findInString_spec _ (matchesAt_nil_dna q hq)] at hi
    have := (sub_match_iff q s a b i hab hb).1 hi
    refine ⟨a + i, by omega, by omega, this.2, ?_⟩
    simp only [Loc.mk.injEq, and_true]
    constructor <;> omega
  · rintro ⟨j, h1, h2, h3, rfl⟩
    refine ⟨j - a, ?_, ?_⟩
    · rw [findInString_spec _ (matchesAt_nil_dna q hq)]
      apply (sub_match_iff q s a b (j - a) hab hb).2
      have : a + (j - a) = j := by omega
      rw [this]; exact ⟨h2, h3⟩
    · simp only [Loc.mk.injEq, and_true]
      constructor <;> omega

/-- **reverse strand**: the matches are exactly the windows inside the location whose
    reverse complement matches the pattern, each labelled `-1` -/
theorem findReverse_spec (q : Seq) (hq : q ≠ []) (s : Seq) (a b : Nat) (st : Int)
    (hab : a ≤ b) (hb : b ≤ s.length)
    (hrc : reverseComplement ((s.drop a).take (b - a)) = some (rc ((s.drop a).take (b - a)))) (l : Loc) :
    (∃ ms, (Pattern.dna q).findReverse s ⟨a, b, st⟩ = some ms ∧ l ∈ ms) ↔
      ∃ j : Nat, a ≤ j ∧ j + q.length ≤ b ∧ windowMatch q (rc (win s j q.length)) ∧
        l = ⟨(j : Int), (j : Int) + q.length, -1⟩ := by
  simp only [findReverse, pySlice_nat s a b hab hb, hrc, Option.some.injEq, exists_eq_left', List.mem_map,
    Pattern.size]
  have hsublen : ((s.drop a).take (b - a)).length = b - a := by
    simp only [List.length_take, List.length_drop]; omega
  have key : ∀ i : Nat, (i ≤ (rc ((s.drop a).take (b - a))).length ∧
        prefixMatch q ((rc ((s.drop a).take (b - a))).drop i) = true) ↔
      (i + q.length ≤ b - a ∧ windowMatch q (rc (win s (b - i - q.length) q.length))) := by
    intro i
    rw [prefixMatch_iff]
    have hl : (rc ((s.drop a).take (b - a))).length = b - a := by
      simp only [rc, List.length_reverse, List.length_map]; exact hsublen
    simp only [List.length_drop, hl]
    constructor
    · rintro ⟨h1, h2, h3⟩
      have hik : i + q.length ≤ b - a := by omega
      refine ⟨hik, ?_⟩
      have e1 : ((rc ((s.drop a).take (b - a))).drop i).take q.length = win (rc ((s.drop a).take (b - a))) i q.length := rfl
      rw [e1, rc_win _ i q.length (by rw [hsublen]; exact hik), hsublen] at h3
      have e2 : win ((s.drop a).take (b - a)) (b - a - i - q.length) q.length = win s (b - i - q.length) q.length := by
        simp only [win]
        rw [List.drop_take, List.take_take, List.drop_drop]
        congr 1
        · omega
        · congr 1; omega
      rw [e2] at h3
      refine ⟨?_, h3⟩
      simp only [rc, win, List.length_reverse, List.length_map, List.length_take, List.length_drop]; omega
    · rintro ⟨h1, h2, h3⟩
      refine ⟨by omega, by omega, ?_⟩
      have e1 : ((rc ((s.drop a).take (b - a))).drop i).take q.length = win (rc ((s.drop a).take (b - a))) i q.length := rfl
      rw [e1, rc_win _ i q.length (by rw [hsublen]; exact h1), hsublen]
      have e2 : win ((s.drop a).take (b - a)) (b - a - i - q.length) q.length = win s (b - i - q.length) q.length := by
        simp only [win]
        rw [List.drop_take, List.take_take, List.drop_drop]
        congr 1
        · omega
        · congr 1; omega
      rw [e2]; exact h3
  constructor
  · rintro ⟨i, hi, rfl⟩
    rw [findInString_spec _ (matchesAt_nil_dna q hq)] at hi
    have := (key i).1 hi
    refine ⟨b - i - q.length, by omega, by omega, this.2, ?_⟩
    simp only [Loc.mk.injEq, and_true]
    constructor <;> omega
  · rintro ⟨j, h1, h2, h3, rfl⟩
    refine ⟨b - j - q.length, ?_, ?_⟩
    · rw [findInString_spec _ (matchesAt_nil_dna q hq)]
      apply (key (b - j - q.length)).2
      have : b - (b - j - q.length) - q.length = j := by omega
      rw [this]; exact ⟨by omega, h3⟩
    · simp only [Loc.mk.injEq, and_true]
      constructor <;> omega


/-! ### strand dispatch and the palindrome rule -/

theorem findMatches_plus (p : Pattern) (s : Seq) (a b : Int) :
    p.findMatches s ⟨a, b, 1⟩ = some (p.findForward s ⟨a, b, 1⟩) := by
  simp [findMatches]

theorem findMatches_minus (p : Pattern) (s : Seq) (a b : Int) (hp : p.isPalindromic = false) :
    p.findMatches s ⟨a, b, -1⟩ = p.findReverse s ⟨a, b, -1⟩ := by
  simp [findMatches, hp]

theorem findMatches_minus_palindromic (p : Pattern) (s : Seq) (a b : Int) (hp : p.isPalindromic = true) :
    p.findMatches s ⟨a, b, -1⟩ = some (p.findForward s ⟨a, b, -1⟩) := by
  simp [findMatches, hp]

theorem findMatches_both (p : Pattern) (s : Seq) (a b : Int) (hp : p.isPalindromic = false) :
    p.findMatches s ⟨a, b, 0⟩ =
      (p.findReverse s ⟨a, b, 0⟩).map (fun r => p.findForward s ⟨a, b, 0⟩ ++ r) := by
  simp [findMatches, hp]

theorem findMatches_both_palindromic (p : Pattern) (s : Seq) (a b : Int) (hp : p.isPalindromic = true) :
    p.findMatches s ⟨a, b, 0⟩ = some (p.findForward s ⟨a, b, 0⟩) := by
  simp [findMatches, hp]

/-- the constructor's palindromy flag is `rc q = q` (on the pattern alphabet) -/
theorem isPalindromic_iff (q : Seq) (hq : ∀ c ∈ q, C19.inCsv c = true) :
    (Pattern.dna q).isPalindromic = true ↔ rc q = q := by
  simp only [isPalindromic, C19.reverseComplement_eq_rc q hq]
  simp

theorem patternAlphabet_in_csv : ∀ c ∈ patternAlphabet, C19.inCsv c = true := by decide

/-! ### non-vacuity -/
example : ∀ c ∈ "GANTC".toList, c ∈ patternAlphabet := by decide
example : rc "GANTC".toList = "GANTC".toList := by decide
example : windowMatch "GANTC".toList "GATTC".toList := ⟨by decide, by decide⟩
#guard (Pattern.dna "GANTC".toList).findMatches "AAGACTCAGAGTCTT".toList ⟨0, 15, 0⟩
    = some [⟨2, 7, 1⟩, ⟨8, 13, 1⟩]
#guard (Pattern.dna "AT".toList).findMatches "AATATT".toList ⟨1, 5, -1⟩ = some [⟨1, 3, 1⟩, ⟨3, 5, 1⟩]
#guard (Pattern.dna "AAC".toList).findMatches "GTTAAC".toList ⟨0, 6, 0⟩ = some [⟨3, 6, 1⟩, ⟨0, 3, -1⟩]

end Dna.C11
