/-
C12 — a failed or interrupted solve leaves a usable, restriction-respecting problem.

For ARBITRARY specifications (they may raise at any evaluation call index, localize wrongly, lie in
their heuristics) and every outcome of every solver entry point — normal return, NoSolutionError,
or an exception thrown from a specification — the sequence left in the problem satisfies every
predicate `Q` that held at the start and is closed under the mutation space's candidate
generators (`*_inv`).  With `Q := InSp` (right length and every hard nucleotide restriction,
`closed_inSp`) this is the property.  The recorded original sequence and the constraint lists
live in the `Frame`, which no solver function returns: they are unchanged by construction.
-/
import DnaModel.Model.Solver
import DnaModel.Props.C15
import DnaModel.Props.C01
set_option linter.unusedVariables false
set_option linter.unusedSimpArgs false
set_option linter.unusedSectionVars false
namespace Dna.C12
open Dna Solver C15
variable {σ K : Type} [BEq σ] [Score K]
/-- `Q` is closed under the candidate generators of the space: enumeration and random mutation -/
def Closed (Q : Seq → Prop) (sp : Space) : Prop :=
  (∀ s vs, Q s → sp.allVariants s = .ok vs → ∀ v ∈ vs, Q v) ∧
  (∀ n s t r t', Q s → sp.applyRandomMutations n s t = .ok (r, t') → Q r)

theorem exhaustiveLoop_inv (Q : Seq → Prop) (ops : SpecOps σ K) (F : Frame σ) (focus) (vs : List Seq) (cur : Seq)
    (st : St σ K) (hvs : ∀ v ∈ vs, Q v) (hc : Q cur) : Q (exhaustiveLoop ops F focus vs cur st).2.1 := by
  induction vs generalizing cur st with
  | nil => exact hc
  | cons v vs ih =>
    simp only [exhaustiveLoop]
    have hv := hvs v (by simp)
    split
    · exact hv
    · exact hv
    · exact ih v _ (fun w hw => hvs w (by simp [hw])) hv

/-- whatever happens (success, NoSolutionError, exception from a specification), the exhaustive
    constraint search leaves the start sequence or a member of the enumeration -/
theorem resolveExhaustive_inv (Q : Seq → Prop) (ops : SpecOps σ K) (F : Frame σ) (s : Seq) (st : St σ K)
    (hcl : Closed Q F.space) (hs : Q s) : Q (resolveExhaustive ops F s st).2.1 := by
  simp only [resolveExhaustive]
  split
  · exact hs
  · rename_i vs hvs
    have hloop := exhaustiveLoop_inv Q ops F (getFocus st F) vs s st (hcl.1 s vs hs hvs) hs
    split
    · rename_i e cur st' h; rw [h] at hloop; exact hloop
    · rename_i cur st' h; rw [h] at hloop; exact hloop
    · exact hs

theorem mutate_inv (Q : Seq → Prop) (sett : Settings) (F : Frame σ) (s s' : Seq) (st st' : St σ K)
    (hcl : Closed Q F.space) (hs : Q s) (h : mutate sett F s st = (.ok s', st')) : Q s' := by
  simp only [mutate] at h
  split at h
  · simp at h
  · rename_i r t' hm
    simp only [Prod.mk.injEq, Except.ok.injEq] at h
    rw [← h.1]
    exact hcl.2 _ _ _ _ _ hs hm

theorem randomLoop_inv (Q : Seq → Prop) (ops : SpecOps σ K) (sett : Settings) (F : Frame σ) (fuel : Nat) (evs) (score : K)
    (s : Seq) (st : St σ K) (hcl : Closed Q F.space) (hs : Q s) :
    Q (randomLoop ops sett F fuel evs score s st).2.1 := by
  induction fuel generalizing evs score s st with
  | zero => exact hs
  | succ fuel ih =>
    simp only [randomLoop]
    split
    · exact hs
    · split
      · exact hs
      · rename_i s' st1 hm
        have hs' := mutate_inv Q sett F s s' st st1 hcl hs hm
        split
        · exact hs'
        · split
          · exact ih _ _ _ _ hs'
          · exact ih _ _ _ _ hs

theorem singleLoop_inv (Q : Seq → Prop) (ops : SpecOps σ K) (sett : Settings) (F : Frame σ) (f : σ) (others : List σ)
    (fuel : Nat) (score : K) (s : Seq) (st : St σ K) (hcl : Closed Q F.space) (hs : Q s) :
    Q (singleLoop ops sett F f others fuel score s st).2.1 := by
  induction fuel generalizing score s st with
  | zero => exact hs
  | succ fuel ih =>
    simp only [singleLoop]
    split
    · exact hs
    · rename_i s' st1 hm
      have hs' := mutate_inv Q sett F s s' st st1 hcl hs hm
      split
      · exact hs'
      · split
        · split
          · exact hs'
          · split
            · exact hs'
            · exact ih _ _ _ hs'
          · exact ih _ _ _ hs
        · exact ih _ _ _ hs

theorem resolveLocally_inv (Q : Seq → Prop) (ops : SpecOps σ K) (sett : Settings) (F : Frame σ) (s : Seq) (st : St σ K)
    (hcl : Closed Q F.space) (hs : Q s) : Q (resolveLocally ops sett F s st).2.1 := by
  simp only [resolveLocally]
  split
  · exact resolveExhaustive_inv Q ops F s st hcl hs
  · simp only [resolveRandom]
    split
    · split
      · exact hs
      · exact singleLoop_inv Q ops sett F _ _ _ _ s st hcl hs
    · split
      · exact hs
      · exact randomLoop_inv Q ops sett F _ _ _ s _ hcl hs


theorem optExhaustiveLoop_inv (Q : Seq → Prop) (ops : SpecOps σ K) (F : Frame σ) (bp : Option K) (vs : List Seq)
    (bestScore : K) (bestSeq cur : Seq) (st : St σ K) (hvs : ∀ v ∈ vs, Q v) (hb : Q bestSeq) (hc : Q cur) :
    Q (optExhaustiveLoop ops F bp vs bestScore bestSeq cur st).2.1 ∧
    (∀ b, (optExhaustiveLoop ops F bp vs bestScore bestSeq cur st).1 = .ok b → Q b) := by
  induction vs generalizing bestScore bestSeq cur st with
  | nil => exact ⟨hc, fun b h => by simp only [optExhaustiveLoop, Except.ok.injEq] at h; rw [← h]; exact hb⟩
  | cons v vs ih =>
    have hv := hvs v (by simp)
    have hvs' : ∀ w ∈ vs, Q w := fun w hw => hvs w (by simp [hw])
    simp only [optExhaustiveLoop]
    split
    · exact ⟨hv, fun b h => by simp at h⟩
    · exact ih _ _ _ _ hvs' hb hv
    · split
      · exact ⟨hv, fun b h => by simp at h⟩
      · split
        · split
          · exact ⟨hv, fun b h => by simp only [Except.ok.injEq] at h; rw [← h]; exact hv⟩
          · exact ih _ _ _ _ hvs' hv hv
        · exact ih _ _ _ _ hvs' hb hv

theorem optimizeExhaustive_inv (Q : Seq → Prop) (ops : SpecOps σ K) (F : Frame σ) (s : Seq) (st : St σ K)
    (hcl : Closed Q F.space) (hs : Q s) : Q (optimizeExhaustive ops F s st).2.1 := by
  simp only [optimizeExhaustive]
  cases h1 : allConstraintsPass ops F s st with
  | mk r1 st1 =>
    cases r1 with
    | error e => exact hs
    | ok b =>
      cases b with
      | false => simp only; split <;> exact hs
      | true =>
        simp only
        cases h2 : objectiveScoresSum ops F s st1 with
        | mk r2 st2 =>
          cases r2 with
          | error e => exact hs
          | ok cur =>
            simp only
            cases h3 : F.space.allVariants s with
            | error e => exact hs
            | ok vs =>
              simp only
              have key := optExhaustiveLoop_inv Q ops F (bestSum ops F.objectives) vs cur s s st2
                (hcl.1 s vs hs h3) hs hs
              cases h4 : optExhaustiveLoop ops F (bestSum ops F.objectives) vs cur s s st2 with
              | mk r4 rest =>
                obtain ⟨c4, st4⟩ := rest
                simp only [h4] at key
                cases r4 with
                | error e => exact key.1
                | ok b => exact key.2 b rfl

theorem optRandomLoop_inv (Q : Seq → Prop) (ops : SpecOps σ K) (sett : Settings) (F : Frame σ) (bp : Option K)
    (fuel : Nat) (score : K) (stag : Nat) (s : Seq) (st : St σ K) (hcl : Closed Q F.space) (hs : Q s) :
    Q (optRandomLoop ops sett F bp fuel score stag s st).2.1 := by
  induction fuel generalizing score stag s st with
  | zero => exact hs
  | succ fuel ih =>
    simp only [optRandomLoop]
    split
    · exact hs
    · split
      · exact hs
      · split
        · exact hs
        · rename_i s' st1 hm
          have hs' := mutate_inv Q sett F s s' st st1 hcl hs hm
          split
          · exact hs'
          · split
            · exact hs'
            · split
              · exact ih _ _ _ _ hs'
              · exact ih _ _ _ _ hs
          · exact ih _ _ _ _ hs

theorem optimizeRandom_inv (Q : Seq → Prop) (ops : SpecOps σ K) (sett : Settings) (F : Frame σ) (s : Seq) (st : St σ K)
    (hcl : Closed Q F.space) (hs : Q s) : Q (optimizeRandom ops sett F s st).2.1 := by
  simp only [optimizeRandom]
  split
  · exact hs
  · split <;> exact hs
  · split
    · exact hs
    · exact optRandomLoop_inv Q ops sett F _ _ _ _ s _ hcl hs

/-- hypotheses on the environment of a whole-problem solve: every localization of the space is
    closed for `Q`, heuristics and `_replace_sequence` preserve `Q` -/
structure Env (Q : Seq → Prop) (ops : SpecOps σ K) (F : Frame σ) (replaceSeq : Seq → Seq) : Prop where
  localClosed : ∀ a b : Int, Closed Q (F.space.localized a b)
  heuristicOk : ∀ c h, ops.heuristic c = some h → ∀ view k, Q view.seq → Q (h view k).1
  replaceOk : ∀ t, Q t → Q (replaceSeq t)

theorem newLocal_space (ops : SpecOps σ K) (s : Seq) (cs os : List σ) (sp : Space) (st st' : St σ K) (LF : Frame σ)
    (h : newLocal ops s cs os sp st = (.ok LF, st')) : LF.space = sp := by
  simp only [newLocal] at h
  split at h
  · simp at h
  · split at h
    · simp at h
    · simp only [Prod.mk.injEq, Except.ok.injEq] at h; rw [← h.1]

theorem localSolve_inv (Q : Seq → Prop) (ops : SpecOps σ K) (sett : Settings) (c : σ) (LF : Frame σ) (s : Seq) (st : St σ K)
    (hh : ∀ h, ops.heuristic c = some h → ∀ view k, Q view.seq → Q (h view k).1)
    (hcl : Closed Q LF.space) (hs : Q s) : Q (localSolve ops sett c LF s st).2.1 := by
  simp only [localSolve]
  split
  · rename_i h hhe
    exact hh h hhe _ _ hs
  · exact resolveLocally_inv Q ops sett LF s st hcl hs

theorem tryExtension_inv (Q : Seq → Prop) (ops : SpecOps σ K) (sett : Settings) (rs : Seq → Seq) (F : Frame σ)
    (c : σ) (nl : Option Loc) (loc : Loc) (ext : Int) (isLast : Bool) (s : Seq) (st : St σ K)
    (henv : Env Q ops F rs) (hs : Q s) :
    Q (tryExtension ops sett rs F c nl loc ext isLast s st).2.1 := by
  simp only [tryExtension]
  split
  · split <;> exact hs
  · split
    · exact hs
    · split
      · exact hs
      · split <;> exact hs
      · split
        · exact hs
        · split
          · exact hs
          · split
            · exact hs
            · split
              · exact hs
              · split
                · exact hs
                · rename_i LF st5 hnl
                  have hsp := newLocal_space ops s _ _ _ _ _ LF hnl
                  have key := localSolve_inv Q ops sett c LF s st5 (henv.heuristicOk c)
                    (by rw [hsp]; exact henv.localClosed _ _) hs
                  split
                  · rename_i ls st6 hloc
                    rw [hloc] at key
                    exact henv.replaceOk _ key
                  · split <;> exact hs
                  · exact hs


theorem extensionsLoop_inv (Q : Seq → Prop) (ops : SpecOps σ K) (sett : Settings) (rs : Seq → Seq) (F : Frame σ)
    (c : σ) (nl : Option Loc) (loc : Loc) (lastExt : Option Int) (exts : List Int) (s : Seq) (st : St σ K)
    (henv : Env Q ops F rs) (hs : Q s) :
    Q (extensionsLoop ops sett rs F c nl loc lastExt exts s st).2.1 := by
  induction exts generalizing s st with
  | nil => exact hs
  | cons ext exts ih =>
    simp only [extensionsLoop]
    have key := tryExtension_inv Q ops sett rs F c nl loc ext (lastExt == some ext) s st henv hs
    cases h : tryExtension ops sett rs F c nl loc ext (lastExt == some ext) s st with
    | mk r rest =>
      obtain ⟨s1, st1⟩ := rest
      rw [h] at key
      cases r with
      | error e => exact key
      | ok o => cases o with
        | solved => exact key
        | next => exact ih s1 st1 key

theorem locationsLoop_inv (Q : Seq → Prop) (ops : SpecOps σ K) (sett : Settings) (rs : Seq → Seq) (F : Frame σ)
    (c : σ) (locs : List Loc) (s : Seq) (st : St σ K) (henv : Env Q ops F rs) (hs : Q s) :
    Q (locationsLoop ops sett rs F c locs s st).2.1 := by
  induction locs generalizing s st with
  | nil => exact hs
  | cons loc rest ih =>
    simp only [locationsLoop]
    have key := extensionsLoop_inv Q ops sett rs F c rest.head? loc sett.localExtensions.getLast?
      sett.localExtensions s st henv hs
    cases h : extensionsLoop ops sett rs F c rest.head? loc sett.localExtensions.getLast? sett.localExtensions s st with
    | mk r rest' =>
      obtain ⟨s1, st1⟩ := rest'
      rw [h] at key
      cases r with
      | error e => exact key
      | ok u => exact ih s1 st1 key

theorem resolveConstraint_inv (Q : Seq → Prop) (ops : SpecOps σ K) (sett : Settings) (rs : Seq → Seq) (F : Frame σ)
    (c : σ) (s : Seq) (st : St σ K) (henv : Env Q ops F rs) (hs : Q s) :
    Q (resolveConstraint ops sett rs F c s st).2.1 := by
  simp only [resolveConstraint]
  split
  · exact hs
  · split
    · exact hs
    · split
      · exact hs
      · exact locationsLoop_inv Q ops sett rs F c _ s _ henv hs

theorem resolveEach_inv (Q : Seq → Prop) (ops : SpecOps σ K) (sett : Settings) (rs : Seq → Seq) (F : Frame σ)
    (cs : List σ) (s : Seq) (st : St σ K) (henv : Env Q ops F rs) (hs : Q s) :
    Q (resolveEach ops sett rs F cs s st).2.1 := by
  induction cs generalizing s st with
  | nil => exact hs
  | cons c cs ih =>
    simp only [resolveEach]
    have key := resolveConstraint_inv Q ops sett rs F c s st henv hs
    cases h : resolveConstraint ops sett rs F c s st with
    | mk r rest =>
      obtain ⟨s1, st1⟩ := rest
      rw [h] at key
      cases r with
      | error e => exact key
      | ok u => exact ih s1 st1 key

/-- **C12 for `resolve_constraints()`**: whatever the outcome — return, `NoSolutionError`, or an
    exception thrown by a specification at any evaluation — the sequence left in the problem
    satisfies every predicate `Q` that the start sequence satisfies and that is closed under the
    candidate generators of the (localized) mutation space -/
theorem resolveConstraints_inv (Q : Seq → Prop) (ops : SpecOps σ K) (sett : Settings) (F : Frame σ)
    (s : Seq) (st : St σ K) (henv : Env Q ops F id) (hs : Q s) :
    Q (resolveConstraints ops sett F s st).2.1 := by
  simp only [resolveConstraints]
  split
  · exact hs
  · have key := resolveEach_inv Q ops sett id F (byPriority ops (F.constraints.filter (fun c => !ops.enforced c))) s st henv hs
    cases h : resolveEach ops sett id F (byPriority ops (F.constraints.filter (fun c => !ops.enforced c))) s st with
    | mk r rest =>
      obtain ⟨s1, st1⟩ := rest
      rw [h] at key
      cases r with
      | error e => exact key
      | ok u => simp only [if_true]; exact key

theorem optimizeLocation_inv (Q : Seq → Prop) (ops : SpecOps σ K) (sett : Settings) (F : Frame σ) (loc : Loc)
    (s : Seq) (st : St σ K) (henv : Env Q ops F id) (hs : Q s) :
    Q (optimizeLocation ops sett F loc s st).2.1 := by
  simp only [optimizeLocation]
  split
  · exact hs
  · split
    · exact hs
    · split
      · exact hs
      · split
        · exact hs
        · split
          · exact hs
          · rename_i LF st4 hnl
            have hsp := newLocal_space ops s _ _ _ _ _ LF hnl
            have hcl : Closed Q LF.space := by rw [hsp]; exact henv.localClosed _ _
            have key : Q (localOptimize ops sett LF s st4).2.1 := by
              simp only [localOptimize]
              split
              · exact optimizeExhaustive_inv Q ops LF s st4 hcl hs
              · exact optimizeRandom_inv Q ops sett LF s st4 hcl hs
            cases hres : localOptimize ops sett LF s st4 with
            | mk r rest =>
              obtain ⟨ls, st5⟩ := rest
              rw [hres] at key
              cases r with
              | error e => exact hs
              | ok u => exact key

theorem optimizeLocations_inv (Q : Seq → Prop) (ops : SpecOps σ K) (sett : Settings) (F : Frame σ) (locs : List Loc)
    (s : Seq) (st : St σ K) (henv : Env Q ops F id) (hs : Q s) :
    Q (optimizeLocations ops sett F locs s st).2.1 := by
  induction locs generalizing s st with
  | nil => exact hs
  | cons l ls ih =>
    simp only [optimizeLocations]
    have key := optimizeLocation_inv Q ops sett F l s st henv hs
    cases h : optimizeLocation ops sett F l s st with
    | mk r rest =>
      obtain ⟨s1, st1⟩ := rest
      rw [h] at key
      cases r with
      | error e => exact key
      | ok u => exact ih s1 st1 key

theorem optimizeObjective_inv (Q : Seq → Prop) (ops : SpecOps σ K) (sett : Settings) (F : Frame σ) (o : σ)
    (s : Seq) (st : St σ K) (henv : Env Q ops F id) (hs : Q s) :
    Q (optimizeObjective ops sett F o s st).2.1 := by
  simp only [optimizeObjective]
  split
  · exact hs
  · split
    · exact hs
    · split
      · exact hs
      · exact optimizeLocations_inv Q ops sett F _ s _ henv hs

/-- **C12 for `optimize()`** -/
theorem optimize_inv (Q : Seq → Prop) (ops : SpecOps σ K) (sett : Settings) (F : Frame σ)
    (s : Seq) (st : St σ K) (henv : Env Q ops F id) (hs : Q s) :
    Q (optimize ops sett F s st).2.1 := by
  simp only [optimize]
  generalize F.objectives.filter (fun o => !ops.passive o && !Score.eq (ops.boost o) (Score.zero : K)) = os
  induction os generalizing s st with
  | nil => exact hs
  | cons o os ih =>
    simp only [optimizeEach]
    have key := optimizeObjective_inv Q ops sett F o s st henv hs
    cases h : optimizeObjective ops sett F o s st with
    | mk r rest =>
      obtain ⟨s1, st1⟩ := rest
      rw [h] at key
      cases r with
      | error e => exact key
      | ok u => exact ih s1 st1 key


/-- the sequence has the problem's length and respects every hard nucleotide restriction: each
    choice of the problem's mutation space holds one of its variants -/
def InSp (cl : List Choice) (n : Nat) (s : Seq) : Prop :=
  s.length = n ∧ ∀ c ∈ cl, c.seg s ∈ c.variants

theorem mcfits_of_fit (n : Nat) (l : List Choice) (h : ChoicesFit n l) : MCFits n l := by
  induction l with
  | nil => trivial
  | cons c l ih =>
    obtain ⟨h1, h2, h3, h4, h5, h6⟩ := h
    exact ⟨h1, by omega, h3, h4, h5, ih h6⟩

/-- a segment disjoint from every edited range is unchanged -/
theorem seg_unchanged (c : Choice) (s t : Seq) (h : ∀ i, c.start ≤ i → i < c.stop → t[i]? = s[i]?) :
    c.seg t = c.seg s := seg_congr c t s h

/-- for a well-formed space, "in the space" is closed under enumeration and random mutation of any
    sub-space whose multi-choices are choices of the space -/
theorem closed_inSp (cl : List Choice) (n : Nat) (sp : Space) (hfit : ChoicesFit n cl)
    (hsub : ∀ c ∈ sp.multichoices, c ∈ cl) (hmc : ChoicesFit n sp.multichoices) :
    Closed (InSp cl n) sp := by
  constructor
  · intro s vs hs hvs v hv
    have hen := allVariants_enumerates sp s vs (by rw [hs.1]; exact mcfits_of_fit n _ hmc) hvs
    obtain ⟨hl, hin, hout⟩ := (hen.2.2.2 v).1 hv
    refine ⟨hl.trans hs.1, ?_⟩
    intro c hc
    by_cases hcm : c ∈ sp.multichoices
    · exact hin c hcm
    · have : c.seg v = c.seg s := by
        apply seg_unchanged
        intro i hi1 hi2
        apply hout
        intro d hd
        have hne : c ≠ d := fun h => hcm (h ▸ hd)
        have := fits_disjoint n cl hfit c d hc (hsub d hd) hne
        omega
      rw [this]; exact hs.2 c hc
  · intro k s t r t' hs hm
    obtain ⟨hl, chosen, hnd, hsubc, hlen, hin, hout⟩ :=
      applyRandomMutations_spec sp k s t t' r (by rw [hs.1]; exact hmc) hm
    refine ⟨hl.trans hs.1, ?_⟩
    intro c hc
    by_cases hcm : c ∈ chosen
    · exact (hin c hcm).1
    · have : c.seg r = c.seg s := by
        apply seg_unchanged
        intro i hi1 hi2
        apply hout
        intro d hd
        have hne : c ≠ d := fun h => hcm (h ▸ hd)
        have := fits_disjoint n cl hfit c d hc (hsub d (hsubc d hd)) hne
        omega
      rw [this]; exact hs.2 c hc

theorem mem_pySlice {α : Type} (l : List α) (a b : Int) (x : α) (h : x ∈ pySlice l a b) : x ∈ l := by
  simp only [pySlice] at h
  exact List.mem_of_mem_drop (List.mem_of_mem_take h)

/-- the choices of a localized space are choices of the space -/
theorem localized_sub (sp : Space) (a b : Int) (c : Choice) (h : c ∈ (sp.localized a b).choicesList) :
    c ∈ sp.choicesList := by
  rw [mem_choicesList] at h ⊢
  simp only [Space.localized, Space.ofIndex, List.mem_append, List.mem_replicate, reduceCtorEq, and_false, false_or] at h
  exact mem_pySlice _ _ _ _ h

theorem localized_multi_sub (sp : Space) (a b : Int) (c : Choice) (h : c ∈ (sp.localized a b).multichoices) :
    c ∈ sp.choicesList := by
  simp only [Space.multichoices, List.mem_filter] at h
  exact localized_sub sp a b c h.1


theorem allPass_err (ops : SpecOps σ K) (s : Seq) (cs : List σ) (st st' : St σ K) (e : Err)
    (h : allPass ops s cs st = (.error e, st')) : ∃ n, e = .fault n := by
  induction cs generalizing st with
  | nil => simp [allPass] at h
  | cons c cs ih =>
    simp only [allPass] at h
    split at h
    · rename_i e' st1 hev
      simp only [Prod.mk.injEq, Except.error.injEq] at h
      obtain ⟨n, hn⟩ := C01.evalAt_err ops c s st st1 e' hev
      exact ⟨n, by rw [← h.1, hn]⟩
    · split at h
      · exact ih _ h
      · simp at h

theorem exhaustiveTest_err (ops : SpecOps σ K) (F : Frame σ) (focus) (v : Seq) (st st' : St σ K) (e : Err)
    (h : exhaustiveTest ops F focus v st = (.error e, st')) : ∃ n, e = .fault n := by
  simp only [exhaustiveTest] at h
  split at h
  · split at h
    · rename_i e' st1 hev
      simp only [Prod.mk.injEq, Except.error.injEq] at h
      obtain ⟨n, hn⟩ := C01.evalAt_err ops _ v st st1 e' hev
      exact ⟨n, by rw [← h.1, hn]⟩
    · split at h
      · exact allPass_err ops v _ _ st' e h
      · simp at h
  · exact allPass_err ops v _ _ st' e h

theorem exhaustiveLoop_err (ops : SpecOps σ K) (F : Frame σ) (focus) (vs : List Seq) (cur : Seq) (st : St σ K)
    (e : Err) (t : Seq) (st' : St σ K)
    (h : exhaustiveLoop ops F focus vs cur st = (.error e, t, st')) : ∃ n, e = .fault n := by
  induction vs generalizing cur st with
  | nil => simp [exhaustiveLoop] at h
  | cons v vs ih =>
    simp only [exhaustiveLoop] at h
    split at h
    · rename_i e' st1 ht
      simp only [Prod.mk.injEq, Except.error.injEq] at h
      obtain ⟨n, hn⟩ := exhaustiveTest_err ops F focus v _ st1 e' ht
      exact ⟨n, by rw [← h.1, hn]⟩
    · simp at h
    · exact ih _ _ h

/-- **a failed exhaustive constraint search restores exactly the sequence it started from** — for
    arbitrary specifications: `NoSolutionError` can only come from the end of the enumeration -/
theorem exhaustive_fail_restores (ops : SpecOps σ K) (F : Frame σ) (s t : Seq) (st st' : St σ K) (w : String)
    (h : resolveExhaustive ops F s st = (.error (.noSolution w), t, st')) : t = s := by
  simp only [resolveExhaustive] at h
  split at h
  · simp only [Prod.mk.injEq] at h; exact h.2.1.symm
  · split at h
    · rename_i e cur st1 hl
      simp only [Prod.mk.injEq, Except.error.injEq] at h
      obtain ⟨n, hn⟩ := exhaustiveLoop_err ops F _ _ s st e cur st1 hl
      rw [hn] at h; simp at h
    · simp at h
    · simp only [Prod.mk.injEq] at h; exact h.2.1.symm


/-! ### the property, for well-formed spaces -/

/-- well-formedness of the problem's mutation space (sorted, pairwise disjoint choices whose
    variants have the segment's length) and of the multi-choices of each of its localizations;
    a consequence of the tiling of `choices_index` (checked on every space the correspondence
    runs build) -/
structure SpaceWF (sp : Space) (n : Nat) : Prop where
  fit : ChoicesFit n sp.choicesList
  localFit : ∀ a b : Int, ChoicesFit n (sp.localized a b).multichoices

theorem env_inSp (ops : SpecOps σ K) (F : Frame σ) (n : Nat) (hwf : SpaceWF F.space n)
    (hh : ∀ c h, ops.heuristic c = some h → ∀ view k, InSp F.space.choicesList n view.seq →
      InSp F.space.choicesList n (h view k).1) :
    Env (InSp F.space.choicesList n) ops F id where
  localClosed a b := closed_inSp _ n _ hwf.fit (fun c hc => localized_multi_sub F.space a b c hc) (hwf.localFit a b)
  heuristicOk := hh
  replaceOk _ h := h

/-- **`resolve_constraints()`**: whatever the outcome, length and hard restrictions are kept -/
theorem resolve_keeps_restrictions (ops : SpecOps σ K) (sett : Settings) (F : Frame σ) (n : Nat) (s : Seq) (st : St σ K)
    (hwf : SpaceWF F.space n)
    (hh : ∀ c h, ops.heuristic c = some h → ∀ view k, InSp F.space.choicesList n view.seq →
      InSp F.space.choicesList n (h view k).1)
    (hs : InSp F.space.choicesList n s) :
    InSp F.space.choicesList n (resolveConstraints ops sett F s st).2.1 :=
  resolveConstraints_inv _ ops sett F s st (env_inSp ops F n hwf hh) hs

/-- **`optimize()`**: whatever the outcome, length and hard restrictions are kept -/
theorem optimize_keeps_restrictions (ops : SpecOps σ K) (sett : Settings) (F : Frame σ) (n : Nat) (s : Seq) (st : St σ K)
    (hwf : SpaceWF F.space n)
    (hh : ∀ c h, ops.heuristic c = some h → ∀ view k, InSp F.space.choicesList n view.seq →
      InSp F.space.choicesList n (h view k).1)
    (hs : InSp F.space.choicesList n s) :
    InSp F.space.choicesList n (optimize ops sett F s st).2.1 :=
  optimize_inv _ ops sett F s st (env_inSp ops F n hwf hh) hs

theorem closed_self (sp : Space) (n : Nat) (hfit : ChoicesFit n sp.choicesList) :
    Closed (InSp sp.choicesList n) sp :=
  closed_inSp _ n sp hfit (fun c hc => (List.mem_filter.1 hc).1)
    (fits_filter n sp.choicesList (fun c => decide (c.variants.length ≥ 2)) hfit)

/-- **the four direct searches**: whatever the outcome, length and hard restrictions are kept -/
theorem direct_searches_keep_restrictions (ops : SpecOps σ K) (sett : Settings) (F : Frame σ) (n : Nat) (s : Seq)
    (st : St σ K) (hfit : ChoicesFit n F.space.choicesList) (hs : InSp F.space.choicesList n s) :
    InSp F.space.choicesList n (resolveExhaustive ops F s st).2.1 ∧
    InSp F.space.choicesList n (resolveLocally ops sett F s st).2.1 ∧
    InSp F.space.choicesList n (optimizeExhaustive ops F s st).2.1 ∧
    InSp F.space.choicesList n (optimizeRandom ops sett F s st).2.1 :=
  ⟨resolveExhaustive_inv _ ops F s st (closed_self _ n hfit) hs,
   resolveLocally_inv _ ops sett F s st (closed_self _ n hfit) hs,
   optimizeExhaustive_inv _ ops F s st (closed_self _ n hfit) hs,
   optimizeRandom_inv _ ops sett F s st (closed_self _ n hfit) hs⟩

/-- the state after a failure is a valid input again: the same theorems apply to it -/
theorem resolvable_again (ops : SpecOps σ K) (sett : Settings) (F : Frame σ) (n : Nat) (s : Seq) (st st2 : St σ K)
    (hwf : SpaceWF F.space n)
    (hh : ∀ c h, ops.heuristic c = some h → ∀ view k, InSp F.space.choicesList n view.seq →
      InSp F.space.choicesList n (h view k).1)
    (hs : InSp F.space.choicesList n s) :
    InSp F.space.choicesList n
      (resolveConstraints ops sett F (resolveConstraints ops sett F s st).2.1 st2).2.1 :=
  resolve_keeps_restrictions ops sett F n _ st2 hwf hh (resolve_keeps_restrictions ops sett F n s st hwf hh hs)

/-! ### non-vacuity: the hypotheses hold on a concrete space and localization -/
example : ChoicesFit 4 C15.exSpace.choicesList := by
  simp [C15.exSpace, Space.ofIndex, Space.choicesList, Space.dedupConsecutive, ChoicesFit]
example : ChoicesFit 4 (C15.exSpace.localized 1 4).multichoices := by
  simp [C15.exSpace, Space.ofIndex, Space.localized, Space.multichoices, Space.choicesList,
    Space.dedupConsecutive, pySlice, pyIndex, ChoicesFit]
example : InSp C15.exSpace.choicesList 4 "ATAC".toList := by
  simp [InSp, C15.exSpace, Space.ofIndex, Space.choicesList, Space.dedupConsecutive, Choice.seg]

end Dna.C12
