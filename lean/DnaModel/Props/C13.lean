/-
C13 — circular problems: a successful solve holds across the sequence origin.
Theorems about Model/Circular.lean (on top of Model/Solver.lean).
-/
import DnaModel.Model.Circular
import DnaModel.Props.C01
import DnaModel.Props.C12
import Mathlib.Data.List.Forall2
set_option linter.unusedVariables false
set_option linter.unusedSimpArgs false
set_option linter.unusedSectionVars false
namespace Dna.C13
open Dna Solver Circular
variable {σ K : Type} [BEq σ] [Score K]

/-! ### the three-copy view reads the circular sequence -/

theorem triple_length (s : Seq) : (triple s).length = 3 * s.length := by simp [triple]; omega

/-- position `i` of the three-copy sequence is position `i mod L` of the circular sequence -/
theorem triple_getElem? (s : Seq) (i : Nat) (hi : i < 3 * s.length) : (triple s)[i]? = s[i % s.length]? := by
  have hL : 0 < s.length := by omega
  simp only [triple]
  by_cases h1 : i < s.length
  · rw [List.getElem?_append_left (by simp; omega), List.getElem?_append_left h1, Nat.mod_eq_of_lt h1]
  · by_cases h2 : i < 2 * s.length
    · rw [List.getElem?_append_left (by simp; omega), List.getElem?_append_right (by omega)]
      congr 1
      rw [Nat.mod_eq_sub_mod (by omega), Nat.mod_eq_of_lt (by omega)]
    · rw [List.getElem?_append_right (by simp; omega)]
      simp only [List.length_append]
      congr 1
      have : i % s.length = i - (s.length + s.length) := by
        rw [Nat.mod_eq_sub_mod (by omega), Nat.mod_eq_sub_mod (by omega), Nat.mod_eq_of_lt (by omega)]
        omega
      rw [this]

/-- the linear reading `sequence + sequence[:m]` used to look for something across the origin (`m ≤ L`) is a
    contiguous part of the three-copy sequence: whatever occurs across the junction occurs in the view -/
theorem cyclic_infix (s : Seq) (m : Nat) : (s ++ s.take m) <:+: triple s := by
  refine ⟨[], s.drop m ++ s, ?_⟩
  simp only [triple, List.nil_append, List.append_assoc]
  rw [← List.append_assoc (s.take m), List.take_append_drop]

/-- so a pattern instance (any contiguous word) found in `sequence + sequence[:m]` is found in the view -/
theorem occurs_across_origin (s w : Seq) (m : Nat) (h : w <:+: s ++ s.take m) : w <:+: triple s :=
  List.IsInfix.trans h (cyclic_infix s m)

/-- every rotation of the circular sequence is a window of the view starting in the central copy's
    left neighbour: the central copy sees the origin on both sides -/
theorem rotation_infix (s : Seq) (p : Nat) : (s.drop p ++ s.take p) <:+: triple s := by
  refine ⟨s.take p, s.drop p ++ s, ?_⟩
  have e := List.take_append_drop p s
  simp only [triple, List.append_assoc]
  rw [← List.append_assoc (s.take p) (s.drop p), e, ← List.append_assoc (s.take p) (s.drop p), e]

/-! ### `_replace_sequence`: the majority rule -/

theorem loony_left (x y : Char) : loony y x x = y := by
  simp only [loony]; split <;> simp_all
theorem loony_mid (x y : Char) : loony x y x = y := by
  simp only [loony]; split <;> simp_all
theorem loony_right (x y : Char) : loony x x y = y := by simp [loony]

theorem consensus_length (t : Seq) : (consensus t).length = t.length / 3 := by simp [consensus]

theorem majority_length (t : Seq) (h : 3 ∣ t.length) : (majority t).length = t.length := by
  simp only [majority, triple_length, consensus_length]; omega

/-- a consistent three-copy sequence is left as it is -/
theorem consensus_triple (s : Seq) : consensus (triple s) = s := by
  apply List.ext_getElem?
  intro i
  simp only [consensus, triple_length]
  have hdiv : 3 * s.length / 3 = s.length := by omega
  rw [hdiv]
  by_cases hi : i < s.length
  · rw [List.getElem?_map, List.getElem?_range hi]
    simp only [Option.map_some, List.getD_eq_getElem?_getD]
    rw [triple_getElem? s i (by omega), triple_getElem? s (i + s.length) (by omega), triple_getElem? s (i + 2 * s.length) (by omega)]
    have e1 : (i + s.length) % s.length = i % s.length := by simp
    have e2 : (i + 2 * s.length) % s.length = i % s.length := by simp
    rw [e1, e2, Nat.mod_eq_of_lt hi, List.getElem?_eq_getElem hi]
    simp [loony]
  · rw [List.getElem?_eq_none (by simp; omega), List.getElem?_eq_none (by omega)]

theorem majority_triple (s : Seq) : majority (triple s) = triple s := by simp [majority, consensus_triple]

/-- an edit confined to one copy (here described position-wise: at every residue class at most one of the three
    copies differs from `s`) is mirrored: the result is the consistent view of the edited circular sequence -/
theorem consensus_edit (s t u : Seq) (ht : t.length = 3 * s.length) (hu : u.length = s.length)
    (h : ∀ i, i < s.length →
      (t[i]? = u[i]? ∧ t[i + s.length]? = s[i]? ∧ t[i + 2 * s.length]? = s[i]?) ∨
      (t[i]? = s[i]? ∧ t[i + s.length]? = u[i]? ∧ t[i + 2 * s.length]? = s[i]?) ∨
      (t[i]? = s[i]? ∧ t[i + s.length]? = s[i]? ∧ t[i + 2 * s.length]? = u[i]?)) :
    consensus t = u := by
  apply List.ext_getElem?
  intro i
  simp only [consensus, ht]
  have hdiv : 3 * s.length / 3 = s.length := by omega
  rw [hdiv]
  by_cases hi : i < s.length
  · rw [List.getElem?_map, List.getElem?_range hi]
    simp only [Option.map_some, List.getD_eq_getElem?_getD]
    have hs : s[i]? = some s[i] := List.getElem?_eq_getElem hi
    have huu : u[i]? = some (u[i]'(by omega)) := List.getElem?_eq_getElem (by omega)
    rcases h i hi with ⟨a, b, c⟩ | ⟨a, b, c⟩ | ⟨a, b, c⟩ <;>
      simp only [a, b, c, hs, huu, Option.getD_some, loony_left, loony_mid, loony_right]
  · rw [List.getElem?_eq_none (by simp; omega), List.getElem?_eq_none (by omega)]

theorem middle_triple (s : Seq) : middle (triple s) s.length = s := by
  simp [middle, triple]

theorem middle_length (t : Seq) (L : Nat) (h : t.length = 3 * L) : (middle t L).length = L := by
  simp [middle]; omega

/-! ### the final check: return ⇒ every constraint of the view passes on the view of the returned sequence -/

theorem evalList_ok (ops : SpecOps σ K) (s : Seq) (cs : List σ) (st st' : St σ K) (evs : List (Eval K))
    (h : evalList ops s cs st = (.ok evs, st')) :
    List.Forall₂ (fun c e => ∃ k, ops.evaluate c s k = .ok e) cs evs := by
  induction cs generalizing st st' evs with
  | nil => simp only [evalList, Prod.mk.injEq, Except.ok.injEq] at h; rw [← h.1]; exact List.Forall₂.nil
  | cons c cs ih =>
    simp only [evalList] at h
    split at h
    · simp at h
    · rename_i e st1 hev
      split at h
      · simp at h
      · rename_i r st2 hr
        simp only [Prod.mk.injEq, Except.ok.injEq] at h
        rw [← h.1]
        exact List.Forall₂.cons ⟨_, C01.evalAt_ok ops c s st st1 e hev⟩ (ih st1 st2 r hr)

theorem passes_of_forall₂ (ops : SpecOps σ K) (t : Seq) (cs : List σ) (evs : List (Eval K))
    (hf : List.Forall₂ (fun c e => ∃ k, ops.evaluate c t k = .ok e) cs evs) (hall : evs.all (·.passes) = true) :
    ∀ c ∈ cs, C01.PassesAt ops c t := by
  induction hf with
  | nil => simp
  | cons hce _ ih =>
    rename_i c' e' cs' es' _
    simp only [List.all_cons, Bool.and_eq_true] at hall
    intro c hc
    rcases List.mem_cons.1 hc with rfl | hc
    · obtain ⟨k', hk'⟩ := hce
      exact ⟨k', e', hk', hall.1⟩
    · exact ih hall.2 c hc

theorem circFinalCheck_ok (ops : SpecOps σ K) (views : Nat → Option (View σ)) (k : Nat) (s : Seq) (st st' : St σ K)
    (h : circFinalCheck ops views k s st = (.ok (), st')) :
    ∃ v F t st1, buildView views k s st = (.ok (v, F, t), st1) ∧ ∀ c ∈ v.constraints, C01.PassesAt ops c t := by
  simp only [circFinalCheck] at h
  split at h
  · simp at h
  · rename_i v F t st1 hb
    refine ⟨v, F, t, st1, hb, ?_⟩
    split at h
    · simp at h
    · rename_i evs st2 hev
      split at h
      · rename_i hall
        exact passes_of_forall₂ ops t _ _ (evalList_ok ops t v.constraints st1 st2 evs hev) hall
      · split at h
        · simp at h
        · split at h <;> simp at h

/-- **C13, main clause.**  If `CircularDnaOptimizationProblem.resolve_constraints()` returns, then a fresh
    three-copy view of the returned sequence was built and *every* constraint of that view — the whole-sequence
    ones stretched over the three copies, the located ones in each copy, the hard ones included — was evaluated on
    it and passed.  For arbitrary specifications, settings and random tapes. -/
theorem circ_resolve_ok (ops : SpecOps σ K) (sett : Settings) (views : Nat → Option (View σ)) (s s' : Seq) (st st' : St σ K)
    (h : circResolve ops sett views s st = (.ok (), s', st')) :
    ∃ v F t, ∃ st0 st1 : St σ K, buildView views 1 s' st0 = (.ok (v, F, t), st1) ∧ ∀ c ∈ v.constraints, C01.PassesAt ops c t := by
  simp only [circResolve] at h
  split at h
  · simp at h
  · rename_i v F t st1 hb
    split at h
    · simp at h
    · rename_i t' st2 hre
      cases hfc : circFinalCheck ops views 1 (middle t' s.length) (logSeq (middle t' s.length) st2) with
      | mk r st3 =>
        rw [hfc] at h
        simp only [Prod.mk.injEq] at h
        obtain ⟨rfl, rfl, rfl⟩ := h
        obtain ⟨v2, F2, t2, st4, hb2, hp⟩ := circFinalCheck_ok ops views 1 _ _ _ hfc
        exact ⟨v2, F2, t2, _, st4, hb2, hp⟩

/-- when the returned sequence's three-copy sequence already lies in the view's mutation space (always the case
    for restrictions that are periodic, cf. the correspondence runs), the view evaluated by the final check is
    exactly `3 × sequence`: "passes across the origin" in the sense of `cyclic_infix` -/
theorem buildView_seq (views : Nat → Option (View σ)) (k : Nat) (s : Seq) (st st1 : St σ K) (v : View σ) (F : Frame σ) (t : Seq)
    (h : buildView views k s st = (.ok (v, F, t), st1)) :
    ∃ sp tape', Space.fromRestrictions (triple s) v.restrs = .ok sp ∧ sp.constrainSequence (triple s) st.tape = .ok (t, tape') ∧
      F.space = sp ∧ F.constraints = v.constraints ∧ views k = some v := by
  simp only [buildView] at h
  split at h
  · simp at h
  · rename_i v' hv
    split at h
    · simp at h
    · rename_i sp hsp
      split at h
      · simp at h
      · rename_i t' tape' hc
        simp only [Prod.mk.injEq, Except.ok.injEq] at h
        obtain ⟨⟨rfl, rfl, rfl⟩, _⟩ := h
        exact ⟨sp, tape', hsp, hc, rfl, rfl, hv⟩

/-! ### the failure side -/

theorem evalList_err (ops : SpecOps σ K) (s : Seq) (cs : List σ) (st st' : St σ K) (e : Err)
    (h : evalList ops s cs st = (.error e, st')) : ∃ n, e = .fault n := by
  induction cs generalizing st st' e with
  | nil => simp [evalList] at h
  | cons c cs ih =>
    simp only [evalList] at h
    split at h
    · rename_i e' st1 hev
      simp only [Prod.mk.injEq, Except.error.injEq] at h
      obtain ⟨n, hn⟩ := C01.evalAt_err ops c s st st1 e' hev
      exact ⟨n, by rw [← h.1, hn]⟩
    · split at h
      · rename_i e' st2 hr
        simp only [Prod.mk.injEq, Except.error.injEq] at h
        obtain ⟨n, hn⟩ := ih _ _ _ hr
        exact ⟨n, by rw [← h.1, hn]⟩
      · simp at h

/-- errors of view construction: no such view recorded, or an error of the mutation space -/
def ViewErr (e : Err) : Prop := e = .tableMiss "view" ∨ ∃ se, e = Err.ofSpace se

theorem buildView_err (views : Nat → Option (View σ)) (k : Nat) (s : Seq) (st st' : St σ K) (e : Err)
    (h : buildView views k s st = (.error e, st')) : ViewErr e := by
  simp only [buildView] at h
  split at h
  · simp only [Prod.mk.injEq, Except.error.injEq] at h; exact Or.inl h.1.symm
  · split at h
    · simp only [Prod.mk.injEq, Except.error.injEq] at h; exact Or.inr ⟨_, h.1.symm⟩
    · split at h
      · simp only [Prod.mk.injEq, Except.error.injEq] at h; exact Or.inr ⟨_, h.1.symm⟩
      · simp at h

/-- the circular final check fails only with `NoSolutionError`, an exception thrown by a specification, or while
    a view is being constructed -/
theorem circFinalCheck_err (ops : SpecOps σ K) (views : Nat → Option (View σ)) (k : Nat) (s : Seq) (st st' : St σ K) (e : Err)
    (h : circFinalCheck ops views k s st = (.error e, st')) :
    (∃ w, e = .noSolution w) ∨ (∃ n, e = .fault n) ∨ ViewErr e := by
  simp only [circFinalCheck] at h
  split at h
  · rename_i e' st1 hb
    simp only [Prod.mk.injEq, Except.error.injEq] at h
    exact Or.inr (Or.inr (h.1 ▸ buildView_err views k s st st1 e' hb))
  · split at h
    · rename_i e' st2 hev
      simp only [Prod.mk.injEq, Except.error.injEq] at h
      exact Or.inr (Or.inl (h.1 ▸ evalList_err ops _ _ _ st2 e' hev))
    · split at h
      · simp at h
      · split at h
        · rename_i e' st3 hb
          simp only [Prod.mk.injEq, Except.error.injEq] at h
          exact Or.inr (Or.inr (h.1 ▸ buildView_err views _ s _ st3 e' hb))
        · split at h
          · rename_i e' st4 hev
            simp only [Prod.mk.injEq, Except.error.injEq] at h
            exact Or.inr (Or.inl (h.1 ▸ evalList_err ops _ _ _ st4 e' hev))
          · simp only [Prod.mk.injEq, Except.error.injEq] at h
            exact Or.inl ⟨_, h.1.symm⟩

/-! ### length -/

theorem closed_length (n : Nat) (sp : Space) (hmc : C15.ChoicesFit n sp.multichoices) :
    C12.Closed (fun t => t.length = n) sp := by
  constructor
  · intro s vs hs hvs v hv
    have hen := C15.allVariants_enumerates sp s vs (by rw [hs]; exact C12.mcfits_of_fit n _ hmc) hvs
    exact ((hen.2.2.2 v).1 hv).1.trans hs
  · intro k s t r t' hs hm
    exact (C15.applyRandomMutations_spec sp k s t t' r (by rw [hs]; exact hmc) hm).1.trans hs

/-- **the sequence keeps its length**: whatever the outcome of the central-copy loop, the view stays `3L` long
    (edits keep the length, heuristics are assumed to, the majority rule does), so the middle third has length `L` -/
theorem circ_keeps_length (ops : SpecOps σ K) (sett : Settings) (F : Frame σ) (cs : List σ) (L : Nat) (t : Seq) (st : St σ K)
    (hfit : ∀ a b : Int, C15.ChoicesFit (3 * L) (F.space.localized a b).multichoices)
    (hh : ∀ c h, ops.heuristic c = some h → ∀ view k, view.seq.length = 3 * L → (h view k).1.length = 3 * L)
    (ht : t.length = 3 * L) :
    (middle (resolveEach ops sett majority F cs t st).2.1 L).length = L := by
  apply middle_length
  have env : C12.Env (fun t => t.length = 3 * L) ops F majority :=
    { localClosed := fun a b => closed_length (3 * L) _ (hfit a b)
      heuristicOk := hh
      replaceOk := fun u hu => by rw [majority_length u (by rw [hu]; exact ⟨L, rfl⟩)]; exact hu }
  exact C12.resolveEach_inv _ ops sett majority F cs t st env ht

/-! non-vacuity -/
example : majority "ATGCATGGATGC".toList = "ATGGATGGATGG".toList := by decide
example : consensus (triple "GATTACA".toList) = "GATTACA".toList := by decide
example : ("CA".toList ++ "GA".toList) <:+: ("GATTACA".toList ++ "GATTACA".toList.take 3) := ⟨"GATTA".toList, "T".toList, by decide⟩

end Dna.C13
