/-
C13 — circular problems: a successful solve holds across the sequence origin.
-/
import DnaModel.Model.Circular
set_option linter.unusedVariables false
namespace Dna.C13
open Dna Solver Circular

theorem triple_length (s : Seq) : (triple s).length = 3 * s.length := by simp [triple]; omega

end Dna.C13
