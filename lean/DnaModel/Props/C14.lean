/-
C14 — the solver does not touch what is already fine.
`constrain_sequence` minimality / idempotence is in C15 (`constrainSequence_spec`,
`constrainSequence_noop`, `constrainSequence_idem`); here: `resolve_constraints()` and `optimize()`.
-/
import DnaModel.Model.Solver
import DnaModel.Props.C15
set_option linter.unusedVariables false
set_option linter.unusedSimpArgs false
set_option linter.unusedSectionVars false
namespace Dna.C14
open Dna Solver
variable {σ K : Type} [BEq σ] [Score K]

/-- the parts of the solver state that an observer can see change: random tape and assignments -/
def Untouched (st st' : St σ K) : Prop := st'.tape = st.tape ∧ st'.trace = st.trace

/-- `c` evaluates as passing on `s` whenever it is evaluated -/
def AlwaysPasses (ops : SpecOps σ K) (c : σ) (s : Seq) : Prop :=
  ∀ k, ∃ e, ops.evaluate c s k = .ok e ∧ e.passes = true

theorem resolveConstraint_noop (ops : SpecOps σ K) (sett : Settings) (rs : Seq → Seq) (F : Frame σ) (c : σ)
    (s : Seq) (st : St σ K) (h : AlwaysPasses ops c s) :
    ∃ st', resolveConstraint ops sett rs F c s st = (.ok (), s, st') ∧ Untouched st st' := by
  obtain ⟨e, he, hp⟩ := h st.nEval
  refine ⟨{ st with nEval := st.nEval + 1 }, ?_, rfl, rfl⟩
  simp [resolveConstraint, evalAt, he, liftFault, hp]

theorem resolveEach_noop (ops : SpecOps σ K) (sett : Settings) (rs : Seq → Seq) (F : Frame σ) (cs : List σ)
    (s : Seq) (st : St σ K) (h : ∀ c ∈ cs, AlwaysPasses ops c s) :
    ∃ st', resolveEach ops sett rs F cs s st = (.ok (), s, st') ∧ Untouched st st' := by
  induction cs generalizing st with
  | nil => exact ⟨st, rfl, rfl, rfl⟩
  | cons c cs ih =>
    obtain ⟨st1, h1, u1⟩ := resolveConstraint_noop ops sett rs F c s st (h c (by simp))
    obtain ⟨st2, h2, u2⟩ := ih st1 (fun d hd => h d (by simp [hd]))
    refine ⟨st2, ?_, u2.1.trans u1.1, u2.2.trans u1.2⟩
    simp [resolveEach, h1, h2]

theorem evalAt_untouched (ops : SpecOps σ K) (c : σ) (s : Seq) (st : St σ K) :
    Untouched st (evalAt ops c s st).2 := ⟨rfl, rfl⟩

theorem evaluateAll_untouched (ops : SpecOps σ K) (s : Seq) (cs : List σ) (st : St σ K) :
    Untouched st (evaluateAll ops s cs st).2 := by
  induction cs generalizing st with
  | nil => exact ⟨rfl, rfl⟩
  | cons c cs ih =>
    simp only [evaluateAll]
    cases hev : evalAt ops c s st with
    | mk r st1 =>
      have h1 : Untouched st st1 := by have := evalAt_untouched ops c s st; rw [hev] at this; exact this
      cases r with
      | error e => exact h1
      | ok e => have := ih st1; exact ⟨this.1.trans h1.1, this.2.trans h1.2⟩

theorem finalCheck_untouched (ops : SpecOps σ K) (s : Seq) (all cs : List σ) (st : St σ K) :
    Untouched st (finalCheck ops s all cs st).2 := by
  induction cs generalizing st with
  | nil => exact ⟨rfl, rfl⟩
  | cons c cs ih =>
    simp only [finalCheck]
    cases hev : evalAt ops c s st with
    | mk r st1 =>
      have h1 : Untouched st st1 := by have := evalAt_untouched ops c s st; rw [hev] at this; exact this
      cases r with
      | error e => exact h1
      | ok e =>
        simp only
        split
        · have := ih st1; exact ⟨this.1.trans h1.1, this.2.trans h1.2⟩
        · have h2 := evaluateAll_untouched ops s all st1
          cases hall : evaluateAll ops s all st1 with
          | mk r2 st2 =>
            rw [hall] at h2
            cases r2 with
            | error e' => exact ⟨h2.1.trans h1.1, h2.2.trans h1.2⟩
            | ok u => exact ⟨h2.1.trans h1.1, h2.2.trans h1.2⟩

/-- **`resolve_constraints()` on a problem whose (non-enforced) constraints already pass changes
    nothing and draws no random number** — whatever the settings, for every tape; the sequence is
    returned unchanged even if the final check then fails on an enforced constraint -/
theorem resolve_noop (ops : SpecOps σ K) (sett : Settings) (F : Frame σ) (s : Seq) (st : St σ K)
    (h : ∀ c ∈ F.constraints, ops.enforced c = false → AlwaysPasses ops c s) :
    ∃ r st', resolveConstraints ops sett F s st = (r, s, st') ∧ Untouched st st' := by
  simp only [resolveConstraints]
  split
  · exact ⟨.ok (), st, rfl, rfl, rfl⟩
  · have hall : ∀ c ∈ byPriority ops (F.constraints.filter (fun c => !ops.enforced c)), AlwaysPasses ops c s := by
      intro c hc
      have hc' := (List.mergeSort_perm _ _).mem_iff.1 hc
      simp only [List.mem_filter, Bool.not_eq_true', Bool.not_eq_eq_eq_not, Bool.not_true] at hc'
      exact h c hc'.1 (by simpa using hc'.2)
    obtain ⟨st1, h1, u1⟩ := resolveEach_noop ops sett id F _ s st hall
    rw [h1]
    simp only [if_true]
    have u2 := finalCheck_untouched ops s F.constraints F.constraints st1
    exact ⟨_, _, rfl, u2.1.trans u1.1, u2.2.trans u1.2⟩

/-- repeating the call any number of times still changes nothing -/
theorem resolve_noop_iter (ops : SpecOps σ K) (sett : Settings) (F : Frame σ) (s : Seq) (n : Nat) (st : St σ K)
    (h : ∀ c ∈ F.constraints, ops.enforced c = false → AlwaysPasses ops c s) :
    ∃ st', (Nat.repeat (fun (p : Seq × St σ K) =>
        let r := resolveConstraints ops sett F p.1 p.2; (r.2.1, r.2.2)) n (s, st)) = (s, st') ∧ Untouched st st' := by
  induction n with
  | zero => exact ⟨st, rfl, rfl, rfl⟩
  | succ n ih =>
    obtain ⟨st1, h1, u1⟩ := ih
    obtain ⟨r, st2, h2, u2⟩ := resolve_noop ops sett F s st1 h
    refine ⟨st2, ?_, u2.1.trans u1.1, u2.2.trans u1.2⟩
    simp only [Nat.repeat, h1, h2]

/-- an objective at its declared best possible score, whenever it is evaluated -/
def AlwaysOptimal (ops : SpecOps σ K) (o : σ) (s : Seq) : Prop :=
  ∀ k, ∃ e b, ops.evaluate o s k = .ok e ∧ ops.best o = some b ∧ Score.eq e.score b = true

theorem optimizeEach_noop (ops : SpecOps σ K) (sett : Settings) (F : Frame σ) (os : List σ)
    (s : Seq) (st : St σ K) (h : ∀ o ∈ os, AlwaysOptimal ops o s) :
    ∃ st', optimizeEach ops sett F os s st = (.ok (), s, st') ∧ Untouched st st' := by
  induction os generalizing st with
  | nil => exact ⟨st, rfl, rfl, rfl⟩
  | cons o os ih =>
    obtain ⟨e, b, he, hb, heq⟩ := h o (by simp) st.nEval
    obtain ⟨st2, h2, u2⟩ := ih { st with nEval := st.nEval + 1 } (fun d hd => h d (by simp [hd]))
    refine ⟨st2, ?_, u2.1, u2.2⟩
    simp [optimizeEach, optimizeObjective, atBest, evalAt, he, liftFault, hb, heq, h2]

/-- **`optimize()` on a problem whose objectives are all at their best possible score changes
    nothing and draws no random number** -/
theorem optimize_noop (ops : SpecOps σ K) (sett : Settings) (F : Frame σ) (s : Seq) (st : St σ K)
    (h : ∀ o ∈ F.objectives, AlwaysOptimal ops o s) :
    ∃ st', optimize ops sett F s st = (.ok (), s, st') ∧ Untouched st st' := by
  simp only [optimize]
  exact optimizeEach_noop ops sett F _ s st (fun o ho => h o (List.mem_filter.1 ho).1)

/-! ### non-vacuity: a concrete specification record satisfying the hypotheses -/
def exOps : SpecOps Nat Int where
  evaluate _ _ _ := .ok ⟨0, some []⟩
  localize _ _ _ _ _ := .ok none
  initOn h _ _ _ := .ok (h, .same)
  enforced _ := false
  priority _ := 0
  best _ := some 0
  boost _ := 1
  passive _ := false
  acceptsRighthand _ := true
  heuristic _ := none

example : ∀ c s, AlwaysPasses exOps c s := fun _ _ _ => ⟨⟨0, some []⟩, rfl, by decide⟩
example : ∀ c s, AlwaysOptimal exOps c s := fun _ _ _ => ⟨⟨0, some []⟩, 0, rfl, rfl, by decide⟩

end Dna.C14
