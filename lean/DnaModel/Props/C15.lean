/-
C15 — mutation-space operations stay inside the space and cover it.
Theorems about Model/Space.lean (all spaces, sequences, tapes).
-/
import DnaModel.Proofs.Cart
import DnaModel.Proofs.Splice
set_option linter.unusedVariables false
set_option linter.unusedSimpArgs false

namespace Dna.C15
open Dna Choice Space Splice
/-! ### ordering on sequences -/
theorem seqLt_irrefl (a : Seq) : seqLt a a = false := by
  induction a with
  | nil => rfl
  | cons x xs ih => simp [seqLt, ih]

theorem seqLt_trichotomy (a b : Seq) : seqLt a b = true ∨ a = b ∨ seqLt b a = true := by
  induction a generalizing b with
  | nil => cases b <;> simp [seqLt]
  | cons x xs ih =>
    cases b with
    | nil => simp [seqLt]
    | cons y ys =>
      simp only [seqLt, Bool.or_eq_true, decide_eq_true_eq, Bool.and_eq_true, beq_iff_eq, List.cons.injEq]
      rcases Nat.lt_trichotomy x.toNat y.toNat with h | h | h
      · left; left; exact h
      · have hxy : x = y := Char.toNat_inj.1 h
        rcases ih ys with h2 | h2 | h2
        · left; right; exact ⟨hxy, h2⟩
        · right; left; exact ⟨hxy, h2⟩
        · right; right; right; exact ⟨hxy.symm, h2⟩
      · right; right; left; exact h

theorem seqLt_trans (a b c : Seq) (h1 : seqLt a b = true) (h2 : seqLt b c = true) : seqLt a c = true := by
  induction a generalizing b c with
  | nil => cases b <;> cases c <;> simp_all [seqLt]
  | cons x xs ih =>
    cases b with
    | nil => simp [seqLt] at h1
    | cons y ys =>
      cases c with
      | nil => simp [seqLt] at h2
      | cons z zs =>
        simp only [seqLt, Bool.or_eq_true, decide_eq_true_eq, Bool.and_eq_true, beq_iff_eq] at *
        rcases h1 with h1 | ⟨h1, h1'⟩ <;> rcases h2 with h2 | ⟨h2, h2'⟩
        · left; omega
        · left; subst h2; exact h1
        · left; subst h1; exact h2
        · right; exact ⟨h1.trans h2, ih ys zs h1' h2'⟩

theorem seqLt_asymm (a b : Seq) (h : seqLt a b = true) : seqLt b a = false := by
  cases h2 : seqLt b a
  · rfl
  · have := seqLt_trans a b a h h2
    rw [seqLt_irrefl] at this; simp at this

theorem seqLe_total (a b : Seq) : (seqLe a b || seqLe b a) = true := by
  simp only [seqLe, Bool.or_eq_true, Bool.not_eq_true']
  cases h : seqLt b a
  · left; rfl
  · right; exact seqLt_asymm b a h

theorem seqLe_trans (a b c : Seq) (h1 : seqLe a b = true) (h2 : seqLe b c = true) : seqLe a c = true := by
  simp only [seqLe, Bool.not_eq_true'] at *
  cases h : seqLt c a
  · rfl
  · rcases seqLt_trichotomy a b with h3 | h3 | h3
    · have := seqLt_trans c a b h h3; rw [h2] at this; simp at this
    · subst h3; rw [h2] at h; simp at h
    · rw [h1] at h3; simp at h3

theorem sortSeqs_perm (l : List Seq) : (sortSeqs l).Perm l := List.mergeSort_perm l seqLe

theorem sortSeqs_sorted (l : List Seq) : (sortSeqs l).Pairwise (fun a b => seqLe a b = true) :=
  List.pairwise_mergeSort (fun a b c => seqLe_trans a b c) (fun a b => seqLe_total a b) l


theorem distLe_total (cur : Nat) (a b : Seq × Nat) : (distLe cur a b || distLe cur b a) = true := by
  simp only [distLe, Bool.or_eq_true, decide_eq_true_eq, Bool.and_eq_true, beq_iff_eq]
  rcases Nat.lt_trichotomy (distTo cur a.2) (distTo cur b.2) with h | h | h
  · left; left; exact h
  · have := seqLe_total a.1 b.1
    simp only [Bool.or_eq_true] at this
    rcases this with h2 | h2
    · left; right; exact ⟨h, h2⟩
    · right; right; exact ⟨h.symm, h2⟩
  · right; left; exact h

theorem distLe_trans (cur : Nat) (a b c : Seq × Nat) (h1 : distLe cur a b = true) (h2 : distLe cur b c = true) :
    distLe cur a c = true := by
  simp only [distLe, Bool.or_eq_true, decide_eq_true_eq, Bool.and_eq_true, beq_iff_eq] at *
  rcases h1 with h1 | ⟨h1, h1'⟩ <;> rcases h2 with h2 | ⟨h2, h2'⟩
  · left; omega
  · left; omega
  · left; omega
  · right; exact ⟨by omega, seqLe_trans _ _ _ h1' h2'⟩

theorem indexOf?_spec (l : List Seq) (x : Seq) (i : Nat) (h : indexOf? l x = some i) : l[i]? = some x := by
  induction l generalizing i with
  | nil => simp [indexOf?] at h
  | cons a as ih =>
    simp only [indexOf?] at h
    split at h
    · rename_i hax
      simp only [Option.some.injEq] at h; subst h
      simp only [beq_iff_eq] at hax; simp [hax]
    · simp only [Option.map_eq_some_iff] at h
      obtain ⟨k, hk, rfl⟩ := h
      simpa using ih k hk

theorem indexOf?_none (l : List Seq) (x : Seq) (h : indexOf? l x = none) : x ∉ l := by
  induction l with
  | nil => simp
  | cons a as ih =>
    simp only [indexOf?] at h
    split at h
    · simp at h
    · rename_i hax
      simp only [Option.map_eq_none_iff] at h
      simp only [List.mem_cons, not_or]
      refine ⟨?_, ih h⟩
      intro hx; subst hx; simp at hax

theorem indexOf?_some_of_mem (l : List Seq) (x : Seq) (h : x ∈ l) : ∃ i, indexOf? l x = some i := by
  cases hi : indexOf? l x with
  | none => exact absurd h (indexOf?_none l x hi)
  | some i => exact ⟨i, rfl⟩

/-- `all_variants` visits the variants of a choice in an order that is a permutation of the
    variants and, when the current sub-sequence is one of them, starts with it -/
theorem variantsByDistance_spec (c : Choice) (s : Seq) :
    (variantsByDistance c s).Perm c.variants ∧
    (c.seg s ∈ c.variants → (variantsByDistance c s).head? = some (c.seg s)) := by
  simp only [variantsByDistance]
  generalize hcurd : (indexOf? (sortSeqs c.variants) (c.seg s)).getD 0 = cur
  have hperm := List.mergeSort_perm (sortSeqs c.variants).zipIdx (distLe cur)
  constructor
  · have := hperm.map (·.1)
    rw [List.zipIdx_map_fst] at this
    exact this.trans (sortSeqs_perm _)
  · intro hin
    obtain ⟨cur', hcur⟩ := indexOf?_some_of_mem (sortSeqs c.variants) (c.seg s) ((sortSeqs_perm _).mem_iff.2 hin)
    have hcc : cur' = cur := by rw [hcur] at hcurd; simpa using hcurd
    subst hcc
    have hsorted := List.pairwise_mergeSort (le := distLe cur')
      (fun a b c => distLe_trans cur' a b c) (fun a b => distLe_total cur' a b) (sortSeqs c.variants).zipIdx
    have hget := indexOf?_spec _ _ _ hcur
    have hmem : (c.seg s, cur') ∈ (sortSeqs c.variants).zipIdx.mergeSort (distLe cur') := by
      rw [hperm.mem_iff]
      rw [List.mem_iff_getElem?]
      refine ⟨cur', ?_⟩
      rw [List.getElem?_zipIdx, hget]; simp
    cases hl : (sortSeqs c.variants).zipIdx.mergeSort (distLe cur') with
    | nil => rw [hl] at hmem; simp at hmem
    | cons e rest =>
      rw [hl] at hmem hsorted
      simp only [List.map_cons, List.head?_cons, Option.some.injEq]
      rcases List.mem_cons.1 hmem with heq | hrest
      · rw [← heq]
      · have hle := (List.pairwise_cons.1 hsorted).1 _ hrest
        simp only [distLe, distTo, Bool.or_eq_true, decide_eq_true_eq, Bool.and_eq_true, beq_iff_eq] at hle
        have hd : distTo cur' e.2 = 0 := by
          simp only [distTo] at *
          have h0 : (if cur' ≥ cur' then cur' - cur' else cur' - cur') = 0 := by simp
          rcases hle with h | ⟨h, _⟩ <;> simp at h <;> omega
        have he2 : e.2 = cur' := by
          simp only [distTo] at hd
          split at hd <;> omega
        have heIn : e ∈ (sortSeqs c.variants).zipIdx := by
          rw [← hperm.mem_iff, hl]; simp
        rw [List.mem_iff_getElem?] at heIn
        obtain ⟨k, hk⟩ := heIn
        rw [List.getElem?_zipIdx] at hk
        simp only [Option.map_eq_some_iff, Nat.zero_add] at hk
        obtain ⟨a, ha, rfl⟩ := hk
        simp only at he2
        subst he2
        rw [hget] at ha
        simpa using ha.symm

/-- the multi-choices fit a sequence of length `n`: increasing, pairwise disjoint segments,
    variants of the segment's length, no duplicate variant -/
def MCFits (n : Nat) : List Choice → Prop
  | [] => True
  | c :: rest => c.stop ≤ n ∧ c.start ≤ c.stop ∧ (∀ v ∈ c.variants, v.length = c.stop - c.start) ∧
      c.variants.Nodup ∧ (∀ r ∈ rest, c.stop ≤ r.start) ∧ MCFits n rest

/-- `combo` assigns to every choice one of its variants -/
def Assigns : List (Nat × Seq) → List Choice → Prop := List.Forall₂ (fun m c => m.1 = c.start ∧ m.2 ∈ c.variants)

theorem seg_getElem? (c : Choice) (t : Seq) (k : Nat) :
    (c.seg t)[k]? = if k < c.stop - c.start then t[c.start + k]? else none := by
  simp only [Choice.seg, List.getElem?_take, List.getElem?_drop]

theorem assigns_fits (n : Nat) (combo : List (Nat × Seq)) (mc : List Choice) (hm : MCFits n mc) (ha : Assigns combo mc) :
    Fits n combo := by
  induction ha with
  | nil => trivial
  | @cons m c combo mc hmc hrest ih =>
    obtain ⟨h1, h2, h3, h4, h5, h6⟩ := hm
    have hl : m.2.length = c.stop - c.start := h3 _ hmc.2
    refine ⟨by rw [hmc.1, hl]; omega, ?_, ih h6⟩
    intro r hr
    obtain ⟨c', hc', hrc⟩ : ∃ c' ∈ mc, r.1 = c'.start := by
      clear ih h5 h6
      induction hrest with
      | nil => simp at hr
      | @cons m' c'' _ _ hmc' _ ih' =>
        rcases List.mem_cons.1 hr with rfl | hr
        · exact ⟨c'', by simp, hmc'.1⟩
        · obtain ⟨x, hx, hx2⟩ := ih' hr
          exact ⟨x, by simp [hx], hx2⟩
    have := h5 c' hc'
    rw [hmc.1, hl, hrc]; omega

/-- read-back lemma: after applying an assignment, every choice's segment holds the assigned
    variant, the length is unchanged, and positions outside all segments are untouched -/
theorem applyMuts_readback (s : Seq) (combo : List (Nat × Seq)) (mc : List Choice)
    (hm : MCFits s.length mc) (ha : Assigns combo mc) :
    (applyMuts s combo).length = s.length ∧
    List.Forall₂ (fun m c => c.seg (applyMuts s combo) = m.2) combo mc ∧
    (∀ i, (∀ c ∈ mc, ¬ (c.start ≤ i ∧ i < c.stop)) → (applyMuts s combo)[i]? = s[i]?) := by
  induction ha generalizing s with
  | nil => simp [applyMuts]
  | @cons m c combo mc hmc hrest ih =>
    obtain ⟨h1, h2, h3, h4, h5, h6⟩ := hm
    have hl : m.2.length = c.stop - c.start := h3 _ hmc.2
    have hfit : m.1 + m.2.length ≤ s.length := by rw [hmc.1, hl]; omega
    have hsl := splice_length s m.1 m.2 hfit
    have ih' := ih (splice s m.1 m.2) (by rw [hsl]; exact h6)
    have e : applyMuts s (m :: combo) = applyMuts (splice s m.1 m.2) combo := rfl
    rw [e]
    obtain ⟨i1, i2, i3⟩ := ih'
    refine ⟨by rw [i1, hsl], ?_, ?_⟩
    · refine List.Forall₂.cons ?_ i2
      apply List.ext_getElem?
      intro k
      rw [seg_getElem?]
      by_cases hk : k < c.stop - c.start
      · simp only [hk, if_true]
        rw [i3 (c.start + k) (by intro r hr; have := h5 r hr; omega)]
        rw [splice_getElem? s m.1 m.2 hfit, if_pos (by rw [hmc.1, hl]; omega)]
        congr 1; rw [hmc.1]; omega
      · simp only [hk, if_false]
        symm; rw [List.getElem?_eq_none_iff]; omega
    · intro i hi
      rw [i3 i (fun r hr => hi r (by simp [hr]))]
      rw [splice_getElem? s m.1 m.2 hfit, if_neg]
      have := hi c (by simp)
      rw [hmc.1, hl]; omega

theorem assigns_unique (u : Seq) (mc : List Choice) (c1 c2 : List (Nat × Seq))
    (h1 : Assigns c1 mc) (h2 : Assigns c2 mc)
    (r1 : List.Forall₂ (fun m c => c.seg u = m.2) c1 mc)
    (r2 : List.Forall₂ (fun m c => c.seg u = m.2) c2 mc) : c1 = c2 := by
  induction h1 generalizing c2 with
  | nil => cases h2; rfl
  | @cons m c combo mc hmc hrest ih =>
    cases h2 with
    | @cons m' _ combo' _ hmc' hrest' =>
      cases r1 with
      | cons a1 a2 =>
        cases r2 with
        | cons b1 b2 =>
          have : m = m' := by
            apply Prod.ext
            · rw [hmc.1, hmc'.1]
            · rw [← a1, ← b1]
          rw [this, ih combo' hrest' a2 b2]

/-- two assignments producing the same sequence are equal -/
theorem applyMuts_injective (s : Seq) (mc : List Choice) (hm : MCFits s.length mc)
    (c1 c2 : List (Nat × Seq)) (h1 : Assigns c1 mc) (h2 : Assigns c2 mc)
    (heq : applyMuts s c1 = applyMuts s c2) : c1 = c2 := by
  have r1 := (applyMuts_readback s c1 mc hm h1).2.1
  have r2 := (applyMuts_readback s c2 mc hm h2).2.1
  rw [heq] at r1
  exact assigns_unique _ mc c1 c2 h1 h2 r1 r2

/-- rebuilding a sequence from its own segments is the identity, when it agrees with `s`
    outside the segments -/
theorem applyMuts_seg_id (s t : Seq) (mc : List Choice) (hm : MCFits s.length mc)
    (hlen : t.length = s.length) (hin : ∀ c ∈ mc, c.seg t ∈ c.variants)
    (hout : ∀ i, (∀ c ∈ mc, ¬ (c.start ≤ i ∧ i < c.stop)) → t[i]? = s[i]?) :
    applyMuts s (mc.map (fun c => (c.start, c.seg t))) = t := by
  have ha : Assigns (mc.map (fun c => (c.start, c.seg t))) mc := by
    clear hm hout
    induction mc with
    | nil => exact List.Forall₂.nil
    | cons c mc ih =>
      exact List.Forall₂.cons ⟨rfl, hin c (by simp)⟩ (ih (fun c hc => hin c (by simp [hc])))
  obtain ⟨r1, r2, r3⟩ := applyMuts_readback s _ mc hm ha
  apply List.ext_getElem?
  intro i
  by_cases hi : ∀ c ∈ mc, ¬ (c.start ≤ i ∧ i < c.stop)
  · rw [r3 i hi, hout i hi]
  · have hi' : ∃ c ∈ mc, c.start ≤ i ∧ i < c.stop := by
      by_cases hex : ∃ c ∈ mc, c.start ≤ i ∧ i < c.stop
      · exact hex
      · exact absurd (fun c hc h => hex ⟨c, hc, h⟩) hi
    obtain ⟨c, hc, hci⟩ := hi'
    -- the segment of c in the rebuilt sequence equals the segment in t
    have hseg : c.seg (applyMuts s (mc.map (fun c => (c.start, c.seg t)))) = c.seg t := by
      clear r3 hm hout hin r1 ha hi
      generalize applyMuts s (mc.map (fun c => (c.start, c.seg t))) = u at r2
      induction mc with
      | nil => simp at hc
      | cons d mc ih =>
        simp only [List.map_cons] at r2
        cases r2 with
        | cons a1 a2 =>
          rcases List.mem_cons.1 hc with rfl | hc
          · exact a1
          · exact ih hc a2
    have := congrArg (fun l => l[i - c.start]?) hseg
    simp only [seg_getElem?] at this
    have hk : i - c.start < c.stop - c.start := by omega
    simp only [hk, if_true] at this
    have e : c.start + (i - c.start) = i := by omega
    rwa [e] at this


theorem optAll_some {α : Type} (l : List (Option α)) (r : List α) :
    optAll l = some r ↔ List.Forall₂ (fun o a => o = some a) l r := by
  induction l generalizing r with
  | nil => cases r <;> simp [optAll]
  | cons o l ih =>
    cases o with
    | none =>
      simp only [optAll, reduceCtorEq, false_iff]
      intro h; cases h with | cons h1 _ => simp at h1
    | some a =>
      simp only [optAll, Option.map_eq_some_iff]
      constructor
      · rintro ⟨r', hr', rfl⟩
        exact List.Forall₂.cons rfl ((ih r').1 hr')
      · intro h
        cases h with
        | cons h1 h2 =>
          simp only [Option.some.injEq] at h1
          subst h1
          exact ⟨_, (ih _).2 h2, rfl⟩

/-- the relation between the multi-choices and the slots that `all_variants` enumerates -/
def SlotsOf (s : Seq) : List Choice → List (List (Nat × Seq)) → Prop :=
  List.Forall₂ (fun c slot => ∃ ws : List Seq, ws.Perm c.variants ∧ (c.seg s ∈ c.variants → ws.head? = some (c.seg s)) ∧ slot = ws.map (fun v => (c.start, v)))

theorem slots_assigns (s : Seq) (mc : List Choice) (slots : List (List (Nat × Seq))) (hs : SlotsOf s mc slots)
    (combo : List (Nat × Seq)) : List.Forall₂ (· ∈ ·) combo slots ↔ Assigns combo mc := by
  induction hs generalizing combo with
  | nil =>
    constructor
    · intro h; cases h; exact List.Forall₂.nil
    · intro h; cases h; exact List.Forall₂.nil
  | @cons c slot mc slots hc hrest ih =>
    obtain ⟨ws, hperm, _, rfl⟩ := hc
    constructor
    · intro h
      cases h with
      | @cons m _ combo' _ hm hr =>
        simp only [List.mem_map] at hm
        obtain ⟨v, hv, rfl⟩ := hm
        exact List.Forall₂.cons ⟨rfl, hperm.mem_iff.1 hv⟩ ((ih combo').1 hr)
    · intro h
      cases h with
      | @cons m _ combo' _ hm hr =>
        refine List.Forall₂.cons ?_ ((ih combo').2 hr)
        simp only [List.mem_map]
        exact ⟨m.2, hperm.mem_iff.2 hm.2, by rw [← hm.1]⟩

theorem slots_lengths (s : Seq) (mc : List Choice) (slots : List (List (Nat × Seq))) (hs : SlotsOf s mc slots) :
    slots.map List.length = mc.map (·.variants.length) := by
  induction hs with
  | nil => rfl
  | @cons c slot mc slots hc hrest ih =>
    obtain ⟨ws, hperm, _, rfl⟩ := hc
    simp [ih, hperm.length_eq]

theorem slots_nodup (s : Seq) (mc : List Choice) (slots : List (List (Nat × Seq))) (hs : SlotsOf s mc slots)
    (n : Nat) (hm : MCFits n mc) : ∀ l ∈ slots, l.Nodup := by
  induction hs with
  | nil => simp
  | @cons c slot mc slots hc hrest ih =>
    obtain ⟨ws, hperm, _, rfl⟩ := hc
    obtain ⟨_, _, _, h4, _, h6⟩ := hm
    intro l hl
    rcases List.mem_cons.1 hl with rfl | hl
    · exact (hperm.nodup_iff.2 h4).map (fun a b hab => by simpa using hab)
    · exact ih h6 l hl

theorem slots_heads (s : Seq) (mc : List Choice) (slots : List (List (Nat × Seq))) (hs : SlotsOf s mc slots)
    (hin : ∀ c ∈ mc, c.seg s ∈ c.variants) :
    List.Forall₂ (fun h l => l.head? = some h) (mc.map (fun c => (c.start, c.seg s))) slots := by
  induction hs with
  | nil => exact List.Forall₂.nil
  | @cons c slot mc slots hc hrest ih =>
    obtain ⟨ws, hperm, hhead, rfl⟩ := hc
    have hh := hhead (hin c (by simp))
    refine List.Forall₂.cons ?_ (ih (fun d hd => hin d (by simp [hd])))
    cases ws with
    | nil => simp at hh
    | cons w ws => simp at hh ⊢; exact hh

theorem allVariants_slots (sp : Space) (s : Seq) (vs : List Seq) (h : sp.allVariants s = .ok vs) :
    ∃ slots, SlotsOf s sp.multichoices slots ∧ vs = (cartesian slots).map (applyMuts s) := by
  simp only [allVariants] at h
  split at h
  · rename_i hspan
    have hmc : sp.multichoices = [] := by
      simp only [choicesSpan] at hspan
      cases hm : sp.multichoices with
      | nil => rfl
      | cons a l =>
        rw [hm] at hspan
        cases hl : (a :: l).getLast? with
        | none => simp at hl
        | some b => simp [hl] at hspan
    simp only [Except.ok.injEq] at h
    refine ⟨[], by rw [hmc]; exact List.Forall₂.nil, ?_⟩
    simp [cartesian, applyMuts, ← h]
  · simp only [Except.ok.injEq] at h
    refine ⟨_, ?_, h.symm⟩
    rw [SlotsOf, List.forall₂_map_right_iff]
    refine List.forall₂_same.2 ?_
    intro c _
    have := variantsByDistance_spec c s
    exact ⟨variantsByDistance c s, this.1, this.2, rfl⟩

theorem readback_mem (u : Seq) (combo : List (Nat × Seq)) (mc : List Choice) (ha : Assigns combo mc)
    (r2 : List.Forall₂ (fun m c => c.seg u = m.2) combo mc) : ∀ c ∈ mc, c.seg u ∈ c.variants := by
  induction ha with
  | nil => simp
  | @cons m d combo' mc' hmd hrest ih =>
    cases r2 with
    | cons a1 a2 =>
      intro c hc
      rcases List.mem_cons.1 hc with rfl | hc
      · rw [a1]; exact hmd.2
      · exact ih a2 c hc

theorem assigns_of_seg (t : Seq) (mc : List Choice) (h2 : ∀ c ∈ mc, c.seg t ∈ c.variants) :
    Assigns (mc.map (fun c => (c.start, c.seg t))) mc := by
  induction mc with
  | nil => exact List.Forall₂.nil
  | cons c mc ih => exact List.Forall₂.cons ⟨rfl, h2 c (by simp)⟩ (ih (fun c hc => h2 c (by simp [hc])))

/-- **`all_variants`**: every combination of choices exactly once, starting with the current
    sequence, differing from it only inside the multi-variant choices -/
theorem allVariants_enumerates (sp : Space) (s : Seq) (vs : List Seq)
    (hwf : MCFits s.length sp.multichoices) (h : sp.allVariants s = .ok vs) :
    vs.length = (sp.multichoices.map (·.variants.length)).foldr (· * ·) 1 ∧ vs.Nodup ∧
    ((∀ c ∈ sp.multichoices, c.seg s ∈ c.variants) → vs.head? = some s) ∧
    ∀ t, t ∈ vs ↔ (t.length = s.length ∧ (∀ c ∈ sp.multichoices, c.seg t ∈ c.variants) ∧
      ∀ i, (∀ c ∈ sp.multichoices, ¬ (c.start ≤ i ∧ i < c.stop)) → t[i]? = s[i]?) := by
  obtain ⟨slots, hslots, rfl⟩ := allVariants_slots sp s vs h
  have hass := slots_assigns s _ slots hslots
  refine ⟨?_, ?_, ?_, ?_⟩
  · rw [List.length_map, Cart.length_cartesian, slots_lengths s _ slots hslots]
  · apply List.Nodup.map_on
    · intro a ha b hb hab
      rw [Cart.mem_cartesian, hass] at ha hb
      exact applyMuts_injective s _ hwf a b ha hb hab
    · exact Cart.nodup_cartesian slots (slots_nodup s _ slots hslots _ hwf)
  · intro hin
    have hh := slots_heads s _ slots hslots hin
    rw [List.head?_map, Cart.head_cartesian slots _ hh]
    simp only [Option.map_some, Option.some.injEq]
    exact applyMuts_seg_id s s _ hwf rfl hin (fun _ _ => rfl)
  · intro t
    simp only [List.mem_map]
    constructor
    · rintro ⟨combo, hc, rfl⟩
      rw [Cart.mem_cartesian, hass] at hc
      obtain ⟨r1, r2, r3⟩ := applyMuts_readback s combo _ hwf hc
      refine ⟨r1, ?_, r3⟩
      exact readback_mem _ combo _ hc r2
    · rintro ⟨h1, h2, h3⟩
      refine ⟨sp.multichoices.map (fun c => (c.start, c.seg t)), ?_, applyMuts_seg_id s t _ hwf h1 h2 h3⟩
      rw [Cart.mem_cartesian, hass]
      exact assigns_of_seg t _ h2


/-- splices that fit in `n` and have pairwise disjoint ranges (in any order) -/
def Disj (n : Nat) (muts : List (Nat × Seq)) : Prop :=
  (∀ m ∈ muts, m.1 + m.2.length ≤ n) ∧
  muts.Pairwise (fun a b => a.1 + a.2.length ≤ b.1 ∨ b.1 + b.2.length ≤ a.1)

theorem applyMuts_disj (s : Seq) (muts : List (Nat × Seq)) (h : Disj s.length muts) :
    (applyMuts s muts).length = s.length ∧
    (∀ m ∈ muts, ∀ k, k < m.2.length → (applyMuts s muts)[m.1 + k]? = m.2[k]?) ∧
    (∀ i, (∀ m ∈ muts, ¬ (m.1 ≤ i ∧ i < m.1 + m.2.length)) → (applyMuts s muts)[i]? = s[i]?) := by
  induction muts generalizing s with
  | nil => simp [applyMuts]
  | cons m rest ih =>
    obtain ⟨hf, hp⟩ := h
    rw [List.pairwise_cons] at hp
    have hfit := hf m (by simp)
    have hsl := splice_length s m.1 m.2 hfit
    have ih' := ih (splice s m.1 m.2) ⟨by rw [hsl]; exact fun r hr => hf r (by simp [hr]), hp.2⟩
    have e : applyMuts s (m :: rest) = applyMuts (splice s m.1 m.2) rest := rfl
    rw [e]
    obtain ⟨i1, i2, i3⟩ := ih'
    refine ⟨by rw [i1, hsl], ?_, ?_⟩
    · intro r hr k hk
      rcases List.mem_cons.1 hr with rfl | hr
      · rw [i3 (r.1 + k) (by intro q hq; have := hp.1 q hq; omega)]
        rw [splice_getElem? s r.1 r.2 hfit, if_pos (by omega)]
        congr 1; omega
      · exact i2 r hr k hk
    · intro i hi
      rw [i3 i (fun r hr => hi r (by simp [hr]))]
      rw [splice_getElem? s m.1 m.2 hfit, if_neg (hi m (by simp))]

/-- `random_variant` returns an allowed variant different from the current sub-sequence and
    consumes exactly one tape entry -/
theorem randomVariant_spec (c : Choice) (s : Seq) (t t' : Tape) (v : Seq)
    (h : c.randomVariant s t = .ok (v, t')) :
    v ∈ c.variants ∧ v ≠ c.seg s ∧ ∃ x, t = x :: t' := by
  simp only [randomVariant] at h
  split at h
  · simp at h
  · rename_i i t'' hdraw
    split at h
    · rename_i w hw
      simp only [Except.ok.injEq, Prod.mk.injEq] at h
      obtain ⟨rfl, rfl⟩ := h
      have hmem : w ∈ sortSeqs (c.variants.filter (· != c.seg s)) := List.mem_of_getElem? hw
      rw [(sortSeqs_perm _).mem_iff, List.mem_filter] at hmem
      refine ⟨hmem.1, by simpa using hmem.2, ?_⟩
      simp only [drawInt] at hdraw
      cases t with
      | nil => simp at hdraw
      | cons x xs =>
        simp only at hdraw
        split at hdraw
        · simp only [Except.ok.injEq, Prod.mk.injEq] at hdraw
          exact ⟨x, by rw [hdraw.2]⟩
        · simp at hdraw
    · simp at h

/-- the mutations drawn for a list of choices: one allowed, different variant per choice, in order -/
theorem randomVariants_spec (cs : List Choice) (s : Seq) (t t' : Tape) (muts : List (Nat × Seq))
    (h : randomVariants cs s t = .ok (muts, t')) :
    List.Forall₂ (fun m c => m.1 = c.start ∧ m.2 ∈ c.variants ∧ m.2 ≠ c.seg s) muts cs ∧
    t.length = t'.length + cs.length := by
  induction cs generalizing t muts with
  | nil =>
    simp only [randomVariants, Except.ok.injEq, Prod.mk.injEq] at h
    obtain ⟨rfl, rfl⟩ := h
    exact ⟨List.Forall₂.nil, rfl⟩
  | cons c cs ih =>
    simp only [randomVariants] at h
    split at h
    · simp at h
    · rename_i v t1 hv
      split at h
      · simp at h
      · rename_i r t2 hr
        simp only [Except.ok.injEq, Prod.mk.injEq] at h
        obtain ⟨rfl, rfl⟩ := h
        obtain ⟨h1, h2, x, rfl⟩ := randomVariant_spec c s t t1 v hv
        obtain ⟨i1, i2⟩ := ih t1 r hr
        exact ⟨List.Forall₂.cons ⟨rfl, h1, h2⟩ i1, by simp [i2]; omega⟩


def ChoicesFit (n : Nat) : List Choice → Prop
  | [] => True
  | c :: rest => c.stop ≤ n ∧ c.start < c.stop ∧ (∀ v ∈ c.variants, v.length = c.stop - c.start) ∧
      c.variants.Nodup ∧ (∀ r ∈ rest, c.stop ≤ r.start) ∧ ChoicesFit n rest

theorem fits_mem (n : Nat) (cs : List Choice) (h : ChoicesFit n cs) (c : Choice) (hc : c ∈ cs) :
    c.stop ≤ n ∧ c.start < c.stop ∧ (∀ v ∈ c.variants, v.length = c.stop - c.start) ∧ c.variants.Nodup := by
  induction cs with
  | nil => simp at hc
  | cons d cs ih =>
    obtain ⟨h1, h2, h3, h4, h5, h6⟩ := h
    rcases List.mem_cons.1 hc with rfl | hc
    · exact ⟨h1, h2, h3, h4⟩
    · exact ih h6 hc

theorem fits_pairwise (n : Nat) (cs : List Choice) (h : ChoicesFit n cs) :
    cs.Pairwise (fun a b => a.stop ≤ b.start) := by
  induction cs with
  | nil => exact List.Pairwise.nil
  | cons d cs ih =>
    obtain ⟨h1, h2, h3, h4, h5, h6⟩ := h
    exact List.Pairwise.cons h5 (ih h6)

theorem fits_filter (n : Nat) (cs : List Choice) (p : Choice → Bool) (h : ChoicesFit n cs) :
    ChoicesFit n (cs.filter p) := by
  induction cs with
  | nil => exact h
  | cons d cs ih =>
    obtain ⟨h1, h2, h3, h4, h5, h6⟩ := h
    simp only [List.filter_cons]
    split
    · exact ⟨h1, h2, h3, h4, fun r hr => h5 r (List.mem_filter.1 hr).1, ih h6⟩
    · exact ih h6

theorem fits_disjoint (n : Nat) (cs : List Choice) (h : ChoicesFit n cs) (a b : Choice)
    (ha : a ∈ cs) (hb : b ∈ cs) (hab : a ≠ b) : a.stop ≤ b.start ∨ b.stop ≤ a.start := by
  have hp := fits_pairwise n cs h
  induction cs with
  | nil => simp at ha
  | cons d cs ih =>
    obtain ⟨h1, h2, h3, h4, h5, h6⟩ := h
    rw [List.pairwise_cons] at hp
    rcases List.mem_cons.1 ha with ha' | ha' <;> rcases List.mem_cons.1 hb with hb' | hb'
    · exact absurd (ha'.trans hb'.symm) hab
    · rw [ha']; exact Or.inl (hp.1 b hb')
    · rw [hb']; exact Or.inr (hp.1 a ha')
    · exact ih h6 ha' hb' hp.2

theorem fits_nodup (n : Nat) (cs : List Choice) (h : ChoicesFit n cs) : cs.Nodup := by
  induction cs with
  | nil => exact List.nodup_nil
  | cons d cs ih =>
    obtain ⟨h1, h2, h3, h4, h5, h6⟩ := h
    rw [List.nodup_cons]
    refine ⟨?_, ih h6⟩
    intro hd
    have := h5 d hd; omega

theorem dedup_length_le {α : Type} [BEq α] (l : List α) : (dedup l).length ≤ l.length := by
  induction l with
  | nil => simp [dedup]
  | cons a as ih => simp only [dedup]; split <;> simp <;> omega

theorem nodup_of_dedup_length (l : List Nat) (h : (dedup l).length = l.length) : l.Nodup := by
  induction l with
  | nil => exact List.nodup_nil
  | cons a as ih =>
    simp only [dedup] at h
    split at h
    · have := dedup_length_le as; simp at h; omega
    · rename_i hc
      simp only [List.length_cons, Nat.add_right_cancel_iff] at h
      rw [List.nodup_cons]
      exact ⟨by simpa using hc, ih h⟩

/-- what `pick_random_mutations` returns: one mutation per chosen choice, the chosen choices
    being `min(n, #multichoices)` distinct multi-choices -/
theorem pickRandomMutations_spec (sp : Space) (n : Nat) (s : Seq) (t t' : Tape) (muts : List (Nat × Seq))
    (hmcn : sp.multichoices.Nodup)
    (h : sp.pickRandomMutations n s t = .ok (muts, t')) :
    ∃ chosen : List Choice, chosen.Nodup ∧ (∀ c ∈ chosen, c ∈ sp.multichoices) ∧
      chosen.length = min sp.multichoices.length n ∧
      List.Forall₂ (fun m c => m.1 = c.start ∧ m.2 ∈ c.variants ∧ m.2 ≠ c.seg s) muts chosen := by
  simp only [pickRandomMutations] at h
  split at h
  · rename_i hk
    simp only [beq_iff_eq] at hk
    split at h
    · simp at h
    · rename_i i t1 hdraw
      split at h
      · rename_i c hc
        have := randomVariants_spec [c] s t1 t' muts h
        exact ⟨[c], by simp, by intro d hd; simp at hd; subst hd; exact List.mem_of_getElem? hc,
          by simp [hk], this.1⟩
      · simp at h
  · split at h
    · simp at h
    · rename_i is t1 hdraw
      have hspec := randomVariants_spec _ s t1 t' muts h
      refine ⟨is.filterMap (fun i => sp.multichoices[i]?), ?_, ?_, ?_, hspec.1⟩
      all_goals
        simp only [drawDistinct] at hdraw
        split at hdraw
        swap
        · simp at hdraw
        rename_i hcond
        simp only [Except.ok.injEq, Prod.mk.injEq] at hdraw
        obtain ⟨rfl, _⟩ := hdraw
        simp only [Bool.and_eq_true, beq_iff_eq, List.all_eq_true, decide_eq_true_eq] at hcond
        obtain ⟨⟨hlen, hall⟩, hded⟩ := hcond
      · -- nodup
        have hnd : (t.take (min sp.multichoices.length n)).Nodup :=
          nodup_of_dedup_length _ (by rw [hded, hlen])
        apply List.Nodup.filterMap _ hnd
        intro a a' b hb hb'
        simp only [Option.mem_def] at hb hb'
        have h1 := List.getElem?_eq_some_iff.1 hb
        have h2 := List.getElem?_eq_some_iff.1 hb'
        obtain ⟨ha, e1⟩ := h1
        obtain ⟨ha', e2⟩ := h2
        exact (List.Nodup.getElem_inj_iff hmcn).1 (e1.trans e2.symm)
      · intro c hc
        simp only [List.mem_filterMap] at hc
        obtain ⟨i, _, hi⟩ := hc
        exact List.mem_of_getElem? hi
      · -- length: every index is valid
        have : ∀ l : List Nat, (∀ x ∈ l, x < sp.multichoices.length) →
            (l.filterMap (fun i => sp.multichoices[i]?)).length = l.length := by
          intro l hl
          induction l with
          | nil => rfl
          | cons x xs ih =>
            have hx := hl x (by simp)
            simp only [List.filterMap_cons, List.getElem?_eq_getElem hx, List.length_cons]
            rw [ih (fun y hy => hl y (by simp [hy]))]
        rw [this _ hall, hlen]


theorem forall₂_pairwise {α β : Type} {R : α → β → Prop} {P : β → β → Prop} {Q : α → α → Prop}
    (as : List α) (bs : List β) (h : List.Forall₂ R as bs) (hp : bs.Pairwise P)
    (hq : ∀ a b a' b', R a b → R a' b' → b ∈ bs → b' ∈ bs → P b b' → Q a a') : as.Pairwise Q := by
  induction h with
  | nil => exact List.Pairwise.nil
  | @cons a b as bs hab hrest ih =>
    rw [List.pairwise_cons] at hp
    refine List.Pairwise.cons ?_ (ih hp.2 (fun a b a' b' h1 h2 m1 m2 => hq a b a' b' h1 h2 (by simp [m1]) (by simp [m2])))
    intro a' ha'
    obtain ⟨b', hb', hr'⟩ : ∃ b' ∈ bs, R a' b' := by
      clear ih hp hq
      induction hrest with
      | nil => simp at ha'
      | @cons x y _ _ hxy _ ih2 =>
        rcases List.mem_cons.1 ha' with rfl | ha'
        · exact ⟨y, by simp, hxy⟩
        · obtain ⟨z, hz, hz2⟩ := ih2 ha'
          exact ⟨z, by simp [hz], hz2⟩
    exact hq a b a' b' hab hr' (by simp) (by simp [hb']) (hp.1 b' hb')

theorem forall₂_mem_left {α β : Type} {R : α → β → Prop} (as : List α) (bs : List β)
    (h : List.Forall₂ R as bs) (a : α) (ha : a ∈ as) : ∃ b ∈ bs, R a b := by
  induction h with
  | nil => simp at ha
  | @cons x y _ _ hxy _ ih =>
    rcases List.mem_cons.1 ha with rfl | ha
    · exact ⟨y, by simp, hxy⟩
    · obtain ⟨z, hz, hz2⟩ := ih ha
      exact ⟨z, by simp [hz], hz2⟩

theorem forall₂_mem_right {α β : Type} {R : α → β → Prop} (as : List α) (bs : List β)
    (h : List.Forall₂ R as bs) (b : β) (hb : b ∈ bs) : ∃ a ∈ as, R a b := by
  induction h with
  | nil => simp at hb
  | @cons x y _ _ hxy _ ih =>
    rcases List.mem_cons.1 hb with rfl | hb
    · exact ⟨x, by simp, hxy⟩
    · obtain ⟨z, hz, hz2⟩ := ih hb
      exact ⟨z, by simp [hz], hz2⟩

/-- **`apply_random_mutations(n, sequence)`** changes exactly `min(n, #multi-variant choices)`
    distinct choices, each to an allowed variant different from the current one, keeps the
    length, and touches nothing outside the chosen choices — for every valid tape -/
theorem applyRandomMutations_spec (sp : Space) (n : Nat) (s : Seq) (t t' : Tape) (r : Seq)
    (hfit : ChoicesFit s.length sp.multichoices)
    (h : sp.applyRandomMutations n s t = .ok (r, t')) :
    r.length = s.length ∧
    ∃ chosen : List Choice, chosen.Nodup ∧ (∀ c ∈ chosen, c ∈ sp.multichoices) ∧
      chosen.length = min sp.multichoices.length n ∧
      (∀ c ∈ chosen, c.seg r ∈ c.variants ∧ c.seg r ≠ c.seg s) ∧
      (∀ i, (∀ c ∈ chosen, ¬ (c.start ≤ i ∧ i < c.stop)) → r[i]? = s[i]?) := by
  simp only [applyRandomMutations] at h
  split at h
  · simp at h
  · rename_i muts t1 hpick
    simp only [Except.ok.injEq, Prod.mk.injEq] at h
    obtain ⟨rfl, rfl⟩ := h
    obtain ⟨chosen, hnd, hsub, hlen, hf2⟩ :=
      pickRandomMutations_spec sp n s t t1 muts (fits_nodup _ _ hfit) hpick
    have hlenm : ∀ (m : Nat × Seq) (c : Choice), (m.1 = c.start ∧ m.2 ∈ c.variants ∧ m.2 ≠ c.seg s) → c ∈ sp.multichoices →
        m.2.length = c.stop - c.start ∧ c.stop ≤ s.length ∧ c.start < c.stop := by
      intro m c hmc hc
      have := fits_mem _ _ hfit c hc
      exact ⟨this.2.2.1 _ hmc.2.1, this.1, this.2.1⟩
    have hdisj : Disj s.length muts := by
      constructor
      · intro m hm
        obtain ⟨c, hc, hmc⟩ := forall₂_mem_left _ _ hf2 m hm
        have := hlenm m c hmc (hsub c hc)
        rw [hmc.1, this.1]; omega
      · apply forall₂_pairwise muts chosen hf2 hnd
        intro a b a' b' h1 h2 m1 m2 hne
        have l1 := hlenm a b h1 (hsub b m1)
        have l2 := hlenm a' b' h2 (hsub b' m2)
        have := fits_disjoint _ _ hfit b b' (hsub b m1) (hsub b' m2) hne
        rw [h1.1, h2.1, l1.1, l2.1]; omega
    obtain ⟨r1, r2, r3⟩ := applyMuts_disj s muts hdisj
    have e : muts.foldl (fun acc m => splice acc m.1 m.2) s = applyMuts s muts := rfl
    rw [e]
    refine ⟨r1, chosen, hnd, hsub, hlen, ?_, ?_⟩
    · intro c hc
      obtain ⟨m, hm, hmc⟩ := forall₂_mem_right _ _ hf2 c hc
      have l := hlenm m c hmc (hsub c hc)
      have hseg : c.seg (applyMuts s muts) = m.2 := by
        apply List.ext_getElem?
        intro k
        rw [seg_getElem?]
        by_cases hk : k < c.stop - c.start
        · simp only [hk, if_true]
          rw [← hmc.1]; exact r2 m hm k (by omega)
        · simp only [hk, if_false]
          symm; rw [List.getElem?_eq_none_iff]; omega
      rw [hseg]; exact ⟨hmc.2.1, hmc.2.2⟩
    · intro i hi
      apply r3
      intro m hm
      obtain ⟨c, hc, hmc⟩ := forall₂_mem_left _ _ hf2 m hm
      have l := hlenm m c hmc (hsub c hc)
      have := hi c hc
      rw [hmc.1, l.1]; omega


theorem pySlice_nat' {α : Type} (s : List α) (a b : Nat) (hab : a ≤ b) (hb : b ≤ s.length) :
    pySlice s (a : Int) (b : Int) = (s.drop a).take (b - a) := by
  simp only [pySlice, pyIndex]
  have h1 : ¬ ((a : Int) < 0) := by omega
  have h2 : ¬ ((b : Int) < 0) := by omega
  have h3 : ¬ ((a : Int) > (s.length : Int)) := by omega
  have h4 : ¬ ((b : Int) > (s.length : Int)) := by omega
  simp [h1, h2, h3, h4]

/-- segments are determined by the characters in their range -/
theorem seg_congr (c : Choice) (t u : Seq) (h : ∀ i, c.start ≤ i → i < c.stop → t[i]? = u[i]?) :
    c.seg t = c.seg u := by
  apply List.ext_getElem?
  intro k
  rw [seg_getElem?, seg_getElem?]
  split
  · exact h _ (by omega) (by omega)
  · rfl

theorem seg_splice_self (c : Choice) (t v : Seq) (hv : v.length = c.stop - c.start) (hc : c.stop ≤ t.length)
    (hlt : c.start ≤ c.stop) : c.seg (splice t c.start v) = v := by
  apply List.ext_getElem?
  intro k
  rw [seg_getElem?]
  split
  · rename_i hk
    rw [splice_getElem? t c.start v (by omega), if_pos (by omega)]
    congr 1; omega
  · rename_i hk
    symm; rw [List.getElem?_eq_none_iff]; omega

theorem splice_seg_id (c : Choice) (t : Seq) (hc : c.stop ≤ t.length) (hlt : c.start ≤ c.stop) :
    splice t c.start (c.seg t) = t := by
  have hl : (c.seg t).length = c.stop - c.start := by
    simp only [Choice.seg, List.length_take, List.length_drop]; omega
  apply List.ext_getElem?
  intro i
  rw [splice_getElem? t c.start _ (by omega)]
  split
  · rename_i hi
    rw [seg_getElem?, if_pos (by omega)]
    congr 1; omega
  · rfl

/-- the loop of `constrain_sequence`, generalised over its state -/
theorem constrainLoop_spec (n : Nat) (cs : List Choice) (orig acc : Seq) (t t' : Tape) (r : Seq)
    (hfit : ChoicesFit n cs) (hlo : orig.length = n) (hla : acc.length = n)
    (hagree : ∀ c ∈ cs, c.seg acc = c.seg orig)
    (h : constrainLoop cs orig acc t = .ok (r, t')) :
    r.length = n ∧
    (∀ c ∈ cs, c.seg r ∈ c.variants ∧ (c.seg orig ∈ c.variants → c.seg r = c.seg orig)) ∧
    (∀ i, (∀ c ∈ cs, ¬ (c.start ≤ i ∧ i < c.stop)) → r[i]? = acc[i]?) := by
  induction cs generalizing acc t with
  | nil =>
    simp only [constrainLoop, Except.ok.injEq, Prod.mk.injEq] at h
    obtain ⟨rfl, rfl⟩ := h
    exact ⟨hla, by simp, fun _ _ => rfl⟩
  | cons c cs ih =>
    obtain ⟨h1, h2, h3, h4, h5, h6⟩ := hfit
    have hsegc : c.seg acc = c.seg orig := hagree c (by simp)
    have hpy : pySlice orig (c.start : Int) (c.stop : Int) = c.seg orig := by
      rw [pySlice_nat' orig c.start c.stop (by omega) (by omega)]; rfl
    -- common continuation after writing variant `v` (possibly none written)
    have cont : ∀ (acc' : Seq) (t1 : Tape), acc'.length = n →
        (∀ i, ¬ (c.start ≤ i ∧ i < c.stop) → acc'[i]? = acc[i]?) →
        c.seg acc' ∈ c.variants → (c.seg orig ∈ c.variants → c.seg acc' = c.seg orig) →
        constrainLoop cs orig acc' t1 = .ok (r, t') →
        r.length = n ∧
        (∀ d ∈ c :: cs, d.seg r ∈ d.variants ∧ (d.seg orig ∈ d.variants → d.seg r = d.seg orig)) ∧
        (∀ i, (∀ d ∈ c :: cs, ¬ (d.start ≤ i ∧ i < d.stop)) → r[i]? = acc[i]?) := by
      intro acc' t1 hl' hout hin hkeep hrec
      have hagree' : ∀ d ∈ cs, d.seg acc' = d.seg orig := by
        intro d hd
        rw [← hagree d (by simp [hd])]
        apply seg_congr
        intro i hi1 hi2
        apply hout
        have := h5 d hd; omega
      obtain ⟨r1, r2, r3⟩ := ih acc' t1 h6 hl' hagree' hrec
      have hcr : c.seg r = c.seg acc' := by
        apply seg_congr
        intro i hi1 hi2
        apply r3
        intro d hd
        have := h5 d hd; omega
      refine ⟨r1, ?_, ?_⟩
      · intro d hd
        rcases List.mem_cons.1 hd with rfl | hd
        · rw [hcr]; exact ⟨hin, hkeep⟩
        · exact r2 d hd
      · intro i hi
        rw [r3 i (fun d hd => hi d (by simp [hd]))]
        exact hout i (hi c (by simp))
    simp only [constrainLoop] at h
    split at h
    · simp at h
    · rename_i v hv
      have hvl : v.length = c.stop - c.start := h3 v (by rw [hv]; simp)
      apply cont (splice acc c.start v) t (by rw [splice_length _ _ _ (by omega)]; exact hla)
      · intro i hi
        rw [splice_getElem? acc c.start v (by omega), if_neg (by omega)]
      · rw [seg_splice_self c acc v hvl (by omega) (by omega), hv]; simp
      · intro hmem
        rw [hv] at hmem
        simp only [List.mem_singleton] at hmem
        rw [seg_splice_self c acc v hvl (by omega) (by omega), hmem]
      · exact h
    · rename_i hne0 hne1
      split at h
      · rename_i hcont
        rw [hpy] at hcont
        have hmem : c.seg orig ∈ c.variants := by simpa using hcont
        apply cont acc t hla (fun _ _ => rfl) (by rw [hsegc]; exact hmem) (fun _ => hsegc) h
      · rename_i hcont
        rw [hpy] at hcont
        have hnmem : c.seg orig ∉ c.variants := by simpa using hcont
        split at h
        · simp at h
        · rename_i i t1 hdraw
          split at h
          · rename_i v hv
            have hvm : v ∈ c.variants := (sortSeqs_perm _).mem_iff.1 (List.mem_of_getElem? hv)
            have hvl : v.length = c.stop - c.start := h3 v hvm
            apply cont (splice acc c.start v) t1 (by rw [splice_length _ _ _ (by omega)]; exact hla)
            · intro i hi
              rw [splice_getElem? acc c.start v (by omega), if_neg (by omega)]
            · rw [seg_splice_self c acc v hvl (by omega) (by omega)]; exact hvm
            · intro hmem; exact absurd hmem hnmem
            · exact h
          · simp at h


/-- constraining a sequence that is already in the space changes nothing and draws nothing -/
theorem constrainLoop_noop (cs : List Choice) (s : Seq) (t : Tape)
    (hfit : ChoicesFit s.length cs) (hin : ∀ c ∈ cs, c.seg s ∈ c.variants) :
    constrainLoop cs s s t = .ok (s, t) := by
  induction cs with
  | nil => rfl
  | cons c cs ih =>
    obtain ⟨h1, h2, h3, h4, h5, h6⟩ := hfit
    have hc := hin c (by simp)
    have ih' := ih h6 (fun d hd => hin d (by simp [hd]))
    have hpy : pySlice s (c.start : Int) (c.stop : Int) = c.seg s := by
      rw [pySlice_nat' s c.start c.stop (by omega) (by omega)]; rfl
    simp only [constrainLoop]
    split
    · rename_i hv; rw [hv] at hc; simp at hc
    · rename_i v hv
      rw [hv] at hc
      simp only [List.mem_singleton] at hc
      rw [← hc, splice_seg_id c s h1 (by omega)]
      exact ih'
    · rw [hpy]
      have : c.variants.contains (c.seg s) = true := by simpa using hc
      simp only [this, if_true]
      exact ih'

theorem mem_dedupConsecutive (l : List (Option Choice)) (last : Option Choice) (c : Choice) :
    (c ∈ dedupConsecutive l last ∨ last = some c) ↔ (some c ∈ l ∨ last = some c) := by
  induction l generalizing last with
  | nil => simp [dedupConsecutive]
  | cons o rest ih =>
    cases o with
    | none =>
      simp only [dedupConsecutive, List.mem_cons, reduceCtorEq, false_or]
      exact ih last
    | some d =>
      simp only [dedupConsecutive]
      split
      · rename_i hl
        have hl' : last = some d := by simpa using hl
        rw [ih last]
        simp only [List.mem_cons, Option.some.injEq]
        constructor
        · rintro (h | h)
          · exact Or.inl (Or.inr h)
          · exact Or.inr h
        · rintro ((h | h) | h)
          · right; rw [hl', h]
          · exact Or.inl h
          · exact Or.inr h
      · simp only [List.mem_cons, Option.some.injEq]
        have := ih (some d)
        simp only [Option.some.injEq] at this
        constructor
        · rintro ((h | h) | h)
          · exact Or.inl (Or.inl h)
          · rcases this.1 (Or.inl h) with h' | h'
            · exact Or.inl (Or.inr h')
            · exact Or.inl (Or.inl h'.symm)
          · exact Or.inr h
        · rintro ((h | h) | h)
          · exact Or.inl (Or.inl h)
          · rcases this.2 (Or.inl h) with h' | h'
            · exact Or.inl (Or.inr h')
            · exact Or.inl (Or.inl h'.symm)
          · exact Or.inr h

theorem mem_choicesList (sp : Space) (c : Choice) : c ∈ sp.choicesList ↔ some c ∈ sp.index := by
  have := mem_dedupConsecutive sp.index none c
  simpa [choicesList] using this

/-- **`localized(location)`** keeps exactly the choices that govern some position of the
    location (`choices_index[start:end]`), and pads the left with `start` empty positions -/
theorem localized_choices (sp : Space) (a b : Nat) (hab : a ≤ b) (c : Choice) :
    c ∈ (sp.localized a b).choicesList ↔ ∃ i, a ≤ i ∧ i < b ∧ sp.index[i]? = some (some c) := by
  rw [mem_choicesList]
  simp only [Space.localized, Space.ofIndex, List.mem_append, List.mem_replicate, reduceCtorEq, and_false, false_or,
    Int.toNat_natCast]
  have hslice : pySlice sp.index (a : Int) (b : Int) = (sp.index.drop a).take (b - a) := by
    by_cases hb : b ≤ sp.index.length
    · exact pySlice_nat' _ a b hab hb
    · simp only [pySlice, pyIndex]
      have h1 : ¬ ((a : Int) < 0) := by omega
      have h2 : ¬ ((b : Int) < 0) := by omega
      have h4 : ((b : Int) > (sp.index.length : Int)) := by omega
      simp only [h1, h2, h4, if_false, if_true]
      by_cases h3 : ((a : Int) > (sp.index.length : Int))
      · simp only [h3, if_true]
        rw [List.drop_eq_nil_of_le (by omega), List.drop_eq_nil_of_le (by omega)]; simp
      · simp only [h3, if_false, Int.toNat_natCast]
        rw [List.take_of_length_le (by simp only [List.length_drop]; omega), List.take_of_length_le (by simp only [List.length_drop]; omega)]
  rw [hslice, List.mem_iff_getElem?]
  constructor
  · rintro ⟨k, hk⟩
    rw [List.getElem?_take] at hk
    split at hk
    · rename_i hkb
      rw [List.getElem?_drop] at hk
      exact ⟨a + k, by omega, by omega, hk⟩
    · simp at hk
  · rintro ⟨i, h1, h2, h3⟩
    refine ⟨i - a, ?_⟩
    rw [List.getElem?_take, if_pos (by omega), List.getElem?_drop]
    have : a + (i - a) = i := by omega
    rw [this]; exact h3

theorem localized_padding (sp : Space) (a b : Nat) :
    (sp.localized a b).index.take a = List.replicate a none := by
  simp [Space.localized, Space.ofIndex]


/-! ### wrappers for the public operations -/

/-- `constrain_sequence`: the result has the same length, every choice's segment holds one of
    its variants, compatible segments are kept, positions outside all choices are untouched -/
theorem constrainSequence_spec (sp : Space) (s : Seq) (t t' : Tape) (r : Seq)
    (hfit : ChoicesFit s.length sp.choicesList) (h : sp.constrainSequence s t = .ok (r, t')) :
    r.length = s.length ∧
    (∀ c ∈ sp.choicesList, c.seg r ∈ c.variants ∧ (c.seg s ∈ c.variants → c.seg r = c.seg s)) ∧
    (∀ i, (∀ c ∈ sp.choicesList, ¬ (c.start ≤ i ∧ i < c.stop)) → r[i]? = s[i]?) :=
  constrainLoop_spec s.length sp.choicesList s s t t' r hfit rfl rfl (fun _ _ => rfl) h

/-- `constrain_sequence` is idempotent and the second call draws no random number -/
theorem constrainSequence_idem (sp : Space) (s : Seq) (t t' t2 : Tape) (r : Seq)
    (hfit : ChoicesFit s.length sp.choicesList) (h : sp.constrainSequence s t = .ok (r, t')) :
    sp.constrainSequence r t2 = .ok (r, t2) := by
  obtain ⟨h1, h2, _⟩ := constrainSequence_spec sp s t t' r hfit h
  exact constrainLoop_noop sp.choicesList r t2 (by rw [h1]; exact hfit) (fun c hc => (h2 c hc).1)

/-- a sequence already compatible with the space is returned unchanged, drawing nothing -/
theorem constrainSequence_noop (sp : Space) (s : Seq) (t : Tape)
    (hfit : ChoicesFit s.length sp.choicesList) (hin : ∀ c ∈ sp.choicesList, c.seg s ∈ c.variants) :
    sp.constrainSequence s t = .ok (s, t) :=
  constrainLoop_noop sp.choicesList s t hfit hin

/-- the multi-choices inherit well-formedness from the list of choices -/
theorem multichoices_fit (sp : Space) (n : Nat) (h : ChoicesFit n sp.choicesList) :
    MCFits n sp.multichoices := by
  have := fits_filter n sp.choicesList (fun c => decide (c.variants.length ≥ 2)) h
  simp only [multichoices]
  generalize sp.choicesList.filter (fun c => decide (c.variants.length ≥ 2)) = l at this
  induction l with
  | nil => trivial
  | cons c l ih =>
    obtain ⟨h1, h2, h3, h4, h5, h6⟩ := this
    exact ⟨h1, by omega, h3, h4, h5, ih h6⟩

/-- the reported size is the product of the variant counts (`space_size = exp(min(100, Σ log nᵢ))`
    is compared numerically with this product by the correspondence check) -/
theorem sizeProduct_eq (sp : Space) (h : sp.multichoices ≠ []) :
    sp.sizeProduct = (sp.multichoices.map (·.variants.length)).foldl (· * ·) 1 := by
  simp only [sizeProduct]
  have : sp.multichoices.isEmpty = false := by
    cases hm : sp.multichoices with
    | nil => exact absurd hm h
    | cons _ _ => rfl
  simp [this]

/-! ### non-vacuity -/
def exSpace : Space := Space.ofIndex
  [some ⟨0, 2, ["AT".toList, "TG".toList], false⟩, some ⟨0, 2, ["AT".toList, "TG".toList], false⟩,
   some ⟨2, 3, ["A".toList], false⟩, some ⟨3, 4, ["C".toList, "G".toList, "T".toList], false⟩]
example : ChoicesFit 4 exSpace.choicesList := by
  simp [exSpace, Space.ofIndex, choicesList, dedupConsecutive, ChoicesFit]
#guard exSpace.allVariants "ATAC".toList = .ok ["ATAC".toList, "ATAG".toList, "ATAT".toList, "TGAC".toList, "TGAG".toList, "TGAT".toList]
#guard exSpace.applyRandomMutations 2 "ATAC".toList [1, 0, 0, 0] = .ok ("TGAG".toList, [])
#guard exSpace.constrainSequence "GGGG".toList [1] = .ok ("TGAG".toList, [])

end Dna.C15
