/-
C16 — Genbank annotations define the same problem as the Python API.
Theorems about Model/Label.lean (the label grammar as `from_label` parses it) and the registry generated
from the source (Gen/Tables.lean).  Main results: `parse_render` (parse ∘ render = id for every abstract
label over the documented token alphabet, `:` or `=`), `parse_joined` (`&` lists), `fromLabel_surrounded`
(blanks), `formatAtom_*` (value typing), `registry_shorthands`, `fromFeatures_*` (record collection order).
-/
import DnaModel.Model.Label
import DnaModel.Gen.Tables
import Mathlib.Data.List.Forall2

set_option linter.unusedVariables false
set_option linter.unusedSimpArgs false

namespace Dna.C16
open Dna Dna.Label

/-! ### splitting -/

theorem splitChar_none (sep : Char) (s : Str) (h : sep ∉ s) : splitChar sep s = [s] := by
  induction s with
  | nil => rfl
  | cons c cs ih =>
    have hc : c ≠ sep := fun e => h (by simp [e])
    have := ih (fun m => h (by simp [m]))
    simp [splitChar, hc, this, consHead]

theorem splitChar_append (sep : Char) (a b : Str) (h : sep ∉ a) :
    splitChar sep (a ++ sep :: b) = a :: splitChar sep b := by
  induction a with
  | nil => simp [splitChar]
  | cons c cs ih =>
    have hc : c ≠ sep := fun e => h (by simp [e])
    have := ih (fun m => h (by simp [m]))
    simp [splitChar, hc, this, consHead]

/-- `sep.join(parts)` for a one-character separator -/
def joinChar (sep : Char) : List Str → Str
  | [] => []
  | [t] => t
  | t :: ts => t ++ sep :: joinChar sep ts

theorem splitChar_joinChar (sep : Char) (parts : List Str) (hne : parts ≠ []) (h : ∀ p ∈ parts, sep ∉ p) :
    splitChar sep (joinChar sep parts) = parts := by
  induction parts with
  | nil => exact absurd rfl hne
  | cons t ts ih =>
    cases ts with
    | nil => simpa [joinChar] using splitChar_none sep t (h t (by simp))
    | cons u us =>
      have := ih (by simp) (fun p hp => h p (by simp [hp]))
      simp only [joinChar] at this ⊢
      rw [splitChar_append sep t _ (h t (by simp)), this]

theorem splitCS_none (s : Str) (h : ',' ∉ s) : splitCS s = [s] := by
  induction s with
  | nil => rfl
  | cons c cs ih =>
    have hc : c ≠ ',' := fun e => h (by simp [e])
    have := ih (fun m => h (by simp [m]))
    cases cs with
    | nil => simp [splitCS]
    | cons d ds => simp [splitCS, hc, this, consHead]

theorem splitCS_append (a b : Str) (h : ',' ∉ a) : splitCS (a ++ ',' :: ' ' :: b) = a :: splitCS b := by
  induction a with
  | nil => simp [splitCS]
  | cons c cs ih =>
    have hc : c ≠ ',' := fun e => h (by simp [e])
    have := ih (fun m => h (by simp [m]))
    cases hcs : cs ++ ',' :: ' ' :: b with
    | nil => simp at hcs
    | cons d ds =>
      rw [hcs] at this
      simp [splitCS, hc, this, consHead, hcs]

/-- `", ".join(parts)` -/
def joinCS : List Str → Str
  | [] => []
  | [t] => t
  | t :: ts => t ++ ',' :: ' ' :: joinCS ts

theorem splitCS_joinCS (parts : List Str) (hne : parts ≠ []) (h : ∀ p ∈ parts, ',' ∉ p) :
    splitCS (joinCS parts) = parts := by
  induction parts with
  | nil => exact absurd rfl hne
  | cons t ts ih =>
    cases ts with
    | nil => simpa [joinCS] using splitCS_none t (h t (by simp))
    | cons u us =>
      have := ih (by simp) (fun p hp => h p (by simp [hp]))
      simp only [joinCS] at this ⊢
      rw [splitCS_append t _ (h t (by simp)), this]


/-! ### integers -/

def digitChar (d : Nat) : Char := Char.ofNat (d + 48)

theorem digitChar_spec : ∀ d, d < 10 → (digitChar d).isDigit = true ∧ digitVal (digitChar d) = d ∧ isSpace (digitChar d) = false ∧
    digitChar d ≠ '\'' ∧ digitChar d ≠ '+' ∧ digitChar d ≠ '-' := by decide

def renderNat (n : Nat) : Str :=
  if h : n < 10 then [digitChar n] else renderNat (n / 10) ++ [digitChar (n % 10)]
termination_by n
decreasing_by omega

def renderInt (n : Int) : Str :=
  match n with
  | .ofNat m => renderNat m
  | .negSucc m => '-' :: renderNat (m + 1)

def numVal (acc : Nat) (xs : Str) : Nat := xs.foldl (fun a c => a * 10 + digitVal c) acc

theorem digitPart_digits (xs : Str) (acc : Nat) (prev : Bool) (hd : ∀ c ∈ xs, c.isDigit = true) (hne : xs ≠ [] ∨ prev = true) :
    digitPart acc prev xs = some (numVal acc xs) := by
  induction xs generalizing acc prev with
  | nil => cases hne with
    | inl h => exact absurd rfl h
    | inr h => simp [digitPart, h, numVal]
  | cons c cs ih =>
    have hc := hd c (by simp)
    simp only [digitPart, hc, if_true, numVal, List.foldl_cons]
    exact ih _ true (fun d hd' => hd d (by simp [hd'])) (Or.inr rfl)

theorem renderNat_digits (n : Nat) : (∀ c ∈ renderNat n, c.isDigit = true) ∧ renderNat n ≠ [] ∧ numVal 0 (renderNat n) = n := by
  induction n using Nat.strongRecOn with
  | _ n ih =>
    rw [renderNat]
    split
    · rename_i h
      have := digitChar_spec n h
      refine ⟨by simpa using this.1, by simp, by simp [numVal, this.2.1]⟩
    · rename_i h
      have hr := ih (n / 10) (by omega)
      have hd := digitChar_spec (n % 10) (by omega)
      refine ⟨?_, by simp, ?_⟩
      · intro c hc
        rcases List.mem_append.1 hc with h1 | h1
        · exact hr.1 c h1
        · simp at h1; rw [h1]; exact hd.1
      · simp only [numVal, List.foldl_append, List.foldl_cons, List.foldl_nil] at hr ⊢
        rw [hr.2.2, hd.2.1]; omega

theorem head_not_space_lstrip (c : Char) (cs : Str) (h : isSpace c = false) : lstrip (c :: cs) = c :: cs := by
  simp [lstrip, List.dropWhile, h]

theorem last_not_space_rstrip (s : Str) (c : Char) (h : isSpace c = false) : rstrip (s ++ [c]) = s ++ [c] := by
  simp [rstrip, List.dropWhile, h]

theorem strip_id (s : Str) (hne : s ≠ []) (hh : ∀ c, s.head? = some c → isSpace c = false) (hl : ∀ c, s.getLast? = some c → isSpace c = false) :
    strip s = s := by
  cases s with
  | nil => exact absurd rfl hne
  | cons c cs =>
    have h1 : lstrip (c :: cs) = c :: cs := head_not_space_lstrip c cs (hh c rfl)
    rw [strip, h1]
    obtain ⟨init, last, hil⟩ : ∃ init last, c :: cs = init ++ [last] := by
      refine ⟨(c :: cs).dropLast, (c :: cs).getLast (by simp), ?_⟩
      exact (List.dropLast_concat_getLast (by simp)).symm
    rw [hil] at hl ⊢
    exact last_not_space_rstrip init last (hl last (by simp))

theorem digits_no_space (xs : Str) (hd : ∀ c ∈ xs, c.isDigit = true) : ∀ c ∈ xs, isSpace c = false := by
  intro c hc
  have := hd c hc
  simp only [Char.isDigit, Bool.and_eq_true, decide_eq_true_eq] at this
  simp only [isSpace, Bool.or_eq_false_iff, beq_eq_false_iff_ne, ne_eq]
  have h48 : c.val ≥ 48 := this.1
  refine ⟨⟨⟨⟨⟨⟨⟨⟨⟨?_, ?_⟩, ?_⟩, ?_⟩, ?_⟩, ?_⟩, ?_⟩, ?_⟩, ?_⟩, ?_⟩ <;> (intro e; rw [e] at h48; revert h48; decide)

theorem strip_digits (xs : Str) (hd : ∀ c ∈ xs, c.isDigit = true) (hne : xs ≠ []) : strip xs = xs := by
  apply strip_id xs hne
  · intro c hc; exact digits_no_space xs hd c (List.mem_of_mem_head? hc)
  · intro c hc; exact digits_no_space xs hd c (List.mem_of_mem_getLast? hc)

theorem pyInt_renderInt (n : Int) : pyInt? (renderInt n) = some n := by
  cases n with
  | ofNat m =>
    obtain ⟨hd, hne, hv⟩ := renderNat_digits m
    simp only [renderInt, pyInt?]
    rw [strip_digits _ hd hne]
    cases hr : renderNat m with
    | nil => exact absurd hr hne
    | cons c cs =>
      have hc : c.isDigit = true := hd c (by simp [hr])
      have h1 : c ≠ '+' := by intro e; rw [e] at hc; revert hc; decide
      have h2 : c ≠ '-' := by intro e; rw [e] at hc; revert hc; decide
      have : digitPart 0 false (c :: cs) = some m := by
        rw [← hr, digitPart_digits _ 0 false hd (Or.inl hne), hv]
      split
      · rename_i r heq; simp at heq; exact absurd heq.1 h1
      · rename_i r heq; simp at heq; exact absurd heq.1 h2
      · simp [this]
  | negSucc m =>
    obtain ⟨hd, hne, hv⟩ := renderNat_digits (m + 1)
    simp only [renderInt, pyInt?]
    have hs : strip ('-' :: renderNat (m + 1)) = '-' :: renderNat (m + 1) := by
      apply strip_id _ (by simp)
      · intro c hc; simp at hc; rw [← hc]; decide
      · intro c hc
        rw [List.getLast?_cons_of_ne_nil hne] at hc  
        exact digits_no_space _ hd c (List.mem_of_mem_getLast? hc)
    rw [hs]
    simp [digitPart_digits _ 0 false hd (Or.inl hne), hv, Int.negSucc_eq]

theorem quoted_renderInt (n : Int) : quoted? (renderInt n) = none := by
  cases n with
  | ofNat m =>
    obtain ⟨hd, hne, _⟩ := renderNat_digits m
    simp only [renderInt]
    cases hr : renderNat m with
    | nil => exact absurd hr hne
    | cons c cs =>
      have hc : c.isDigit = true := hd c (by simp [hr])
      have h1 : c ≠ '\'' := by intro e; rw [e] at hc; revert hc; decide
      simp only [quoted?]
      split
      · rename_i r heq; simp at heq; exact absurd heq.1 h1
      · rfl
  | negSucc m => simp [renderInt, quoted?]

/-- an integer written in decimal is read back as that integer -/
theorem formatAtom_renderInt (n : Int) : formatAtom (renderInt n) = .int n := by
  simp [formatAtom, quoted_renderInt, pyInt_renderInt]


theorem dropWhile_all {α} (p : α → Bool) (a b : List α) (h : ∀ x ∈ a, p x = true) : (a ++ b).dropWhile p = b.dropWhile p := by
  induction a with
  | nil => rfl
  | cons x xs ih => simp [List.dropWhile, h x (by simp), ih (fun y hy => h y (by simp [hy]))]

/-- a quoted token yields its content, whatever it is -/
theorem quoted_quote (s : Str) : quoted? ('\'' :: s ++ ['\'']) = some s := by
  simp [quoted?, List.dropWhile]

theorem formatAtom_quoted (s : Str) : formatAtom ('\'' :: s ++ ['\'']) = .str s := by
  have := quoted_quote s
  simp only [formatAtom]
  rw [this]

/-- sufficient syntactic condition for a bare token to stay a string -/
theorem formatAtom_bare (s : Str) (hq : s.head? ≠ some '\'')
    (h : ∀ c, (strip s).head? = some c →
      c.isDigit = false ∧ c ≠ '+' ∧ c ≠ '-' ∧ c ≠ '.' ∧ c.toLower ≠ 'i' ∧ c.toLower ≠ 'n') :
    formatAtom s = .str s := by
  have hquo : quoted? s = none := by
    cases s with
    | nil => rfl
    | cons c cs =>
      have : c ≠ '\'' := fun e => hq (by simp [e])
      simp only [quoted?]
      split
      · rename_i r heq; simp at heq; exact absurd heq.1 this
      · rfl
  have hint : pyInt? s = none := by
    simp only [pyInt?]
    cases ht : strip s with
    | nil => simp [digitPart]
    | cons c cs =>
      obtain ⟨hd, h1, h2, _⟩ := h c (by simp [ht])
      split
      · rename_i r heq; simp at heq; exact absurd heq.1 h1
      · rename_i r heq; simp at heq; exact absurd heq.1 h2
      · simp [digitPart, hd]
  have hfl : pyFloatOk s = false := by
    simp only [pyFloatOk]
    cases ht : strip s with
    | nil => simp [dropSign, isInfNan, floatBody, lower, dropDigitPart]
    | cons c cs =>
      obtain ⟨hd, h1, h2, h3, h4, h5⟩ := h c (by simp [ht])
      have hsign : dropSign (c :: cs) = c :: cs := by
        unfold dropSign
        split
        · rename_i r heq; simp at heq; exact absurd heq.1 h1
        · rename_i r heq; simp at heq; exact absurd heq.1 h2
        · rfl
      rw [hsign]
      have hl : isInfNan (c :: cs) = false := by
        simp only [isInfNan, lower, List.map_cons, Bool.or_eq_false_iff, beq_eq_false_iff_ne, ne_eq]
        refine ⟨⟨?_, ?_⟩, ?_⟩ <;> (intro e; simp at e; first | exact h4 e.1 | exact h5 e.1)
      simp only [hl, Bool.false_eq_true, if_false]
      unfold floatBody
      split
      · rename_i r heq; simp at heq; exact absurd heq.1 h3
      · simp [dropDigitPart, hd]
  simp [formatAtom, hquo, hint, hfl]


/-! ### abstract labels and their rendering -/

inductive AAtom where
  | int (n : Int)
  | float (t : Str)
  | bare (s : Str)
  | quoted (s : Str)

def AAtom.render : AAtom → Str
  | .int n => renderInt n
  | .float t => t
  | .bare s => s
  | .quoted s => '\'' :: s ++ ['\'']

def AAtom.val : AAtom → Atom
  | .int n => .int n
  | .float t => .float t
  | .bare s => .str s
  | .quoted s => .str s

inductive AVal where
  | atom (a : AAtom)
  | list (as : List AAtom)

def AVal.render : AVal → Str
  | .atom a => a.render
  | .list as => joinChar '|' (as.map AAtom.render)

def AVal.val : AVal → Val
  | .atom a => .atom a.val
  | .list as => .list (as.map AAtom.val)

/-- characters with a meaning in the label grammar (and what is outside the model's scope) -/
def special (c : Char) : Bool :=
  c == ',' || c == ':' || c == '=' || c == '|' || c == '(' || c == '&' || c == '\n' || decide (c.toNat ≥ 128)

def Clean (s : Str) : Prop := ∀ c ∈ s, special c = false

def AAtom.WF : AAtom → Prop
  | .int _ => True
  | .float t => Clean t ∧ t ≠ [] ∧ quoted? t = none ∧ pyInt? t = none ∧ pyFloatOk t = true
  | .bare s => Clean s ∧ s ≠ [] ∧ formatAtom s = .str s
  | .quoted s => Clean s

def AVal.WF : AVal → Prop
  | .atom a => a.WF
  | .list as => 2 ≤ as.length ∧ ∀ a ∈ as, a.WF

structure ALabel where
  role : Role
  name : Str
  pos : List AAtom
  kws : List (Str × AVal)

def roleChar : Role → Char
  | .constraint => '@'
  | .objective => '~'

def ALabel.args (sep : Char) (l : ALabel) : List Str :=
  l.pos.map AAtom.render ++ l.kws.map (fun kv => kv.1 ++ sep :: kv.2.render)

/-- the label text: `@name(p1, p2, k1:v1, k2:v2)` -/
def ALabel.render (sep : Char) (l : ALabel) : Str :=
  roleChar l.role :: (l.name ++ '(' :: (joinCS (l.args sep) ++ [')']))

structure ALabel.WF (l : ALabel) : Prop where
  name_ne : l.name ≠ []
  name_clean : Clean l.name
  name_nospace : ∀ c ∈ l.name, isSpace c = false
  pos_wf : ∀ a ∈ l.pos, a.WF
  key_ne : ∀ kv ∈ l.kws, kv.1 ≠ []
  key_clean : ∀ kv ∈ l.kws, Clean kv.1
  key_not_location : ∀ kv ∈ l.kws, kv.1 ≠ "location".toList
  val_wf : ∀ kv ∈ l.kws, kv.2.WF
  keys_nodup : (l.kws.map (·.1)).Pairwise (· ≠ ·)

theorem digit_not_special (c : Char) (h : c.isDigit = true) : special c = false := by
  simp only [Char.isDigit, Bool.and_eq_true, decide_eq_true_eq] at h
  have h1 : c.val ≥ 48 := h.1
  have h2 : c.val ≤ 57 := h.2
  simp only [special, Bool.or_eq_false_iff, beq_eq_false_iff_ne, ne_eq, decide_eq_false_iff_not]
  refine ⟨⟨⟨⟨⟨⟨⟨?_, ?_⟩, ?_⟩, ?_⟩, ?_⟩, ?_⟩, ?_⟩, ?_⟩
  all_goals first
    | (intro e; rw [e] at h1 h2; revert h1 h2; decide)
    | (simp only [Char.toNat, Nat.not_le]; have : c.val.toNat ≤ 57 := by exact UInt32.le_iff_toNat_le.mp h2
       omega)

theorem renderInt_clean (n : Int) : Clean (renderInt n) ∧ renderInt n ≠ [] := by
  cases n with
  | ofNat m =>
    obtain ⟨hd, hne, _⟩ := renderNat_digits m
    exact ⟨fun c hc => digit_not_special c (hd c hc), hne⟩
  | negSucc m =>
    obtain ⟨hd, hne, _⟩ := renderNat_digits (m + 1)
    refine ⟨?_, by simp [renderInt]⟩
    intro c hc
    simp only [renderInt, List.mem_cons] at hc
    rcases hc with rfl | hc
    · decide
    · exact digit_not_special c (hd c hc)

theorem AAtom.render_clean (a : AAtom) (h : a.WF) : Clean a.render ∧ a.render ≠ [] := by
  cases a with
  | int n => exact renderInt_clean n
  | float t => exact ⟨h.1, h.2.1⟩
  | bare s => exact ⟨h.1, h.2.1⟩
  | quoted s =>
    refine ⟨?_, by simp [AAtom.render]⟩
    intro c hc
    simp only [AAtom.render, List.mem_cons, List.mem_append, List.mem_singleton] at hc
    rcases hc with (rfl | hc) | (rfl | hc)
    · decide
    · exact h c hc
    · decide
    · simp at hc

theorem formatAtom_render (a : AAtom) (h : a.WF) : formatAtom a.render = a.val := by
  cases a with
  | int n => exact formatAtom_renderInt n
  | float t =>
    obtain ⟨_, _, hq, hi, hf⟩ := h
    simp [AAtom.render, AAtom.val, formatAtom, hq, hi, hf]
  | bare s => exact h.2.2
  | quoted s => exact formatAtom_quoted s

theorem clean_not (s : Str) (h : Clean s) (c : Char) (hc : special c = true) : c ∉ s := by
  intro hm; have := h c hm; rw [this] at hc; exact absurd hc (by simp)

theorem joinChar_mem (sep : Char) (parts : List Str) (c : Char) (hc : c ∈ joinChar sep parts) :
    c = sep ∨ ∃ p ∈ parts, c ∈ p := by
  induction parts with
  | nil => simp [joinChar] at hc
  | cons t ts ih =>
    cases ts with
    | nil => exact Or.inr ⟨t, by simp, by simpa [joinChar] using hc⟩
    | cons u us =>
      simp only [joinChar, List.mem_append, List.mem_cons] at hc
      rcases hc with h | h | h
      · exact Or.inr ⟨t, by simp, h⟩
      · exact Or.inl h
      · rcases ih (by simpa [joinChar] using h) with h' | ⟨p, hp, hcp⟩
        · exact Or.inl h'
        · exact Or.inr ⟨p, by simp [hp], hcp⟩

theorem joinChar_contains (sep : Char) (parts : List Str) (h : 2 ≤ parts.length) : sep ∈ joinChar sep parts := by
  match parts, h with
  | t :: u :: us, _ => simp [joinChar]

theorem formatKwValue_render (v : AVal) (h : v.WF) : formatKwValue v.render = v.val := by
  cases v with
  | atom a =>
    have hc := (a.render_clean h).1
    have : '|' ∉ a.render := clean_not _ hc '|' (by decide)
    show formatKwValue a.render = .atom a.val
    unfold formatKwValue
    split
    · rename_i hcon; exact absurd (by simpa using hcon) this
    · rw [formatAtom_render a h]
  | list as =>
    obtain ⟨hlen, hall⟩ := h
    have hin : '|' ∈ joinChar '|' (as.map AAtom.render) := joinChar_contains '|' _ (by simpa using hlen)
    show formatKwValue (joinChar '|' (as.map AAtom.render)) = .list (as.map AAtom.val)
    unfold formatKwValue
    rw [if_pos (by simpa using hin)]
    rw [splitChar_joinChar '|' _ (by intro e; simp at e; subst e; simp at hlen)]
    · simp only [List.map_map]
      congr 1
      apply List.map_congr_left
      intro a ha
      exact formatAtom_render a (hall a ha)
    · intro p hp
      simp only [List.mem_map] at hp
      obtain ⟨a, ha, rfl⟩ := hp
      exact clean_not _ (a.render_clean (hall a ha)).1 '|' (by decide)

theorem AVal.render_clean_except_bar (v : AVal) (h : v.WF) : ∀ c ∈ v.render, c = '|' ∨ special c = false := by
  cases v with
  | atom a => intro c hc; exact Or.inr ((a.render_clean h).1 c hc)
  | list as =>
    intro c hc
    rcases joinChar_mem '|' _ c hc with h1 | ⟨p, hp, hcp⟩
    · exact Or.inl h1
    · simp only [List.mem_map] at hp
      obtain ⟨a, ha, rfl⟩ := hp
      exact Or.inr ((a.render_clean (h.2 a ha)).1 c hcp)

theorem parseArg_pos (a : AAtom) (h : a.WF) : parseArg a.render = .ok (some (.pos a.val)) := by
  obtain ⟨hc, hne⟩ := a.render_clean h
  have h1 : ':' ∉ a.render := clean_not _ hc ':' (by decide)
  have h2 : '=' ∉ a.render := clean_not _ hc '=' (by decide)
  simp only [parseArg]
  rw [if_neg (by simpa using hne), if_neg (by simpa using h1), if_neg (by simpa using h2), formatAtom_render a h]

theorem parseArg_kw (sep : Char) (hsep : sep = ':' ∨ sep = '=') (k : Str) (v : AVal) (hk : Clean k) (hv : v.WF) :
    parseArg (k ++ sep :: v.render) = .ok (some (.kw k v.val)) := by
  have hvs : ∀ c, special c = true → c ≠ '|' → c ∉ v.render := by
    intro c hc hb hm
    rcases v.render_clean_except_bar hv c hm with h | h
    · exact hb h
    · rw [h] at hc; exact absurd hc (by simp)
  have hsplit : ∀ s, (s = ':' ∨ s = '=') → s = sep → splitChar s (k ++ sep :: v.render) = [k, v.render] := by
    intro s hs he
    subst he
    have hks : s ∉ k := clean_not _ hk s (by rcases hs with rfl | rfl <;> decide)
    have hvs' : s ∉ v.render := hvs s (by rcases hs with rfl | rfl <;> decide) (by rcases hs with rfl | rfl <;> decide)
    rw [splitChar_append s k _ hks, splitChar_none s _ hvs']
  simp only [parseArg]
  rw [if_neg (by simp)]
  rcases hsep with rfl | rfl
  · rw [if_pos (by simp)]
    simp only [parseKw, hsplit ':' (Or.inl rfl) rfl, formatKwValue_render v hv]
  · have hk1 : ':' ∉ k := clean_not _ hk ':' (by decide)
    have hv1 : ':' ∉ v.render := hvs ':' (by decide) (by decide)
    rw [if_neg (by simp [hk1, hv1]), if_pos (by simp)]
    simp only [parseKw, hsplit '=' (Or.inr rfl) rfl, formatKwValue_render v hv]

theorem parseArgs_all (toks : List Str) (items : List Arg) (h : List.Forall₂ (fun t i => parseArg t = .ok (some i)) toks items) :
    parseArgs toks = .ok items := by
  induction h with
  | nil => rfl
  | cons hh _ ih => simp [parseArgs, hh, ih, bind, Except.bind, pure, Except.pure]

def ALabel.items (l : ALabel) : List Arg :=
  l.pos.map (fun a => Arg.pos a.val) ++ l.kws.map (fun kv => Arg.kw kv.1 kv.2.val)

theorem parseArgs_args (sep : Char) (hsep : sep = ':' ∨ sep = '=') (l : ALabel) (h : l.WF) :
    parseArgs (l.args sep) = .ok l.items := by
  apply parseArgs_all
  simp only [ALabel.args, ALabel.items]
  apply List.rel_append
  · rw [List.forall₂_map_left_iff, List.forall₂_map_right_iff]
    exact List.forall₂_same.2 (fun a ha => parseArg_pos a (h.pos_wf a ha))
  · rw [List.forall₂_map_left_iff, List.forall₂_map_right_iff]
    exact List.forall₂_same.2 (fun kv hkv => parseArg_kw sep hsep kv.1 kv.2 (h.key_clean kv hkv) (h.val_wf kv hkv))

/-! ### positional / keyword separation -/

theorem splitArgs_pos (pos : List Atom) (rest : List Arg) (ps : List Atom) (ks : List (Str × Val)) :
    splitArgs (pos.map Arg.pos ++ rest) (ps, ks) = splitArgs rest (ps ++ pos, ks) := by
  induction pos generalizing ps with
  | nil => simp
  | cons a as ih => simp [splitArgs, ih]

theorem dictSet_fresh (d : List (Str × Val)) (k : Str) (v : Val) (h : ∀ e ∈ d, e.1 ≠ k) : dictSet d k v = d ++ [(k, v)] := by
  simp only [dictSet]
  rw [if_neg]
  simp only [List.any_eq_true, beq_iff_eq, not_exists, not_and]
  exact fun e he => h e he

theorem splitArgs_kws (kws : List (Str × Val)) (ps : List Atom) (ks : List (Str × Val))
    (hnd : (kws.map (·.1)).Pairwise (· ≠ ·)) (hdisj : ∀ e ∈ ks, ∀ kv ∈ kws, e.1 ≠ kv.1) :
    splitArgs (kws.map (fun kv => Arg.kw kv.1 kv.2)) (ps, ks) = (ps, ks ++ kws) := by
  induction kws generalizing ks with
  | nil => simp [splitArgs]
  | cons kv rest ih =>
    simp only [List.map_cons, splitArgs]
    rw [dictSet_fresh ks kv.1 kv.2 (fun e he => hdisj e he kv (by simp))]
    simp only [List.map_cons, List.pairwise_cons] at hnd
    rw [ih (ks ++ [(kv.1, kv.2)]) hnd.2]
    · simp
    · intro e he kv' hkv'
      rcases List.mem_append.1 he with h | h
      · exact hdisj e h kv' (by simp [hkv'])
      · simp at h; subst h; exact hnd.1 kv'.1 (List.mem_map_of_mem hkv')

/-! ### lexing -/

def Plain (c : Char) : Prop := c ≠ ',' ∧ c ≠ '(' ∧ c ≠ '&' ∧ c ≠ '\n' ∧ c.toNat < 128

theorem plain_of_not_special (c : Char) (h : special c = false) : Plain c := by
  simp only [special, Bool.or_eq_false_iff, beq_eq_false_iff_ne, ne_eq, decide_eq_false_iff_not, Nat.not_le] at h
  exact ⟨h.1.1.1.1.1.1.1, h.1.1.1.2, h.1.1.2, h.1.2, h.2⟩

theorem args_plain (sep : Char) (hsep : sep = ':' ∨ sep = '=') (l : ALabel) (h : l.WF) :
    ∀ a ∈ l.args sep, a ≠ [] ∧ ∀ c ∈ a, Plain c := by
  intro a ha
  simp only [ALabel.args, List.mem_append, List.mem_map] at ha
  rcases ha with ⟨x, hx, rfl⟩ | ⟨kv, hkv, rfl⟩
  · obtain ⟨hc, hne⟩ := x.render_clean (h.pos_wf x hx)
    exact ⟨hne, fun c hcm => plain_of_not_special c (hc c hcm)⟩
  · refine ⟨by simp, ?_⟩
    intro c hc
    simp only [List.mem_append, List.mem_cons] at hc
    rcases hc with h1 | rfl | h3
    · exact plain_of_not_special c (h.key_clean kv hkv c h1)
    · rcases hsep with rfl | rfl <;> (refine ⟨?_, ?_, ?_, ?_, ?_⟩ <;> decide)
    · rcases kv.2.render_clean_except_bar (h.val_wf kv hkv) c h3 with rfl | h4
      · refine ⟨?_, ?_, ?_, ?_, ?_⟩ <;> decide
      · exact plain_of_not_special c h4

theorem joinCS_mem (parts : List Str) (c : Char) (hc : c ∈ joinCS parts) : c = ',' ∨ c = ' ' ∨ ∃ p ∈ parts, c ∈ p := by
  induction parts with
  | nil => simp [joinCS] at hc
  | cons t ts ih =>
    cases ts with
    | nil => exact Or.inr (Or.inr ⟨t, by simp, by simpa [joinCS] using hc⟩)
    | cons u us =>
      simp only [joinCS, List.mem_append, List.mem_cons] at hc
      rcases hc with h | h | h | h
      · exact Or.inr (Or.inr ⟨t, by simp, h⟩)
      · exact Or.inl h
      · exact Or.inr (Or.inl h)
      · rcases ih (by simpa [joinCS] using h) with h' | h' | ⟨p, hp, hcp⟩
        · exact Or.inl h'
        · exact Or.inr (Or.inl h')
        · exact Or.inr (Or.inr ⟨p, by simp [hp], hcp⟩)

theorem lastParen_spec (a b : Str) (hb : '(' ∉ b) : lastParen (a ++ '(' :: b) = some a.length := by
  simp only [lastParen, List.reverse_append, List.reverse_cons, List.append_assoc, List.singleton_append]
  rw [dropWhile_all (fun c => c != '(') b.reverse _ (by intro x hx; simp at hx ⊢; intro e; exact hb (e ▸ hx))]
  simp [List.dropWhile]

theorem takeWhile_append_all {α} (p : α → Bool) (a b : List α) (h : ∀ x ∈ a, p x = true) :
    (a ++ b).takeWhile p = a ++ b.takeWhile p := by
  induction a with
  | nil => rfl
  | cons x xs ih => simp [List.takeWhile, h x (by simp), ih (fun y hy => h y (by simp [hy]))]

theorem lex_render (sep : Char) (hsep : sep = ':' ∨ sep = '=') (l : ALabel) (h : l.WF) :
    lex (l.render sep) = .ok ⟨l.role, l.name, joinCS (l.args sep)⟩ := by
  have hbody : ∀ c ∈ joinCS (l.args sep), c ≠ '(' ∧ c ≠ '&' ∧ c ≠ '\n' ∧ c.toNat < 128 := by
    intro c hc
    rcases joinCS_mem _ c hc with rfl | rfl | ⟨p, hp, hcp⟩
    · refine ⟨?_, ?_, ?_, ?_⟩ <;> decide
    · refine ⟨?_, ?_, ?_, ?_⟩ <;> decide
    · exact ((args_plain sep hsep l h p hp).2 c hcp).2
  have hname : ∀ c ∈ l.name, c ≠ '(' ∧ c ≠ '&' ∧ c ≠ '\n' ∧ c.toNat < 128 := fun c hc => (plain_of_not_special c (h.name_clean c hc)).2
  have hrole : roleChar l.role = '@' ∨ roleChar l.role = '~' := by cases l.role <;> simp [roleChar]
  have hany : (l.render sep).any (fun c => c == '\n' || decide (c.toNat ≥ 128)) = false := by
    rw [List.any_eq_false]
    intro c hc
    simp only [ALabel.render, List.mem_cons, List.mem_append, List.mem_singleton] at hc
    have : c ≠ '\n' ∧ c.toNat < 128 := by
      rcases hc with rfl | hc | rfl | hc | rfl | hc
      · rcases hrole with e | e <;> (rw [e]; refine ⟨?_, ?_⟩ <;> decide)
      · exact (hname c hc).2.2
      · refine ⟨?_, ?_⟩ <;> decide
      · exact (hbody c hc).2.2
      · refine ⟨?_, ?_⟩ <;> decide
      · simp at hc
    simp [this.1]; omega
  have hlast : (l.render sep).getLast? = some ')' := by
    simp only [ALabel.render]
    rw [show roleChar l.role :: (l.name ++ '(' :: (joinCS (l.args sep) ++ [')'])) =
          (roleChar l.role :: (l.name ++ '(' :: joinCS (l.args sep))) ++ [')'] by simp]
    exact List.getLast?_concat
  have hstrip : strip (l.render sep) = l.render sep := by
    apply strip_id _ (by simp [ALabel.render])
    · intro c hc
      simp only [ALabel.render, List.head?_cons, Option.some.injEq] at hc
      rw [← hc]
      rcases hrole with e | e <;> (rw [e]; decide)
    · intro c hc
      rw [hlast] at hc
      cases hc; decide
  simp only [lex]
  rw [if_neg (by simp only [hany]; simp), hstrip, if_pos (by rw [hlast]; rfl)]
  simp only [ALabel.render]
  have hr : (roleChar l.role == '@' || roleChar l.role == '~') = true := by
    rcases hrole with e | e <;> simp [e]
  simp only [hr, if_true]
  have hrun : (l.name ++ '(' :: (joinCS (l.args sep) ++ [')'])).takeWhile (fun c => !isSpace c) =
      l.name ++ '(' :: (joinCS (l.args sep) ++ [')']).takeWhile (fun c => !isSpace c) := by
    rw [takeWhile_append_all _ _ _ (fun c hc => by simp [h.name_nospace c hc])]
    simp [List.takeWhile, isSpace]
  have hno : '(' ∉ (joinCS (l.args sep) ++ [')']).takeWhile (fun c => !isSpace c) := by
    intro hm
    have := (List.takeWhile_sublist _).subset hm
    simp only [List.mem_append, List.mem_singleton] at this
    rcases this with h1 | h1
    · exact (hbody _ h1).1 rfl
    · exact absurd h1 (by decide)
  rw [hrun, lastParen_spec _ _ hno]
  have hlen : (l.name.length == 0) = false := by
    cases hn : l.name with
    | nil => exact absurd hn h.name_ne
    | cons _ _ => simp
  simp only [hlen, Bool.false_eq_true, if_false]
  have hrole' : (if roleChar l.role == '@' then Role.constraint else Role.objective) = l.role := by
    cases l.role <;> simp [roleChar]
  rw [hrole']
  simp

/-! ### the round trip -/

def ALabel.parsed (l : ALabel) (cls : String) : Parsed :=
  ⟨l.role, cls, l.pos.map AAtom.val, l.kws.map (fun kv => (kv.1, kv.2.val))⟩

/-- **parse ∘ render = id**: a label written from an abstract specification call (role, registered name,
    positional values, keyword values; `:` or `=`) is read back as exactly that call -/
theorem parse_render (reg : List (String × String)) (sep : Char) (hsep : sep = ':' ∨ sep = '=') (l : ALabel) (h : l.WF)
    (cls : String) (hreg : lookupName reg l.name = some cls) :
    fromLabel reg (l.render sep) = .ok (l.parsed cls) := by
  simp only [fromLabel, lex_render sep hsep l h, bind, Except.bind, hreg]
  have hargs : parseArgs (splitCS (joinCS (l.args sep))) = .ok l.items := by
    by_cases hne : l.args sep = []
    · have hp : l.pos = [] := by
        have := congrArg List.length hne; simp [ALabel.args] at this; exact this.1
      have hk : l.kws = [] := by
        have := congrArg List.length hne; simp [ALabel.args] at this; exact this.2
      simp [hne, joinCS, splitCS, parseArgs, parseArg, ALabel.items, hp, hk, bind, Except.bind, pure, Except.pure]
    · rw [splitCS_joinCS _ hne (fun p hp => by
        intro hc; exact ((args_plain sep hsep l h p hp).2 ',' hc).1 rfl)]
      exact parseArgs_args sep hsep l h
  rw [hargs]
  simp only [ALabel.items]
  rw [show l.pos.map (fun a => Arg.pos a.val) = (l.pos.map AAtom.val).map Arg.pos by simp]
  rw [splitArgs_pos]
  rw [show l.kws.map (fun kv => Arg.kw kv.1 kv.2.val) = (l.kws.map (fun kv => (kv.1, kv.2.val))).map (fun kv => Arg.kw kv.1 kv.2) by simp]
  rw [splitArgs_kws _ _ _ (by simpa [List.map_map, Function.comp_def] using h.keys_nodup) (by simp)]
  simp only [List.nil_append, pure, Except.pure, ALabel.parsed]
  congr 2
  rw [List.filter_eq_self]
  intro e he
  simp only [List.mem_map] at he
  obtain ⟨kv, hkv, rfl⟩ := he
  simpa using h.key_not_location kv hkv

/-- `:` and `=` are interchangeable -/
theorem colon_equals_same (reg : List (String × String)) (l : ALabel) (h : l.WF) (cls : String)
    (hreg : lookupName reg l.name = some cls) : fromLabel reg (l.render ':') = fromLabel reg (l.render '=') := by
  rw [parse_render reg ':' (Or.inl rfl) l h cls hreg, parse_render reg '=' (Or.inr rfl) l h cls hreg]

/-- a rendered label contains no `&` -/
theorem render_no_amp (sep : Char) (hsep : sep = ':' ∨ sep = '=') (l : ALabel) (h : l.WF) : '&' ∉ l.render sep := by
  intro hm
  simp only [ALabel.render, List.mem_cons, List.mem_append, List.mem_singleton] at hm
  rcases hm with e | hm | e | hm | e | hm
  · cases hl : l.role <;> simp [hl, roleChar] at e
  · exact (plain_of_not_special _ (h.name_clean _ hm)).2.2.1 rfl
  · exact absurd e (by decide)
  · rcases joinCS_mem _ _ hm with e | e | ⟨p, hp, hcp⟩
    · exact absurd e (by decide)
    · exact absurd e (by decide)
    · exact ((args_plain sep hsep l h p hp).2 _ hcp).2.2.1 rfl
  · exact absurd e (by decide)
  · simp at hm

theorem mapM_ok {α β ε} (f : α → Except ε β) (g : α → β) (xs : List α) (h : ∀ x ∈ xs, f x = .ok (g x)) :
    xs.mapM f = .ok (xs.map g) := by
  induction xs with
  | nil => rfl
  | cons x xs ih =>
    simp [List.mapM_cons, h x (by simp), ih (fun y hy => h y (by simp [hy])), bind, Except.bind, pure, Except.pure]

/-- several specifications joined with `&` in one label are read back as the list of those calls, in order -/
theorem parse_joined (reg : List (String × String)) (seps : ALabel → Char) (ls : List ALabel) (hne : ls ≠ [])
    (h : ∀ l ∈ ls, l.WF ∧ (seps l = ':' ∨ seps l = '=')) (cls : ALabel → String)
    (hreg : ∀ l ∈ ls, lookupName reg l.name = some (cls l)) :
    listFromLabel reg (joinChar '&' (ls.map (fun l => l.render (seps l)))) = .ok (ls.map (fun l => l.parsed (cls l))) := by
  simp only [listFromLabel]
  rw [splitChar_joinChar '&' _ (by simpa using hne)]
  · rw [List.mapM_map]  
    exact mapM_ok _ _ ls (fun l hl => parse_render reg (seps l) (h l hl).2 l (h l hl).1 (cls l) (hreg l hl))
  · intro p hp
    simp only [List.mem_map] at hp
    obtain ⟨l, hl, rfl⟩ := hp
    exact render_no_amp _ (h l hl).2 l (h l hl).1

/-! ### blanks around a (sub-)label are ignored -/

theorem strip_surrounded (pre s post : Str) (hpre : ∀ c ∈ pre, isSpace c = true) (hpost : ∀ c ∈ post, isSpace c = true)
    (hne : s ≠ []) (hh : ∀ c, s.head? = some c → isSpace c = false) (hl : ∀ c, s.getLast? = some c → isSpace c = false) :
    strip (pre ++ s ++ post) = s := by
  have h1 : lstrip (pre ++ s ++ post) = s ++ post := by
    simp only [lstrip, List.append_assoc]
    rw [dropWhile_all isSpace pre _ hpre]
    cases s with
    | nil => exact absurd rfl hne
    | cons c cs => simp [List.dropWhile, hh c rfl]
  rw [strip, h1, rstrip, List.reverse_append, dropWhile_all isSpace post.reverse _ (by simpa using hpost)]
  have := strip_id s hne hh hl
  obtain ⟨init, last, hil⟩ : ∃ init last, s = init ++ [last] :=
    ⟨s.dropLast, s.getLast hne, (List.dropLast_concat_getLast hne).symm⟩
  subst hil
  have hls : isSpace last = false := hl last (by simp)
  simp [List.dropWhile, hls]

theorem lex_surrounded (pre s post : Str) (hpre : ∀ c ∈ pre, isSpace c = true ∧ c ≠ '\n' ∧ c.toNat < 128)
    (hpost : ∀ c ∈ post, isSpace c = true ∧ c ≠ '\n' ∧ c.toNat < 128)
    (hne : s ≠ []) (hh : ∀ c, s.head? = some c → isSpace c = false) (hl : ∀ c, s.getLast? = some c → isSpace c = false) :
    lex (pre ++ s ++ post) = lex s := by
  have hs : strip (pre ++ s ++ post) = strip s := by
    rw [strip_surrounded pre s post (fun c hc => (hpre c hc).1) (fun c hc => (hpost c hc).1) hne hh hl, strip_id s hne hh hl]
  have hany : (pre ++ s ++ post).any (fun c => c == '\n' || decide (c.toNat ≥ 128)) = s.any (fun c => c == '\n' || decide (c.toNat ≥ 128)) := by
    have h1 : pre.any (fun c => c == '\n' || decide (c.toNat ≥ 128)) = false := by
      rw [List.any_eq_false]; intro c hc; have := hpre c hc; simp [this.2.1]; omega
    have h2 : post.any (fun c => c == '\n' || decide (c.toNat ≥ 128)) = false := by
      rw [List.any_eq_false]; intro c hc; have := hpost c hc; simp [this.2.1]; omega
    simp [List.any_append, h1, h2]
  simp only [lex, hs, hany]

/-- `@a & @b`: blanks around the `&` (or around a whole label) do not change what is read -/
theorem fromLabel_surrounded (reg : List (String × String)) (pre s post : Str)
    (hpre : ∀ c ∈ pre, isSpace c = true ∧ c ≠ '\n' ∧ c.toNat < 128)
    (hpost : ∀ c ∈ post, isSpace c = true ∧ c ≠ '\n' ∧ c.toNat < 128)
    (hne : s ≠ []) (hh : ∀ c, s.head? = some c → isSpace c = false) (hl : ∀ c, s.getLast? = some c → isSpace c = false) :
    fromLabel reg (pre ++ s ++ post) = fromLabel reg s := by
  simp only [fromLabel, lex_surrounded pre s post hpre hpost hne hh hl]

/-! ### records -/

theorem findLabel_label (f : Feature) (c : Char) (r : Str) (h : f.label = some (c :: r)) (hc : c = '@' ∨ c = '~') :
    findLabel f = some (c :: r) := by
  rcases hc with rfl | rfl <;> simp [findLabel, specLabel?, h]

theorem specLabel_none (v : Option Str) (hv : ∀ c r, v = some (c :: r) → c ≠ '@' ∧ c ≠ '~') : specLabel? v = none := by
  unfold specLabel?
  split
  · rename_i c r
    have := hv c r rfl
    simp [this.1, this.2]
  · rfl

theorem findLabel_none (f : Feature) (hl : ∀ c r, f.label = some (c :: r) → c ≠ '@' ∧ c ≠ '~')
    (hn : ∀ c r, f.note = some (c :: r) → c ≠ '@' ∧ c ≠ '~') : findLabel f = none := by
  simp only [findLabel, specLabel_none f.label hl, specLabel_none f.note hn]

theorem fromFeatures_skip (reg : List (String × String)) (f : Feature) (fs : List Feature)
    (h : f.type ≠ "misc_feature" ∨ findLabel f = none) : fromFeatures reg (f :: fs) = fromFeatures reg fs := by
  rcases h with h | h
  · simp [fromFeatures, h]
  · by_cases ht : f.type = "misc_feature" <;> simp [fromFeatures, ht, h]

/-- a specification-bearing feature contributes its specifications, located at the feature, in label order, before
    those of the later features -/
theorem fromFeatures_cons (reg : List (String × String)) (f : Feature) (fs : List Feature) (l : Str) (specs : List Parsed)
    (cs os : List Located) (ht : f.type = "misc_feature") (hl : findLabel f = some l)
    (hs : listFromLabel reg l = .ok specs) (hr : fromFeatures reg fs = .ok (cs, os)) :
    fromFeatures reg (f :: fs) = .ok
      ((specs.map (fun p => (⟨p, f.start, f.stop, f.strand⟩ : Located))).filter (·.spec.role == .constraint) ++ cs,
       (specs.map (fun p => (⟨p, f.start, f.stop, f.strand⟩ : Located))).filter (·.spec.role == .objective) ++ os) := by
  simp [fromFeatures, ht, hl, hs, hr, bind, Except.bind, pure, Except.pure]

/-! ### the registry generated from the source -/

/-- the documented shorthands resolve to the documented classes -/
theorem registry_shorthands :
    ∀ p ∈ [("no", "AvoidPattern"), ("keep", "AvoidChanges"), ("change", "EnforceChanges"), ("insert", "EnforcePatternOccurence"),
           ("sequence", "EnforceSequence"), ("choice", "EnforceChoice"), ("cds", "EnforceTranslation"), ("gc", "EnforceGCContent"),
           ("use_best_codon", "MaximizeCAI"), ("match_codon_usage", "MatchTargetCodonUsage"), ("harmonize_rca", "HarmonizeRCA"),
           ("all_unique_kmers", "UniquifyAllKmers"), ("CodonOptimize", "CodonOptimize")],
      lookupName Gen.specRegistry p.1.toList = some p.2 := by decide

/-- every class is registered under its own name as well -/
theorem registry_class_names : ∀ e ∈ Gen.specRegistry, lookupName Gen.specRegistry e.2.toList = some e.2 := by decide

/-! ### non-vacuity: a concrete documented label meets the hypotheses and is parsed as stated -/

def exLabel : ALabel :=
  ⟨.constraint, "no".toList, [.bare "BsaI_site".toList], [("strand".toList, .atom (.bare "both".toList))]⟩

example : exLabel.render '=' = "@no(BsaI_site, strand=both)".toList := by decide
example : fromLabel Gen.specRegistry "@no(BsaI_site, strand=both)".toList =
    .ok ⟨.constraint, "AvoidPattern", [.str "BsaI_site".toList], [("strand".toList, .atom (.str "both".toList))]⟩ := by decide
example : fromLabel Gen.specRegistry "~gc(40%, window:50)".toList =
    .ok ⟨.objective, "EnforceGCContent", [.str "40%".toList], [("window".toList, .atom (.int 50))]⟩ := by decide
example : formatAtom "1e-3".toList = .float "1e-3".toList ∧ formatAtom "'12'".toList = .str "12".toList ∧
    formatAtom "e_coli -> h_sapiens".toList = .str "e_coli -> h_sapiens".toList := by decide

end Dna.C16
