/-
C16 — Genbank annotations define the same problem as the Python API.
Theorems about Model/Label.lean and the generated registry (Gen/Tables.lean).
-/
import DnaModel.Model.Label
import DnaModel.Gen.Tables
set_option linter.unusedVariables false
set_option linter.unusedSimpArgs false

namespace Dna.C16
open Dna Dna.Label

/-- the documented shorthands resolve to the documented classes, in the registry generated from the source -/
theorem registry_shorthands :
    ∀ p ∈ [("no", "AvoidPattern"), ("keep", "AvoidChanges"), ("change", "EnforceChanges"), ("insert", "EnforcePatternOccurence"),
           ("sequence", "EnforceSequence"), ("choice", "EnforceChoice"), ("cds", "EnforceTranslation"), ("gc", "EnforceGCContent"),
           ("use_best_codon", "MaximizeCAI"), ("match_codon_usage", "MatchTargetCodonUsage"), ("harmonize_rca", "HarmonizeRCA"),
           ("all_unique_kmers", "UniquifyAllKmers"), ("CodonOptimize", "CodonOptimize")],
      lookupName Gen.specRegistry p.1.toList = some p.2 := by decide

end Dna.C16
