/-
C17 — edit accounting and summaries agree with the actual sequences.
Theorems about Model/Report.lean (and Model/Seq.lean differences).
-/
import DnaModel.Model.Report
import DnaModel.Props.C19
import DnaModel.Proofs.SolverPure
import DnaModel.Model.Builtin
import Mathlib.Algebra.Order.Ring.Rat
set_option linter.unusedVariables false
set_option linter.unusedSimpArgs false

namespace Dna.C17
open Dna Dna.Pure

/-! ### the code's numpy encoding is the run-length encoding -/

def b2i (b : Bool) : Int := if b then 1 else 0

/-- transition indices of `arr` read after a previous value `prev`, with a final `false` -/
def trans (prev : Bool) (i : Nat) : List Bool → List Nat
  | [] => if prev then [i] else []
  | b :: bs => (if b != prev then [i] else []) ++ trans b (i + 1) bs

theorem nonzero_npDiff (prev : Bool) (i : Nat) (arr : List Bool) :
    nonzeroFrom i (npDiff (b2i prev :: (arr.map (fun b => if b then (1 : Int) else 0)) ++ [0])) = trans prev i arr := by
  induction arr generalizing prev i with
  | nil => cases prev <;> simp [npDiff, nonzeroFrom, trans, b2i]
  | cons b bs ih =>
    have := ih b (i + 1)
    cases prev <;> cases b <;> simp_all [npDiff, nonzeroFrom, trans, b2i]

theorem diffOfPadded_eq (arr : List Bool) : diffOfPadded arr = trans false 0 arr := by
  simpa [b2i, diffOfPadded] using nonzero_npDiff false 0 arr

theorem pairUp_trans (arr : List Bool) (i : Nat) :
    pairUp (trans false i arr) = runsFrom i none arr ∧
    ∀ st, pairUp (st :: trans true i arr) = runsFrom i (some st) arr := by
  induction arr generalizing i with
  | nil => simp [trans, pairUp, runsFrom]
  | cons b bs ih =>
    obtain ⟨h1, h2⟩ := ih (i + 1)
    cases b
    · constructor
      · simpa [trans, runsFrom] using h1
      · intro st; simp [trans, runsFrom, pairUp, h1]
    · constructor
      · simpa [trans, runsFrom] using h2 i
      · intro st; simpa [trans, runsFrom] using h2 st

theorem pairUp_length : ∀ (l : List Nat), (pairUp l).length = l.length / 2
  | [] => rfl
  | [_] => by simp [pairUp]
  | a :: b :: r => by simp [pairUp, pairUp_length r]; omega

/-- `sequences_differences_segments` (np.diff / nonzero / pairing) is the run-length encoding of the mismatch array -/
theorem diffSegments_eq_runs (s t : Seq) : diffSegments s t = runs (diffArray s t) := by
  simp only [diffSegments, runs]
  rw [List.take_of_length_le (by rw [pairUp_length]), diffOfPadded_eq]
  exact (pairUp_trans _ 0).1


/-! ### number_of_edits -/

theorem diffCount_eq_countP_zip (s t : Seq) : diffCount s t = (s.zip t).countP (fun p => p.1 != p.2) := by
  induction s generalizing t with
  | nil => simp [diffCount, diffArray]
  | cons a as ih =>
    cases t with
    | nil => simp [diffCount, diffArray]
    | cons b bs =>
      have := ih bs
      simp only [diffCount] at this
      by_cases hab : a = b <;> simp [diffCount, diffArray, hab, List.countP_cons, this]

theorem filter_range_shift (n : Nat) (p : Nat → Bool) :
    ((List.range (n + 1)).filter p).length = (if p 0 then 1 else 0) + ((List.range n).filter (fun i => p (i + 1))).length := by
  rw [List.range_succ_eq_map, List.filter_cons, List.filter_map]
  split <;> simp [Function.comp_def, Nat.add_comm]

/-- `number_of_edits()` is the number of positions at which the two sequences differ -/
theorem diffCount_positions (s t : Seq) (h : s.length = t.length) :
    diffCount s t = ((List.range s.length).filter (fun i => s[i]? != t[i]?)).length := by
  induction s generalizing t with
  | nil => simp [diffCount, diffArray]
  | cons a as ih =>
    cases t with
    | nil => simp at h
    | cons b bs =>
      have := ih bs (by simpa using h)
      simp only [diffCount] at this
      rw [List.length_cons, filter_range_shift]
      by_cases hab : a = b <;> (simp [diffCount, diffArray, hab, this]; try omega)

/-! ### segments: total length -/

theorem runsFrom_total (arr : List Bool) (i : Nat) (cur : Option Nat) (hcur : ∀ st, cur = some st → st ≤ i) :
    ((runsFrom i cur arr).map (fun p => p.2 - p.1)).sum =
      (match cur with | some st => i - st | none => 0) + (arr.filter id).length := by
  induction arr generalizing i cur with
  | nil => cases cur <;> simp [runsFrom]
  | cons b bs ih =>
    cases b
    · cases cur with
      | none => simpa [runsFrom] using ih (i + 1) none (by simp)
      | some st => simpa [runsFrom] using ih (i + 1) none (by simp)
    · cases cur with
      | none =>
        have := ih (i + 1) (some i) (by simp)
        simp only [runsFrom, Option.getD_none, this, List.filter_cons, id, if_true, List.length_cons]
        omega
      | some st =>
        have hst := hcur st rfl
        have := ih (i + 1) (some st) (by intro x hx; simp at hx; omega)
        simp only [runsFrom, Option.getD_some, this, List.filter_cons, id, if_true, List.length_cons]
        omega

/-- the edit segments together have as many positions as `number_of_edits()` reports -/
theorem segments_total (s t : Seq) : ((diffSegments s t).map (fun p => p.2 - p.1)).sum = diffCount s t := by
  rw [diffSegments_eq_runs, runs, runsFrom_total _ 0 none (by simp)]
  simp [diffCount]

/-! ### edit features -/

theorem sliceN_getElem? (s : Seq) (a b k : Nat) (hk : k < b - a) : (sliceN s a b)[k]? = s[a + k]? := by
  simp [sliceN, List.getElem?_take, hk]

theorem sliceN_length (s : Seq) (a b : Nat) (hb : b ≤ s.length) : (sliceN s a b).length = b - a := by
  simp [sliceN]; omega

theorem mem_editFeatures (p : Life) (f : EditFeature) :
    f ∈ p.editFeatures ↔ (f.start, f.stop) ∈ runs (diffArray p.cur p.before) ∧
      f.labelBefore = sliceN p.before f.start f.stop ∧ f.labelAfter = sliceN p.cur f.start f.stop := by
  simp only [Life.editFeatures, diffSegments_eq_runs, List.mem_map, Prod.exists]
  constructor
  · rintro ⟨a, b, hm, rfl⟩; exact ⟨hm, rfl, rfl⟩
  · rintro ⟨hm, h1, h2⟩
    refine ⟨f.start, f.stop, hm, ?_⟩
    cases f; simp_all

/-- the edit features cover exactly the positions where the current sequence differs from the original one -/
theorem editFeatures_cover (p : Life) (h : p.cur.length = p.before.length) (j : Nat) :
    (∃ f ∈ p.editFeatures, f.start ≤ j ∧ j < f.stop) ↔ ∃ hj : j < p.cur.length, p.cur[j] ≠ p.before[j]'(by omega) := by
  rw [← C19.diff_segments_cover p.cur p.before h j]
  constructor
  · rintro ⟨f, hf, hj⟩
    exact ⟨(f.start, f.stop), ((mem_editFeatures p f).1 hf).1, hj⟩
  · rintro ⟨seg, hs, hj⟩
    exact ⟨⟨seg.1, seg.2, sliceN p.before seg.1 seg.2, sliceN p.cur seg.1 seg.2⟩, (mem_editFeatures p _).2 ⟨hs, rfl, rfl⟩, hj⟩

/-- every feature is a non-empty in-range segment, labelled with the true `before=>after` sub-sequences, which
    differ at every one of their positions -/
theorem editFeatures_labels (p : Life) (h : p.cur.length = p.before.length) (f : EditFeature) (hf : f ∈ p.editFeatures) :
    f.start < f.stop ∧ f.stop ≤ p.cur.length ∧
    f.labelBefore = sliceN p.before f.start f.stop ∧ f.labelAfter = sliceN p.cur f.start f.stop ∧
    f.labelBefore.length = f.stop - f.start ∧ f.labelAfter.length = f.stop - f.start ∧
    ∀ k, k < f.stop - f.start → f.labelBefore[k]? ≠ f.labelAfter[k]? := by
  obtain ⟨hm, hb, ha⟩ := (mem_editFeatures p f).1 hf
  have hlt : f.start < f.stop := (C19.runs_sorted_separated _).2 _ hm
  have hpos : ∀ j, f.start ≤ j → j < f.stop → ∃ hj : j < p.cur.length, p.cur[j] ≠ p.before[j]'(by omega) := by
    intro j h1 h2
    exact (editFeatures_cover p h j).1 ⟨f, hf, h1, h2⟩
  have hstop : f.stop ≤ p.cur.length := by
    obtain ⟨hj, _⟩ := hpos (f.stop - 1) (by omega) (by omega)
    omega
  refine ⟨hlt, hstop, hb, ha, ?_, ?_, ?_⟩
  · rw [hb, sliceN_length _ _ _ (by omega)]
  · rw [ha, sliceN_length _ _ _ hstop]
  · intro k hk
    obtain ⟨hj, hne⟩ := hpos (f.start + k) (by omega) (by omega)
    rw [hb, ha, sliceN_getElem? _ _ _ _ hk, sliceN_getElem? _ _ _ _ hk]
    rw [List.getElem?_eq_getElem (by omega), List.getElem?_eq_getElem hj]
    intro he
    exact hne (Option.some.inj he).symm

/-- features are sorted and separated by at least one unedited position (maximal runs) -/
theorem editFeatures_separated (p : Life) : p.editFeatures.Pairwise (fun a b => a.stop < b.start) := by
  simp only [Life.editFeatures, diffSegments_eq_runs]
  rw [List.pairwise_map]
  exact (C19.runs_sorted_separated _).1

/-- the features' sizes add up to `number_of_edits()` -/
theorem editFeatures_total (p : Life) : (p.editFeatures.map (fun f => f.stop - f.start)).sum = p.numberOfEdits := by
  simp only [Life.editFeatures, List.map_map, Life.numberOfEdits]
  exact segments_total p.cur p.before

/-! ### histories: reports read the original and the current sequence only -/

theorem assign_history (p : Life) (hist : List Seq) :
    (hist.foldl Life.assign p).before = p.before ∧ (hist.foldl Life.assign p).cur = hist.getLast?.getD p.cur := by
  induction hist generalizing p with
  | nil => simp
  | cons s rest ih =>
    obtain ⟨h1, h2⟩ := ih (p.assign s)
    refine ⟨by simpa [Life.assign] using h1, ?_⟩
    rw [List.foldl_cons, h2]
    cases rest with
    | nil => simp [Life.assign]
    | cons a l =>
      cases hl : (a :: l).getLast? with
      | none => simp at hl
      | some x => simp [List.getLast?_cons_cons, hl]

/-- after any history of sequence assignments (manual, or made by any solver method: these receive the immutable
    frame holding `sequence_before`), `number_of_edits()` counts the differences between the *original* sequence and
    the last one assigned -/
theorem numberOfEdits_history (p : Life) (hist : List Seq) (s : Seq) (h : s.length = p.before.length) :
    ((hist ++ [s]).foldl Life.assign p).numberOfEdits =
      ((List.range s.length).filter (fun i => s[i]? != p.before[i]?)).length := by
  obtain ⟨h1, h2⟩ := assign_history p (hist ++ [s])
  simp only [Life.numberOfEdits, h1, h2, List.getLast?_append, List.getLast?_singleton, Option.getD_some]
  simpa using diffCount_positions s p.before h

/-! ### summaries -/

/-- the constraints summary announces SUCCESS exactly when every listed evaluation passes -/
theorem summary_success_iff (passes : List Bool) :
    summaryOf passes = .success ↔ ∀ b ∈ passes, b = true := by
  simp only [summaryOf]
  split
  · rename_i h
    simp only [List.isEmpty_iff, List.filter_eq_nil_iff] at h
    simpa using h
  · rename_i h
    simp only [List.isEmpty_iff, List.filter_eq_nil_iff] at h
    simp only [reduceCtorEq, false_iff]
    intro hall; apply h; intro b hb; simp [hall b hb]

theorem summary_failure_count (passes : List Bool) (n : Nat) (h : summaryOf passes = .failure n) :
    n = passes.countP (fun b => !b) ∧ 0 < n := by
  simp only [summaryOf] at h
  split at h
  · cases h
  · rename_i hne
    cases h
    refine ⟨by rw [List.countP_eq_length_filter], ?_⟩
    cases hf : passes.filter (fun b => !b) with
    | nil => simp [hf] at hne
    | cons _ _ => simp

theorem render_success : Summary.render .success = "SUCCESS - all constraints evaluations pass" := rfl

/-! ### objectives total -/

theorem weightedTotal_rat_from (es : List (Rat × Rat)) (acc : Rat) :
    es.foldl (fun acc e => Score.add acc (Score.mul e.1 e.2)) acc = acc + (es.map (fun e => e.1 * e.2)).sum := by
  induction es generalizing acc with
  | nil => simp
  | cons e es ih => rw [List.foldl_cons, ih]; simp [Score.add, Score.mul, add_assoc]

/-- the reported objectives total is the boost-weighted sum of the individual scores (exact arithmetic) -/
theorem weightedTotal_rat (es : List (Rat × Rat)) : weightedTotal es = (es.map (fun e => e.1 * e.2)).sum := by
  simp only [weightedTotal]
  rw [weightedTotal_rat_from]
  simp [Score.zero]

/-- what the solver's `objective_scores_sum` computes for pure specifications is that same total -/
theorem total_eq_weightedTotal {σ K : Type} [Score K] (ops : SpecOps σ K) (ev : σ → Seq → Eval K) (F : Frame σ) (s : Seq) :
    total ops ev F s = weightedTotal (F.objectives.map (fun o => (ops.boost o, (ev o s).score))) := by
  simp only [total, totalFrom, weightedTotal, List.foldl_map]

/-! non-vacuity -/
example : (Life.mk "ATGCATGC".toList "ATGCATGC".toList |>.assign "TTGCAAAC".toList).editFeatures =
    [⟨0, 1, "A".toList, "T".toList⟩, ⟨5, 7, "TG".toList, "AA".toList⟩] := by decide
example : (Life.mk "ATGCATGC".toList "TTGCAAAC".toList).numberOfEdits = 3 := by decide
example : summaryOf [true, false, true, false] = .failure 2 := by decide

end Dna.C17
