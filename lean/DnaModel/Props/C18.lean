/-
C18 — Location arithmetic is exact interval arithmetic.
Every theorem is about `Dna.Loc` (Model/Loc.lean), for all integer triples.
-/
import DnaModel.Model.Loc

namespace Dna.C18
open Dna Loc

/-! ### overlap = set intersection -/

theorem mem_def (i : Int) (l : Loc) : i ∈ l ↔ l.start ≤ i ∧ i < l.stop := Iff.rfl

theorem overlap_mem (a b : Loc) (ha : a.Nonempty) (hb : b.Nonempty) (i : Int) :
    (∃ r, a.overlap b = some r ∧ i ∈ r) ↔ (i ∈ a ∧ i ∈ b) := by
  simp only [Loc.Nonempty, mem_def] at *
  unfold Loc.overlap
  constructor
  · rintro ⟨r, h, hi⟩
    split at h <;> simp_all <;> grind
  · intro h
    by_cases h1 : b.start < a.start
    · have h2 : ¬ a.start ≥ b.stop := by omega
      simp only [h1, h2, if_true, if_false]
      exact ⟨_, rfl, by simp only []; omega⟩
    · have h2 : ¬ b.start ≥ a.stop := by omega
      simp only [h1, h2, if_false]
      exact ⟨_, rfl, by simp only []; omega⟩

theorem overlap_none_iff (a b : Loc) (ha : a.Nonempty) (hb : b.Nonempty) :
    a.overlap b = none ↔ ¬ ∃ i : Int, i ∈ a ∧ i ∈ b := by
  simp only [Loc.Nonempty, mem_def] at *
  unfold Loc.overlap
  constructor
  · intro h
    rintro ⟨i, hi⟩
    by_cases h1 : b.start < a.start <;> simp [h1] at h <;> omega
  · intro h
    by_cases h1 : b.start < a.start <;> simp [h1]
    · exact Int.not_lt.1 (fun hc => h ⟨a.start, by omega⟩)
    · exact Int.not_lt.1 (fun hc => h ⟨b.start, by omega⟩)

theorem overlap_comm_span (a b : Loc) (ha : a.Nonempty) (hb : b.Nonempty) :
    (a.overlap b).map (fun r => (r.start, r.stop)) = (b.overlap a).map (fun r => (r.start, r.stop)) := by
  simp only [Loc.Nonempty] at *
  unfold Loc.overlap
  by_cases h : b.start < a.start
  · have h' : ¬ a.start < b.start := by omega
    simp only [h, h', if_true, if_false]
    split <;> simp
  · by_cases h' : a.start < b.start
    · simp only [h, h', if_true, if_false]
      split <;> simp
    · have e : a.start = b.start := by omega
      simp only [h, h', if_false]
      have c1 : ¬ b.start ≥ a.stop := by omega
      have c2 : ¬ a.start ≥ b.stop := by omega
      rw [if_neg c1, if_neg c2]
      simp [e, Int.min_comm]

theorem overlap_strand (a b r : Loc) (h : a.overlap b = some r) : r.strand = a.strand := by
  unfold Loc.overlap at h
  by_cases h1 : b.start < a.start <;> simp only [h1, if_true, if_false] at h
  · split at h
    · simp at h
    · simp only [Option.some.injEq] at h; rw [← h]
  · split at h
    · simp at h
    · simp only [Option.some.injEq] at h; rw [← h]

theorem overlap_nonempty (a b r : Loc) (ha : a.Nonempty) (hb : b.Nonempty)
    (h : a.overlap b = some r) : r.Nonempty := by
  simp only [Loc.Nonempty] at *
  unfold Loc.overlap at h
  by_cases h1 : b.start < a.start <;> simp only [h1, if_true, if_false] at h
  · split at h
    · simp at h
    · simp only [Option.some.injEq] at h; rw [← h]; simp; omega
  · split at h
    · simp at h
    · simp only [Option.some.injEq] at h; rw [← h]; simp; omega

theorem overlap_touching (a b : Loc) (ha : a.Nonempty) (hb : b.Nonempty) (h : a.stop = b.start) :
    a.overlap b = none ∧ b.overlap a = none := by
  simp only [Loc.overlap, Loc.Nonempty] at *
  constructor
  · have : ¬ b.start < a.start := by omega
    simp [this]; omega
  · have : a.start < b.start := by omega
    simp [this]; omega


/-! ### extension -/

theorem extended_start (l : Loc) (n lo : Int) (hi : Option Int) (left right : Bool) :
    (l.extended n lo hi left right).start = if left then max lo (l.start - n) else l.start := by
  simp [Loc.extended]

theorem extended_stop (l : Loc) (n lo : Int) (hi : Option Int) (left right : Bool) :
    (l.extended n lo hi left right).stop =
      if right then (match hi with | some u => min u (l.stop + n) | none => l.stop + n) else l.stop := by
  unfold Loc.extended; cases right <;> cases hi <;> simp

theorem extended_strand (l : Loc) (n lo : Int) (hi : Option Int) (left right : Bool) :
    (l.extended n lo hi left right).strand = l.strand := by
  simp [Loc.extended]

/-- without active limits, the extension is exactly the `n`-neighbourhood -/
theorem extended_mem_free (l : Loc) (n : Int) (hn : 0 ≤ n) (hl : 0 ≤ l.start - n) (i : Int) :
    i ∈ l.extended n ↔ l.start - n ≤ i ∧ i < l.stop + n := by
  simp only [mem_def, Loc.extended, if_true]
  omega

/-! ### ordering, equality, tuples -/

theorem lt_iff (a b : Loc) : a.lt b = true ↔
    a.start < b.start ∨ (a.start = b.start ∧ (a.stop < b.stop ∨ (a.stop = b.stop ∧ a.strand < b.strand))) := by
  simp [Loc.lt]

theorem lt_irrefl (a : Loc) : a.lt a = false := by
  have := lt_iff a a
  cases h : a.lt a
  · rfl
  · rw [h] at this; simp at this

theorem lt_trans (a b c : Loc) (h1 : a.lt b = true) (h2 : b.lt c = true) : a.lt c = true := by
  rw [lt_iff] at *; omega

theorem lt_trichotomy (a b : Loc) : a.lt b = true ∨ a = b ∨ b.lt a = true := by
  rw [lt_iff, lt_iff]
  by_cases h : a = b
  · exact Or.inr (Or.inl h)
  · have : a.start ≠ b.start ∨ a.stop ≠ b.stop ∨ a.strand ≠ b.strand := by
      cases a; cases b; simp only [Loc.mk.injEq] at h; simp only; omega
    omega

theorem eq_iff_toTuple (a b : Loc) : a = b ↔ a.toTuple = b.toTuple := by
  cases a; cases b; simp [Loc.toTuple]

theorem ofTuple_toTuple (a : Loc) : Loc.ofTuple a.toTuple = a := rfl
theorem toTuple_ofTuple (t : Int × Int × Int) : (Loc.ofTuple t).toTuple = t := rfl
theorem ofPair_default (t : Int × Int) : (Loc.ofPair t).toTuple = (t.1, t.2, 0) := rfl
theorem ofBio_none (s e : Int) : (Loc.ofBio s e none).strand = 0 := rfl
theorem ofBio_some (s e st : Int) : Loc.ofBio s e (some st) = ⟨s, e, st⟩ := rfl

/-! ### shifting -/

theorem shift_unshift (l : Loc) (n : Int) : (l.shift n).unshift n = l := by
  cases l; simp [Loc.shift, Loc.unshift]

theorem mem_shift (l : Loc) (n i : Int) : i ∈ l.shift n ↔ i - n ∈ l := by
  simp only [mem_def, Loc.shift]; omega

theorem len_shift (l : Loc) (n : Int) : (l.shift n).len = l.len := by
  simp only [Loc.shift, Loc.len]; omega

/-! ### indices / extraction -/

theorem mem_indices (l : Loc) (i : Int) : i ∈ l.indices ↔ i ∈ l := by
  simp only [Loc.indices, mem_def]
  split <;> simp only [List.mem_reverse, List.mem_map, List.mem_range] <;> constructor
  · rintro ⟨k, hk, rfl⟩; omega
  · intro h; exact ⟨(i - l.start).toNat, by omega, by omega⟩
  · rintro ⟨k, hk, rfl⟩; omega
  · intro h; exact ⟨(i - l.start).toNat, by omega, by omega⟩

theorem extract_plus (l : Loc) (s : Seq) (h : l.strand ≠ -1) :
    l.extract s = some (pySlice s l.start l.stop) := by
  simp [Loc.extract, h]

theorem extract_minus (l : Loc) (s : Seq) (h : l.strand = -1) :
    l.extract s = reverseComplement (pySlice s l.start l.stop) := by
  simp [Loc.extract, h]

/-! ### merging -/

theorem le_total (a b : Loc) : (a.le b || b.le a) = true := by
  have h1 := lt_iff a b
  have h2 := lt_iff b a
  simp only [Loc.le]
  cases hab : a.lt b <;> cases hba : b.lt a <;> simp
  rw [hab] at h1; rw [hba] at h2; simp at h1 h2; omega

theorem le_trans' (a b c : Loc) (h1 : a.le b = true) (h2 : b.le c = true) : a.le c = true := by
  have e1 := lt_iff b a
  have e2 := lt_iff c b
  have e3 := lt_iff c a
  simp only [Loc.le, Bool.not_eq_true'] at *
  cases h : c.lt a
  · rfl
  · rw [h1] at e1; rw [h2] at e2; rw [h] at e3; simp at e1 e2 e3; omega

theorem le_start (a b : Loc) (h : a.le b = true) : a.start ≤ b.start := by
  have e := lt_iff b a
  simp only [Loc.le, Bool.not_eq_true'] at h
  rw [h] at e; simp at e; omega

/-- invariant of the merge loop (accumulator reversed: most recent first) -/
def MergeInv (acc : List Loc) : Prop :=
  acc.Pairwise (fun x y => y.stop ≤ x.start) ∧ ∀ l ∈ acc, l.Nonempty

theorem mergeStep_inv (acc : List Loc) (loc : Loc) (hne : loc.Nonempty)
    (hinv : MergeInv acc) (hs : ∀ l ∈ acc, l.start ≤ loc.start) :
    MergeInv (Loc.mergeStep acc loc) ∧ (∀ l ∈ Loc.mergeStep acc loc, l.start ≤ loc.start) ∧
    (∀ i : Int, (∃ l ∈ Loc.mergeStep acc loc, i ∈ l) ↔ ((∃ l ∈ acc, i ∈ l) ∨ i ∈ loc)) := by
  cases acc with
  | nil =>
    simp [Loc.mergeStep, MergeInv, hne]
  | cons last rest =>
    obtain ⟨hp, hn⟩ := hinv
    have hlast : last.Nonempty := hn last (by simp)
    have hls : last.start ≤ loc.start := hs last (by simp)
    rw [List.pairwise_cons] at hp
    simp only [Loc.mergeStep]
    have hov : last.overlap loc = (if loc.start ≥ last.stop then none
        else some ⟨loc.start, min last.stop loc.stop, last.strand⟩) := by
      simp only [Loc.overlap]
      have : ¬ loc.start < last.start := by omega
      simp [this]
    rw [hov]
    simp only [Loc.Nonempty] at hlast hne
    by_cases hc : loc.start ≥ last.stop
    · simp only [hc, if_true]
      refine ⟨⟨?_, ?_⟩, ?_, ?_⟩
      · rw [List.pairwise_cons]
        refine ⟨?_, List.pairwise_cons.2 hp⟩
        intro y hy
        rcases List.mem_cons.1 hy with rfl | hy
        · omega
        · have := hp.1 y hy; omega
      · intro l hl
        rcases List.mem_cons.1 hl with rfl | hl
        · exact hne
        · exact hn l hl
      · intro l hl
        rcases List.mem_cons.1 hl with rfl | hl
        · omega
        · exact hs l hl
      · intro i; simp only [List.mem_cons, exists_eq_or_imp, mem_def]
        constructor
        · rintro (h | h)
          · exact Or.inr h
          · exact Or.inl h
        · rintro (h | h)
          · exact Or.inr h
          · exact Or.inl h
    · simp only [hc, if_false]
      refine ⟨⟨?_, ?_⟩, ?_, ?_⟩
      · rw [List.pairwise_cons]
        exact ⟨fun y hy => hp.1 y hy, hp.2⟩
      · intro l hl
        rcases List.mem_cons.1 hl with rfl | hl
        · simp only [Loc.Nonempty]; omega
        · exact hn l (by simp [hl])
      · intro l hl
        rcases List.mem_cons.1 hl with rfl | hl
        · exact hls
        · exact hs l (by simp [hl])
      · intro i; simp only [List.mem_cons, exists_eq_or_imp, mem_def]
        constructor
        · rintro (h | h)
          · by_cases hi : i < last.stop
            · exact Or.inl (Or.inl ⟨h.1, hi⟩)
            · exact Or.inr (by omega)
          · exact Or.inl (Or.inr h)
        · rintro ((h | h) | h)
          · exact Or.inl (by omega)
          · exact Or.inr h
          · exact Or.inl (by omega)

theorem foldl_mergeStep_inv (xs : List Loc) (acc : List Loc)
    (hne : ∀ l ∈ xs, l.Nonempty) (hsorted : xs.Pairwise (fun a b => a.start ≤ b.start))
    (hinv : MergeInv acc) (hs : ∀ l ∈ acc, ∀ x ∈ xs, l.start ≤ x.start) :
    MergeInv (xs.foldl Loc.mergeStep acc) ∧
    (∀ i : Int, (∃ l ∈ xs.foldl Loc.mergeStep acc, i ∈ l) ↔ ((∃ l ∈ acc, i ∈ l) ∨ ∃ l ∈ xs, i ∈ l)) := by
  induction xs generalizing acc with
  | nil => simp [hinv]
  | cons x xs ih =>
    rw [List.pairwise_cons] at hsorted
    have step := mergeStep_inv acc x (hne x (by simp)) hinv (fun l hl => hs l hl x (by simp))
    obtain ⟨h1, h2, h3⟩ := step
    have := ih (Loc.mergeStep acc x) (fun l hl => hne l (by simp [hl])) hsorted.2 h1
      (fun l hl y hy => Int.le_trans (h2 l hl) (hsorted.1 y hy))
    refine ⟨this.1, ?_⟩
    intro i
    rw [List.foldl_cons, this.2 i, h3 i]
    simp only [List.mem_cons, exists_eq_or_imp]
    constructor
    · rintro ((h | h) | h)
      · exact Or.inl h
      · exact Or.inr (Or.inl h)
      · exact Or.inr (Or.inr h)
    · rintro (h | h | h)
      · exact Or.inl (Or.inl h)
      · exact Or.inl (Or.inr h)
      · exact Or.inr h

/-- Merging non-empty locations yields sorted, pairwise disjoint, non-empty
    locations (`x.stop ≤ y.start` for `x` before `y`) with exactly the same union. -/
theorem merge_sorted_disjoint_union (locs : List Loc) (hne : ∀ l ∈ locs, l.Nonempty) :
    (Loc.mergeOverlapping locs).Pairwise (fun x y => x.stop ≤ y.start) ∧
    (∀ l ∈ Loc.mergeOverlapping locs, l.Nonempty) ∧
    (∀ i : Int, (∃ l ∈ Loc.mergeOverlapping locs, i ∈ l) ↔ ∃ l ∈ locs, i ∈ l) := by
  have hperm := List.mergeSort_perm locs Loc.le
  have hsorted : (locs.mergeSort Loc.le).Pairwise (fun a b => a.le b = true) :=
    List.pairwise_mergeSort (fun a b c h1 h2 => le_trans' a b c h1 h2) (fun a b => le_total a b) locs
  have hsorted' : (locs.mergeSort Loc.le).Pairwise (fun a b => a.start ≤ b.start) :=
    hsorted.imp (fun h => le_start _ _ h)
  have hne' : ∀ l ∈ locs.mergeSort Loc.le, l.Nonempty := fun l hl => hne l (hperm.mem_iff.1 hl)
  have := foldl_mergeStep_inv (locs.mergeSort Loc.le) [] hne' hsorted' (by simp [MergeInv]) (by simp)
  obtain ⟨⟨hp, hn⟩, hu⟩ := this
  simp only [Loc.mergeOverlapping]
  refine ⟨?_, ?_, ?_⟩
  · rw [List.pairwise_reverse]; exact hp
  · intro l hl; exact hn l (List.mem_reverse.1 hl)
  · intro i
    simp only [List.mem_reverse]
    rw [hu i]
    simp only [List.not_mem_nil, false_and, exists_false, false_or]
    constructor
    · rintro ⟨l, hl, hi⟩; exact ⟨l, hperm.mem_iff.1 hl, hi⟩
    · rintro ⟨l, hl, hi⟩; exact ⟨l, hperm.mem_iff.2 hl, hi⟩

/-- merged locations never overlap each other (as `overlap_region` sees it) -/
theorem merge_no_overlap (locs : List Loc) (hne : ∀ l ∈ locs, l.Nonempty) :
    (Loc.mergeOverlapping locs).Pairwise (fun x y => x.overlap y = none) := by
  obtain ⟨hp, hn, _⟩ := merge_sorted_disjoint_union locs hne
  have : (Loc.mergeOverlapping locs).Pairwise
      (fun x y => x.stop ≤ y.start ∧ x.Nonempty ∧ y.Nonempty) := by
    rw [List.pairwise_iff_forall_sublist] at hp ⊢
    intro a b hab
    have hs := hab.subset
    exact ⟨hp hab, hn a (hs (by simp)), hn b (hs (by simp))⟩
  refine this.imp ?_
  intro a b ⟨h, ha, hb⟩
  rw [overlap_none_iff a b ha hb]
  rintro ⟨i, hi1, hi2⟩
  simp only [mem_def] at hi1 hi2; omega

/-! ### non-vacuity: concrete instances of the hypotheses and conclusions -/

example : (⟨0, 5, 1⟩ : Loc).overlap ⟨3, 9, -1⟩ = some ⟨3, 5, 1⟩ := by decide
example : (⟨0, 5, 1⟩ : Loc).overlap ⟨5, 9, -1⟩ = none := by decide
example : ∀ l ∈ [(⟨3, 9, 0⟩ : Loc), ⟨0, 5, 0⟩, ⟨12, 14, 1⟩, ⟨9, 10, 0⟩], l.Nonempty := by
  simp [Loc.Nonempty]
-- (a test, not a theorem: `mergeSort` is defined by well-founded recursion and does not reduce in `decide`)
#guard Loc.mergeOverlapping [⟨3, 9, 0⟩, ⟨0, 5, 0⟩, ⟨12, 14, 1⟩, ⟨9, 10, 0⟩]
    = [⟨0, 9, 0⟩, ⟨9, 10, 0⟩, ⟨12, 14, 1⟩]
example : (⟨5, 10, 1⟩ : Loc).extended 7 0 (some 12) = ⟨0, 12, 1⟩ := by decide

end Dna.C18
