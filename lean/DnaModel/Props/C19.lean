/-
C19 — sequence utilities obey their algebraic laws.
Theorems about Model/Seq.lean and the generated tables (Gen/Tables.lean).
-/
import DnaModel.Model.Seq
set_option linter.unusedVariables false
set_option linter.unusedSimpArgs false

namespace Dna.C19
open Dna


def iupacDna : List Char := ['A','C','G','T','W','S','M','K','R','Y','B','D','H','V','N']
theorem compChar_involutive_table : ∀ c ∈ iupacDna, compChar (compChar c) = c := by decide
theorem csv_bio_agree : ∀ p ∈ Gen.complementsCsv, (lookup p.1 Gen.bioComplement).getD p.1 = p.2 := by decide
theorem csv_keys_unique : (Gen.complementsCsv.map (·.1)).Nodup := by decide

theorem rc_involutive (s : Seq) (h : ∀ c ∈ s, c ∈ iupacDna) : rc (rc s) = s := by
  simp only [rc, List.map_reverse, List.reverse_reverse, List.map_map]
  conv => rhs; rw [← List.map_id s]
  apply List.map_congr_left
  intro c hc
  exact compChar_involutive_table c (h c hc)

theorem rc_length (s : Seq) : (rc s).length = s.length := by simp [rc]

/-- base-wise: the i-th base of the reverse complement is the complement of the i-th base from the end -/
theorem rc_basewise (s : Seq) (i : Nat) (hi : i < s.length) :
    (rc s)[i]? = some (compChar (s[s.length - 1 - i]'(by omega))) := by
  simp only [rc]
  rw [List.getElem?_reverse (by simpa using hi)]
  simp only [List.length_map, List.getElem?_map, Option.map_eq_some_iff]
  exact ⟨_, List.getElem?_eq_getElem _, rfl⟩

def inCsv (c : Char) : Bool := (lookup c Gen.complementsCsv).isSome

theorem complementCsv_eq (s : Seq) (h : ∀ c ∈ s, inCsv c = true) : complementCsv s = some (s.map compChar) := by
  induction s with
  | nil => rfl
  | cons c cs ih =>
    have hc : inCsv c = true := h c (by simp)
    have ih' := ih (fun d hd => h d (by simp [hd]))
    simp only [complementCsv, ih', List.map_cons]
    simp only [inCsv, Option.isSome_iff_exists] at hc
    obtain ⟨d, hd⟩ := hc
    simp [hd, compChar]

theorem lookup_mem {α β : Type} [BEq α] [LawfulBEq α] (k : α) (l : List (α × β)) (v : β) (h : lookup k l = some v) : (k, v) ∈ l := by
  induction l with
  | nil => simp [lookup] at h
  | cons p ps ih =>
    obtain ⟨a, b⟩ := p
    simp only [lookup] at h
    split at h
    · rename_i hab
      simp only [Option.some.injEq] at h
      have : a = k := by simpa using hab
      simp [this, h]
    · simp [ih h]

theorem complementBio_eq (s : Seq) (h : ∀ c ∈ s, inCsv c = true) : complementBio s = s.map compChar := by
  simp only [complementBio]
  apply List.map_congr_left
  intro c hc
  have := h c hc
  simp only [inCsv, Option.isSome_iff_exists] at this
  obtain ⟨d, hd⟩ := this
  have hm := lookup_mem c _ d hd
  have := csv_bio_agree (c, d) hm
  simp only [compChar, hd, Option.getD_some]
  exact this

/-- the library function, on its whole alphabet (both code paths), is the base-wise reverse complement -/
theorem reverseComplement_eq_rc (s : Seq) (h : ∀ c ∈ s, inCsv c = true) : reverseComplement s = some (rc s) := by
  simp only [reverseComplement, complement, rc]
  split
  · rw [complementCsv_eq s h]; rfl
  · rw [complementBio_eq s h]; rfl

theorem iupac_in_csv : ∀ c ∈ iupacDna, inCsv c = true := by decide
theorem compChar_closed : ∀ c ∈ iupacDna, compChar c ∈ iupacDna := by decide

/-- `reverse_complement(reverse_complement(s)) == s` for every IUPAC DNA string, of any length -/
theorem reverseComplement_involutive (s : Seq) (h : ∀ c ∈ s, c ∈ iupacDna) :
    (reverseComplement s).bind reverseComplement = some s := by
  rw [reverseComplement_eq_rc s (fun c hc => iupac_in_csv c (h c hc))]
  simp only [Option.bind_some]
  rw [reverseComplement_eq_rc, rc_involutive s h]
  intro c hc
  simp only [rc, List.mem_reverse, List.mem_map] at hc
  obtain ⟨d, hd, rfl⟩ := hc
  exact iupac_in_csv _ (compChar_closed d (h d hd))




def standardAAs : List Char := ['A','C','D','E','F','G','H','I','K','L','M','N','P','Q','R','S','T','V','W','Y','*']
def noDualStops (t : Gen.CodonTable) : Bool := t.stops.all (fun c => (lookup c t.forward).isNone)
def goodAA (t : Gen.CodonTable) (a : Char) : Bool :=
  match lookup [a] t.back with
  | some (c :: _) => c.length == 3 && translateCodon t c == some a
  | _ => false

theorem tables_roundtrip : ∀ t ∈ Gen.codonTables, noDualStops t = true → ∀ a ∈ standardAAs, goodAA t a = true := by
  decide +kernel

theorem chunk3_append3 (c r : Seq) (h : c.length = 3) : chunk3 (c ++ r) = c :: chunk3 r := by
  match c, h with
  | [x, y, z], _ => simp [chunk3]

theorem translate_reverseTranslate_of_good (t : Gen.CodonTable) (p : Seq)
    (hp : ∀ a ∈ p, goodAA t a = true) :
    ∃ dna, reverseTranslate t p = some dna ∧ translateCodons t (chunk3 dna) = some p ∧ dna.length = 3 * p.length := by
  induction p with
  | nil => exact ⟨[], rfl, rfl, rfl⟩
  | cons a rest ih =>
    obtain ⟨r, hr, htr, hlen⟩ := ih (fun b hb => hp b (by simp [hb]))
    have ha := hp a (by simp)
    simp only [goodAA] at ha
    split at ha
    · rename_i c cs hlook
      simp only [Bool.and_eq_true, beq_iff_eq] at ha
      refine ⟨c ++ r, ?_, ?_, ?_⟩
      · simp [reverseTranslate, hlook, hr]
      · rw [chunk3_append3 c r ha.1]
        simp [translateCodons, ha.2, htr]
      · simp [ha.1, hlen]; omega
    · simp at ha

/-- translating a reverse-translated protein gives the protein back, for every
    genetic table without dual-use stop codons and every protein over the 20 amino
    acids and `*` -/
theorem translate_reverseTranslate (t : Gen.CodonTable) (ht : t ∈ Gen.codonTables)
    (hd : noDualStops t = true) (p : Seq) (hp : ∀ a ∈ p, a ∈ standardAAs) :
    (reverseTranslate t p).bind (translate t false) = some p := by
  obtain ⟨dna, h1, h2, _⟩ := translate_reverseTranslate_of_good t p
    (fun a ha => tables_roundtrip t ht hd a (hp a ha))
  simp [h1, translate, h2]

/-- the hypothesis cannot be dropped: a dual-use table where the round trip fails -/
theorem dual_use_counterexample : ∃ t ∈ Gen.codonTables, noDualStops t = false ∧
    (reverseTranslate t ['*']).bind (translate t false) ≠ some ['*'] := by
  decide +kernel




theorem gcCount_append (a b : Seq) : gcCount (a ++ b) = gcCount a + gcCount b := by
  simp [gcCount, List.filter_append]

theorem gcCount_cons (c : Char) (s : Seq) : gcCount (c :: s) = (if isGC c then 1 else 0) + gcCount s := by
  simp only [gcCount, List.filter_cons]
  split <;> simp <;> omega

theorem cumsumFrom_length (acc : Nat) (s : Seq) : (cumsumFrom acc s).length = s.length := by
  induction s generalizing acc with
  | nil => rfl
  | cons c cs ih => simp [cumsumFrom, ih]

theorem cumsumFrom_getElem? (acc : Nat) (s : Seq) (i : Nat) (hi : i < s.length) :
    (cumsumFrom acc s)[i]? = some (acc + gcCount (s.take (i + 1))) := by
  induction s generalizing acc i with
  | nil => simp at hi
  | cons c cs ih =>
    cases i with
    | zero =>
      simp only [cumsumFrom, List.getElem?_cons_zero, Nat.zero_add, List.take_succ_cons, List.take_zero,
        gcCount_cons]
      simp [gcCount]
    | succ k =>
      simp only [cumsumFrom, List.getElem?_cons_succ, List.take_succ_cons, gcCount_cons]
      rw [ih _ k (by simpa using hi)]
      simp; omega

theorem take_add_win (s : Seq) (j w : Nat) : s.take (j + w) = s.take j ++ win s j w := by
  simp only [win]
  rw [← List.take_append_drop j (s.take (j + w))]
  congr 1
  · simp [List.take_take]
  · rw [List.drop_take]; simp

theorem gcCount_win (s : Seq) (j w : Nat) :
    gcCount (win s j w) = gcCount (s.take (j + w)) - gcCount (s.take j) := by
  rw [take_add_win, gcCount_append]; omega

/-- the windowed GC numerators computed by the cumulative-sum code equal the directly
    counted ones, one value per full window, `n - w + 1` of them (none when `w > n`) -/
theorem gc_windows_eq_count (s : Seq) (w : Nat) (hw : 1 ≤ w) :
    gcWindowsCumsum s w = gcWindowsDirect s w := by
  apply List.ext_getElem?
  intro j
  simp only [gcWindowsCumsum, gcWindowsDirect, cumsum, List.getElem?_zipWith, List.getElem?_map,
    List.getElem?_drop, List.getElem?_range]
  have hlen := cumsumFrom_length 0 s
  have hslice : pySliceTo (cumsumFrom 0 s) (-(w : Int)) = (cumsumFrom 0 s).take (s.length - w) := by
    simp only [pySliceTo, pyIndex, hlen]
    have h1 : (-(w : Int)) < 0 := by omega
    simp only [h1, if_true]
    split
    · have : s.length - w = 0 := by omega
      simp [this]
    · congr 1; omega
  rw [hslice]
  by_cases hj : j < s.length + 1 - w
  · have h1 : w - 1 + j < s.length := by omega
    rw [cumsumFrom_getElem? 0 s _ h1]
    simp only [List.getElem?_range hj, Option.map_some]
    cases j with
    | zero =>
      simp only [List.getElem?_cons_zero, Option.map_some, Option.bind_some] 
      rw [gcCount_win]
      have e : w - 1 + 0 + 1 = 0 + w := by omega
      simp only [e]; simp [gcCount]
    | succ k =>
      simp only [List.getElem?_cons_succ, List.getElem?_take]
      have h2 : k < s.length - w := by omega
      have h3 : k < s.length := by omega
      simp only [h2, if_true]
      rw [cumsumFrom_getElem? 0 s k h3]
      simp only [Option.map_some, Option.bind_some]
      rw [gcCount_win]
      have e : w - 1 + (k + 1) + 1 = k + 1 + w := by omega
      simp only [Nat.zero_add, e]
  · have h1 : ¬ (w - 1 + j < s.length) := by omega
    have : (cumsumFrom 0 s)[w - 1 + j]? = none := by
      rw [List.getElem?_eq_none_iff]; omega
    rw [this]
    have : (List.range (s.length + 1 - w))[j]? = none := by
      rw [List.getElem?_eq_none_iff]; simp; omega
    simp [this]

theorem gc_windows_length (s : Seq) (w : Nat) : (gcWindowsDirect s w).length = s.length + 1 - w := by
  simp [gcWindowsDirect]

/-- global GC content numerator/denominator: the counted fraction -/
theorem gcCount_le_length (s : Seq) : gcCount s ≤ s.length := by
  simp only [gcCount]; exact List.length_filter_le _ _




/-! differences -/
theorem diffArray_getElem? (s t : Seq) (h : s.length = t.length) (i : Nat) (hi : i < s.length) :
    (diffArray s t)[i]? = some (s[i] != t[i]'(by omega)) := by
  induction s generalizing t i with
  | nil => simp at hi
  | cons a as ih =>
    cases t with
    | nil => simp at h
    | cons b bs =>
      cases i with
      | zero => simp [diffArray]
      | succ k =>
        simp only [diffArray, List.getElem?_cons_succ, List.getElem_cons_succ]
        exact ih bs (by simpa using h) k (by simpa using hi)

theorem diffArray_length (s t : Seq) (h : s.length = t.length) : (diffArray s t).length = s.length := by
  induction s generalizing t with
  | nil => cases t <;> simp [diffArray]
  | cons a as ih =>
    cases t with
    | nil => simp at h
    | cons b bs => simp [diffArray, ih bs (by simpa using h)]

/-- coverage of the run-length encoding, generalised over the loop state -/
theorem runsFrom_cover (arr : List Bool) (i : Nat) (cur : Option Nat) (hcur : ∀ st, cur = some st → st < i) (j : Nat) :
    (∃ seg ∈ runsFrom i cur arr, seg.1 ≤ j ∧ j < seg.2) ↔
      ((∃ st, cur = some st ∧ st ≤ j ∧ j < i) ∨ (i ≤ j ∧ arr[j - i]? = some true)) := by
  induction arr generalizing i cur with
  | nil =>
    cases cur with
    | none => simp [runsFrom]
    | some st => simp [runsFrom]
  | cons b bs ih =>
    cases b with
    | true =>
      simp only [runsFrom]
      rw [ih (i + 1) (some (cur.getD i)) (by intro st h; cases cur <;> simp at h <;> (try have := hcur _ rfl) <;> omega)]
      cases cur with
      | none =>
        simp only [Option.getD_none, Option.some.injEq, exists_eq_left', reduceCtorEq, false_and, exists_false, false_or]
        constructor
        · rintro (⟨h1, h2⟩ | ⟨h1, h2⟩)
          · have : j = i := by omega
            subst this; simp
          · refine ⟨by omega, ?_⟩
            have : j - i = (j - (i + 1)) + 1 := by omega
            rw [this]; simpa using h2
        · rintro ⟨h1, h2⟩
          by_cases h : j = i
          · left; omega
          · right; refine ⟨by omega, ?_⟩
            have : j - i = (j - (i + 1)) + 1 := by omega
            rw [this] at h2; simpa using h2
      | some st =>
        have hst := hcur st rfl
        simp only [Option.getD_some, Option.some.injEq, exists_eq_left']
        constructor
        · rintro (⟨h1, h2⟩ | ⟨h1, h2⟩)
          · by_cases h : j < i
            · left; exact ⟨h1, h⟩
            · right; have : j = i := by omega
              subst this; simp
          · right; refine ⟨by omega, ?_⟩
            have : j - i = (j - (i + 1)) + 1 := by omega
            rw [this]; simpa using h2
        · rintro (⟨h1, h2⟩ | ⟨h1, h2⟩)
          · left; omega
          · by_cases h : j = i
            · left; omega
            · right; refine ⟨by omega, ?_⟩
              have : j - i = (j - (i + 1)) + 1 := by omega
              rw [this] at h2; simpa using h2
    | false =>
      cases cur with
      | none =>
        simp only [runsFrom]
        rw [ih (i + 1) none (by simp)]
        simp only [reduceCtorEq, false_and, exists_false, false_or]
        constructor
        · rintro ⟨h1, h2⟩
          refine ⟨by omega, ?_⟩
          have : j - i = (j - (i + 1)) + 1 := by omega
          rw [this]; simpa using h2
        · rintro ⟨h1, h2⟩
          have hne : j ≠ i := by
            intro h; subst h; simp at h2
          refine ⟨by omega, ?_⟩
          have : j - i = (j - (i + 1)) + 1 := by omega
          rw [this] at h2; simpa using h2
      | some st =>
        have hst := hcur st rfl
        simp only [runsFrom, List.mem_cons, exists_eq_or_imp]
        rw [ih (i + 1) none (by simp)]
        simp only [reduceCtorEq, false_and, exists_false, false_or, Option.some.injEq, exists_eq_left']
        constructor
        · rintro (h | ⟨h1, h2⟩)
          · left; exact h
          · right; refine ⟨by omega, ?_⟩
            have : j - i = (j - (i + 1)) + 1 := by omega
            rw [this]; simpa using h2
        · rintro (h | ⟨h1, h2⟩)
          · left; exact h
          · right
            have hne : j ≠ i := by
              intro h; subst h; simp at h2
            refine ⟨by omega, ?_⟩
            have : j - i = (j - (i + 1)) + 1 := by omega
            rw [this] at h2; simpa using h2

/-- the segments cover exactly the `true` positions -/
theorem runs_cover (arr : List Bool) (j : Nat) :
    (∃ seg ∈ runs arr, seg.1 ≤ j ∧ j < seg.2) ↔ arr[j]? = some true := by
  simp only [runs]
  rw [runsFrom_cover arr 0 none (by simp) j]
  simp

/-- the segments of two equal-length sequences describe exactly their mismatching positions -/
theorem diff_segments_cover (s t : Seq) (h : s.length = t.length) (j : Nat) :
    (∃ seg ∈ runs (diffArray s t), seg.1 ≤ j ∧ j < seg.2) ↔ ∃ hj : j < s.length, s[j] ≠ t[j]'(by omega) := by
  rw [runs_cover]
  constructor
  · intro hj
    have hlt : j < s.length := by
      have := (List.getElem?_eq_some_iff.1 hj).1
      rw [diffArray_length s t h] at this; exact this
    refine ⟨hlt, ?_⟩
    rw [diffArray_getElem? s t h j hlt] at hj
    simpa using hj
  · rintro ⟨hj, hne⟩
    rw [diffArray_getElem? s t h j hj]
    simpa using hne

/-- sorted, non-empty, separated by at least one matching position (hence maximal runs) -/
theorem runsFrom_sorted (arr : List Bool) (i : Nat) (cur : Option Nat) (hcur : ∀ st, cur = some st → st < i) :
    (runsFrom i cur arr).Pairwise (fun a b => a.2 < b.1) ∧
    (∀ seg ∈ runsFrom i cur arr, seg.1 < seg.2 ∧ (match cur with | some st => st ≤ seg.1 | none => i ≤ seg.1) ) ∧
    (∀ seg ∈ runsFrom i cur arr, cur = none → i ≤ seg.1) := by
  induction arr generalizing i cur with
  | nil =>
    cases cur with
    | none => simp [runsFrom]
    | some st => have := hcur st rfl; simp [runsFrom]; omega
  | cons b bs ih =>
    cases b with
    | true =>
      simp only [runsFrom]
      have := ih (i + 1) (some (cur.getD i)) (by intro st h; cases cur <;> simp at h <;> (try have := hcur _ rfl) <;> omega)
      refine ⟨this.1, ?_, ?_⟩
      · intro seg hseg
        have h2 := this.2.1 seg hseg
        cases cur with
        | none => simp at h2 ⊢; omega
        | some st => simp at h2 ⊢; omega
      · intro seg hseg hc
        have h2 := this.2.1 seg hseg
        subst hc; simp at h2; omega
    | false =>
      cases cur with
      | none =>
        simp only [runsFrom]
        have := ih (i + 1) none (by simp)
        refine ⟨this.1, ?_, ?_⟩
        · intro seg hseg
          have h2 := this.2.1 seg hseg
          simp at h2 ⊢; omega
        · intro seg hseg _
          have h2 := this.2.2 seg hseg rfl; omega
      | some st =>
        have hst := hcur st rfl
        simp only [runsFrom]
        have := ih (i + 1) none (by simp)
        refine ⟨?_, ?_, ?_⟩
        · rw [List.pairwise_cons]
          refine ⟨?_, this.1⟩
          intro seg hseg
          have h2 := this.2.2 seg hseg rfl
          simp; omega
        · intro seg hseg
          rcases List.mem_cons.1 hseg with rfl | hseg
          · simp; omega
          · have h2 := this.2.1 seg hseg
            have h3 := this.2.2 seg hseg rfl
            simp at h2 ⊢; omega
        · intro seg _ hc; simp at hc

theorem runs_sorted_separated (arr : List Bool) :
    (runs arr).Pairwise (fun a b => a.2 < b.1) ∧ ∀ seg ∈ runs arr, seg.1 < seg.2 := by
  have := runsFrom_sorted arr 0 none (by simp)
  exact ⟨this.1, fun seg h => (this.2.1 seg h).1⟩




/-! grouping -/
theorem groupGo_flatten (mg ms : Option Int) (key : α → Int) (first last : α) (cur xs : List α) :
    (groupGo mg ms key first last cur xs).flatten = cur.reverse ++ xs := by
  induction xs generalizing first last cur with
  | nil => simp [groupGo]
  | cons x xs ih =>
    simp only [groupGo]
    split
    · rw [ih]; simp
    · simp [ih]

/-- grouping partitions its (sorted) input: concatenating the groups gives the input back -/
theorem groupSorted_flatten (mg ms : Option Int) (key : α → Int) (xs : List α) :
    (groupSorted mg ms key xs).flatten = xs := by
  cases xs with
  | nil => rfl
  | cons x xs => simp [groupSorted, groupGo_flatten]

theorem groupGo_nonempty (mg ms : Option Int) (key : α → Int) (first last : α) (cur xs : List α) (hc : cur ≠ []) :
    ∀ g ∈ groupGo mg ms key first last cur xs, g ≠ [] := by
  induction xs generalizing first last cur with
  | nil => simp [groupGo, hc]
  | cons x xs ih =>
    simp only [groupGo]
    split
    · exact ih _ _ _ (by simp)
    · intro g hg
      rcases List.mem_cons.1 hg with rfl | hg
      · simpa using hc
      · exact ih _ _ _ (by simp) g hg

theorem groupSorted_nonempty (mg ms : Option Int) (key : α → Int) (xs : List α) :
    ∀ g ∈ groupSorted mg ms key xs, g ≠ [] := by
  cases xs with
  | nil => simp [groupSorted]
  | cons x xs => exact groupGo_nonempty _ _ _ _ _ _ _ (by simp)

/-- consecutive items are related -/
def ChainR (R : α → α → Prop) : List α → Prop
  | [] => True
  | [_] => True
  | a :: b :: l => R a b ∧ ChainR R (b :: l)

/-- a group respects the limits: every item is within `maxSpread` of the first one and
    within `maxGap` of its predecessor -/
def GroupWithin (mg ms : Option Int) (key : α → Int) : List α → Prop
  | [] => True
  | first :: rest =>
    (∀ x ∈ rest, ∀ m, ms = some m → key x - key first < m) ∧
    ChainR (fun a b => ∀ m, mg = some m → key b - key a < m) (first :: rest)

theorem groupOk_spec (mg ms : Option Int) (key : α → Int) (first last x : α) :
    groupOk mg ms key first last x = true ↔
      (∀ m, mg = some m → key x - key last < m) ∧ (∀ m, ms = some m → key x - key first < m) := by
  cases mg <;> cases ms <;> simp [groupOk]

theorem isChain_append_singleton {R : α → α → Prop} (l : List α) (a b : α)
    (h : ChainR R (l ++ [a])) (hab : R a b) : ChainR R (l ++ [a] ++ [b]) := by
  induction l with
  | nil => simp [ChainR, hab]
  | cons x l ih =>
    cases l with
    | nil =>
      simp only [List.nil_append, List.cons_append, ChainR] at h ⊢
      exact ⟨h.1, hab, trivial⟩
    | cons y l =>
      simp only [List.cons_append, ChainR] at h ⊢
      exact ⟨h.1, by simpa using ih h.2⟩

theorem groupGo_within (mg ms : Option Int) (key : α → Int) (first last : α) (cur xs : List α)
    (hcur : ∃ mid, cur.reverse = first :: mid ∧ cur.head? = some last)
    (hw : GroupWithin mg ms key cur.reverse) :
    ∀ g ∈ groupGo mg ms key first last cur xs, GroupWithin mg ms key g := by
  induction xs generalizing first last cur with
  | nil => simp [groupGo, hw]
  | cons x xs ih =>
    simp only [groupGo]
    split
    · rename_i hok
      rw [groupOk_spec] at hok
      obtain ⟨mid, hmid, hhead⟩ := hcur
      apply ih
      · exact ⟨mid ++ [x], by simp [hmid], by simp⟩
      · simp only [List.reverse_cons, hmid, List.cons_append]
        rw [hmid] at hw
        simp only [GroupWithin] at hw ⊢
        refine ⟨?_, ?_⟩
        · intro y hy m hm
          rcases List.mem_append.1 hy with hy | hy
          · exact hw.1 y hy m hm
          · simp at hy; subst hy; exact hok.2 m hm
        · -- last element of (first :: mid) is `last`
          have hl : ∃ pre, first :: mid = pre ++ [last] := by
            cases cur with
            | nil => simp at hhead
            | cons c cs =>
              simp at hhead; subst hhead
              exact ⟨cs.reverse, by simpa using hmid.symm⟩
          obtain ⟨pre, hpre⟩ := hl
          have := isChain_append_singleton pre last x (by rw [← hpre]; exact hw.2) hok.1
          rw [← hpre] at this
          simpa using this
    · intro g hg
      rcases List.mem_cons.1 hg with rfl | hg
      · exact hw
      · exact ih x x [x] ⟨[], by simp, by simp⟩ (by simp [GroupWithin, ChainR]) g hg

/-- every group produced respects the gap and spread limits -/
theorem groupSorted_within (mg ms : Option Int) (key : α → Int) (xs : List α) :
    ∀ g ∈ groupSorted mg ms key xs, GroupWithin mg ms key g := by
  cases xs with
  | nil => simp [groupSorted]
  | cons x xs =>
    exact groupGo_within mg ms key x x [x] xs ⟨[], by simp, by simp⟩ (by simp [GroupWithin, ChainR])




def nPieces (a b : Int) (m : Nat) : Nat := if b ≤ a then 0 else ((b - a).toNat + m - 1) / m

theorem lt_nPieces (a b : Int) (m : Nat) (hm : 0 < m) (i : Nat) :
    i < nPieces a b m ↔ a + (i : Int) * m < b := by
  simp only [nPieces]
  split
  · rename_i h
    constructor
    · intro h'; omega
    · intro h'
      have : (0 : Int) ≤ (i : Int) * m := Int.mul_nonneg (by omega) (by omega)
      omega
  · rename_i h
    have hd : (b - a).toNat = (b - a) := by omega
    rw [Nat.lt_iff_add_one_le, Nat.le_div_iff_mul_le hm]
    have e : ((i * m : Nat) : Int) = (i : Int) * m := by simp
    rw [Nat.add_mul]
    constructor
    · intro h'; omega
    · intro h'; omega

theorem rangeStep_getElem? (a b : Int) (m : Nat) (hm : 0 < m) (i : Nat) :
    (rangeStep a b m)[i]? = if i < nPieces a b m then some (a + (i : Int) * m) else none := by
  have hm' : m ≠ 0 := by omega
  simp only [rangeStep, hm', if_false, List.getElem?_map, List.getElem?_range, nPieces]
  by_cases h : b ≤ a
  · simp [h]
  · simp only [h, if_false]
    split
    · rename_i hi; simp [List.getElem?_range hi]
    · rename_i hi
      have : (List.range (((b - a).toNat + m - 1) / m))[i]? = none := by
        rw [List.getElem?_eq_none_iff]; simpa using hi
      simp [this]

theorem rangeStep_length (a b : Int) (m : Nat) (hm : 0 < m) : (rangeStep a b m).length = nPieces a b m := by
  have hm' : m ≠ 0 := by omega
  simp [rangeStep, hm', nPieces]

/-- closed form of `subdivide_window`: piece `i` is `[a + i·m, min (a + (i+1)·m) b)`,
    for `i < ⌈(b-a)/m⌉`; hence the pieces are contiguous, start at `a`, end at `b`,
    are non-empty and no longer than `m` -/
theorem subdivide_spec (a b : Int) (m : Nat) (hm : 0 < m) (i : Nat) :
    (subdivideWindow a b m)[i]? =
      if i < nPieces a b m then some (a + (i : Int) * m, min (a + ((i : Int) + 1) * m) b) else none := by
  simp only [subdivideWindow, List.getElem?_zip_eq_some, List.zip]
  rw [List.getElem?_zipWith]
  simp only [List.getElem?_append, rangeStep_length a b m hm, List.getElem?_drop]
  by_cases hi : i < nPieces a b m
  · simp only [hi, if_true, rangeStep_getElem? a b m hm]
    have h1 := (lt_nPieces a b m hm i).1 hi
    by_cases hi2 : 1 + i < nPieces a b m
    · have h2 := (lt_nPieces a b m hm (1 + i)).1 hi2
      simp only [hi2, if_true, Option.map_some, Option.bind_some]
      congr 2
      have : ((1 + i : Nat) : Int) = (i : Int) + 1 := by omega
      rw [this] at h2 ⊢
      omega
    · have h2 : ¬ (a + ((1 + i : Nat) : Int) * m < b) := fun h => hi2 ((lt_nPieces a b m hm (1 + i)).2 h)
      have e : 1 + i - nPieces a b m = 0 := by omega
      simp only [hi2, if_false, e, List.getElem?_cons_zero, Option.map_some, Option.bind_some]
      congr 2
      have : ((1 + i : Nat) : Int) = (i : Int) + 1 := by omega
      rw [this] at h2
      omega
  · simp only [hi, if_false]
    by_cases hi3 : i = nPieces a b m
    · subst hi3
      have hh : ¬ (1 + nPieces a b m < nPieces a b m) := by omega
      have e1 : nPieces a b m - nPieces a b m = 0 := by omega
      have e2 : 1 + nPieces a b m - nPieces a b m = 1 := by omega
      simp [hh, e1, e2]
    · have e : ∃ k, i - nPieces a b m = k + 1 := ⟨i - nPieces a b m - 1, by omega⟩
      obtain ⟨k, hk⟩ := e
      simp [hk]

theorem subdivide_length (a b : Int) (m : Nat) (hm : 0 < m) : (subdivideWindow a b m).length = nPieces a b m := by
  simp [subdivideWindow, rangeStep_length a b m hm]


/-! ### non-vacuity -/
example : ∀ c ∈ ['A','T','G','C','N','R'], c ∈ iupacDna := by decide
example : Gen.codonTables ≠ [] ∧ (Gen.codonTables.filter noDualStops).length > 10 := by decide +kernel
#guard gcWindowsCumsum "ATGCGC".toList 2 = [0, 1, 2, 2, 2]
#guard runs (diffArray "ATGCA".toList "AGGTT".toList) = [(1, 2), (3, 5)]
#guard subdivideWindow 2 13 4 = [(2, 6), (6, 10), (10, 13)]
#guard groupNearbyIndices [5, 1, 2, 9, 4] none (some 3) = [[1, 2], [4, 5], [9]]

end Dna.C19
