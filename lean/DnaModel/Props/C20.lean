/-
C20 — scores, pass/optimal flags and declared best scores are mutually consistent.
-/
import DnaModel.Model.Builtin
import DnaModel.Props.C10
import Mathlib.Tactic.Linarith
import Mathlib.Algebra.Order.Ring.Rat
set_option linter.unusedVariables false
set_option linter.unusedSimpArgs false
namespace Dna.C20
open Dna BSpec

/-! ### flags are functions of the score -/

/-- `evaluation.passes` is exactly `score >= 0` -/
theorem passes_iff_nonneg (e : Eval Rat) : e.passes = true ↔ 0 ≤ e.score := by
  simp [Eval.passes, Score.le, Score.zero]

theorem passes_iff_nonneg_int (e : Eval Int) : e.passes = true ↔ 0 ≤ e.score := by
  simp [Eval.passes, Score.le, Score.zero]

/-- the solver's "nothing left to optimise" test is exactly `score == best_possible_score` with a
    declared best -/
theorem atBest_iff (ops : SpecOps σ Rat) (o : σ) (score : Rat) :
    Solver.atBest ops o score = true ↔ ∃ b, ops.best o = some b ∧ score = b := by
  simp only [Solver.atBest]
  cases ops.best o with
  | none => simp
  | some b => simp [Score.eq]; exact eq_comm

/-! ### no sequence scores above the declared best (0) -/

theorem pos_nonneg (a : Rat) : 0 ≤ NumK.pos a := by
  simp only [NumK.pos, Score.lt, Score.zero]
  split
  · rename_i h; simp at h; linarith
  · exact le_refl 0

theorem pos_eq_zero_of_le (a : Rat) (h : a ≤ 0) : NumK.pos a = 0 := by
  simp only [NumK.pos, Score.lt, Score.zero]
  split
  · rename_i h'; simp at h'; linarith
  · rfl

theorem gcBreach_nonneg (mini maxi g : Rat) : 0 ≤ gcBreach mini maxi g := by
  simp only [gcBreach, Score.add]
  have := pos_nonneg (NumK.sub mini g)
  have := pos_nonneg (NumK.sub g maxi)
  linarith

/-- a window inside the bounds contributes nothing -/
theorem gcBreach_zero (mini maxi g : Rat) (h1 : mini ≤ g) (h2 : g ≤ maxi) : gcBreach mini maxi g = 0 := by
  simp only [gcBreach, Score.add]
  rw [pos_eq_zero_of_le _ (by simp only [NumK.sub]; linarith), pos_eq_zero_of_le _ (by simp only [NumK.sub]; linarith)]
  simp

theorem foldl_add_nonneg (l : List Rat) (acc : Rat) (hacc : 0 ≤ acc) (h : ∀ x ∈ l, 0 ≤ x) :
    0 ≤ l.foldl Score.add acc := by
  induction l generalizing acc with
  | nil => exact hacc
  | cons x xs ih =>
    simp only [List.foldl_cons]
    apply ih
    · simp only [Score.add]; have := h x (by simp); linarith
    · intro y hy; exact h y (by simp [hy])

theorem sum_nonneg (l : List Rat) (h : ∀ x ∈ l, 0 ≤ x) : 0 ≤ NumK.sum l :=
  foldl_add_nonneg l 0 (le_refl 0) h

theorem foldl_add_zero (l : List Rat) (h : ∀ x ∈ l, x = 0) : l.foldl Score.add (0 : Rat) = 0 := by
  induction l with
  | nil => rfl
  | cons x xs ih =>
    simp only [List.foldl_cons, Score.add]
    rw [h x (by simp)]
    simp only [add_zero]
    exact ih (fun y hy => h y (by simp [hy]))

theorem neg_sum_le_zero (l : List Rat) (h : ∀ x ∈ l, 0 ≤ x) : NumK.neg (NumK.sum l) ≤ 0 := by
  have := sum_nonneg l h
  simp only [NumK.neg, NumK.sub, Score.zero] at *
  linarith

/-- AvoidPattern never scores above 0 -/
theorem avoidPattern_le_best (pat : Pattern) (loc : Loc) (s : Seq) (e : BEval Rat)
    (h : evaluate (.avoidPattern pat loc) s = some e) : e.score ≤ 0 := by
  rw [C10.avoidPattern_eval] at h
  cases hm : pat.findMatches s loc with
  | none => rw [hm] at h; simp at h
  | some ms =>
    rw [hm] at h; simp only [Option.map_some, Option.some.injEq] at h
    rw [← h]
    show ((-(ms.length : Int) : Int) : Rat) ≤ 0
    have : (-(ms.length : Int)) ≤ 0 := by omega
    exact_mod_cast this

/-- EnforceChoice never scores above 0 -/
theorem enforceChoice_le_best (choices : List Seq) (loc : Loc) (s : Seq) (e : BEval Rat)
    (h : evaluate (.enforceChoice choices loc) s = some e) : e.score ≤ 0 := by
  simp only [evaluate] at h
  cases hx : loc.extract s with
  | none => rw [hx] at h; simp at h
  | some sub =>
    rw [hx] at h; simp only [Option.map_some, Option.some.injEq] at h
    rw [← h]
    split <;> simp [NumK.ofInt]

/-- SequenceLengthBounds never scores above 0 -/
theorem lengthBounds_le_best (a : Int) (b : Option Int) (s : Seq) (e : BEval Rat)
    (h : evaluate (.lengthBounds a b) s = some e) : e.score ≤ 0 := by
  simp only [evaluate, Option.some.injEq] at h
  rw [← h]
  show ((if _ then (0 : Int) else -1 : Int) : Rat) ≤ 0
  split <;> (split <;> norm_num)

/-- the GC score is minus a sum of non-negative excesses: never above 0, and exactly 0 when every
    window lies within the bounds (windowed or global) -/
theorem gc_score_shape (mini maxi : Rat) (fr : List (Nat × Nat)) :
    NumK.neg (NumK.sum (fr.map (fun p => gcBreach mini maxi (frac p)))) ≤ 0 ∧
    ((∀ p ∈ fr, mini ≤ frac p ∧ frac p ≤ maxi) →
      NumK.neg (NumK.sum (fr.map (fun p => gcBreach mini maxi (frac p)))) = 0) := by
  constructor
  · apply neg_sum_le_zero
    intro x hx
    simp only [List.mem_map] at hx
    obtain ⟨p, _, rfl⟩ := hx
    exact gcBreach_nonneg _ _ _
  · intro hall
    have : NumK.sum (fr.map (fun p => gcBreach mini maxi (frac p))) = 0 := by
      apply foldl_add_zero
      intro x hx
      simp only [List.mem_map] at hx
      obtain ⟨p, hp, rfl⟩ := hx
      exact gcBreach_zero _ _ _ (hall p hp).1 (hall p hp).2
    simp only [NumK.neg, NumK.sub, Score.zero, this]; simp

end Dna.C20
