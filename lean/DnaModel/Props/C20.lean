/-
C20 — scores, pass/optimal flags and declared best scores are mutually consistent.
-/
import DnaModel.Model.Builtin
import DnaModel.Props.C10
import DnaModel.Props.C08
import Mathlib.Tactic.Linarith
import Mathlib.Algebra.Order.Ring.Rat
set_option linter.unusedVariables false
set_option linter.unusedSimpArgs false
namespace Dna.C20
open Dna BSpec

/-! ### flags are functions of the score -/

/-- `evaluation.passes` is exactly `score >= 0` -/
theorem passes_iff_nonneg (e : Eval Rat) : e.passes = true ↔ 0 ≤ e.score := by
  simp [Eval.passes, Score.le, Score.zero]

theorem passes_iff_nonneg_int (e : Eval Int) : e.passes = true ↔ 0 ≤ e.score := by
  simp [Eval.passes, Score.le, Score.zero]

/-- the solver's "nothing left to optimise" test is exactly `score == best_possible_score` with a
    declared best -/
theorem atBest_iff (ops : SpecOps σ Rat) (o : σ) (score : Rat) :
    Solver.atBest ops o score = true ↔ ∃ b, ops.best o = some b ∧ score = b := by
  simp only [Solver.atBest]
  cases ops.best o with
  | none => simp
  | some b => simp [Score.eq]; exact eq_comm

/-! ### no sequence scores above the declared best (0) -/

theorem pos_nonneg (a : Rat) : 0 ≤ NumK.pos a := by
  simp only [NumK.pos, Score.lt, Score.zero]
  split
  · rename_i h; simp at h; linarith
  · exact le_refl 0

theorem pos_eq_zero_of_le (a : Rat) (h : a ≤ 0) : NumK.pos a = 0 := by
  simp only [NumK.pos, Score.lt, Score.zero]
  split
  · rename_i h'; simp at h'; linarith
  · rfl

theorem gcBreach_nonneg (mini maxi g : Rat) : 0 ≤ gcBreach mini maxi g := by
  simp only [gcBreach, Score.add]
  have := pos_nonneg (NumK.sub mini g)
  have := pos_nonneg (NumK.sub g maxi)
  linarith

/-- a window inside the bounds contributes nothing -/
theorem gcBreach_zero (mini maxi g : Rat) (h1 : mini ≤ g) (h2 : g ≤ maxi) : gcBreach mini maxi g = 0 := by
  simp only [gcBreach, Score.add]
  rw [pos_eq_zero_of_le _ (by simp only [NumK.sub]; linarith), pos_eq_zero_of_le _ (by simp only [NumK.sub]; linarith)]
  simp

theorem foldl_add_nonneg (l : List Rat) (acc : Rat) (hacc : 0 ≤ acc) (h : ∀ x ∈ l, 0 ≤ x) :
    0 ≤ l.foldl Score.add acc := by
  induction l generalizing acc with
  | nil => exact hacc
  | cons x xs ih =>
    simp only [List.foldl_cons]
    apply ih
    · simp only [Score.add]; have := h x (by simp); linarith
    · intro y hy; exact h y (by simp [hy])

theorem sum_nonneg (l : List Rat) (h : ∀ x ∈ l, 0 ≤ x) : 0 ≤ NumK.sum l :=
  foldl_add_nonneg l 0 (le_refl 0) h

theorem foldl_add_zero (l : List Rat) (h : ∀ x ∈ l, x = 0) : l.foldl Score.add (0 : Rat) = 0 := by
  induction l with
  | nil => rfl
  | cons x xs ih =>
    simp only [List.foldl_cons, Score.add]
    rw [h x (by simp)]
    simp only [add_zero]
    exact ih (fun y hy => h y (by simp [hy]))

theorem neg_sum_le_zero (l : List Rat) (h : ∀ x ∈ l, 0 ≤ x) : NumK.neg (NumK.sum l) ≤ 0 := by
  have := sum_nonneg l h
  simp only [NumK.neg, NumK.sub, Score.zero] at *
  linarith

/-- AvoidPattern never scores above 0 -/
theorem avoidPattern_le_best (pat : Pattern) (loc : Loc) (s : Seq) (e : BEval Rat)
    (h : evaluate (.avoidPattern pat loc) s = some e) : e.score ≤ 0 := by
  rw [C10.avoidPattern_eval] at h
  cases hm : pat.findMatches s loc with
  | none => rw [hm] at h; simp at h
  | some ms =>
    rw [hm] at h; simp only [Option.map_some, Option.some.injEq] at h
    rw [← h]
    show ((-(ms.length : Int) : Int) : Rat) ≤ 0
    have : (-(ms.length : Int)) ≤ 0 := by omega
    exact_mod_cast this

/-- EnforceChoice never scores above 0 -/
theorem enforceChoice_le_best (choices : List Seq) (loc : Loc) (s : Seq) (e : BEval Rat)
    (h : evaluate (.enforceChoice choices loc) s = some e) : e.score ≤ 0 := by
  simp only [evaluate] at h
  cases hx : loc.extract s with
  | none => rw [hx] at h; simp at h
  | some sub =>
    rw [hx] at h; simp only [Option.map_some, Option.some.injEq] at h
    rw [← h]
    split <;> simp [NumK.ofInt]

/-- SequenceLengthBounds never scores above 0 -/
theorem lengthBounds_le_best (a : Int) (b : Option Int) (s : Seq) (e : BEval Rat)
    (h : evaluate (.lengthBounds a b) s = some e) : e.score ≤ 0 := by
  simp only [evaluate, Option.some.injEq] at h
  rw [← h]
  show ((if _ then (0 : Int) else -1 : Int) : Rat) ≤ 0
  split <;> (split <;> norm_num)

/-- the GC score is minus a sum of non-negative excesses: never above 0, and exactly 0 when every
    window lies within the bounds (windowed or global) -/
theorem gc_score_shape (mini maxi : Rat) (fr : List (Nat × Nat)) :
    NumK.neg (NumK.sum (fr.map (fun p => gcBreach mini maxi (frac p)))) ≤ 0 ∧
    ((∀ p ∈ fr, mini ≤ frac p ∧ frac p ≤ maxi) →
      NumK.neg (NumK.sum (fr.map (fun p => gcBreach mini maxi (frac p)))) = 0) := by
  constructor
  · apply neg_sum_le_zero
    intro x hx
    simp only [List.mem_map] at hx
    obtain ⟨p, _, rfl⟩ := hx
    exact gcBreach_nonneg _ _ _
  · intro hall
    have : NumK.sum (fr.map (fun p => gcBreach mini maxi (frac p))) = 0 := by
      apply foldl_add_zero
      intro x hx
      simp only [List.mem_map] at hx
      obtain ⟨p, hp, rfl⟩ := hx
      exact gcBreach_zero _ _ _ (hall p hp).1 (hall p hp).2
    simp only [NumK.neg, NumK.sub, Score.zero, this]; simp

/-! ### more classes: the score is minus a count (or minus a distance), so never above the declared best 0 -/

theorem ofInt_neg_len_le (n : Nat) : (NumK.ofInt (-(n : Int)) : Rat) ≤ 0 := by
  show ((-(n : Int) : Int) : Rat) ≤ 0
  have : (-(n : Int)) ≤ 0 := by omega
  exact_mod_cast this

/-- AvoidStopCodons never scores above 0 -/
theorem stopCodons_le_best (tbl : Nat) (loc : Loc) (s : Seq) (e : BEval Rat)
    (h : evaluate (.stopCodons tbl loc) s = some e) : e.score ≤ 0 := by
  simp only [evaluate] at h
  split at h
  · split at h
    · simp at h
    · simp only [Option.some.injEq] at h; rw [← h]; exact ofInt_neg_len_le _
  · simp at h

/-- EnforceTranslation never scores above 0 -/
theorem translation_le_best (tbl : Nat) (st : StartPolicy) (tr : Seq) (loc : Loc) (s : Seq) (e : BEval Rat)
    (h : evaluate (.translation tbl st tr loc) s = some e) : e.score ≤ 0 := by
  simp only [evaluate] at h
  split at h
  · split at h
    · simp at h
    · split at h
      · simp at h
      · simp only [Option.some.injEq] at h; rw [← h]; exact ofInt_neg_len_le _
  · simp at h

/-- EnforceSequence never scores above 0 -/
theorem enforceSequence_le_best (sq : Seq) (loc : Loc) (s : Seq) (e : BEval Rat)
    (h : evaluate (.enforceSequence sq loc) s = some e) : e.score ≤ 0 := by
  simp only [evaluate] at h
  split at h
  · simp at h
  · split at h
    · simp at h
    · split at h
      · simp at h
      · simp only [Option.some.injEq] at h; rw [← h]; exact ofInt_neg_len_le _

/-- AvoidChanges without an edit budget (its objective configuration) never scores above 0 -/
theorem avoidChanges_le_best (target : Seq) (scope : Scope) (s : Seq) (e : BEval Rat)
    (h : evaluate (.avoidChanges 0 target scope) s = some e) : e.score ≤ 0 := by
  simp only [evaluate] at h
  split at h
  · simp at h
  · split at h
    · simp at h
    · rename_i sub _ _
      simp only [Option.some.injEq] at h; rw [← h]
      generalize ((List.range (diffArray sub target).length).filter (fun i => (diffArray sub target)[i]? == some true)).length = k
      show (0 : Rat) - ((k : Int) : Rat) ≤ 0
      have : (0 : Rat) ≤ ((k : Int) : Rat) := by exact_mod_cast Int.natCast_nonneg k
      linarith

/-- AvoidHairpins never scores above 0 -/
theorem hairpins_le_best (stem window : Nat) (loc : Loc) (s : Seq) (e : BEval Rat)
    (h : evaluate (.hairpins stem window loc) s = some e) : e.score ≤ 0 := by
  simp only [evaluate, evaluateHairpins] at h
  split at h
  · simp at h
  · split at h
    · simp at h
    · simp only [Option.some.injEq] at h; rw [← h]; exact ofInt_neg_len_le _

/-- EnforcePatternOccurence scores minus the distance to the wanted number of occurrences: never above 0,
    and exactly 0 when the count is the wanted one -/
theorem patternOccurence_le_best (pat : Pattern) (occ : Int) (loc : Loc) (s : Seq) (e : BEval Rat)
    (h : evaluate (.patternOccurence pat occ loc) s = some e) : e.score ≤ 0 := by
  simp only [evaluate] at h
  cases hm : pat.findMatches s loc with
  | none => rw [hm] at h; simp at h
  | some ms =>
    rw [hm] at h; simp only [Option.map_some, Option.some.injEq] at h
    rw [← h]
    simp only [NumK.neg, NumK.abs, NumK.sub, NumK.ofInt, Score.zero, Score.lt]
    split <;> rename_i hc <;> simp only [decide_eq_true_eq, not_lt] at hc <;> linarith

/-- windowed or global GC content never scores above 0 -/
theorem gc_le_best (mini maxi : Rat) (window : Option Nat) (loc : Loc) (s : Seq) (e : BEval Rat)
    (h : evaluate (.gc mini maxi window loc) s = some e) : e.score ≤ 0 := by
  simp only [evaluate] at h
  split at h
  · simp at h
  · split at h
    · simp at h
    · split at h
      · simp at h
      · simp only [Option.some.injEq] at h; rw [← h]
        exact (gc_score_shape mini maxi _).1

/-! ### goal met completely ⇒ the score is exactly the declared best (0)

For a class with declared best 0 whose score never exceeds 0, "passes" (score ≥ 0) *is* "scores the
best": the characterisations of passing by the documented goal (C08 / C10) therefore give the second
half of C20 for these classes. -/

theorem best_of_passes (e : BEval Rat) (hle : e.score ≤ 0) (hp : 0 ≤ e.score) : e.score = 0 := le_antisymm hle hp

/-- AvoidChanges: the region holds the original ⇒ score = best -/
theorem avoidChanges_goal_met (target : Seq) (a b : Nat) (st : Int) (hst : st ≠ -1) (s : Seq)
    (hab : a ≤ b) (hb : b ≤ s.length) (hlen : target.length = b - a) (hgoal : win s a (b - a) = target) :
    ∃ e, evaluate (.avoidChanges (0 : Rat) target (.loc ⟨a, b, st⟩)) s = some e ∧ e.score = 0 := by
  obtain ⟨e, he, hp⟩ := (C08.avoidChanges_passes_iff target a b st hst s hab hb hlen).2 hgoal
  exact ⟨e, he, best_of_passes e (avoidChanges_le_best target _ s e he) hp⟩

/-- EnforceSequence: every position holds a nucleotide of its IUPAC letter ⇒ score = best -/
theorem enforceSequence_goal_met (sq : Seq) (a b : Nat) (st : Int) (hst : st ≠ -1) (s : Seq)
    (hab : a ≤ b) (hb : b ≤ s.length) (hlen : b - a ≤ sq.length)
    (hgoal : ∀ i, i < b - a → C08.SeqOk sq (win s a (b - a)) i) :
    ∃ e, evaluate (.enforceSequence (K := Rat) sq ⟨a, b, st⟩) s = some e ∧ e.score = 0 := by
  obtain ⟨e, he, hp⟩ := (C08.enforceSequence_passes_iff sq a b st hst s hab hb).2 ⟨hlen, hgoal⟩
  exact ⟨e, he, best_of_passes e (enforceSequence_le_best sq _ s e he) hp⟩

/-- windowed EnforceGCContent: every full window within the bounds ⇒ score = best -/
theorem gc_goal_met (mini maxi : Rat) (w : Nat) (hw : 1 ≤ w) (a b : Nat) (st : Int) (hst : st ≠ -1) (s : Seq)
    (hab : a ≤ b) (hb : b ≤ s.length) (hgoal : ∀ i, i + w ≤ b - a → C08.GcOk mini maxi w s (a + i)) :
    ∃ e, evaluate (.gc mini maxi (some w) ⟨a, b, st⟩) s = some e ∧ e.score = 0 := by
  obtain ⟨e, he, hp⟩ := (C08.gc_passes_iff mini maxi w hw a b st hst s hab hb).2 hgoal
  exact ⟨e, he, best_of_passes e (gc_le_best mini maxi _ _ s e he) hp⟩

/-- AvoidStopCodons: no codon of the frame is a stop (and all translate) ⇒ score = best -/
theorem stopCodons_goal_met (tbl : Nat) (t : Gen.CodonTable) (ht : tableOf tbl = some t) (a m : Nat) (st : Int)
    (hst : st ≠ -1) (s : Seq) (hb : a + 3 * m ≤ s.length) (hgoal : ∀ j, j < m → C08.CodonOk t (win s (a + 3 * j) 3)) :
    ∃ e, evaluate (.stopCodons (K := Rat) tbl ⟨a, (a + 3 * m : Nat), st⟩) s = some e ∧ e.score = 0 := by
  obtain ⟨e, he, hp⟩ := (C08.stopCodons_passes_iff tbl t ht a m st hst s hb).2 hgoal
  exact ⟨e, he, best_of_passes e (stopCodons_le_best tbl _ s e he) hp⟩

/-- EnforceTranslation (no start-codon policy): every codon translates to its residue ⇒ score = best -/
theorem translation_goal_met (tbl : Nat) (t : Gen.CodonTable) (ht : tableOf tbl = some t) (tr : Seq) (a m : Nat) (st : Int)
    (hst : st ≠ -1) (s : Seq) (hb : a + 3 * m ≤ s.length) (hm : m ≤ tr.length)
    (hgoal : ∀ j, j < m → ∃ x, translateCodon t (win s (a + 3 * j) 3) = some x ∧ tr[j]? = some x) :
    ∃ e, evaluate (.translation (K := Rat) tbl .none tr ⟨a, (a + 3 * m : Nat), st⟩) s = some e ∧ e.score = 0 := by
  obtain ⟨e, he, hp⟩ := (C08.translation_passes_iff tbl t ht tr a m st hst s hb).2 ⟨hm, hgoal⟩
  exact ⟨e, he, best_of_passes e (translation_le_best tbl _ tr _ s e he) hp⟩

end Dna.C20
